#!/bin/sh
# usage: tools/run_all_seeded.sh [dir-name-pattern]   runs the quick check of each seeded defect's property with the patch applied
# to /repo (one at a time, undone afterwards) and writes seeded/SUMMARY.txt.  Needs exclusive use of /repo.
cd /verif
pat="${1:-*}"
out=seeded/SUMMARY.txt
[ "$pat" = "*" ] && : > $out
for d in seeded/$pat/; do
  n=$(basename $d)
  [ -f $d/patch.diff ] || continue
  p=$(python3 -c "import json;print(json.load(open('$d/meta.json'))['property'])")
  r=$(tools/try_seeded.sh /verif/$d/patch.diff $p 2>&1 | grep -E "^(OK|VIOLATION|INFRA)" | head -1 | cut -c1-160)
  case "$r" in
    *no-failing-input-found*) v="caught (no-failing-input-found)";;
    VIOLATION*) v="caught (concrete failing input: $(echo "$r" | sed 's/.*replays\/[A-Z0-9]*_failing_//; s/\.txt.*//'))";;
    OK*) v="MISSED";;
    *) v="?? $r";;
  esac
  echo "$n $p $v" | tee -a $out
done
