#!/bin/sh
# usage: tools/seed_pipeline.sh <universe> <id> <n> <property> [crate]
# confirms a seeded defect produced in /tmp/mut/<id> (tools/confirm_seeded.sh), stores it under seeded/<id>-<n>/ and runs the
# quick check of its property against it in the scratch universe /tmp/u/<universe> (never in /repo).
u="$1"; id="$2"; n="$3"; prop="$4"; crate="${5:-vibrato}"
cd /verif
out=$(tools/confirm_seeded.sh "$id" "$n" "$crate" 2>&1)
echo "$out" | tail -6
case "$out" in *CONFIRMED*) ;; *) exit 1;; esac
case "$out" in *"NOT CONFIRMED"*) exit 1;; esac
d=seeded/$id-$n
cp /tmp/mut/${id}_out/note$n.txt $d/note.txt 2>/dev/null
[ -d /tmp/u/$u/verif ] || tools/universe.sh make $u >/dev/null
v=$(tools/universe.sh try $u /verif/$d/patch.diff $prop 2>&1 | grep -E "^(OK|VIOLATION|INFRA)" | head -1 | cut -c1-200)
echo "$id-$n $prop => $v"
echo "$id-$n $prop => $v" >> work/logs/seed_pipeline.log
