#!/usr/bin/env python3
"""Mechanical mutation sweep: how many small source mutations that the repository's own test suite does NOT notice
are noticed by the quick checks of the properties anchored in the mutated file?

  tools/mutate.py --universe <name> [--shard i/n] [--count N] [--seed S] [--files a.rs,b.rs]

Works in a scratch universe (tools/universe.sh make <name>; /repo itself is never touched).  For every chosen
mutation site: apply, `cargo check`, the full suite (`cargo test --workspace`); a mutant the suite kills is of no
interest (the brief asks for changes that pass the existing tests).  The surviving mutants are run against the quick
checks of every property whose anchors name the file, stopping at the first VIOLATION.  Results are appended to
/verif/work/mutation/<name>.jsonl:  {file, line, kind, before, after, outcome: stillborn|suite-kills|caught|SURVIVED,
by: <property>, verdict: <first line>}.  SURVIVED mutants are either equivalent or a gap of the checks: they are
what to read.  This is a measurement of the machinery, not a check; nothing in MANIFEST.json depends on it."""
import argparse
import json
import os
import random
import re
import subprocess
import sys

ROOT = os.path.dirname(os.path.dirname(os.path.abspath(__file__)))


def anchors():
    m = {}
    for l in open(os.path.join(ROOT, "properties.jsonl")):
        p = json.loads(l)
        for f in p["anchors"]["files"]:
            if f.endswith(".rs"):
                m.setdefault(f, []).append(p["id"])
    return m


SWAPS = [
    (r"(?<![<>=!-])<=(?!=)", "<", "le->lt"), (r"(?<![<>=!-])<(?![<=])", "<=", "lt->le"),
    (r"(?<![<>=!-])>=(?!=)", ">", "ge->gt"), (r"(?<![<>=!\-|])>(?![>=])", ">=", "gt->ge"),
    (r"==", "!=", "eq->ne"), (r"!=", "==", "ne->eq"),
    (r"&&", "||", "and->or"), (r"\|\|", "&&", "or->and"),
    (r"\+ 1\b", "", "drop+1"), (r"- 1\b", "", "drop-1"), (r"\+ 1\b", "+ 2", "+1->+2"),
    (r"\btrue\b", "false", "true->false"), (r"\bfalse\b", "true", "false->true"),
    (r"\bleft\b", "right", "left->right"), (r"\bright\b", "left", "right->left"),
    (r"\bleft_id\b", "right_id", "left_id->right_id"), (r"\bright_id\b", "left_id", "right_id->left_id"),
    (r"\bnum_left\b", "num_right", "num_left->num_right"), (r"\bnum_right\b", "num_left", "num_right->num_left"),
    (r"\bstart_node\b", "start_word", "start_node->start_word"), (r"\bstart_word\b", "start_node", "start_word->start_node"),
    (r"\.saturating_sub\(", ".wrapping_sub(", "saturating->wrapping"),
    (r"\bmin\(", "max(", "min->max"), (r"\bmax\(", "min(", "max->min"),
    (r"\bu32::from\b", "u32::from", None),
]


def sites(path, text):
    out = []
    lines = text.split("\n")
    end = next((i for i, l in enumerate(lines) if l.strip() == "#[cfg(test)]"), len(lines))
    for i, l in enumerate(lines[:end]):
        s = l.strip()
        if not s or s.startswith("//") or s.startswith("#[") or "debug_assert" in s or "eprintln" in s or "verif" in s:
            continue
        if s.startswith(("use ", "pub use ", "mod ", "pub mod ")):
            continue
        code = l.split("//")[0]
        for pat, rep, name in SWAPS:
            if name is None:
                continue
            for mt in re.finditer(pat, code):
                # not inside generics / arrows / lifetimes / string literals (cheap filters)
                before = code[:mt.start()]
                if before.count('"') % 2 == 1:
                    continue
                if name in ("lt->le", "gt->ge", "le->lt", "ge->gt") and (re.search(r"[A-Za-z_>]$", before.rstrip()) is None and not before.rstrip().endswith(")")):
                    continue
                if name in ("lt->le", "gt->ge") and re.search(r"(Vec|Option|Result|Box|impl|dyn|HashMap|HashSet|fn|where|for)\b[^;]*$", before) and "if " not in before and "while " not in before:
                    continue
                new = code[:mt.start()] + rep + code[mt.end():] + l[len(code):]
                out.append((i, name, l, new))
        # statement deletion: a call statement on its own line
        if re.match(r"^\s*[A-Za-z_][A-Za-z0-9_\.]*\.(clear|push|push_str|insert|truncate|reverse|sort|sort_unstable|dedup|pop|resize|extend|remove)\(.*\);\s*$", code):
            out.append((i, "delete-stmt", l, re.match(r"^\s*", l).group(0) + "// (statement deleted)"))
    return out


def run(cmd, cwd, timeout=3600):
    env = dict(os.environ, CARGO_NET_OFFLINE="true")
    # own process group: a mutant that loops forever inside a test binary must die with the timeout (killing cargo alone
    # leaves the grandchild spinning)
    import signal
    p = subprocess.Popen(cmd, cwd=cwd, env=env, stdin=subprocess.DEVNULL, stdout=subprocess.PIPE, stderr=subprocess.STDOUT, text=True,
                         start_new_session=True)
    try:
        out, _ = p.communicate(timeout=timeout)
        return p.returncode, out
    except subprocess.TimeoutExpired:
        try:
            os.killpg(p.pid, signal.SIGKILL)
        except ProcessLookupError:
            pass
        p.communicate()
        return 124, "timeout"


def main():
    ap = argparse.ArgumentParser()
    ap.add_argument("--universe", required=True)
    ap.add_argument("--shard", default="0/1")
    ap.add_argument("--count", type=int, default=50)
    ap.add_argument("--seed", type=int, default=1)
    ap.add_argument("--files", default="")
    a = ap.parse_args()
    base = f"/tmp/u/{a.universe}"
    repo, verif = base + "/repo", base + "/verif"
    anc = anchors()
    files = [f for f in (a.files.split(",") if a.files else sorted(anc)) if os.path.exists(os.path.join(repo, f))]
    allsites = []
    for f in files:
        text = open(os.path.join(repo, f), encoding="utf-8").read()
        for (i, kind, old, new) in sites(f, text):
            allsites.append((f, i, kind, old, new))
    random.Random(a.seed).shuffle(allsites)
    k, n = map(int, a.shard.split("/"))
    mine = [s for j, s in enumerate(allsites) if j % n == k][:a.count]
    os.makedirs(os.path.join(ROOT, "work", "mutation"), exist_ok=True)
    log = os.path.join(ROOT, "work", "mutation", a.universe + ".jsonl")
    print(f"{len(allsites)} sites in {len(files)} files; this shard runs {len(mine)}", flush=True)
    for (f, i, kind, old, new) in mine:
        path = os.path.join(repo, f)
        run(["git", "checkout", "-q", "--", "."], repo)
        lines = open(path, encoding="utf-8").read().split("\n")
        assert lines[i] == old
        lines[i] = new
        open(path, "w", encoding="utf-8").write("\n".join(lines))
        rec = {"file": f, "line": i + 1, "kind": kind, "before": old.strip(), "after": new.strip()}
        rc, out = run(["cargo", "check", "--workspace", "--offline", "--features", "vibrato/verif-hooks"], repo)
        if rc != 0:
            rec["outcome"] = "stillborn"
        else:
            rc, out = run(["cargo", "test", "--workspace", "--no-fail-fast", "--offline"], repo, timeout=1800)
            if rc != 0:
                rec["outcome"] = "suite-kills"
            else:
                rec["outcome"] = "SURVIVED"
                for pid in anc.get(f, []):
                    rc, out = run([sys.executable, "check.py", pid, "--tier", "quick"], verif, timeout=3600)
                    first = next((l for l in out.split("\n") if l.startswith(("VIOLATION", "INFRA"))), "")
                    if rc == 1:
                        rec.update(outcome="caught", by=pid, verdict=first[:200].replace(base, ""))
                        break
                    if rc not in (0, 1):
                        rec.update(outcome="infra", by=pid, verdict=(first or out[-300:])[:300])
                        break
        with open(log, "a") as fo:
            fo.write(json.dumps(rec, ensure_ascii=False) + "\n")
        print(json.dumps(rec, ensure_ascii=False)[:300], flush=True)
    run(["git", "checkout", "-q", "--", "."], repo)


if __name__ == "__main__":
    main()
