#!/usr/bin/env python3
"""Regenerates /verif/MANIFEST.json from tools/registry.py + tools/manifest_meta.json."""
import json, os, sys
ROOT = os.path.dirname(os.path.dirname(os.path.abspath(__file__)))
sys.path.insert(0, os.path.join(ROOT, "tools"))
from registry import PROPS
meta = json.load(open(os.path.join(ROOT, "tools", "manifest_meta.json")))
props = [json.loads(l) for l in open(os.path.join(ROOT, "properties.jsonl"))]
checks = []
na = []
for p in props:
    pid = p["id"]
    if pid in PROPS and pid in meta["checks"]:
        m = meta["checks"][pid]
        checks.append({
            "property_id": pid,
            "quick_cmd": f"python3 check.py {pid} --tier quick",
            "thorough_cmd": f"python3 check.py {pid} --tier thorough",
            "evidence_file": f"/verif/evidence/{pid}.json",
            "replay_cmd_template": f"python3 check.py {pid} --replay {{path}}",
            "engine": "lean4-proof+correspondence",
            "level_claimed": {"category": "proof", "text": m["text"], "design_ref": m.get("design_ref", "DESIGN.md section 5, " + pid)},
            "level_note": m["note"],
            "technique": m.get("technique", "Lean 4 machine-checked proof about a hand-written executable model + differential correspondence check against the Rust implementation"),
        })
    else:
        na.append({"property_id": pid, "reason": meta.get("not_applicable", {}).get(pid, "not yet claimed: check under construction (see DESIGN.md section 5)")})
man = {
    "version": 1,
    "setup_cmd": "./setup.sh",
    "hooks": meta["hooks"],
    "engines": meta["engines"],
    "checks": checks,
    "notes": meta["notes"],
    "not_applicable": na,
}
json.dump(man, open(os.path.join(ROOT, "MANIFEST.json"), "w"), indent=1)
print("claimed:", [c["property_id"] for c in checks])
