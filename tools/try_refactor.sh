#!/bin/sh
# usage: tools/try_refactor.sh <patch.diff> <property id>...   a behaviour-preserving patch: every listed quick check must stay OK
set -u
patch="$1"; shift
cd /verif
git -C /repo apply "$patch" || { echo "patch does not apply"; exit 2; }
for p in "$@"; do
  r=$(python3 check.py "$p" --tier quick 2>&1 | grep -E "^(OK|VIOLATION|INFRA)" | head -1 | cut -c1-200)
  case "$r" in OK*) echo "  $p quiet";; *) echo "  $p ALARM: $r";; esac
done
git -C /repo checkout -- .
git -C /repo status --short | head -3
