#!/bin/sh
# usage: tools/run_all_seeded_par.sh <universe> <k> <n>   runs shard k of n of all stored seeded defects in the scratch universe
# /tmp/u/<universe> (tools/universe.sh make <universe> first) and appends "<name> <property> <verdict>" to work/logs/seeded_<universe>.txt
u="$1"; k="$2"; n="$3"
cd /verif
out=work/logs/seeded_$u.txt; : > $out
i=0
for d in seeded/*/; do
  name=$(basename $d)
  [ -f $d/patch.diff ] && [ -f $d/meta.json ] || continue
  i=$((i+1)); [ $((i % n)) -eq "$k" ] || continue
  p=$(python3 -c "import json;print(json.load(open('$d/meta.json'))['property'])")
  r=$(tools/universe.sh try $u /verif/$d/patch.diff $p 2>&1 | grep -E "^(OK|VIOLATION|INFRA|patch does not)" | head -1 | cut -c1-170)
  case "$r" in
    *no-failing-input-found*) v="caught (no-failing-input-found)";;
    VIOLATION*) v="caught (concrete failing input: $(echo "$r" | sed 's/.*replays\/[A-Z0-9]*_failing_//; s/\.txt.*//'))";;
    OK*) v="MISSED";;
    *) v="?? $r";;
  esac
  echo "$name $p $v" >> $out
done
