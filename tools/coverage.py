#!/usr/bin/env python3
"""Measures which lines of /repo's library and programs the correspondence streams execute.

  tools/coverage.py [--tier quick|thorough] [--props C01,C02,...] [--seed N]

Builds the harness (and the command-line programs) a second time with `-C instrument-coverage`
(nightly toolchain: its llvm-tools carry the matching llvm-profdata / llvm-cov), runs every stream
of the chosen tier exactly as check.py would (same harness arguments; the Lean side is not needed
for this measurement), merges the profiles and writes

  notes/coverage.txt        per-file line coverage + the uncovered line ranges of every file
  notes/coverage.json       the same, machine readable (per property: lines it alone reaches)

This is generator-quality measurement (DESIGN.md section 6), not a check: nothing in MANIFEST.json
depends on it.  Build output: harness/target-cov (git-ignored)."""
import argparse
import glob
import json
import os
import shutil
import subprocess
import sys

ROOT = os.path.dirname(os.path.dirname(os.path.abspath(__file__)))
sys.path.insert(0, os.path.join(ROOT, "tools"))
from registry import PROPS  # noqa: E402

HARNESS = os.path.join(ROOT, "harness")
TARGET = os.path.join(HARNESS, "target-cov")
REPO = os.environ.get("VERIF_REPO", "/repo")
TOOLDIR = None


def tool(name):
    global TOOLDIR
    if TOOLDIR is None:
        sysroot = subprocess.run(["rustc", "+nightly", "--print", "sysroot"], capture_output=True, text=True).stdout.strip()
        TOOLDIR = os.path.join(sysroot, "lib", "rustlib", "x86_64-unknown-linux-gnu", "bin")
    return os.path.join(TOOLDIR, name)


def build():
    # build scripts and proc macros are instrumented too and write a profile when cargo runs them: keep those out of /repo
    env = dict(os.environ, CARGO_NET_OFFLINE="true", RUSTFLAGS="-C instrument-coverage", CARGO_TARGET_DIR=TARGET,
               LLVM_PROFILE_FILE=os.path.join(TARGET, "build-profiles", "b-%p-%m.profraw"))
    r = subprocess.run(["cargo", "+nightly", "build", "--offline"], cwd=HARNESS, env=env, stdin=subprocess.DEVNULL,
                       capture_output=True, text=True)
    if r.returncode != 0:
        sys.exit("coverage build of the harness failed:\n" + r.stderr[-3000:])
    env["CARGO_TARGET_DIR"] = os.path.join(TARGET, "cli")
    r = subprocess.run(["cargo", "+nightly", "build", "--offline", "-p", "dictgen", "-p", "compile", "-p", "map", "-p", "tokenize",
                        "-p", "train", "-p", "evaluate"], cwd=REPO, env=env, stdin=subprocess.DEVNULL, capture_output=True, text=True)
    if r.returncode != 0:
        sys.exit("coverage build of the programs failed:\n" + r.stderr[-3000:])
    return os.path.join(TARGET, "debug", "vharness"), os.path.join(TARGET, "cli", "debug")


def main():
    ap = argparse.ArgumentParser()
    ap.add_argument("--tier", default="quick")
    ap.add_argument("--props", default=",".join(sorted(PROPS)))
    ap.add_argument("--seed", type=int, default=1)
    a = ap.parse_args()
    vh, clibin = build()
    work = os.path.join(ROOT, "work", "cov")
    shutil.rmtree(work, ignore_errors=True)
    os.makedirs(work)
    per_prop = {}
    objects = [vh] + [os.path.join(clibin, b) for b in ("dictgen", "compile", "map", "tokenize", "train", "evaluate", "split", "reorder")
                      if os.path.exists(os.path.join(clibin, b))]
    for pid in a.props.split(","):
        pdir = os.path.join(work, pid)
        os.makedirs(pdir)
        streams = PROPS[pid]["streams"](a.tier, a.seed)
        corpus = sorted(glob.glob(os.path.join(ROOT, "corpus", pid, "*.case")))
        runs = [s[0] for s in streams] + [["replayfile", c] for c in corpus]
        for k, hargs in enumerate(runs):
            env = dict(os.environ, LLVM_PROFILE_FILE=os.path.join(pdir, "p-%p-%m.profraw"), VERIF_CLI_BIN=clibin,
                       VERIF_CLI_WORK=os.path.join(pdir, "scratch"))
            try:
                subprocess.run([vh] + hargs, env=env, stdin=subprocess.DEVNULL, stdout=subprocess.DEVNULL,
                               stderr=subprocess.DEVNULL, timeout=7200)
            except subprocess.TimeoutExpired:
                print(f"{pid}: stream {hargs} timed out", file=sys.stderr)
            shutil.rmtree(env["VERIF_CLI_WORK"], ignore_errors=True)
        raws = glob.glob(os.path.join(pdir, "*.profraw"))
        prof = os.path.join(work, pid + ".profdata")
        subprocess.run([tool("llvm-profdata"), "merge", "-sparse", "-o", prof] + raws, check=True)
        for r in raws:
            os.unlink(r)
        per_prop[pid] = prof
        print(f"{pid}: {len(runs)} stream runs", file=sys.stderr)
    allprof = os.path.join(work, "all.profdata")
    subprocess.run([tool("llvm-profdata"), "merge", "-sparse", "-o", allprof] + list(per_prop.values()), check=True)

    def lines_of(prof):
        objs = []
        for o in objects[1:]:
            objs += ["-object", o]
        r = subprocess.run([tool("llvm-cov"), "export", "-format=lcov", "-instr-profile", prof, objects[0]] + objs +
                           ["-ignore-filename-regex", r"(\.cargo|/rustc/|/harness/src/|verif\.rs)"], capture_output=True, text=True)
        cov = {}
        cur = None
        for l in r.stdout.splitlines():
            if l.startswith("SF:"):
                cur = cov.setdefault(l[3:], {})
            elif l.startswith("DA:") and cur is not None:
                n, c = l[3:].split(",")[:2]
                cur[int(n)] = max(cur.get(int(n), 0), int(c))
        return cov

    total = lines_of(allprof)
    per = {pid: lines_of(p) for pid, p in per_prop.items()}

    def ranges(ns):
        out, start, prev = [], None, None
        for n in sorted(ns):
            if start is None:
                start = prev = n
            elif n == prev + 1:
                prev = n
            else:
                out.append((start, prev))
                start = prev = n
        if start is not None:
            out.append((start, prev))
        return ",".join(f"{x}" if x == y else f"{x}-{y}" for x, y in out)

    def in_tests(path, n, cache={}):
        """lines inside `#[cfg(test)] mod tests` (to the end of the file in this code base)"""
        if path not in cache:
            try:
                src = open(path, encoding="utf-8").read().splitlines()
            except OSError:
                src = []
            at = next((i + 1 for i, l in enumerate(src) if l.strip() == "#[cfg(test)]"), 10 ** 9)
            cache[path] = at
        return n >= cache[path]

    rep = []
    js = {}
    tl = tc = 0
    for f in sorted(total):
        if not f.startswith(REPO + "/"):
            continue
        ls = {n: c for n, c in total[f].items() if not in_tests(f, n)}
        if not ls:
            continue
        unc = [n for n, c in ls.items() if c == 0]
        tl += len(ls)
        tc += len(ls) - len(unc)
        rel = f[len(REPO) + 1:]
        rep.append(f"{rel}: {len(ls) - len(unc)}/{len(ls)} lines ({100.0 * (len(ls) - len(unc)) / len(ls):.1f}%)" +
                   (f"  uncovered: {ranges(unc)}" if unc else ""))
        js[rel] = {"lines": len(ls), "covered": len(ls) - len(unc), "uncovered": sorted(unc),
                   "reached_by": {pid: sum(1 for n in ls if per[pid].get(f, {}).get(n, 0) > 0) for pid in per}}
    head = f"line coverage of {REPO} under the {a.tier} streams of {a.props} (seed {a.seed}): {tc}/{tl} ({100.0 * tc / max(tl, 1):.1f}%)"
    os.makedirs(os.path.join(ROOT, "notes"), exist_ok=True)
    with open(os.path.join(ROOT, "notes", "coverage.txt"), "w") as fo:
        fo.write(head + "\n(non-test lines; tests modules, hook files and dependencies excluded)\n\n" + "\n".join(rep) + "\n")
    json.dump({"summary": head, "files": js}, open(os.path.join(ROOT, "notes", "coverage.json"), "w"), indent=1)
    print(head)
    shutil.rmtree(work, ignore_errors=True)


if __name__ == "__main__":
    main()
