"""Delta-debugging shrinker for failing `tok` cases (a `def` line plus a `tok` line).

A candidate is kept when the implementation, re-run through `vharness replayfile`, and the Lean driver still give
a case that the property's classifier flags with the SAME signature.  Reductions (tried until none applies or the
evaluation budget is used up):
  * drop a dictionary-level operation (mapping / user lexicon / clear / write-read),
  * drop a worker operation, or a whole `reset … ` group,
  * delete one character of a sentence,
  * simplify the options (`max_grouping_len` -> 0, `ignore_space` -> off),
  * drop a row of lex.csv / unk.def / a user lexicon (at least one row stays).
Nothing here decides a property: it only makes the replay file smaller.
"""
import binascii


def _unhex(h):
    return b"" if h == "-" else binascii.unhexlify(h)


def _hex(b):
    return "-" if not b else binascii.hexlify(b).decode()


class TokCase:
    def __init__(self, def_line, tok_line):
        self.def_tokens = def_line.split(" IMPL ")[0].split()
        t = tok_line.split(" IMPL ")[0].split()
        self.id, self.dname = t[1], t[2]
        i = t.index("DOPS")
        n = int(t[i + 1])
        j = i + 2
        self.dops = []
        for _ in range(n):
            if t[j] == "M":
                nl = int(t[j + 1])
                l = t[j + 2:j + 2 + nl]
                nr = int(t[j + 2 + nl])
                r = t[j + 3 + nl:j + 3 + nl + nr]
                self.dops.append(("M", l, r))
                j = j + 3 + nl + nr
            elif t[j] == "U":
                self.dops.append(("U", t[j + 1]))
                j += 2
            else:
                self.dops.append((t[j],))
                j += 1
        assert t[j] == "OPT"
        self.ign, self.maxg = t[j + 1], t[j + 2]
        j += 3
        self.hist = ""
        if t[j].startswith("H"):
            self.hist = " " + t[j]
            j += 1
        assert t[j] == "WOPS"
        n = int(t[j + 1])
        j += 2
        self.wops = []
        for _ in range(n):
            if t[j] == "R":
                self.wops.append(("R", t[j + 1]))
                j += 2
            else:
                self.wops.append((t[j],))
                j += 1

    def def_line(self):
        return " ".join(self.def_tokens)

    def tok_line(self):
        s = [f"tok {self.id} {self.dname} DOPS {len(self.dops)}"]
        for op in self.dops:
            if op[0] == "M":
                s.append("M %d %s %d %s" % (len(op[1]), " ".join(op[1]), len(op[2]), " ".join(op[2])))
                s[-1] = " ".join(s[-1].split())
            elif op[0] == "U":
                s.append("U " + op[1])
            else:
                s.append(op[0])
        s.append(f"OPT {self.ign} {self.maxg}{self.hist} WOPS {len(self.wops)}")
        for op in self.wops:
            s.append(" ".join(op))
        return " ".join(s)

    def clone(self):
        import copy
        return copy.deepcopy(self)

    def size(self):
        return len(self.def_line()) + len(self.tok_line())

    def _def_field(self, key):
        i = self.def_tokens.index(key)
        return i + 1

    def candidates(self):
        """smaller variants, most aggressive first"""
        out = []
        # whole reset groups
        starts = [i for i, w in enumerate(self.wops) if w[0] == "R"]
        for a, b in zip(starts, starts[1:] + [len(self.wops)]):
            if len(starts) > 1:
                c = self.clone()
                del c.wops[a:b]
                out.append(c)
        for i in range(len(self.dops)):
            c = self.clone()
            del c.dops[i]
            out.append(c)
        for i in range(len(self.wops)):
            c = self.clone()
            del c.wops[i]
            out.append(c)
        if self.maxg != "0":
            c = self.clone()
            c.maxg = "0"
            out.append(c)
        if self.ign != "0":
            c = self.clone()
            c.ign = "0"
            out.append(c)
        # rows of lex.csv / unk.def / user lexicons
        for key in ("LEX", "UNK"):
            try:
                k = self._def_field(key)
            except ValueError:
                continue
            rows = _unhex(self.def_tokens[k]).split(b"\n")
            if rows and rows[-1] == b"":
                rows.pop()
            if len(rows) > 1:
                for i in range(len(rows)):
                    c = self.clone()
                    c.def_tokens[k] = _hex(b"\n".join(rows[:i] + rows[i + 1:]) + b"\n")
                    out.append(c)
        for di, op in enumerate(self.dops):
            if op[0] == "U":
                rows = _unhex(op[1]).split(b"\n")
                if rows and rows[-1] == b"":
                    rows.pop()
                if len(rows) > 1:
                    for i in range(len(rows)):
                        c = self.clone()
                        c.dops[di] = ("U", _hex(b"\n".join(rows[:i] + rows[i + 1:]) + b"\n"))
                        out.append(c)
        # characters of sentences
        for wi, w in enumerate(self.wops):
            if w[0] == "R":
                try:
                    chars = list(_unhex(w[1]).decode("utf-8"))
                except UnicodeDecodeError:
                    continue
                for i in range(len(chars)):
                    c = self.clone()
                    c.wops[wi] = ("R", _hex("".join(chars[:i] + chars[i + 1:]).encode("utf-8")))
                    out.append(c)
        return out


def shrink_tok(content, still_fails, budget=400):
    """content: replay text (def line, tok line, MODEL/P lines).  still_fails(def_line, tok_line) -> bool.
    Returns (def_line, tok_line, evaluations) of the smallest failing variant found, or None."""
    lines = [l for l in content.split("\n") if l and not l.startswith("#")]
    d = next((l for l in lines if l.startswith("def ")), None)
    t = next((l for l in lines if l.startswith("tok ")), None)
    if d is None or t is None:
        return None
    try:
        cur = TokCase(d, t)
    except (ValueError, IndexError, AssertionError):
        return None
    used = 0
    if not still_fails(cur.def_line(), cur.tok_line()):
        return None   # not reproducible through the replayer: leave the original alone
    used += 1
    progress = True
    while progress and used < budget:
        progress = False
        for cand in cur.candidates():
            if used >= budget:
                break
            used += 1
            if still_fails(cand.def_line(), cand.tok_line()):
                cur = cand
                progress = True
                break
    return cur.def_line(), cur.tok_line(), used
