#!/bin/sh
# usage: tools/universe.sh make <name>            creates /tmp/u/<name>/repo (detached worktree of /repo HEAD) and
#                                                 /tmp/u/<name>/verif (copy of /verif, build output included, every
#                                                 reference to /repo rewritten), so that seeded defects, refactorings and
#                                                 mutation sweeps can be tried in parallel without touching /repo
#        tools/universe.sh try <name> <patch> <property id>...   applies the patch there, runs the quick checks
#                                                 (TIER=thorough for the other tier), undoes the patch
#        tools/universe.sh rm <name>              removes both (and the worktree registration)
# Nothing registered in MANIFEST.json uses a universe: the registered checks always run /verif against /repo itself.
set -u
cmd="$1"; name="$2"; shift 2
base=/tmp/u/$name
case "$cmd" in
  make)
    mkdir -p /tmp/u
    [ -d "$base/repo" ] || git -C /repo worktree add -q --detach "$base/repo" HEAD || exit 2
    git -C "$base/repo" checkout -q -- . ; git -C "$base/repo" checkout -q --detach "$(git -C /repo rev-parse HEAD)" || exit 2
    mkdir -p "$base/verif"
    rsync -a --delete --exclude .git --exclude work --exclude replays --exclude agents /verif/ "$base/verif/"
    mkdir -p "$base/verif/work"
    for f in check.py tools/registry.py tools/extract_consts.py harness/Cargo.toml; do
      sed -i "s#/repo#$base/repo#g" "$base/verif/$f"
    done
    echo "$base"
    ;;
  try)
    patch="$1"; shift
    git -C "$base/repo" checkout -q -- . ; git -C "$base/repo" clean -fdq -e target
    git -C "$base/repo" apply "$patch" || { echo "patch does not apply"; exit 2; }
    cd "$base/verif" || exit 2
    for p in "$@"; do
      python3 check.py "$p" --tier "${TIER:-quick}" 2>&1 | grep -E "^(OK|VIOLATION|INFRA|KNOWN)" | cut -c1-260
    done
    git -C "$base/repo" checkout -q -- . ; git -C "$base/repo" clean -fdq -e target
    ;;
  rm)
    git -C /repo worktree remove --force "$base/repo" 2>/dev/null
    rm -rf "$base"
    git -C /repo worktree prune
    ;;
  *) echo "unknown command"; exit 2;;
esac
