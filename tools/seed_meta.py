#!/usr/bin/env python3
"""usage: tools/seed_meta.py <seeded dir name> <property> <first verdict> [<verdict after strengthening>]
writes seeded/<name>/meta.json from the agent's note (note.txt) and the verdicts observed."""
import json, os, sys
name, prop, first = sys.argv[1], sys.argv[2], sys.argv[3]
after = sys.argv[4] if len(sys.argv) > 4 else None
d = os.path.join(os.path.dirname(os.path.dirname(os.path.abspath(__file__))), "seeded", name)
note = open(os.path.join(d, "note.txt")).read().strip() if os.path.exists(os.path.join(d, "note.txt")) else ""
meta = {
    "property": prop,
    "breaks": note.split("\n\n")[0][:600] if note else "(see patch.diff)",
    "needs_to_manifest": note[:2500],
    "confirmed_with": "tools/confirm_seeded.sh (scratch worktree: build, full suite 107/107, demo fails with patch / passes without) - see confirmation.txt",
    "checked_with": f"tools/universe.sh try <u> /verif/seeded/{name}/patch.diff {prop} (scratch copy of /repo and /verif; /repo itself untouched)",
    "first_run": first,
}
if after:
    meta["after_strengthening"] = after
json.dump(meta, open(os.path.join(d, "meta.json"), "w"), indent=1, ensure_ascii=False)
