#!/bin/sh
# usage: tools/confirm_seeded.sh <prop id> <n> [crate (default vibrato)] : confirms in the scratch worktree /tmp/mut/<id> that patch<n> compiles,
# keeps the suite green and that demo<n> fails with it and passes without it; then stores it under /verif/seeded/<id>-<n>/
id="$1"; n="$2"; crate="${3:-vibrato}"; wt=/tmp/mut/$id; out=/tmp/mut/${id}_out
export CARGO_NET_OFFLINE=true
cd "$wt" || exit 2
git checkout -q -- . ; git clean -fdq -e target
feat=""
grep -q "verif" "$out/demo$n.rs" && feat="--features verif-hooks"
mkdir -p $crate/tests; cp "$out/demo$n.rs" $crate/tests/demo_$n.rs
[ "$crate" = vibrato ] || feat=""
clean=$(cargo test --offline -p $crate $feat --test demo_$n 2>&1 | grep -E "^test result" | head -1)
git apply "$out/patch$n.diff" || { echo "patch does not apply"; exit 2; }
build=$(cargo build --offline -p vibrato 2>&1 | tail -1)
withp=$(cargo test --offline -p $crate $feat --test demo_$n 2>&1 | grep -E "^test result" | head -1)
rm -f $crate/tests/demo_$n.rs; [ "$crate" = vibrato ] || rm -rf $crate/tests
suite=$(cargo test --workspace --no-fail-fast --offline 2>&1 | grep -E "^test result" | awk '{p+=$4; f+=$6} END {print p" passed "f" failed"}')
git checkout -q -- . ; git clean -fdq -e target
echo "demo on clean tree : $clean"
echo "build with patch   : $build"
echo "demo with patch    : $withp"
echo "suite with patch   : $suite"
case "$clean" in *"0 failed"*) ;; *) echo "NOT CONFIRMED (demo fails on clean tree)"; exit 1;; esac
case "$withp" in *"0 failed"*) echo "NOT CONFIRMED (demo passes with patch)"; exit 1;; esac
case "$suite" in *" 0 failed") ;; *) echo "NOT CONFIRMED (suite fails)"; exit 1;; esac
d=/verif/seeded/$id-$n; mkdir -p "$d"; cp "$out/patch$n.diff" "$d/patch.diff"; cp "$out/demo$n.rs" "$d/demo.rs"
printf '%s\n' "demo on clean tree : $clean" "build with patch   : $build" "demo with patch    : $withp" "suite with patch   : $suite" > "$d/confirmation.txt"
echo CONFIRMED
