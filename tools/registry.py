"""Per-property configuration of check.py: Lean modules and theorems, correspondence
streams (harness arguments per tier) and the classification of each case."""

# Which repairs of the pinned tree the model follows (must match the fix: commits in /repo;
# known_findings.json records them as `fixed`).
FIXES = {"f1": False, "f2": False, "f3": False, "f4": False, "f5": False, "f2b": False}


def pflags(extra):
    d = {}
    for kv in extra.split():
        if "=" in kv:
            k, v = kv.split("=", 1)
            d[k] = v
    return d


def tok_classifier(pkey, nontrivial_rule):
    """classify a `tok` case for property `pkey` (C01/C02/C04)."""
    def classify(line, impl, mobs, extra):
        flags = pflags(extra)
        tags = []
        head = line.split(" IMPL ")[0]
        toks = head.split()
        # option settings
        try:
            oi = toks.index("OPT")
            tags.append("ignore_space=" + toks[oi + 1])
            tags.append("max_group=" + toks[oi + 2])
        except ValueError:
            pass
        if "panic" in impl.split():
            tags.append("impl=panic")
        elif " err" in (" " + impl):
            tags.append("impl=err")
        else:
            tags.append("impl=ok")
        info = {"tags": tags, "nontrivial": nontrivial_rule(line, impl, mobs)}
        if flags.get(pkey) == "0":
            info["prop_fail"] = pkey + "-predicate"
            info["why"] = f"property predicate {pkey} is false on the implementation's output"
        elif "panic" in impl.split() and pkey in ("C01",) and "panic" not in mobs.split():
            info["prop_fail"] = "panic"
            info["why"] = "the implementation panicked where the model returns a value"
        return info
    return classify


def lattice_paths_ge2(line, impl, mobs):
    """non-trivial for C02: the lattice offers a choice, i.e. some boundary holds >= 2 nodes"""
    for part in impl.split(" ; "):
        f = part.split()
        if len(f) > 2 and f[1] == "lat":
            try:
                nb = int(f[2])
                i = 3
                for _ in range(nb):
                    cnt = int(f[i])
                    if cnt >= 2:
                        return True
                    i += 1 + 8 * cnt
            except (ValueError, IndexError):
                return False
    return False


def has_tokens(line, impl, mobs):
    for part in impl.split(" ; "):
        f = part.split()
        if len(f) > 2 and f[1] == "ok" and f[2] not in ("0",):
            return True
    return False


def tok_streams(profile, nq, nt, classify):
    def streams(tier, seed):
        n = nq if tier == "quick" else nt
        return [(["tok", profile, str(seed), str(n)], classify)]
    return streams


LATTICE_TB = [
    "crawdad trie modelled as: stored keys that are prefixes of the input, increasing length, ids ascending",
    "costs modelled in Int with an explicit no-overflow bound (EnvOK.bound); harness built with overflow checks",
    "min_idx as u16 not modelled (needs >= 65536 nodes at one boundary)",
]

PROPS = {
    "C02": {
        "modules": ["Vibrato.Props.C02"],
        "theorems": ["Vibrato.viterbi_optimal", "Vibrato.total_cost_prefix"],
        "streams": tok_streams("c01", 600, 20000, tok_classifier("C02", lattice_paths_ge2)),
        "rule": "random dictionaries (matrix connector) x sentences x options; non-trivial = the lattice dump "
                "has a boundary with >= 2 nodes (a real choice); distinct = sha1 of the case input",
        "trusted_base": LATTICE_TB,
        "assumptions": ["model mirrors Tokenizer::build_lattice_inner / Lattice::*; validated by exact comparison of tokens and full lattice dumps"],
    },
}
