"""Per-property configuration of check.py: Lean modules and theorems, correspondence
streams (harness arguments per tier) and the classification of each case."""

# Which repairs of the pinned tree the model follows (must match the fix: commits in /repo;
# known_findings.json records them as `fixed`).
FIXES = {"f1": True, "f2": True, "f3": True, "f4": True, "f5": True, "f2b": True, "f8": True, "f10": True, "f14": True, "f12": True,
         # F29: `evaluate`'s private copy of parse_csv_row (ReadFieldResult::End, field buffer) - the model follows the repair
         "f29": True}


def pflags(extra):
    d = {}
    for kv in extra.split():
        if "=" in kv:
            k, v = kv.split("=", 1)
            d[k] = v
    return d


def tok_classifier(pkey, nontrivial_rule):
    """classify a `tok` case for property `pkey` (C01/C02/C04)."""
    def classify(line, impl, mobs, extra):
        flags = pflags(extra)
        tags = []
        head = line.split(" IMPL ")[0]
        toks = head.split()
        # option settings
        try:
            oi = toks.index("OPT")
            tags.append("ignore_space=" + toks[oi + 1])
            tags.append("max_group=" + toks[oi + 2])
        except ValueError:
            pass
        if "panic" in impl.split():
            tags.append("impl=panic")
        elif " err" in (" " + impl):
            tags.append("impl=err")
        else:
            tags.append("impl=ok")
        info = {"tags": tags, "nontrivial": nontrivial_rule(line, impl, mobs)}
        if flags.get(pkey) == "0":
            info["prop_fail"] = pkey + "-predicate"
            info["why"] = f"property predicate {pkey} is false on the implementation's output"
        elif pkey == "C02" and flags.get("C02S") == "0" and impl != mobs:
            # not the recorded finding F24 (there the model, which follows the loop of the pinned code, reports the same)
            info["prop_fail"] = "not-minimum-over-candidate-segmentations"
            info["why"] = "the reported total cost is not the minimum over all candidate segmentations (specMin), and the model of the code reports something else"
        elif pkey == "C02" and flags.get("C02S") == "0":
            info["prop_fail"] = "dead-end-boundary-after-skipped-spaces"
            info["why"] = ("a strictly cheaper sequence of candidate words exists that passes through a boundary the lattice loop never "
                           "uses as a start node (a word ending inside / right after a run of skipped spaces)")
            tags.append("specmin=differs")
        elif "panic" in impl.split() and pkey in ("C01", "C02", "C04") and "panic" not in mobs.split():
            info["prop_fail"] = "panic"
            info["why"] = "the implementation panicked where the model returns a value"
        return info
    return classify


def tok16_classify(line, impl, mobs, extra):
    """`tok16` cases (C02): a boundary with about 65536 nodes.  The faithful model (u16 back pointers, Model/LatticeW.lean)
    must agree with the code; the property predicate is evaluated on the implementation's tokens."""
    flags = pflags(extra)
    info = {"tags": ["u16-boundary", "rows=" + flags.get("ROWS", "?"), "idx16=" + flags.get("IDX16", "?")], "nontrivial": True}
    if flags.get("C02") == "0":
        if flags.get("IDX16") == "0" and impl == mobs:
            info["prop_fail"] = "min-idx-u16-wrap"
            info["why"] = ("more than 65536 nodes end at one boundary: the back pointer `min_idx = i as u16` wraps, the reported tokens are "
                           "not the minimum-cost path and their total_cost is not their accumulated cost (exactly what the u16 model predicts)")
        else:
            info["prop_fail"] = "C02-predicate"
            info["why"] = "property predicate C02 is false on the implementation's output (boundary with about 65536 nodes)"
    elif "panic" in impl.split() and "panic" not in mobs.split():
        info["prop_fail"] = "panic"
        info["why"] = "the implementation panicked where the model returns a value"
    return info


def chain_classify(line, impl, mobs, extra):
    t = line.split()
    info = {"tags": ["chain-len=" + t[2], "impl=" + impl.split()[0]], "nontrivial": True}
    if impl.split()[0] == "panic":
        info["prop_fail"] = "panic-on-a-long-sentence-within-32-bit-costs"
        info["why"] = f"tokenizing {t[2]} copies of one word (word cost {t[3]}, connection cost {t[4]}; accumulated cost within 32 bits) panicked"
    elif impl != mobs:
        info["prop_fail"] = "accumulated-cost-differs-on-a-chain"
        info["why"] = "on a sentence with exactly one segmentation the tokens / their total_cost are not the accumulated cost of that segmentation"
    return info


def c02_streams(tier, seed):
    q = tier == "quick"
    return [(["tok", "c01", str(seed), "600" if q else "20000"], tok_classifier("C02", lattice_paths_ge2)),
            # word / matrix costs around +-30000, raw bigram entries around +-60000: prefix costs at one boundary differ by more
            # than 2^15 and connection costs leave the i16 range
            (["tok", "c02x", str(seed + 3), "500" if q else "10000"], tok_classifier("C02", lattice_paths_ge2)),
            # boundaries with 65536 / 65537 nodes: the u16 back pointer (finding F15); 18 s of model time per case
            (["tok", "u16", str(seed), "2" if q else "5"], tok16_classify),
            # one word, one segmentation, accumulated costs up to just below 2^31 ("costs within 32-bit range")
            (["tokchain", str(seed), "2" if q else "4"], chain_classify)]


def tok2_classifier(pkey, nontrivial_rule, dict_panic_is_failure=True, astral_clause=False):
    """classifier for the second predicate group (C03 C06 C08 C12 C13) of `tok` cases"""
    def classify(line, impl, mobs, extra):
        flags = pflags(extra)
        tags = []
        toks = line.split(" IMPL ")[0].split()
        try:
            oi = toks.index("OPT")
            tags.append("ignore_space=" + toks[oi + 1])
            di = toks.index("DOPS")
            tags.append("dops=" + toks[di + 1])
        except ValueError:
            pass
        parts = impl.split(" ; ")
        first = parts[0].split()
        if len(first) >= 2 and first[0].startswith("D"):
            tags.append("dictop=" + first[1])
        elif "panic" in impl.split():
            tags.append("impl=panic")
        else:
            tags.append("impl=ok")
        if "MAPPERMODEL" in flags:
            tags.append("mappermodel=" + flags["MAPPERMODEL"])
        info = {"tags": tags, "nontrivial": nontrivial_rule(line, impl, mobs)}
        if flags.get(pkey) == "0":
            info["prop_fail"] = pkey + "-predicate"
            info["why"] = f"property predicate {pkey} is false on the implementation's output"
        elif pkey == "C13" and [x for x in impl.split(" ; ") if " counts " in x or x.endswith("panic")] != \
                [x for x in mobs.split(" ; ") if " counts " in x or x.endswith("panic")]:
            # decider: the model's counter equals the number of connection-cost evaluations per id
            # (theorems counts_eq_evaluations, counts_history_independent)
            info["prop_fail"] = "counts-differ-from-evaluations"
            info["why"] = "the connection-id counter differs from the number of connection-cost evaluations (or update/probs panicked)"
        elif astral_clause and flags.get("C03A") == "0":
            info["prop_fail"] = "astral-char-takes-entry-0-category"
            info["why"] = "a character above U+FFFF was given the category of U+0000 instead of DEFAULT"
            tags.append("astral=entry0")
        elif pkey in ("C06", "C08", "C12") and "panic" in impl.split() and "panic" not in mobs.split():
            # these properties promise a token sequence for every sentence (equal to that of another dictionary / sentence):
            # a panic where the model, proved total on accepted dictionaries (tokenize_total), returns tokens is a failing input
            info["prop_fail"] = "panic"
            info["why"] = "the implementation panicked where the model returns a value"
        elif dict_panic_is_failure and len(first) >= 2 and first[0].startswith("D") and first[1] == "panic":
            info["prop_fail"] = "dictionary-operation-panic"
            info["why"] = "a dictionary-level operation (map ids / load user lexicon / write-read) panicked instead of returning an error"
        elif flags.get("MAPPERMODEL") == "0":
            info["corr_fail"] = "the two Lean models of id mapping (Vibrato.Mapper vs DictM) disagree"
        return info
    return classify


def c10_classifier():
    def on_case(line, impl, mobs, extra):
        tags = []
        info = {"tags": tags, "nontrivial": True}
        words = impl.split()
        if "panic" in words:
            if "panic" in mobs.split():
                # the model predicts this panic: tokenisation needs an unknown word of a category without unk.def entry
                info["prop_fail"] = "tokenize-panic-uncovered-category"
                info["why"] = "accepted dictionary panics in tokenize (category without unk.def entry)"
                tags.append("tokenize=panic-uncovered")
            elif any(len(p.split()) >= 2 and p.split()[0].startswith("D") and p.split()[1] == "panic" for p in impl.split(" ; ")):
                info["prop_fail"] = "dictionary-operation-panic"
                info["why"] = "a mutating call on an accepted dictionary (user lexicon / id mapping / write-read) panicked"
            else:
                info["prop_fail"] = "tokenize-panic"
                info["why"] = "an accepted dictionary panicked while tokenizing"
        else:
            tags.append("tokenize=ok")
            if pflags(extra).get("C03") == "0":
                # clause "never silently mis-assign character categories": the candidates of the accepted dictionary are not
                # what its definition files say (last covering char.def range, the unk.def entries of that category)
                info["prop_fail"] = "accepted-dictionary-miscategorises"
                info["why"] = ("the lattice of an accepted dictionary holds candidates that differ from the reading of its definition files "
                               "(C03 predicate: last covering char.def range line or DEFAULT, unk.def entries of the first category)")
        return info

    def on_def(line, impl, mobs, extra):
        flags = pflags(extra)
        cor = flags.get("CORRUPTION", "none")
        tags = ["file=" + cor.split(":")[0], "edit=" + cor.split(":")[-1], "build=" + impl.split()[0]]
        info = {"tags": tags, "nontrivial": cor != "none"}
        if impl.split()[0] in ("panic", "costpanic"):
            info["prop_fail"] = "builder-panic"
            info["why"] = "a dictionary builder panicked on: " + cor
        elif impl.startswith("ok") and "ids-out-of-range" in mobs:
            info["prop_fail"] = "out-of-range-id-accepted"
            info["why"] = "the builder accepted a lexicon / unk.def entry whose connection id lies outside the connector"
        elif impl.split()[0] != mobs.split()[0] or (impl.startswith("ok") and impl != mobs):
            info["corr_fail"] = "builder outcome differs from the model"
        return info
    on_case.on_def = on_def
    return on_case


def c01_streams(tier, seed):
    q = tier == "quick"
    c = tok_classifier("C01", has_tokens)
    return [(["tok", "c01", str(seed), "600" if q else "20000"], c),
            # dictionaries at the acceptance boundaries of the builders (ids exactly at the connector size, category
            # limits, corrupted files): whatever is accepted must tokenize into a partition without panicking
            (["tok", "c10", str(seed + 7), "700" if q else "20000"], c)]


def c10_streams(tier, seed):
    q = tier == "quick"
    c = c10_classifier()
    return [(["tok", "c10", str(seed), "1500" if q else "30000"], c),
            # histories of the mutating API on accepted dictionaries (builders_total_any_history): mappings of wrong
            # length on one side, user lexicons with malformed rows, write/read
            (["tok", "c06", str(seed + 5), "400" if q else "6000"], c),
            (["tok", "c08", str(seed + 5), "300" if q else "4000"], c),
            # width limits of the id types: bigram files with 65534..65537 rows (raw and dual), matrix.def headers
            # around 65535/65536 (finding F26; theorems C10guard.*)
            (["limits", str(seed), "6" if q else "99"], limits_classify)]


def limits_classify(line, impl, mobs, extra):
    t = line.split()
    info = {"tags": ["limits=" + t[2], "impl=" + impl.split()[0]], "nontrivial": True}
    if "panic" in impl:
        info["prop_fail"] = "builder-or-accepted-dictionary-panics-at-id-width-limit"
        info["why"] = "a builder, or a dictionary it accepted, panicked at the width limit of the connection-id type: " + " ".join(t[2:6])
    return info


def has_dops(line, impl, mobs):
    return " DOPS 0 " not in line and has_tokens(line, impl, mobs)


def has_lattice_choice(line, impl, mobs):
    return lattice_paths_ge2(line, impl, mobs)


def respaced_family(line, impl, mobs):
    return line.count(" R ") >= 3 and has_tokens(line, impl, mobs)


def has_probs(line, impl, mobs):
    return " probs " in impl and " counts " in impl


def lattice_paths_ge2(line, impl, mobs):
    """non-trivial for C02: the lattice offers a choice, i.e. some boundary holds >= 2 nodes"""
    for part in impl.split(" ; "):
        f = part.split()
        if len(f) > 2 and f[1] == "lat":
            try:
                nb = int(f[2])
                i = 3
                for _ in range(nb):
                    cnt = int(f[i])
                    if cnt >= 2:
                        return True
                    i += 1 + 8 * cnt
            except (ValueError, IndexError):
                return False
    return False


def has_tokens(line, impl, mobs):
    for part in impl.split(" ; "):
        f = part.split()
        if len(f) > 2 and f[1] == "ok" and f[2] not in ("0",):
            return True
    return False


def mapimg_classify(line, impl, mobs, extra):
    """`mapimg` cases (C06): the internal tables before / after map_connection_ids_from_iter, read from the images, against
    the abstract model of id mapping (Model/Mapper.lean: connector layouts of all three kinds, stored mapper)."""
    flags = pflags(extra)
    info = {"tags": ["kind=" + flags.get("KIND", "?"), "pre=" + flags.get("PRE", "?"), "impl=" + impl.split()[0]],
            "nontrivial": impl.startswith("ok")}
    if impl.split()[0] == "panic":
        info["prop_fail"] = "mapping-panics"
        info["why"] = "map_connection_ids_from_iter (or writing the mapped dictionary) panicked"
    elif impl.startswith("ok") and mobs.split()[0] == "err":
        # theorem parse_ok_iff / mapIds_total: the model returns err exactly for a mapping that mentions 0, repeats or omits
        # an id, or has the wrong length
        info["prop_fail"] = "malformed-mapping-accepted"
        info["why"] = "a mapping that mentions id 0, repeats or omits an id, or has the wrong length was applied"
    elif impl.split()[0] == "err" and mobs.startswith("ok"):
        info["prop_fail"] = "valid-mapping-rejected"
        info["why"] = "a valid pair of id permutations was rejected"
    elif flags.get("COSTS") == "0":
        # the property's own clause, evaluated on the implementation: cost'(new r, new l) = cost(r, l) for all id pairs
        info["prop_fail"] = "mapped-costs-differ"
        info["why"] = "after map_connection_ids_from_iter the connection cost between mapped ids differs from the original cost between the original ids"
    elif impl != mobs:
        info["corr_fail"] = "tables of the mapped dictionary differ from the abstract mapper model: " + mobs
    return info


def c06_streams(tier, seed):
    q = tier == "quick"
    return [(["tok", "c06", str(seed), "300" if q else "10000"], tok2_classifier("C06", has_dops)),
            (["mapimg", str(seed + 2), "36" if q else "900"], mapimg_classify)]


def tok_streams(profile, nq, nt, classify):
    def streams(tier, seed):
        n = nq if tier == "quick" else nt
        return [(["tok", profile, str(seed), str(n)], classify)]
    return streams


def corpus_classify(line, impl, mobs, extra):
    flags = pflags(extra)
    kind = flags.get("KIND", "?")
    tags = ["kind=" + kind, "impl=" + impl.split()[0 if not impl.startswith("OUT") else 3]]
    info = {"tags": tags, "nontrivial": impl.startswith("ok ") and not impl.startswith("ok 0") or kind == "tokenizer"}
    if "panic" in impl.split()[:4]:
        info["prop_fail"] = "corpus-panic"
        info["why"] = "Corpus::from_reader panicked"
    elif flags.get("EXP") == "0":
        # decider: theorems empty_sentences_dropped / trailing_tokens_dropped (written well-formed examples are read back
        # as exactly the non-empty ones, in order; token lines after the last EOS are discarded)
        info["prop_fail"] = "written-examples-not-read-back"
        info["why"] = "well-formed examples written one after the other are not read back as exactly the non-empty ones"
    elif flags.get("RT") == "0":
        # outside the documented format (a parsed feature ending in CR, i.e. a line ending in CR CR LF)
        # the round trip is not claimed: theorem write_parse_idempotent carries that hypothesis
        feats_cr = any(t.endswith("0d") for t in impl.split(" REWRITE ")[0].split()[2:])
        # tokenizer cases: a surface or feature containing a tab or a line feed cannot be written in the line format at
        # all (hypothesis WordRepr of tokenizer_output_parses; witnesses excluded_tab / excluded_lf)
        toks = line.split(" IMPL ")[0].split()[4:] if kind == "tokenizer" else []
        unrepresentable = any(any(h[i:i + 2] in ("09", "0a") for i in range(0, len(h), 2)) for h in toks if h != "-")
        if kind == "tokenizer" and unrepresentable:
            tags.append("excluded=tab-or-lf-in-a-token")
        elif kind == "tokenizer" or not feats_cr:
            info["prop_fail"] = "corpus-roundtrip"
            info["why"] = "re-parsing the written-back corpus does not give the same examples"
        else:
            tags.append("excluded=feature-ends-with-CR")
    return info


def rewrite_classify(line, impl, mobs, extra):
    flags = pflags(extra)
    nrules = int(line.split(" RULES ")[1].split()[0])
    tags = ["impl=" + impl.split()[0], "rules=%d" % min(nrules, 5), "sametrie=" + flags.get("SAMETRIE", "?")]
    info = {"tags": tags, "nontrivial": nrules >= 2 and impl.startswith("some")}
    if flags.get("C17") == "0":
        info["prop_fail"] = "rewrite-not-first-match"
        info["why"] = "the rewriter did not apply the first registered matching rule"
    return info


def image_classify(prop):
    def classify(line, impl, mobs, extra):
        flags = pflags(extra)
        mode = flags.get("MODE", "?")
        tags = ["mode=" + mode, "kind=" + flags.get("KIND", "?"), "user=" + flags.get("USER", "?"),
                "map=" + flags.get("MAP", "?")]
        parts = impl.split(" ; ")
        info = {"tags": tags, "nontrivial": True}
        if any(p.startswith("panic") for p in parts):
            info["prop_fail"] = "image-read-panic"
            info["why"] = "Dictionary::read panicked"
            return info
        if prop == "C09":
            if mode == "cuts":
                cuts = [int(x) for x in line.split(" CUTS ")[1].split(" IMPL ")[0].split()[1:]]
                ln = int(flags.get("LEN", "0"))
                bad = [c for c, p in zip(cuts, parts) if c < ln and p != "err"]
                tags.append("cuts=%d" % len(cuts))
                if bad:
                    info["prop_fail"] = "truncated-image-accepted"
                    info["why"] = "a strict prefix of a valid image (length %d of %d) was not rejected" % (bad[0], ln)
            elif mode == "magic" and impl != "err":
                info["prop_fail"] = "foreign-magic-accepted"
                info["why"] = "a stream that does not start with the model magic was not rejected"
        else:
            if mode == "big":
                if impl != "ok" or flags.get("BEH") != "1":
                    info["prop_fail"] = "big-image-roundtrip"
                    info["why"] = "a large dictionary image (dimension %s) written by Dictionary::write is not read back identically: %s" % (line.split(" DIM ")[1].split()[0], impl)
            elif mode == "full":
                f = impl.split()
                if f[0] != "ok" or f[-1] != "same" or f[1] != flags.get("LEN") or f[2] != flags.get("LEN"):
                    info["prop_fail"] = "image-roundtrip"
                    info["why"] = "read(write D) does not consume/re-emit exactly the written bytes"
                elif flags.get("BEH") == "0" or "WRONGLEN" in flags:
                    info["prop_fail"] = "image-behaviour"
                    info["why"] = "the reloaded dictionary behaves differently (tokens / second write / reported length)"
        return info
    return classify


def image_streams(prop):
    def streams(tier, seed):
        c = image_classify(prop)
        if prop == "C09":
            if tier == "quick":
                return [(["image", "cuts", str(seed), "6"], c), (["image", "magic", str(seed), "60"], c)]
            return [(["image", "allcuts", str(seed), "3"], c), (["image", "cuts", str(seed + 1), "60"], c),
                    (["image", "magic", str(seed), "2000"], c)]
        if tier == "quick":
            return [(["image", "full", str(seed), "120"], c),
                    (["image", "big", str(seed), "1"], c),
                    (["image", "fullx", str(seed), "60"], c, {"avx2": True})]
        return [(["image", "full", str(seed), "3000"], c),
                (["image", "big", str(seed), "4"], c),
                (["image", "fullx", str(seed), "1500"], c, {"avx2": True})]
    return streams


def c05_cross_build(records):
    """Images and token streams must be interchangeable between the portable and the AVX2 build:
    the streams `image full <seed>` (portable) and `image fullx <seed>` (AVX2) generate the same
    dictionaries; their image bytes (matrix/raw kinds; the dual connector's template split is
    hash-order dependent) and the tokens of the probe sentences (all kinds) must coincide."""
    port, avx = {}, {}
    for idx, hargs, cid, extra in records:
        f = pflags(extra)
        if "IMGFNV" not in f:
            continue
        (avx if " fullx " in " " + hargs + " " else port)[cid] = f
    out = []
    for cid, a in avx.items():
        p = port.get(cid)
        if not p:
            continue
        if p.get("TOKFNV") != a.get("TOKFNV") and p.get("KIND") == a.get("KIND"):
            out.append(("portable-avx2-tokens-differ", "the same dictionary tokenizes differently in the portable and the AVX2 build",
                        f"image case {cid}: portable {p} / avx2 {a}"))
        elif p.get("KIND") in ("0", "1") and p.get("KIND") == a.get("KIND") and p.get("IMGFNV") != a.get("IMGFNV"):
            out.append(("portable-avx2-image-differs", "the same dictionary is written as different bytes by the portable and the AVX2 build",
                        f"image case {cid}: portable {p} / avx2 {a}"))
    return out[:3]


CODEC_TB = ["bincode 2 wire format (little endian, fixed-int) modelled for the types used; validated by byte-exact re-encoding of real images",
            "crawdad trie blob treated as opaque bytes (own header walk modelled)",
            "allocation failure on absurd length prefixes (process abort) is outside the model; cannot occur for strict prefixes or foreign magic"]


def csv_classify(line, impl, mobs, extra):
    flags = pflags(extra)
    kind = flags.get("KIND", "?")
    tags = ["kind=" + kind, "impl=" + impl.split()[0]]
    info = {"tags": tags, "nontrivial": kind in ("wellformed", "pinned") and impl.startswith("ok ") and not impl.startswith("ok 0")}
    if kind in ("wellformed",):
        exp = flags.get("EXPECT", "").replace("_", " ")
        if impl != exp:
            info["prop_fail"] = "lex-row-not-preserved"
            info["why"] = "a well-formed lexicon CSV did not yield exactly its rows (surface unquoted, numbers, raw feature remainder)"
    if kind == "pinned" and not impl.startswith("ok"):
        info["prop_fail"] = "lex-eof-variant"
        info["why"] = "missing final newline / blank line variant of a well-formed file is not accepted"
    if kind == "quote" and flags.get("RT") == "0":
        info["prop_fail"] = "quote-unquote"
        info["why"] = "parse_csv_row(quote_csv_cell(x)) != [x]"
    return info


def c11_tok_classifier():
    """`tok c11` cases: the candidates must be the rows of lex.csv (C03 predicate: every homograph once), and every reported
    token must carry the surface, ids, cost and feature of the row it names, byte for byte (the C01 predicate, evaluated on the
    implementation's tokens against the model's reading of the file) - what is stored AFTER parse_csv counts too."""
    inner = tok2_classifier("C03", has_lattice_choice)

    def classify(line, impl, mobs, extra):
        info = inner(line, impl, mobs, extra)
        if "prop_fail" not in info and pflags(extra).get("C01") == "0":
            info["prop_fail"] = "token-does-not-carry-its-lexicon-row"
            info["why"] = "a token's surface / ids / cost / feature differ from the lexicon row it names (e.g. the feature is not the remainder of the row byte for byte)"
        return info
    return classify


def c11_streams(tier, seed):
    q = tier == "quick"
    return [(["csv", str(seed), "1500" if q else "40000"], csv_classify),
            (["tok", "c11", str(seed), "120" if q else "1500"], c11_tok_classifier())]


def conn_classify(line, impl, mobs, extra):
    flags = pflags(extra)
    t = line.split()
    kind = t[3] if t[0] == "conn" else "-"
    tags = ["stream=" + t[0], "kind=" + kind, "impl=" + impl.split()[0]]
    if "K" in flags:
        tags.append("K=" + flags["K"])
    info = {"tags": tags, "nontrivial": impl.startswith("ok") or t[0] != "conn"}
    if t[0] == "conn":
        if impl.split()[0] in ("panic", "costpanic"):
            info["prop_fail"] = "connector-panic"
            info["why"] = "building or querying a bigram connector panicked"
        elif flags.get("C07") == "0":
            info["prop_fail"] = "cost-differs-from-defining-sum"
            info["why"] = "a connector cost differs from the defining feature-pair sum of the property"
    elif t[0] == "conn3":
        if impl != "same":
            info["prop_fail"] = "raw-dual-matrix-tokenize-differently"
            info["why"] = "the same lexicon compiled with raw / dual / materialised matrix connector tokenizes differently: " + impl
    elif t[0] == "scorer":
        if flags.get("AVX2EQ") == "0":
            info["corr_fail"] = "the AVX2 and portable accumulation models disagree"
        elif impl != mobs and " answers " in impl and " answers " in mobs:
            # the slot layout of the double array (bases / checks / costs) is an internal choice: what the property
            # fixes is what a lookup and an accumulation return (theorem retrieve_build).  A different layout with the
            # same answers is reported as drift, not as an alarm.
            if impl.split(" answers ", 1)[1] == mobs.split(" answers ", 1)[1]:
                info["ignore"] = True
                tags.append("drift=scorer-layout")
            else:
                info["prop_fail"] = "scorer-lookup-differs-from-stored-costs"
                info["why"] = "a lookup / accumulation over the bigram scorer returns something other than the stored costs"
    return info


def c07_streams(tier, seed):
    q = tier == "quick"
    c = conn_classify
    return [(["conn", str(seed), "400" if q else "20000"], c),
            (["scorer", str(seed), "400" if q else "20000"], c),
            (["conn3", str(seed), "40" if q else "1500"], c),
            (["conn", str(seed + 3), "150" if q else "5000"], c, {"avx2": True}),
            (["conn3", str(seed + 3), "20" if q else "500"], c, {"avx2": True})]


def _close_val(v):
    try:
        return int(v.split("@")[0])
    except ValueError:
        return None


def train_classifier(prop):
    def classify(line, impl, mobs, extra):
        flags = pflags(extra)
        t = line.split()
        sub = t[1].rsplit(".", 1)[-1] if "." in t[1] else "?"
        verb = t[2]
        tags = ["verb=" + verb, "case=" + sub, "impl=" + impl.split()[0]]
        for k in ("K", "EMPTYCLASS", "STAR", "SLASH", "ZERO"):
            if k in flags:
                tags.append(f"{k}={flags[k]}")
        info = {"tags": tags, "nontrivial": impl.startswith("ok") and flags.get("ZERO") != "1"}
        if impl.split()[0] == "panic":
            if mobs.split()[0] == "panic":
                # the Lean port of rucrf's merge / of write_dictionary reaches the same panic site (finding F27)
                info["prop_fail"] = "generation-panics-as-the-model-predicts"
            else:
                info["prop_fail"] = "trainer-panic"
            info["why"] = "generating files from a trained model panicked"
            return info
        if verb != "GEN":
            return info
        if "SYNTH" in flags:
            tags.append("synth=" + flags["SYNTH"])
        if prop in ("C14", "C18") and flags.get("PRUNE") == "0":
            info["prop_fail"] = "kept-feature-strings-are-not-the-weighted-features"
            info["why"] = ("after training, the feature strings kept by the extractor are not exactly those of the weighted features: a user "
                           "row given as 0,0,0 would not receive the trained parameters")
        elif prop == "C14":
            if impl != mobs:
                # decider: the Lean model recomputes the files from the model image by the formulas of the property
                # (cost_is_truncation, lex_rows, unk_rows_grouped, user_policy, ids_in_dims)
                info["prop_fail"] = "files-are-not-the-image-of-the-model"
                info["why"] = "the emitted files differ from the image of the trained model (rows, ids or truncated scaled costs)"
            elif flags.get("COMPILES") == "0":
                # the known finding F22 needs a category name that must be quoted in unk.def (`,` or `"` in a char.def name):
                # read off the INPUT (the char.def carried in the flags); any other failure to compile is a new violation
                names = []
                try:
                    for l in bytes.fromhex(flags.get("CHARDEF", "")).decode("utf-8", "replace").splitlines():
                        c = l.split()
                        if c and not c[0].startswith(("#", "0x", "0X")):
                            names.append(c[0])
                except ValueError:
                    pass
                if any(("," in n or '"' in n) for n in names):
                    info["prop_fail"] = "emitted-files-do-not-compile"
                else:
                    info["prop_fail"] = "emitted-files-do-not-compile-without-a-category-name-to-quote"
                info["why"] = "the files emitted by write_dictionary are rejected by SystemDictionaryBuilder::from_readers"
            if "USERC" in flags:
                # diagnostic only: rows with explicit parameters are copied unchanged (as the property says), so their
                # ids need not exist in the newly emitted connector
                tags.append("userc=" + flags["USERC"])
        elif prop == "C15":
            if flags.get("RT") == "0":
                if sub in ("c", "d"):
                    # image written after read_user_lexicon: user entries are not part of write_model
                    info["prop_fail"] = "user-entries-not-persisted"
                    info["why"] = "a model written after read_user_lexicon does not carry the user entries (user.csv differs after reload)"
                else:
                    info["prop_fail"] = "reload-generates-different-files"
                    info["why"] = "files generated from the reloaded model differ from those of the in-memory model (or generation is not deterministic)"
        elif prop == "C18":
            if flags.get("CLASSES", "1").startswith("0"):
                # decider: classes_spec / tuple_listed (the row listed for a word's connection id is the expansion of the
                # templates over the word's rewritten features); expansions from a fresh configuration (hook expected_bigram_tuples)
                info["prop_fail"] = "listed-tuple-is-not-the-expansion"
                info["why"] = "a word of the emitted lexicons carries a connection id whose bigram.left/right row is not the expansion of its features: " + flags["CLASSES"]
            elif flags.get("INJ") == "0":
                # theorem intern_injective: along any history of calls, removals and reloads every map stays injective
                info["prop_fail"] = "different-strings-share-a-feature-id"
                info["why"] = "after reloading the model and reading a user lexicon two different expansion strings carry the same feature id"
        elif prop == "C16":
            k = int(flags.get("K", "0"))
            bad = None
            bad_keys = []
            keys = ("CLOSE", "CLOSED")
            if "SYNTH" in flags:
                # models with transformed weights: the raw connector is judged by the K+1 rule as long as the
                # hypothesis `hcut` of bigram_matrix_close (EPSILON*32767 <= largest merged weight) can hold
                # (kind 3 scales every weight by 1e-13 and leaves it); the dual connector is not judged, because
                # its pre-summed part may leave 16 bits on such models (the stated caveat of C07)
                # ... unless it cannot saturate at all (SAT=0: at most 8 templates, or (templates - 8) * largest entry fits 16
                # bits): then dual = raw by C07's dual_eq_raw_of_fits and the dual connector is judged like the raw one
                keys = () if flags["SYNTH"] == "3" else (("CLOSE", "CLOSED") if flags.get("SAT") == "0" else ("CLOSE",))
            for key in keys:
                v = flags.get(key)
                if v in (None, "na"):
                    continue
                if v == "buildpanic":
                    bad = key + "=buildpanic"
                    continue
                d = _close_val(v)
                if d is not None and d > k + 1:
                    bad = f"{key}={v} K={k}"
                    bad_keys.append(key)
            if flags.get("BIG") == "0":
                bad = (bad or "") + " BIG=0"
            if flags.get("DIMS") == "0":
                bad = (bad or "") + " DIMS=0"
            if bad:
                # the signatures of F19 / F20 are read off the MODEL's files (the image of the trained model as the Lean model
                # computes it), not off the implementation's: a defect that makes the implementation write such rows must not
                # be able to claim the known finding for itself
                mf = _model_file_flags(mobs)
                if mf is not None:
                    flags = dict(flags, **mf)
                if flags.get("EMPTYCLASS") == "1":
                    info["prop_fail"] = "empty-class-row-read-as-bos-eos"
                elif flags.get("STAR") == "1":
                    info["prop_fail"] = "feature-string-star-collides-with-none-marker"
                elif flags.get("SLASH") == "1":
                    info["prop_fail"] = "feature-value-with-slash-breaks-bigram-cost"
                elif flags.get("ZERO") == "1":
                    info["prop_fail"] = "all-zero-model-scale"
                elif bad_keys == ["CLOSED"] and flags.get("BIG") != "0" and flags.get("DIMS") != "0" and flags.get("SAT") != "0":
                    # the raw connector is within K+1, only the dual connector is off: its pre-summed part left 16 bits
                    # and was saturated (the stated caveat of C07; finding F28)
                    info["prop_fail"] = "dual-connector-presum-saturates-i16"
                else:
                    info["prop_fail"] = "bigram-vs-matrix-beyond-K+1"
                info["why"] = "connection cost from the bigram files differs from matrix.def by more than K+1 (or the bigram files do not compile): " + bad
        return info
    return classify


def _model_file_flags(mobs):
    """EMPTYCLASS / STAR of a `GEN` observation `ok <lex> <matrix> <unk> <user> <left> <right> <cost>` (hex, `-` = empty)."""
    t = mobs.split()
    if len(t) < 8 or t[0] != "ok":
        return None
    try:
        left, right, cost = (bytes.fromhex(x) if x != "-" else b"" for x in t[5:8])
    except ValueError:
        return None
    empty = any(l.endswith(b"\t") for f in (left, right) for l in f.split(b"\n"))
    star = any(l.split(b"\t")[0].startswith(b"*/") or l.split(b"\t")[0].endswith(b"/*") for l in cost.split(b"\n") if l)
    return {"EMPTYCLASS": "1" if empty else "0", "STAR": "1" if star else "0"}


def train_streams(prop, nq, nt):
    def streams(tier, seed):
        n = nq if tier == "quick" else nt
        return [(["train", "full", str(seed), str(n)], train_classifier(prop))]
    return streams


def extract_classifier(kinds):
    def classify(line, impl, mobs, extra):
        flags = pflags(extra)
        kind = flags.get("KIND", "?")
        tags = ["kind=" + kind, "impl=" + impl.split()[0]]
        if "FLAGS" in flags and flags["FLAGS"] != "none":
            tags += ["flag=" + f for f in flags["FLAGS"].split(",")]
        info = {"tags": tags, "nontrivial": kind in kinds and impl.split()[0] in ("ok", "some")}
        if kind == "mecab" and "mecab" in kinds:
            # decider: the model returns err exactly for a gap among the defined ids, a malformed id line, id 0 not
            # BOS/EOS or undefined, invalid UTF-8 / unparsable feature.def (theorems gap_rejected, malformed_rejected,
            # zero_not_bos_rejected, f12_fixed_rejects)
            if impl.startswith("ok") and mobs.startswith("err"):
                info["prop_fail"] = "mecab-malformed-accepted"
                info["why"] = "generate_bigram_info accepted an input that must be reported as an error (gap / malformed id line / id 0)"
            if flags.get("MECABSPEC", "").startswith("0"):
                # decider = the property itself: the raw connector compiled (C07 model) from the implementation's files
                # against the template sums of the MeCab inputs (C20e2e.mecab_compiled_cost_eq_sum)
                if flags.get("NOBIGRAM") == "1":
                    info["prop_fail"] = "no-bigram-template-charges-bos-eos-cost"
                else:
                    info["prop_fail"] = "compiled-cost-differs-from-template-sum"
                info["why"] = ("a dictionary compiled from the generated bigram files has a connection cost other than the sum of the "
                               "model.def lines of the templates that apply: " + flags.get("MECABSPEC"))
            elif flags.get("MECABCOST") == "0":
                # the generated files differ from the model's AND give different connection costs; the model's costs
                # are the model.def sums (theorem mecab_cost_eq_sum)
                info["prop_fail"] = "mecab-costs-differ-from-model-def-sums"
                info["why"] = "the bigram files written by generate_bigram_info define connection costs (or id counts) other than the sums of the model.def lines"
            if impl.split()[0] == "panic" and not mobs.startswith("panic"):
                info["prop_fail"] = "mecab-panic"
                info["why"] = "generate_bigram_info panicked"
        if kind == "expand" and "expand" in kinds and impl != mobs and impl.split()[0] in ("some", "none") \
                and mobs.split()[0] in ("some", "none"):
            # decider: the model's expansion is the substitution over the unique reading of the template
            # (theorems expand_spec, template_reading_exists/unique, optional_none_iff)
            info["prop_fail"] = "template-expansion-differs-from-its-reading"
            info["why"] = "a template expands to something other than the substitution of %F/%L/%R[i], %t and the optional placeholders"
        return info
    return classify


def extract_streams(kinds, nq, nt):
    def streams(tier, seed):
        n = nq if tier == "quick" else nt
        extra = ["mecab"] if kinds == ("mecab",) else []
        return [(["extract", str(seed), str(n)] + extra, extract_classifier(kinds))]
    return streams


def trainnew_classify(line, impl, mobs, extra):
    """five seed files -> label feature sets of Trainer::new (hook trainer_labels) against Model/TrainerNew.lean, whose
    result is characterised by C18new.label_sets_spec (every label's set is the expansion of the row's OWN features
    through the rewriter of the respective section) and C18new.rewriters_of_sections / section_rewrite_spec (C17 in context)"""
    flags = pflags(extra)
    info = {"tags": ["kind=" + flags.get("KIND", "?"), "impl=" + impl.split()[0]], "nontrivial": impl.startswith("okfull")}
    if impl != mobs:
        if impl.startswith("okfull") and mobs.startswith("okfull"):
            info["prop_fail"] = "label-feature-sets-differ-from-the-rows-own-expansions"
            info["why"] = "the feature sets / interning maps registered by Trainer::new differ from the expansion of each row's own (rewritten) features"
        elif impl.split()[0] == "panic" and mobs.split()[0] != "panic":
            info["prop_fail"] = "trainer-config-panic"
            info["why"] = "TrainerConfig::from_readers / Trainer::new panicked where the model returns a value or an error"
    return info


def c17_streams(tier, seed):
    """the rewriter alone, and the three rule sections in their context (Trainer::extract_feature_set: each section is
    applied to the entry's OWN features, not to another section's result)"""
    q = tier == "quick"
    inner = extract_classifier(("featset",))

    def featset_only(line, impl, mobs, extra):
        if pflags(extra).get("KIND") != "featset":
            return {"tags": [], "nontrivial": False, "ignore": True}
        return inner(line, impl, mobs, extra)
    return [(["rewrite", str(seed), "3000" if q else "200000"], rewrite_classify),
            (["extract", str(seed), "1200" if q else "40000"], featset_only),
            # rewrite.def as a file, its three sections applied by Trainer::new to every lexicon / unk.def row
            (["trainnew", str(seed), "800" if q else "30000"], trainnew_classify)]


def c18_streams(tier, seed):
    q = tier == "quick"
    return [(["extract", str(seed), "1500" if q else "50000"], extract_classifier(("expand", "session", "featset", "featcfg"))),
            # interning after a reload (next-id counters) and the class tables of real models
            (["train", "quick", str(seed), "20" if q else "600"], train_classifier("C18")),
            # the same through the real dictgen program
            (["cli", str(seed), "12" if q else "400"], cli_classifier({"train": train_classifier("C18")}, ()), {"cli": True}),
            # seed files -> labels (Trainer::new), full observation before training
            (["trainnew", str(seed + 1), "800" if q else "30000"], trainnew_classify)]


def cli_classifier(inner, prefixes):
    """Stream `cli` (the workspace's command-line programs run as processes).  `inner`: classifier per line kind that
    matters for the property; `prefixes`: which differences of the aggregated `cli` line matter for it.  Everything
    else in the stream is ignored for this property (a defect in `tokenize` does not concern C14)."""
    def classify(line, impl, mobs, extra):
        kind = line.split(" ", 1)[0]
        if kind in inner:
            info = inner[kind](line, impl, mobs, extra)
            info.setdefault("tags", []).append("via=cli-process")
            return info
        if kind == "cli" and prefixes:
            diffs = impl[len("differs:"):].split(",") if impl.startswith("differs:") else []
            rel = [d for d in diffs if d.startswith(prefixes)]
            info = {"tags": ["via=cli-process", "cli=" + ("differs" if rel else "same")], "nontrivial": True, "ignore": not rel}
            rejected = [d for d in rel if d.startswith("reorder-mapping-rejected")]
            if rejected:
                # C13: "the output of the reorder tool is always accepted by the map tool" - a statement about the two programs
                # themselves; the case (sentences + dictionary) is the failing input
                t = line.split()
                info["prop_fail"] = "map-rejects-the-output-of-reorder"
                info["why"] = ("the files written by the real `reorder` program were rejected by the real `map` program (or by "
                               "map_connection_ids_from_iter): " + ",".join(rejected) +
                               f" (re-run: VERIF_CLI_BIN=harness/target-cli/release VERIF_CLI_WORK=work/x harness/target/debug/vharness cli {t[1].split('.')[0]} <n>)")
                info["ignore"] = False
            elif [d for d in rel if d.startswith("train-model-unreadable")]:
                # C15 on the program itself: the model file written by the real `train` cannot be read back by read_model (or
                # generated from), although the same training in process writes and reads fine
                t = line.split()
                info["prop_fail"] = "model-written-by-train-cannot-be-read-back"
                info["why"] = ("the model file written by the real `train` program is rejected by Model::read_model / generation "
                               f"(re-run: VERIF_CLI_BIN=harness/target-cli/release VERIF_CLI_WORK=work/x harness/target/debug/vharness cli {t[1].split('.')[0]} <n>)")
                info["ignore"] = False
            elif [d for d in rel if d.startswith("reorder-order-not-by-frequency")]:
                # C13 on the program itself: the ids written by the real `reorder` are not ordered by the number of
                # connection-cost evaluations over the given sentences (the library's counter, tied to the model by the C13 stream)
                t = line.split()
                info["prop_fail"] = "reorder-output-not-ordered-by-frequency"
                info["why"] = ("the *.lmap / *.rmap written by the real `reorder` program do not list the ids by non-increasing frequency over the "
                               f"sentences it was given (re-run: VERIF_CLI_BIN=harness/target-cli/release VERIF_CLI_WORK=work/x harness/target/debug/vharness cli {t[1].split('.')[0]} <n>)")
                info["ignore"] = False
            elif [d for d in rel if d.startswith("tokenize-mecab-tokens-differ")]:
                # C19: the MeCab-style output of the real `tokenize` program, read as a corpus, is not the tokenizer's tokens
                t = line.split()
                info["prop_fail"] = "tokenize-output-is-not-the-tokenizers-tokens"
                info["why"] = ("what the real `tokenize -O mecab` printed parses as a corpus whose tokens differ from the tokenizer's tokens for the "
                               f"input lines (re-run: VERIF_CLI_BIN=harness/target-cli/release VERIF_CLI_WORK=work/x harness/target/debug/vharness cli {t[1].split('.')[0]} <n>)")
                info["ignore"] = False
            elif rel:
                t = line.split()
                info["corr_fail"] = ("a command-line program disagrees with the library call it wraps: " + ",".join(rel) +
                                     f" (re-run: VERIF_CLI_BIN=harness/target-cli/release VERIF_CLI_WORK=work/x harness/target/debug/vharness cli {t[1].split('.')[0]} <n>)")
                info["ignore"] = False
            return info
        return {"tags": [], "nontrivial": False, "ignore": True}
    return classify


def evalsplit_classify(line, impl, mobs, extra):
    """Stream `evalsplit` (C19, last clause): the real `split`, `evaluate` and `tokenize -O wakati|detail` programs as processes
    against Model/EvalSplit.lean.  Property-level failures: `split` does not partition the corpus (theorem split_partition), a
    program fails on the tokenizer's own output (evaluate_self_perfect_fixed), a program panics where the model returns."""
    flags = pflags(extra)
    t = line.split()
    verb = t[2] if len(t) > 2 else "?"
    st = impl.split()[0] if impl else "?"
    mst = mobs.split()[0] if mobs else "?"
    tags = ["prog=" + {"SPLIT": "split", "EVAL": "evaluate", "WAKATI": "tokenize-wakati", "DETAIL": "tokenize-detail"}.get(verb, verb), "impl=" + st]
    if "KIND" in flags:
        tags.append("kind=" + flags["KIND"])
    info = {"tags": tags, "nontrivial": st == "ok"}
    if verb == "SPLIT" and flags.get("PART") == "false":
        info["prop_fail"] = "split-does-not-partition-the-corpus"
        info["why"] = "the three files written by the real `split` program are not a partition of the parsed corpus with the computed sizes"
    elif verb == "EVAL" and flags.get("KIND") == "self" and st in ("panic", "err") and mst == "ok":
        info["prop_fail"] = "evaluate-fails-on-tokenizer-output"
        info["why"] = ("the real `evaluate` program " + ("panics" if st == "panic" else "exits with an error") + " on the MeCab-style output "
                       "that the real `tokenize` program printed for the same dictionary and options")
    elif verb in ("SPLIT", "EVAL") and st == "ok" and mst == "err":
        # "malformed lines are reported as errors" (theorems malformed_line_err, invalid_utf8_err): the model rejects the corpus
        info["prop_fail"] = "program-accepts-a-malformed-corpus"
        info["why"] = "the real `" + tags[0][5:] + "` program accepted a corpus that the corpus reader must report as an error"
    elif st == "panic" and mst != "panic":
        info["prop_fail"] = "corpus-program-panics"
        info["why"] = "a program of the corpus tool chain (" + tags[0][5:] + ") panicked where the model returns a value or an error"
    return info


def mecab_example_classify(line, impl, mobs, extra):
    """`conn <id>.mecab<k>` lines of the cli stream: the cost table of the dictionary written by the real
    examples/mecab_smalldic program against the raw-connector model's table of the library's generated files."""
    if ".mecab" not in line.split(" ", 2)[1]:
        return {"tags": [], "nontrivial": False, "ignore": True}
    info = {"tags": ["example=mecab_smalldic", "impl=" + impl.split()[0]], "nontrivial": impl.startswith("ok")}
    if impl != mobs:
        info["prop_fail"] = "mecab-example-dictionary-costs-differ"
        info["why"] = "the dictionary compiled by examples/mecab_smalldic has connection costs other than those defined by the generated bigram files"
    return info


def c19_streams(tier, seed):
    base = with_cli(simple_streams("corpus", 1000, 30000, corpus_classify), {"corpus": corpus_classify},
                    ("tokenize-output-mecab", "tokenize-mecab-tokens-differ", "tokenize-status", "train-status"), 12, 120)
    # "... so tokenizer output can be fed to train, split and evaluate": the real split / evaluate / tokenize -O wakati|detail
    return list(base(tier, seed)) + [(["evalsplit", str(seed), "150" if tier == "quick" else "3000"], evalsplit_classify, {"cli": True})]


def with_cli(streams, inner, prefixes, nq, nt):
    def f(tier, seed):
        n = nq if tier == "quick" else nt
        return list(streams(tier, seed)) + [(["cli", str(seed), str(n)], cli_classifier(inner, prefixes), {"cli": True})]
    return f


TRAINER_TB = ["rucrf 0.3.3 RawModel::merge ported (Model/Trainer.lean); CRF optimisation itself not modelled (theorems quantify over arbitrary raw models)",
              "IEEE-754 f64 arithmetic: the driver uses Lean Float (same operations in the same order), theorems are proved for an abstract weight structure / exact arithmetic; Float laws trusted",
              "bincode wire format of ModelData modelled; hashbrown iteration order = stored order of the image (theorems quantify over permutations)"]


def simple_streams(name, nq, nt, classify):
    def streams(tier, seed):
        n = nq if tier == "quick" else nt
        return [([name, str(seed), str(n)], classify)]
    return streams


def audit_shared_state():
    """Source audit tying the model's "the tokenizer is never written while workers exist, and there
    is no other shared mutable state" to the current tree: no interior mutability / globals / unsafe
    Send-Sync impls in vibrato/src outside tests."""
    import os
    import re
    bad = []
    pat = re.compile(r"static\s+mut\b|\bCell<|\bRefCell<|\bUnsafeCell<|\bAtomic[A-Z]\w*|thread_local!|lazy_static!|OnceCell|OnceLock|"
                     r"unsafe\s+impl\s+(Send|Sync)|\bMutex<|\bRwLock<")
    root = "/repo/vibrato/src"
    for dp, dn, fn in os.walk(root):
        for f in fn:
            if not f.endswith(".rs") or f in ("verif.rs",):
                continue
            p = os.path.join(dp, f)
            if "/tests" in p or f == "test_utils.rs":
                continue
            text = open(p, encoding="utf-8").read()
            text = text.split("#[cfg(test)]")[0]
            for ln, line in enumerate(text.splitlines(), 1):
                if line.strip().startswith("//"):
                    continue
                if pat.search(line):
                    bad.append(f"{p}:{ln}: {line.strip()}")
                # `unsafe` and raw mutable pointers are confined to the SIMD scorer and to utils::FromU32 on the tree the model
                # was written for: anywhere else they may carry mutable state between workers behind the type system's back
                elif (re.search(r"\bunsafe\b|\*mut\b|get_mut_unchecked|\bstatic\s+\w+\s*:", line)
                      and not p.endswith(("raw_connector/scorer.rs", "src/utils.rs"))
                      and not re.search(r"\bstatic\s+\w+\s*:\s*&'static\s+str|^\s*(pub\s+)?const\b", line)):
                    bad.append(f"{p}:{ln}: {line.strip()}")
    if bad:
        return [("proof", "shared-state audit: the model assumes no shared mutable state, but the source now contains:\n" + "\n".join(bad),
                 "\n".join(bad))]
    return []


def threads_classify(line, impl, mobs, extra):
    info = {"tags": ["threads=" + impl], "nontrivial": True}
    if impl != "same-as-sequential":
        info["prop_fail"] = "threads-differ"
        info["why"] = "workers running concurrently over one tokenizer produced results different from sequential fresh workers"
    return info


def c04_streams(tier, seed):
    c = tok_classifier("C04", has_tokens)
    if tier == "quick":
        return [(["tok", "c04", str(seed), "300"], c), (["threads", str(seed), "8"], threads_classify)]
    return [(["tok", "c04", str(seed), "10000"], c), (["threads", str(seed), "300"], threads_classify)]


LATTICE_TB = [
    "crawdad trie modelled as: stored keys that are prefixes of the input, increasing length, ids ascending",
    "costs modelled in Int with an explicit no-overflow bound (EnvOK.bound); harness built with overflow checks",
    "min_idx as u16 not modelled (needs >= 65536 nodes at one boundary)",
]

PROPS = {
    "C14": {
        "modules": ["Vibrato.Props.C14", "Vibrato.Props.C14compile"],
        "theorems": ["Vibrato.C14.write_dictionary_ok", "Vibrato.C14.write_dictionary_panics", "Vibrato.C14.lex_rows",
                     "Vibrato.C14.lex_rows_parse", "Vibrato.C14.unk_rows", "Vibrato.C14.unk_rows_grouped",
                     "Vibrato.C14.unk_rows_parse", "Vibrato.C14.ids_in_dims", "Vibrato.C14.matrix_rows_sorted",
                     "Vibrato.C14.user_policy", "Vibrato.C14.cost_is_truncation", "Vibrato.C14.cost_fits_i16",
                     "Vibrato.C14.cost_antitone", "Vibrato.C14.emitted_compiles_partial",
                     # "the emitted files always compile", in full
                     "Vibrato.C14.matrix_def_parses_back", "Vibrato.C14.unk_def_parses_back", "Vibrato.C14.emitted_compiles",
                     "Vibrato.C14.emitted_files_compile"],
        "streams": with_cli(train_streams("C14", 40, 600), {"train": train_classifier("C14")}, (), 12, 120),
        "rule": "tiny training set-ups (3-8 lexicon rows with homographs and quoted surfaces, generated char.def/unk.def, feature.def "
                "with 1-4 unigram and 1-12 bigram templates incl. ? forms and %t, a few rewrite rules, <= 10 sentences) trained with "
                "the real rucrf; per model 4 generate cases (reloaded image, with/without user lexicon, image written after "
                "read_user_lexicon) + 1 re-encoding; all seven emitted files compared byte for byte with the Lean model",
        "trusted_base": TRAINER_TB,
        "assumptions": ["side conditions of emitted_compiles (each with a kernel-checked witness in Props/C14compile.lean): at least one seed row, no surface with U+0000, at most 65534 classes per side, category names without `,` `\"` line break and non-empty (finding F22), the char.def accepted by the parser and defining the categories used, no BOM at the start of the emitted files"],
    },
    "C15": {
        "modules": ["Vibrato.Props.C15"],
        "theorems": ["Vibrato.C15.model_decode_encode", "Vibrato.C15.reread_equal", "Vibrato.C15.truncated_is_err",
                     "Vibrato.C15.reload_state", "Vibrato.C15.cache_invariant", "Vibrato.C15.cache_invariant_run",
                     "Vibrato.C15.files_cache_irrelevant", "Vibrato.C15.generation_deterministic",
                     "Vibrato.C15.reload_generates_same", "Vibrato.C15.generate_respects_equiv",
                     "Vibrato.C15.user_lexicon_respects_equiv", "Vibrato.C15.generate_after_user_respects_equiv",
                     "Vibrato.C15.reloaded_user_file_empty"],
        "streams": with_cli(train_streams("C15", 40, 600), {"train": train_classifier("C15")}, ("train-",), 12, 120),
        "rule": "same set-ups as C14; histories generate, generate, write_model, read_model, generate, read_user_lexicon, generate, "
                "write_model again; the model image is decoded and re-encoded byte-exactly by the Lean model",
        "trusted_base": TRAINER_TB,
        "assumptions": ["user_entries are not part of write_model (known finding): histories of the property add the user lexicon after the last reload"],
    },
    "C16": {
        "modules": ["Vibrato.Props.C16", "Vibrato.Props.C07sat"],
        "theorems": [# the criterion behind the flag SAT (when the dual connector is judged like the raw one / when a dual-only
                     # excess may be attributed to the known finding F28)
                     "Vibrato.C07.presum_fits_of_bound", "Vibrato.C07.presum_fits_le8", "Vibrato.C07.dual_eq_raw_of_bound",
                     "Vibrato.C16.trunc_sum_bound", "Vibrato.C16.entry_close", "Vibrato.C16.bigram_matrix_close",
                     "Vibrato.C16.bigram_matrix_close_eos", "Vibrato.C16.bigram_matrix_close_bos", "Vibrato.C16.dims_agree"],
        "streams": with_cli(train_streams("C16", 40, 600), {"train": train_classifier("C16")}, (), 12, 120),
        "rule": "same set-ups as C14; the emitted bigram files are compiled with the raw and the dual connector and every cost is "
                "compared with the matrix dictionary compiled from the emitted matrix.def; measured max difference vs K+1",
        "trusted_base": TRAINER_TB,
        "assumptions": ["exact arithmetic in the theorem; float slack < 1 unit assumed and measured (CLOSE flag)",
                        "hypotheses of the theorem: weight_abs_max > 0 and EPS*32767 <= weight_abs_max (the EPSILON cut)"],
    },
    "C18": {
        "modules": ["Vibrato.Props.C18", "Vibrato.Props.C18new"],
        "theorems": ["Vibrato.Props.C18.expand_spec", "Vibrato.Props.C18.template_reading_exists",
                     "Vibrato.Props.C18.template_reading_unique", "Vibrato.Props.C18.optional_none_iff",
                     "Vibrato.Props.C18.expand_parsed_ne_panic", "Vibrato.Props.C18.intern_injective",
                     "Vibrato.Props.C18.ids_equal_iff_strings_equal", "Vibrato.Props.C18.history_ids",
                     "Vibrato.Props.C18.id_tuples_eq_iff", "Vibrato.Props.C18.classes_spec",
                     "Vibrato.Props.C18.tuple_listed", "Vibrato.Props.C18.classTable_first_appearance",
                     # seed files -> label feature sets (TrainerConfig::from_readers + Trainer::new)
                     "Vibrato.Props.C18new.label_sets_spec", "Vibrato.Props.C18new.rewriters_of_sections",
                     "Vibrato.Props.C18new.section_rewrite_spec", "Vibrato.Props.C18new.label_rows_of_files",
                     "Vibrato.Props.C18new.classes_of_rows", "Vibrato.Props.C18new.class_row_listed",
                     "Vibrato.Props.C18new.labels_total", "Vibrato.Props.C18new.fromReaders_total"],
        "streams": c18_streams,
        "rule": "random template sets (placeholders %F[i] %F?[i] %t %L %R incl. malformed and adjacent forms) x feature rows "
                "(quoted cells, short rows) through FeatureExtractor (hook), whole extraction sessions with interning, "
                "feature.def parsing, extract_feature_set with rewriters; non-trivial = a feature string / id list was produced",
        "trusted_base": ["the three regexes replaced by hand-written scanners in the model (validated differentially)"] + TRAINER_TB[:1],
        "assumptions": ["classes_spec / tuple_listed are stated over the abstract first-appearance numbering (classesOf); the file-level statement is covered by the trainer model's differential run (C14/C16 streams)"],
    },
    "C20": {
        "modules": ["Vibrato.Props.C20", "Vibrato.Proofs.MecabBridge", "Vibrato.Props.C20e2e"],
        "theorems": ["Vibrato.Props.C20.mecab_cost_eq_sum", "Vibrato.Props.C20.ids_dense_increasing",
                     "Vibrato.Props.C20.gap_rejected", "Vibrato.Props.C20.gap_rejected_fixed",
                     "Vibrato.Props.C20.malformed_rejected", "Vibrato.Props.C20.zero_not_bos_rejected",
                     "Vibrato.Props.C20.f12_largest_id_dropped", "Vibrato.Props.C20.f12_fixed_rejects",
                     # end to end: the COMPILED raw connector (model of C07) on the generated bytes returns the template sums
                     "Vibrato.Props.C20e2e.render_parse_costs", "Vibrato.Props.C20e2e.render_parse_rows",
                     "Vibrato.Props.C20e2e.generated_files_parse_back", "Vibrato.Props.C20e2e.mecab_compiled_cost_eq_sum",
                     "Vibrato.Props.C20e2e.mecab_compiled_cost_eq_sum_small", "Vibrato.Props.C20e2e.mecab_compiled_cost_eq_sum_bounded",
                     "Vibrato.Props.C20e2e.zero_templates_counterexample", "Vibrato.Props.C20e2e.no_rows_fails"],
        "streams": with_cli(extract_streams(("mecab",), 1500, 30000), {"conn": mecab_example_classify}, ("mecab-",), 20, 600),
        "rule": "random MeCab model descriptions: feature.def with optional %L?/%R? references, id tables (gaps, id 0 missing or not "
                "BOS/EOS, bad separators, invalid UTF-8), model.def with positive/negative/zero/unmatched weights and extreme "
                "cost factors; the three generated files compared byte for byte with the model, and the connector compiled from the "
                "implementation's files compared with the template sums of the inputs (MECABSPEC)",
        "trusted_base": ["decimal-to-f64 conversion of str::parse::<f64> modelled by an exact correctly rounded conversion (validated against Rust)"] + TRAINER_TB[1:2],
        "assumptions": ["hypotheses of the end-to-end theorem: at least one BIGRAM template (without one: known finding F25), some id >= 1, "
                        "fewer than 65536 bigram.cost lines (or the explicit scorer-build hypothesis), i32 bound on the per-pair sum"],
    },
    "C07": {
        "modules": ["Vibrato.Props.C07", "Vibrato.Props.C07sat"],
        "theorems": ["Vibrato.C07.presum_fits_of_bound", "Vibrato.C07.presum_fits_le8", "Vibrato.C07.dual_eq_raw_of_bound",
                     "Vibrato.C07.find_base_terminates", "Vibrato.C07.build_slot_invariant", "Vibrato.C07.retrieve_build",
                     "Vibrato.C07.retrieve_build_ofEntries", "Vibrato.C07.retrieve_invalid_left",
                     "Vibrato.C07.raw_cost_eq_sum", "Vibrato.C07.raw_cost_eq_sum_fixed", "Vibrato.C07.dual_cost_eq",
                     "Vibrato.C07.dual_eq_sum_of_fits", "Vibrato.C07.dual_eq_raw_of_fits",
                     "Vibrato.C07.dual_pinned_panics_below_8", "Vibrato.C07.avx2_eq_scalar",
                     "Vibrato.C07.raw_cost_deviates_pinned", "Vibrato.C07.dual_deviates_pinned",
                     "Vibrato.C07.raw_from_readers_empty_panics"],
        "streams": with_cli(c07_streams, {"conn": conn_classify}, ("compile-bigram",), 12, 120),
        "rule": "bigram models with 0..20 templates (biased to 0-2, 7-9, 15-17), ragged rows, shared and quoted feature strings, "
                "BOS/EOS lines, the (empty, empty) pair listed in a third of the models, rare malformed edits; every cost(r,l) of "
                "raw and dual connectors (portable and AVX2 builds) compared with the model and with the defining sum; scorer "
                "arrays compared exactly on random key sets; raw/dual/materialised-matrix dictionaries tokenized side by side",
        "trusted_base": ["AVX2 intrinsics modelled lane-wise (masked gathers, signed compares); behaviour of the intrinsics trusted + differential AVX2 build",
                         "hashbrown iteration order in the dual connector's greedy template split modelled as an arbitrary split (theorems hold for every valid split)"],
        "assumptions": ["pre-summed part within i16 (hypothesis of dual_eq_raw_of_fits; generated costs are far inside)"],
    },
    "C03": {
        "modules": ["Vibrato.Props.C03"],
        "theorems": ["Vibrato.lex_candidates_spec", "Vibrato.genUnk_spec", "Vibrato.unkOf_spec", "Vibrato.unkOfRows_order",
                     "Vibrato.groupable_spec", "Vibrato.candidates_spec", "Vibrato.charInfo_last_range",
                     "Vibrato.fileRanges_inclusive", "Vibrato.packing_roundtrip", "Vibrato.parse_packable",
                     "Vibrato.charInfo_astral_partial", "Vibrato.charInfo_astral_default", "Vibrato.astral_not_default",
                     "Vibrato.candidates_all_inserted", "Vibrato.candidate_is_stored",
                     "Vibrato.genUnk_eq", "Vibrato.mem_unkLengths", "Vibrato.lexMatches_spec", "Vibrato.lexMatches_complete"],
        "streams": tok_streams("c01", 600, 20000, tok2_classifier("C03", has_lattice_choice, astral_clause=True)),
        "rule": "random char.def layouts (<= 6 categories, overlapping ranges, multi-category characters, every invoke/group/"
                "length combination), 1-3 unk.def entries per category, max_grouping_len in {0,1,2,3,24}, lexicons with homographs "
                "and nested prefixes; the candidate projection (word id, lex type, start node, start word, ids) of every boundary of "
                "the dumped lattice is compared as a multiset with the model's candidates; non-trivial = some boundary has >= 2 nodes",
        "trusted_base": LATTICE_TB,
        "assumptions": ["characters above U+FFFF read table entry 0 (finding F13), mirrored by the model"],
    },
    "C06": {
        "modules": ["Vibrato.Props.C06map", "Vibrato.Props.C06", "Vibrato.Props.C06refine"],
        "theorems": ["Vibrato.lattice_relabel", "Vibrato.tokens_relabel", "Vibrato.relabel_node_spec", "Vibrato.mapIds_tokenize",
                     "Vibrato.mapIds_cost", "Vibrato.mapIds_feature", "Vibrato.history_tokenize", "Vibrato.history_invariant",
                     "Vibrato.f3_pinned_breaks_history",
                     "Vibrato.Mapper.parse_ok_iff", "Vibrato.Mapper.parse_err_iff", "Vibrato.Mapper.parse_bijection",
                     "Vibrato.Mapper.matrix_cost_map", "Vibrato.Mapper.raw_cost_map", "Vibrato.Mapper.dual_cost_map",
                     "Vibrato.Mapper.conn_cost_map_fn", "Vibrato.Mapper.mapIds_total", "Vibrato.Mapper.map_compose",
                     "Vibrato.Mapper.unfixed_wrong_length_panics", "Vibrato.Mapper.unfixed_second_map_mistranslates",
                     # refinement: the concrete dictionary model compared with the code (DictM) refines the abstract mapper
                     # model that carries the C06/C13 theorems (commuting squares, lifted to histories)
                     "Vibrato.Refine.mapIds_commutes", "Vibrato.Refine.resetUser_commutes", "Vibrato.Refine.history_commutes",
                     "Vibrato.Refine.applyOps_commutes", "Vibrato.Refine.map_compose_refined", "Vibrato.Refine.history_costs_refined",
                     "Vibrato.Refine.user_translated_by_all", "Vibrato.Refine.history_tokenize_refined",
                     "Vibrato.Refine.mapperAgree_true"],
        "streams": with_cli(c06_streams, {}, ("map-", "reorder-map"), 12, 120),
        "rule": "random histories of {map (valid permutations and malformed iterators: 0, duplicate, omission, short, long), "
                "load user lexicon (incl. out-of-range ids), clear, write/read} followed by tokenization; tokens must equal those of "
                "the unmapped dictionary with the same user lexicon up to ids; non-trivial = at least one dictionary operation and tokens",
        "trusted_base": LATTICE_TB + ["raw/dual connectors enter the tokenisation model through their dumped cost table (their own model: C07)"],
        "assumptions": [],
    },
    "C08": {
        "modules": ["Vibrato.Props.C06map", "Vibrato.Props.C08"],
        "theorems": ["Vibrato.user_equiv_extended_system", "Vibrato.system_words_remain", "Vibrato.user_words_offered",
                     "Vibrato.perm_min_cost", "Vibrato.perm_total_cost_eq", "Vibrato.user_eos_cost_eq",
                     "Vibrato.user_optimal_cost_eq", "Vibrato.reset_last_wins", "Vibrato.reset_none_restores",
                     "Vibrato.reset_some_then_none", "Vibrato.verify_in_range", "Vibrato.cands_in_range", "Vibrato.reset_rejects",
                     "Vibrato.Mapper.loadUserChecked_total", "Vibrato.Mapper.loadUser_out_of_range_panics_after_map",
                     "Vibrato.Mapper.map_compose"],
        "streams": tok_streams("c08", 300, 8000, tok2_classifier("C08", has_dops)),
        "rule": "user CSVs with homographs of system words, longer/shorter overlapping surfaces, out-of-range ids; load/replace/clear "
                "histories; the implementation's optimal cost must equal that of the system lexicon extended by the same rows",
        "trusted_base": LATTICE_TB,
        "assumptions": [],
    },
    "C10": {
        "modules": ["Vibrato.Props.C10", "Vibrato.Props.C10big", "Vibrato.Props.C10guard"],
        "theorems": ["Vibrato.builders_total", "Vibrato.parsers_total", "Vibrato.LexCsv.parseCsv_ne_panic",
                     "Vibrato.resetUser_total", "Vibrato.mapIds_total", "Vibrato.builders_establish_wf",
                     "Vibrato.builders_preserve_wf", "Vibrato.builders_total_any_history", "Vibrato.accepted_ids_in_range",
                     "Vibrato.wf_is_safe", "Vibrato.accepted_is_safe", "Vibrato.accepted_tokenizes",
                     "Vibrato.no_silent_miscategorisation", "Vibrato.packing_roundtrip_param", "Vibrato.layout_fits",
                     "Vibrato.astral_reads_entry_zero", "Vibrato.f9_accepted_dictionary_panics",
                     # the bigram builder path (from_readers_with_bigram_info, raw and dual connector), modelled end to end
                     "Vibrato.bigram_builders_total", "Vibrato.bigram_dict_builders_total", "Vibrato.bigram_builders_establish_wf",
                     "Vibrato.bigram_accepted_is_safe", "Vibrato.bigram_accepted_is_safe_i32", "Vibrato.bigram_total_any_history",
                     "Vibrato.bigram_cost_total", "Vibrato.bigram_table_is_cost", "Vibrato.bigram_connector_dims",
                     "Vibrato.pinned_builder_panics", "Vibrato.dual_u16_conn_id_panics", "Vibrato.raw_cost_panics_at_u16_max",
                     "Vibrato.bigram_builders_total_guarded", "Vibrato.bigram_dict_builders_total_guarded", "Vibrato.guarded_ok_is_unguarded"],
        "streams": c10_streams,
        "rule": "valid definition files from the structured generator + one corruption per case (16 kinds: empty file, byte "
                "delete/insert/replace, cut, drop/duplicate field, swapped lines, out-of-range numbers, CRLF, BOM, missing final newline, "
                "trailing blank lines, undefined names, targeted char.def lines, many categories, random bytes); accepted dictionaries are "
                "probed with 3 sentences each; non-trivial = a corrupted file",
        "trusted_base": LATTICE_TB,
        "assumptions": [],
    },
    "C12": {
        "modules": ["Vibrato.Props.C12", "Vibrato.Props.C01"],
        "theorems": ["Vibrato.respace_invariant", "Vibrato.spaces_only", "Vibrato.spaces_only_any_dict",
                     "Vibrato.ignore_space_requires_SPACE", "Vibrato.ignore_space_sets_single_bit",
                     "Vibrato.skipped_not_tokenized", "Vibrato.no_node_ends_in_run", "Vibrato.skip_is_space_run",
                     "Vibrato.cands_local", "Vibrato.spacePreB_sound", "Vibrato.gaps_start_with_space"],
        "streams": tok_streams("c12", 400, 12000, tok2_classifier("C12", respaced_family)),
        "rule": "dictionaries meeting the precondition (SPACE characters belong to SPACE alone, no surface contains one); each case "
                "is a family: the same segments re-spaced 3-6 ways (run lengths 1-3, two different SPACE characters, optional leading/"
                "trailing runs); all members must give the same id-free token observation",
        "trusted_base": LATTICE_TB,
        "assumptions": [],
    },
    "C13": {
        "modules": ["Vibrato.Props.C13probs", "Vibrato.Props.C13"],
        "theorems": ["Vibrato.Mapper.probs_perm_sorted", "Vibrato.Mapper.reorder_accepted_by_map", "Vibrato.Mapper.reorder_then_map",
                     "Vibrato.counts_eq_evaluations", "Vibrato.buildLatticeTr_lattice", "Vibrato.worker_counts_eq_evaluations",
                     "Vibrato.counts_history_independent", "Vibrato.counts_after_init", "Vibrato.sumIncr_append",
                     "Vibrato.empty_first_line_panics", "Vibrato.empty_later_line_recounts", "Vibrato.worker_probs_spec",
                     "Vibrato.worker_probs_eq_computeProbs", "Vibrato.counter_dims", "Vibrato.probs_never_panics", "Vibrato.reorder_accepted"],
        "streams": with_cli(tok_streams("c13", 300, 8000, tok2_classifier("C13", has_probs)), {}, ("reorder-",), 12, 120),
        "rule": "histories of reset/tokenize/update_connid_counts incl. empty lines and repeats, with and without ignore_space; raw "
                "counts compared with the model after every update; the id orderings must be permutations sorted by count then id",
        "trusted_base": LATTICE_TB + ["f64 ordering of cnt/sum assumed monotone in cnt (counts < 2^53)"],
        "assumptions": [],
    },
    "C11": {
        "modules": ["Vibrato.Props.C11"],
        "theorems": ["Vibrato.C11.read_cell_delim", "Vibrato.C11.read_cell_term", "Vibrato.C11.read_cell_eof",
                     "Vibrato.C11.parse_csv_rows", "Vibrato.C11.parse_csv_rows_pinned", "Vibrato.C11.eof_variants_agree",
                     "Vibrato.C11.parse_csv_joined", "Vibrato.C11.homographs_kept_entries",
                     "Vibrato.C11.quote_csv_cell_eq", "Vibrato.C11.unquote_quote",
                     "Vibrato.C11.witness_eof_after_fourth_comma", "Vibrato.C11.witness_trailing_blank",
                     "Vibrato.C11.witness_trailing_comma"],
        "streams": c11_streams,
        "rule": "50% well-formed lexicon CSVs (quoted/unquoted cells, embedded commas/quotes/newlines, multi-byte text, "
                "empty surfaces, extreme numbers, blank lines, CRLF, with/without final newline; the generator knows the "
                "expected rows), 20% single-edit corruptions incl. ~4096-byte fields, parse_csv_row, quote_csv_cell and the "
                "raw csv-core reader on byte soup; non-trivial = a well-formed file with at least one row",
        "trusted_base": ["csv-core 0.1 reader/writer ported (Model/CsvCore.lean) and compared call by call with the crate",
                         "postings (homograph ids) are covered by the tokenisation streams, not by this stream"],
        "assumptions": [],
    },
    "C05": {
        "modules": ["Vibrato.Props.C05"],
        "theorems": ["Vibrato.C05.decode_encode", "Vibrato.C05.reread_equal", "Vibrato.C05.trailing_ignored",
                     "Vibrato.C05.rewrite_same_bytes", "Vibrato.C05.behaviour_congr", "Vibrato.C05.accepted_is_wf",
                     "Vibrato.C05.reread_accepted", "Vibrato.C05.write_len", "Vibrato.C05.lane_repr_irrelevant"],
        "streams": with_cli(image_streams("C05"), {}, ("compile-image", "compile-not-zstd", "compile-status"), 12, 120),
        "post_check": c05_cross_build,
        "rule": "dictionaries of all three connector kinds built from generated sources, then a random history of "
                "{load user lexicon, map ids, write/read}; the whole image is decoded and re-encoded by the Lean model "
                "(byte-exact comparison via length + FNV-64 + first differing offset) and the reloaded dictionary is "
                "compared with the original on probe sentences, second write and reported length; every case is non-trivial",
        "trusted_base": CODEC_TB,
        "assumptions": ["portable build only; AVX2 interchange is covered at model level by lane_repr_irrelevant (the encoding is defined on lane values)"],
    },
    "C09": {
        "modules": ["Vibrato.Props.C09"],
        "theorems": ["Vibrato.C09.strict_prefix_rejected", "Vibrato.C09.accepted_cut_rejected",
                     "Vibrato.C09.foreign_magic_rejected"],
        "streams": image_streams("C09"),
        "rule": "quick: 6 images x (first 400 offsets, last 1500 offsets, 600 random offsets) + 60 wrong/partial magic "
                "headers; thorough: EVERY strict prefix of 3 images + 60 sampled images + 2000 magic cases",
        "trusted_base": CODEC_TB,
        "assumptions": [],
    },
    "C17": {
        "modules": ["Vibrato.Props.C17"],
        "theorems": ["Vibrato.C17.rewrite_first_match", "Vibrato.C17.rewrite_first_match_total",
                     "Vibrato.C17.rewrite_none_iff", "Vibrato.C17.rewriteOrSame_spec", "Vibrato.C17.bad_ref_panics",
                     "Vibrato.C17.rewrite_terminates", "Vibrato.C17.matches_iff", "Vibrato.C17.pinned_violates",
                     "Vibrato.C17.pinned_same_trie_partial", "Vibrato.C17.rewrite_some_matching_rule_partial"],
        "streams": c17_streams,
        "rule": "random rule lists (0-5 rules, patterns of 0-4 cells mixing *, (a|b), literals, copied prefixes of earlier "
                "rules so that prefixes interleave) x feature lists of 0-4 cells; first case is the pinned witness; "
                "non-trivial = >= 2 rules and some rule applied",
        "trusted_base": ["regex ^\\$([0-9]+)$ and HashSet pattern equality replaced by hand-written scanners in the model"],
        "assumptions": [],
    },
    "C19": {
        "modules": ["Vibrato.Props.C19", "Vibrato.Props.C19cli"],
        "theorems": ["Vibrato.Corpus.corpus_roundtrip", "Vibrato.Corpus.corpus_roundtrip_pinned",
                     "Vibrato.Corpus.empty_sentences_dropped", "Vibrato.Corpus.trailing_tokens_dropped",
                     "Vibrato.Corpus.parse_result_wellformed", "Vibrato.Corpus.parse_never_panics",
                     "Vibrato.Corpus.write_parse_idempotent", "Vibrato.Corpus.write_parse_idempotent_of_no_crcrlf",
                     "Vibrato.Corpus.malformed_line_err", "Vibrato.Corpus.invalid_utf8_err",
                     "Vibrato.Corpus.mecabOutput_eq_write", "Vibrato.Corpus.tokenizer_output_parses",
                     "Vibrato.Corpus.tokenizer_outputs_parse",
                     # the programs split / evaluate / tokenize -O wakati|detail (Model/EvalSplit.lean)
                     "Vibrato.EvalSplit.split_partition", "Vibrato.EvalSplit.split_rejects_oversize", "Vibrato.EvalSplit.split_never_panics",
                     "Vibrato.EvalSplit.evaluate_counts_spec", "Vibrato.EvalSplit.example_counts_meaning",
                     "Vibrato.EvalSplit.evaluate_self_perfect", "Vibrato.EvalSplit.evaluate_self_perfect_sentences",
                     "Vibrato.EvalSplit.evaluate_self_perfect_fixed", "Vibrato.EvalSplit.evaluate_panics_on_long_field",
                     "Vibrato.EvalSplit.evaluate_panics_on_empty_feature", "Vibrato.EvalSplit.wakati_split_roundtrip",
                     "Vibrato.EvalSplit.detail_line_fields"],
        "streams": c19_streams,
        "rule": "three generators: byte soup over a CR/LF/TAB/EOS/UTF-8-edge alphabet (20%), structured corpora with "
                "varied terminators and rare garbage lines (50%), real tokenizer output rendered as `tokenize -O mecab` "
                "prints it (30%); non-trivial = at least one example parsed, or a tokenizer case",
        "trusted_base": ["BufRead::lines and str::split modelled (Model/Corpus.lean), validated differentially",
                         "the five write_all calls of tokenize/src/main.rs are replicated in the harness (text compared by tools/extract_consts.py)"],
        "assumptions": ["documented format = lines terminated by LF or CRLF; a line ending in CR CR LF is outside it (explicit hypothesis of write_parse_idempotent)"],
    },
    "C01": {
        "modules": ["Vibrato.Props.C01"],
        "theorems": ["Vibrato.tokens_segments", "Vibrato.tokenize_total", "Vibrato.tokens_partition",
                     "Vibrato.cover_no_ignore", "Vibrato.gaps_start_with_space", "Vibrato.tokenize_empty"],
        "streams": c01_streams,
        "rule": "random dictionaries (matrix connector, unk.def covering every category) x sentences over a 13-letter "
                "alphabet with 1..4-byte characters, two SPACE characters, an astral and an out-of-range character "
                "x all option settings; non-trivial = at least one token reported; distinct = sha1 of the case input",
        "trusted_base": LATTICE_TB,
        "assumptions": ["UnkCovered (finding F9) and the 65536-nodes-per-boundary bound (F15) are hypotheses of the theorems"],
    },
    "C04": {
        "modules": ["Vibrato.Props.C04", "Vibrato.Props.C04n"],
        "theorems": ["Vibrato.reset_then_tokenize_fresh", "Vibrato.history_independent", "Vibrato.tokenize_idempotent",
                     "Vibrato.tokenize_twice_doubles", "Vibrato.interleave_independent",
                     "Vibrato.buildLattice_buffer_indep",
                     # any number of workers, any interleaving, outputs included; and the converse (Props/C04n.lean)
                     "Vibrato.interleave_independent_n", "Vibrato.interleave_complete_n", "Vibrato.runSysN_length",
                     "Vibrato.concurrent_worker_reads_fresh"],
        "streams": with_cli(c04_streams, {}, ("tokenize-output-detail",), 12, 120),
        "pre_checks": audit_shared_state,
        "rule": "random worker histories (reset incl. empty and shorter-after-longer sentences, repeated tokenize, "
                "reads before tokenize, lattice dumps, counter ops) on one worker; non-trivial = some read returned tokens",
        "trusted_base": LATTICE_TB + ["thread scheduling, allocator and AVX2 gathers are outside the model (partial for schedules)"],
        "assumptions": ["the tokenizer is immutable while workers exist (checked at compile time: Tokenizer/Dictionary are Send+Sync; source audit for interior mutability)"],
    },
    "C02": {
        "modules": ["Vibrato.Props.C02", "Vibrato.Props.C02cap", "Vibrato.Props.C02spec", "Vibrato.Props.C02u16", "Vibrato.Props.C02chain"],
        "theorems": ["Vibrato.viterbi_optimal", "Vibrato.total_cost_prefix",
                     "Vibrato.reported_is_candidate_segmentation", "Vibrato.optimal_among_live_segmentations",
                     "Vibrato.final_boundary_unique", "Vibrato.optimal_among_candidate_segmentations",
                     "Vibrato.all_boundaries_live", "Vibrato.optimal_no_skip", "Vibrato.tokenize_min_cost",
                     "Vibrato.tokenize_min_cost_no_ignore", "Vibrato.tokenize_min_cost_ignore_space",
                     "Vibrato.tokenize_min_cost_live", "Vibrato.dead_end_cheaper",
                     # the oracle of the C02S predicate (forward DP over ALL candidate segmentations) is itself proved
                     "Vibrato.specMin_lower_bound", "Vibrato.specMin_attained", "Vibrato.specMin_spec",
                     "Vibrato.specMin_eq_lattice", "Vibrato.specMin_ne_lattice_deadEnv",
                     # the model compared with the code stores back pointers as u16 (Model/LatticeW.lean, Model/Worker16.lean)
                     "Vibrato.buildLatticeW_eq", "Vibrato.buildLatticeW_costs", "Vibrato.idxExact_eq", "Vibrato.stepW_eq_step",
                     "Vibrato.viterbi_optimal16", "Vibrato.total_cost_prefix16", "Vibrato.idxExact_of_cands",
                     "Vibrato.wrap_reported", "Vibrato.wrap_not_minimal",
                     # chain sentences (stream tokchain): the closed form the driver answers with
                     "Vibrato.chain_node_cost", "Vibrato.chain_tokens", "Vibrato.chain_envOK", "Vibrato.chain_covered"],
        "streams": c02_streams,
        "rule": "random dictionaries (matrix connector) x sentences x options; non-trivial = the lattice dump "
                "has a boundary with >= 2 nodes (a real choice); distinct = sha1 of the case input",
        "trusted_base": LATTICE_TB,
        "assumptions": ["model mirrors Tokenizer::build_lattice_inner / Lattice::*; validated by exact comparison of tokens and full lattice dumps"],
    },
}
