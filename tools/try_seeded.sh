#!/bin/sh
# usage: tools/try_seeded.sh <patch.diff> <property id>...   applies the patch to /repo, runs the quick checks, undoes it
set -u
patch="$1"; shift
cd /verif
git -C /repo apply "$patch" || { echo "patch does not apply"; exit 2; }
for p in "$@"; do
  python3 check.py "$p" --tier "${TIER:-quick}" 2>&1 | cut -c1-220
done
git -C /repo checkout -- .
git -C /repo status --short | head -3
