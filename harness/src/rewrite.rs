//! Stream `rewrite` (property C17): rule lists x feature lists through the real
//! `FeatureRewriterBuilder::add_rule` / `FeatureRewriter::rewrite` (hook `trainer::verif::rewrite`).
//!
//! Line: `rewrite <id> RULES <n> (<k_pat> cells <k_rew> cells)*n FEATS <m> cells IMPL <none|some <m> cells|panic>`
use crate::rng::Rng;
use crate::wire::{guarded, hexs};
use std::io::Write;

fn cell(rng: &mut Rng, pattern: bool) -> String {
    let sym = ["a", "b", "y", "x", "あ"];
    if pattern {
        match rng.below(10) {
            0..=2 => "*".to_string(),
            3 | 4 => {
                let k = 1 + rng.below(3);
                let alts: Vec<&str> = (0..k).map(|_| *rng.pick(&sym)).collect();
                format!("({})", alts.join("|"))
            }
            5 => "()".to_string(),
            6 => "(a".to_string(),
            _ => rng.pick(&sym).to_string(),
        }
    } else {
        match rng.below(10) {
            0..=3 => format!("${}", 1 + rng.below(5)),
            4 => "$01".to_string(),
            5 => "$x".to_string(),
            6 => format!("R{}", rng.below(4)),
            7 => "*".to_string(),
            8 => "$".to_string(),
            _ => rng.pick(&sym).to_string(),
        }
    }
}

pub fn observe(rules: &[(Vec<String>, Vec<String>)], feats: &[String]) -> String {
    match guarded(|| vibrato::trainer::verif::rewrite(rules, feats)) {
        None => "panic".to_string(),
        Some(None) => "none".to_string(),
        Some(Some(v)) => {
            let mut s = format!("some {}", v.len());
            for c in &v {
                s.push_str(&format!(" {}", hexs(c)));
            }
            s
        }
    }
}

pub fn case_line(id: &str, rules: &[(Vec<String>, Vec<String>)], feats: &[String]) -> String {
    let mut line = format!("rewrite {id} RULES {}", rules.len());
    for (p, w) in rules {
        line.push_str(&format!(" {}", p.len()));
        for c in p {
            line.push_str(&format!(" {}", hexs(c)));
        }
        line.push_str(&format!(" {}", w.len()));
        for c in w {
            line.push_str(&format!(" {}", hexs(c)));
        }
    }
    line.push_str(&format!(" FEATS {}", feats.len()));
    for c in feats {
        line.push_str(&format!(" {}", hexs(c)));
    }
    format!("{line} IMPL {}", observe(rules, feats))
}

pub fn run(seed: u64, n: usize, out: &mut dyn Write) {
    let mut rng = Rng::new(seed ^ 0x727772);
    // pinned witness first (rules *,x / a,y / *,y on (a,y)): the later rule must not win
    let w = |p: &[&str], r: &str| (p.iter().map(|s| s.to_string()).collect::<Vec<_>>(), vec![r.to_string()]);
    let rules = vec![w(&["*", "x"], "1"), w(&["a", "y"], "2"), w(&["*", "y"], "3")];
    writeln!(out, "{}", case_line(&format!("{seed}.w"), &rules, &["a".to_string(), "y".to_string()])).unwrap();
    for i in 0..n {
        let nrules = rng.below(6);
        let mut rules = vec![];
        for j in 0..nrules {
            let kp = rng.below(5);
            let mut p: Vec<String> = (0..kp).map(|_| cell(&mut rng, true)).collect();
            // interleave prefixes: copy a prefix of an earlier rule
            if j > 0 && rng.chance(1, 2) {
                let (q, _): &(Vec<String>, Vec<String>) = &rules[rng.below(j)];
                let k = rng.below(q.len() + 1);
                for (t, c) in q.iter().take(k).enumerate() {
                    if t < p.len() {
                        p[t] = c.clone();
                    } else {
                        p.push(c.clone());
                    }
                }
            }
            let kr = rng.below(4);
            let mut r: Vec<String> = (0..kr).map(|_| cell(&mut rng, false)).collect();
            r.push(format!("#{j}"));
            if rng.chance(1, 60) {
                r.push("$0".to_string());
            }
            rules.push((p, r));
        }
        let m = rng.below(5);
        let feats: Vec<String> = (0..m)
            .map(|_| rng.pick(&["a", "b", "y", "x", "あ", "", "*"]).to_string())
            .collect();
        writeln!(out, "{}", case_line(&format!("{seed}.{i}"), &rules, &feats)).unwrap();
    }
}
