//! Stream `cli`: the command-line programs of the workspace (`dictgen`, `compile`, `tokenize`,
//! `map`, `reorder`, `train`, and the example `mecab_smalldic`), built from /repo's current tree, run as real processes on files and compared with the
//! library calls they are documented to wrap.  The programs are the glue around the modelled core
//! (option handling, file naming, the ORDER of the library calls, zstd framing, output formats).
//!
//! Environment: `VERIF_CLI_BIN` = directory holding the binaries, `VERIF_CLI_WORK` = scratch
//! directory (created, emptied after every case, removed at the end).
//!
//! Lines written (all answered by the Lean driver like the library-level lines of the same stream):
//!  * `train <id>.cli GEN <model image> <user csv|none> IMPL <files written by dictgen> ## … CLI=dictgen`
//!      same observation as the library-level `GEN` lines (trainer.rs), taken from the files that
//!      `dictgen -i … -l … -u … -m … [--user-lexicon-in … --user-lexicon-out …] --conn-id-info-out …` wrote;
//!      `RT` = those files equal the files of the in-memory model (after `read_user_lexicon`).
//!  * `conn <id>.cli KIND <1|2> <right> <left> <cost> IMPL ok <table>`  cost table of the dictionary
//!      that `compile --bigram-*-in … [--dual-connector]` wrote (read back with `Dictionary::read`).
//!  * `corpus <id>.cli mecab <k> (<surface> <feature>){k} IMPL OUT <stdout of tokenize -O mecab> PARSE <obs>`
//!      the text printed by the real `tokenize` program for one sentence, fed to `Corpus::from_reader`.
//!  * `cli <id> IMPL <same|differs:<what>>`  everything else: compiled image = `Dictionary::write` of the
//!      library build (matrix and bigram), `tokenize -O detail [-S] [-M n] [-u user]` = the library
//!      tokenizer with the same options, `map` = `map_connection_ids_from_iter`; exit statuses agree.
use crate::rng::Rng;
use crate::trainer::{gen_setup, generate, obs_of, same_files, train, trainer_flags, Gen, Setup};
use crate::wire::{guarded, hex};
use std::io::{Read, Write};
use std::path::{Path, PathBuf};
use std::process::{Command, Stdio};
use vibrato::trainer::Corpus;
use vibrato::{Dictionary, SystemDictionaryBuilder, Tokenizer};

pub(crate) struct Env {
    pub(crate) bin: PathBuf,
    pub(crate) work: PathBuf,
}

/// (status, stdout): status `ok` (exit 0), `panic` (exit 101), `err` (any other exit code), `killed`.
/// Every file a program is about to write exists already and is longer than what it will write (the leftovers of an earlier
/// run): a program must replace its output files, not overwrite their beginning.
fn stale_outputs(env: &Env, name: &str, args: &[String]) {
    let junk = vec![0xabu8; 1 << 20];
    let after = |flag: &str| -> Option<String> { args.iter().position(|a| a == flag).and_then(|i| args.get(i + 1)).cloned() };
    let mut outs: Vec<String> = vec![];
    match name {
        "compile" | "map" | "train" => outs.extend(after("-o")),
        "reorder" => {
            if let Some(pfx) = after("-o") {
                outs.extend([format!("{pfx}.lmap"), format!("{pfx}.rmap")]);
            }
        }
        "dictgen" => {
            outs.extend(after("-l"));
            outs.extend(after("-u"));
            outs.extend(after("-m"));
            if let Some(o) = after("--user-lexicon-out") {
                if Some(&o) != after("--user-lexicon-in").as_ref() {
                    outs.push(o);
                }
            }
            if let Some(pfx) = after("--conn-id-info-out") {
                outs.extend([format!("{pfx}.left"), format!("{pfx}.right"), format!("{pfx}.cost")]);
            }
        }
        _ => {}
    }
    for o in outs {
        let _ = std::fs::write(&o, &junk);
    }
    let _ = env;
}

pub(crate) fn run_bin(env: &Env, name: &str, args: &[String], stdin: Option<&[u8]>) -> (&'static str, Vec<u8>) {
    stale_outputs(env, name, args);
    let mut cmd = Command::new(env.bin.join(name));
    cmd.args(args).current_dir(&env.work).stderr(Stdio::null()).stdout(Stdio::piped());
    cmd.stdin(if stdin.is_some() { Stdio::piped() } else { Stdio::null() });
    let mut child = match cmd.spawn() {
        Ok(c) => c,
        Err(e) => {
            eprintln!("cannot start {name}: {e}");
            std::process::exit(3);
        }
    };
    if let Some(data) = stdin {
        let mut si = child.stdin.take().unwrap();
        let data = data.to_vec();
        // small inputs: written before reading stdout is fine (pipe buffers), but be safe
        std::thread::spawn(move || {
            let _ = si.write_all(&data);
        });
    }
    // stdout is drained by a thread; the process gets a wall-clock limit (the CRF optimiser behind `train` does not
    // terminate on some degenerate set-ups): a process that exceeds it is killed and reported as `killed`
    let mut stdout = child.stdout.take().unwrap();
    let reader = std::thread::spawn(move || {
        let mut out = vec![];
        stdout.read_to_end(&mut out).ok();
        out
    });
    let limit = std::time::Duration::from_secs(std::env::var("VERIF_CLI_LIMIT_S").ok().and_then(|x| x.parse().ok()).unwrap_or(120));
    let start = std::time::Instant::now();
    let st = loop {
        match child.try_wait() {
            Ok(Some(s)) => break Some(s),
            Ok(None) => {
                if start.elapsed() > limit {
                    let _ = child.kill();
                    let _ = child.wait();
                    break None;
                }
                std::thread::sleep(std::time::Duration::from_millis(3));
            }
            Err(_) => break None,
        }
    };
    let out = reader.join().unwrap_or_default();
    let s = match st.and_then(|s| s.code()) {
        Some(0) => "ok",
        Some(101) => "panic",
        Some(_) => "err",
        None => "killed",
    };
    (s, out)
}

pub(crate) fn p(env: &Env, f: &str) -> String {
    env.work.join(f).to_string_lossy().to_string()
}

pub(crate) fn write(env: &Env, f: &str, data: &[u8]) {
    std::fs::write(env.work.join(f), data).expect("write scratch file");
}

pub(crate) fn read(env: &Env, f: &str) -> Vec<u8> {
    std::fs::read(env.work.join(f)).unwrap_or_default()
}

pub(crate) fn clean(work: &Path) {
    if let Ok(rd) = std::fs::read_dir(work) {
        for e in rd.flatten() {
            let _ = std::fs::remove_file(e.path());
        }
    }
}

pub(crate) fn zstd_of(data: &[u8]) -> Vec<u8> {
    zstd::encode_all(data, 3).expect("zstd")
}

fn unzstd_file(env: &Env, f: &str) -> Option<Vec<u8>> {
    let b = std::fs::read(env.work.join(f)).ok()?;
    zstd::decode_all(&b[..]).ok()
}

fn status_of<T>(r: &Option<Result<T, ()>>) -> &'static str {
    match r {
        None => "panic",
        Some(Err(())) => "err",
        Some(Ok(_)) => "ok",
    }
}

pub(crate) fn image_of(d: &Dictionary) -> Vec<u8> {
    let mut v = vec![];
    d.write(&mut v).unwrap();
    v
}

fn detail_lines(dict: Dictionary, sents: &[String], ign: bool, maxg: Option<usize>, mecab: bool) -> Option<Result<(Vec<u8>, Vec<Vec<(String, String)>>), ()>> {
    guarded(|| {
        let tokenizer = Tokenizer::new(dict).ignore_space(ign).map_err(|_| ())?.max_grouping_len(maxg.unwrap_or(0));
        let mut worker = tokenizer.new_worker();
        let mut out: Vec<u8> = vec![];
        let mut all = vec![];
        for s in sents {
            worker.reset_sentence(s);
            worker.tokenize();
            let mut toks = vec![];
            for i in 0..worker.num_tokens() {
                let t = worker.token(i);
                toks.push((t.surface().to_string(), t.feature().to_string()));
                if mecab {
                    writeln!(&mut out, "{}\t{}", t.surface(), t.feature()).unwrap();
                } else {
                    writeln!(
                        &mut out,
                        "{}\t{}\tlex_type={:?}\tleft_id={}\tright_id={}\tword_cost={}\ttotal_cost={}",
                        t.surface(), t.feature(), t.lex_type(), t.left_id(), t.right_id(), t.word_cost(), t.total_cost(),
                    )
                    .unwrap();
                }
            }
            out.extend_from_slice(b"EOS\n");
            all.push(toks);
        }
        Ok((out, all))
    })
}

fn sentences(rng: &mut Rng, s: &Setup) -> Vec<String> {
    let mut sents = vec![];
    let mut cur = String::new();
    for line in s.corpus.lines() {
        if line == "EOS" {
            if !cur.is_empty() {
                sents.push(std::mem::take(&mut cur));
            }
        } else if let Some((surf, _)) = line.split_once('\t') {
            cur.push_str(surf);
        }
    }
    let extra = ["", " ", "a b", "zz9", "あい う", "😀a", "a\u{0}b", "  a", "K0k1"];
    for _ in 0..2 {
        sents.push(extra[rng.below(extra.len())].to_string());
    }
    sents.retain(|x| !x.contains('\n') && !x.ends_with('\r'));
    sents.truncate(6);
    sents
}

fn corpus_obs(input: &[u8]) -> String {
    match guarded(|| Corpus::from_reader(input)) {
        None => "panic".to_string(),
        Some(Err(_)) => "err".to_string(),
        Some(Ok(corpus)) => {
            let mut s = format!("ok {}", corpus.len());
            let mut rewrite = vec![];
            for ex in corpus.iter() {
                s.push_str(&format!(" {}", ex.tokens().len()));
                for w in ex.tokens() {
                    s.push_str(&format!(" {} {}", hex(w.surface().as_bytes()), hex(w.feature().as_bytes())));
                }
                ex.write(&mut rewrite).unwrap();
            }
            s.push_str(&format!(" REWRITE {}", hex(&rewrite)));
            s
        }
    }
}

/// Replay of a `train <id>.cli GEN` line: the files `dictgen` writes for this model image and user lexicon.
pub fn dictgen_gen(image: &[u8], user: Option<&[u8]>) -> (String, Option<Result<Gen, ()>>) {
    let env = Env {
        bin: PathBuf::from(std::env::var("VERIF_CLI_BIN").expect("VERIF_CLI_BIN")),
        work: PathBuf::from(std::env::var("VERIF_CLI_WORK").expect("VERIF_CLI_WORK")),
    };
    std::fs::create_dir_all(&env.work).expect("scratch dir");
    clean(&env.work);
    let g = dictgen(&env, image, user);
    clean(&env.work);
    let _ = std::fs::remove_dir(&env.work);
    (obs_of(&g), g)
}

fn dictgen(env: &Env, image: &[u8], user: Option<&[u8]>) -> Option<Result<Gen, ()>> {
    write(env, "model.zst", &zstd_of(image));
    let mut args: Vec<String> = vec![
        "-i".into(), p(env, "model.zst"), "-l".into(), p(env, "lex.csv"), "-u".into(), p(env, "unk.def"),
        "-m".into(), p(env, "matrix.def"),
    ];
    // a third of the runs weight the user lexicon in place (the same path for input and output): the program must have read
    // the file before it creates the output (decided by the bytes of the file, so that a replay makes the same choice)
    let in_place = user.map_or(false, |u| u.iter().fold(0u32, |a, b| a.wrapping_mul(31).wrapping_add(*b as u32)) % 3 == 0);
    if let Some(u) = user {
        write(env, "user.csv", u);
        let outp = if in_place { "user.csv" } else { "user_out.csv" };
        args.extend(["--user-lexicon-in".into(), p(env, "user.csv"), "--user-lexicon-out".into(), p(env, outp)]);
    }
    args.extend(["--conn-id-info-out".into(), p(env, "bigram")]);
    let (st, _) = run_bin(env, "dictgen", &args, None);
    match st {
        "ok" => {
            let cost = read(env, "bigram.cost");
            Some(Ok(Gen {
                lex: read(env, "lex.csv"),
                matrix: read(env, "matrix.def"),
                unk: read(env, "unk.def"),
                user: if user.is_some() { read(env, if in_place { "user.csv" } else { "user_out.csv" }) } else { vec![] },
                left: read(env, "bigram.left"),
                right: read(env, "bigram.right"),
                cost_sorted: crate::trainer::sort_lines(&cost),
                cost_raw: cost,
            }))
        }
        "panic" => None,
        _ => Some(Err(())),
    }
}

/// The sentences as the text a program reads line by line: LF terminators; now and then CRLF terminators, and now and
/// then no terminator after the last line (when that line is not empty) - the programs read with `BufRead::lines`, for
/// which all of these are the same lines.
pub fn stdin_lines(rng: &mut Rng, sents: &[String]) -> Vec<u8> {
    let crlf = rng.chance(1, 6) && sents.iter().all(|x| !x.ends_with('\r'));
    let mut v: Vec<u8> = vec![];
    for x in sents {
        v.extend_from_slice(x.as_bytes());
        v.extend_from_slice(if crlf { b"\r\n" } else { b"\n" });
    }
    if rng.chance(1, 3) && sents.last().map_or(false, |x| !x.is_empty() && !x.ends_with('\r')) {
        v.truncate(v.len() - if crlf { 2 } else { 1 });
    }
    v
}

pub fn run(seed: u64, n: usize, out: &mut dyn Write) {
    let env = Env {
        bin: PathBuf::from(std::env::var("VERIF_CLI_BIN").expect("VERIF_CLI_BIN")),
        work: PathBuf::from(std::env::var("VERIF_CLI_WORK").expect("VERIF_CLI_WORK")),
    };
    std::fs::create_dir_all(&env.work).expect("scratch dir");
    let mut rng = Rng::new(seed ^ 0x636c69);
    let mut made = 0usize;
    let mut attempts = 0usize;
    while made < n && attempts < 20 * n + 20 {
        attempts += 1;
        clean(&env.work);
        let mut srng = rng.fork();
        let s = gen_setup(&mut srng);
        let reg = *srng.pick(&[0.001f64, 0.01, 0.1]);
        let iters = *srng.pick(&[3u64, 10, 30]);
        let id = format!("{seed}.{made}");
        let mut m0 = match train(&s, reg, iters) {
            Some(m) => m,
            None => continue,
        };
        let mut image = vec![];
        if guarded(|| m0.write_model(&mut image).is_ok()) != Some(true) {
            continue;
        }
        made += 1;
        let mut diffs: Vec<String> = vec![];

        // ---- dictgen
        let with_user = rng.below(3) != 0;
        let g_cli = dictgen(&env, &image, if with_user { Some(s.user.as_bytes()) } else { None });
        // the in-memory model through the same calls
        let g_mem = guarded(|| {
            if with_user && m0.read_user_lexicon(s.user.as_bytes()).is_err() {
                return Some(Err(()));
            }
            generate(&mut m0)
        })
        .flatten();
        let rt = match (&g_cli, &g_mem) {
            (Some(Ok(a)), Some(Ok(b))) => same_files(a, b),
            (None, None) => true,
            (Some(Err(())), Some(Err(()))) => true,
            _ => false,
        };
        let user_hex = if with_user { hex(s.user.as_bytes()) } else { "none".to_string() };
        writeln!(out, "train {id}.cli GEN {} {} IMPL {} ## {} CLI=dictgen", hex(&image), user_hex, obs_of(&g_cli), trainer_flags(&s, rt, &g_cli)).unwrap();
        let g = match g_cli {
            Some(Ok(g)) => g,
            _ => {
                writeln!(out, "cli {id} IMPL same ## STEPS=dictgen").unwrap();
                continue;
            }
        };

        // ---- train (the program that produced nothing so far: same files, same options, then dictgen on ITS model)
        if env.bin.join("train").exists() && rng.below(2) == 0 {
            // now and then a seed lexicon of several thousand rows: the model image is then well over a megabyte, more than any
            // writer buffers (a model must be written completely, not up to the first partial write)
            let mut big_lex = s.lex.clone();
            if rng.below(4) == 0 {
                for i in 0..6000 {
                    big_lex.push_str(&format!("w{i}x,0,0,0,{}\n", ["N,x", "V,y,r1", "N,a,r0"][i % 3]));
                }
            }
            write(&env, "seed_lex.csv", big_lex.as_bytes());
            write(&env, "seed_unk.def", s.unk.as_bytes());
            write(&env, "t_char.def", s.chardef.as_bytes());
            write(&env, "feature.def", s.feature_def.as_bytes());
            write(&env, "rewrite.def", s.rewrite_def.as_bytes());
            // corpus lines that begin or end with white space: a space token, an empty feature column
            let mut corpus = s.corpus.clone();
            if rng.below(2) == 0 {
                corpus.push_str(*rng.pick(&["\u{3000}\tN,sp\nEOS\n", " \tN\nEOS\n", "q\t\nEOS\n", "a \tN,x \nEOS\n"]));
            }
            let s = Setup { lex: big_lex, chardef: s.chardef.clone(), unk: s.unk.clone(), feature_def: s.feature_def.clone(),
                            rewrite_def: s.rewrite_def.clone(), corpus, user: s.user.clone(), k: s.k, slash: s.slash, rows: vec![] };
            write(&env, "corpus.txt", s.corpus.as_bytes());
            let (st_t, _) = run_bin(
                &env,
                "train",
                &["-l".into(), p(&env, "seed_lex.csv"), "-u".into(), p(&env, "seed_unk.def"), "-t".into(), p(&env, "corpus.txt"),
                  "-c".into(), p(&env, "t_char.def"), "-f".into(), p(&env, "feature.def"), "-r".into(), p(&env, "rewrite.def"),
                  "-o".into(), p(&env, "trained.zst"), format!("--lambda={reg}"), format!("--max-iter={iters}")],
                None,
            );
            if st_t == "killed" {
                // the optimiser did not terminate within the limit: training itself is outside the properties
            } else if st_t != "ok" {
                diffs.push(format!("train-status:{st_t}/ok"));
            } else {
                match unzstd_file(&env, "trained.zst") {
                    None => diffs.push("train-not-zstd".to_string()),
                    Some(img) => {
                        // the model written by the program generates the same files as the model trained in-process
                        // (image bytes depend on hash-map iteration order: compare what the model MEANS)
                        let (_, g_t) = crate::trainer::observe_gen(&img, None);
                        let mut m1 = train(&s, reg, iters);
                        let g_lib = m1.as_mut().and_then(generate);
                        let same = match (&g_t, &g_lib) {
                            (Some(Ok(a)), Some(Ok(b))) => same_files(a, b),
                            (Some(Err(())), Some(Err(()))) => true,
                            (None, None) => true,
                            _ => false,
                        };
                        if !same {
                            // is training itself reproducible on this set-up? (two in-process runs)
                            let mut m2 = train(&s, reg, iters);
                            let g2 = m2.as_mut().and_then(generate);
                            let repro = match (&g2, &g_lib) {
                                (Some(Ok(a)), Some(Ok(b))) => same_files(a, b),
                                _ => false,
                            };
                            if std::env::var("VERIF_CLI_DEBUG").is_ok() {
                                for (f, want) in [("seed_lex.csv", &s.lex), ("seed_unk.def", &s.unk), ("t_char.def", &s.chardef), ("feature.def", &s.feature_def), ("rewrite.def", &s.rewrite_def), ("corpus.txt", &s.corpus)] {
                                    eprintln!("FILE {f} same={} len={}", read(&env, f) == want.as_bytes(), want.len());
                                }
                                eprintln!("ARGS lambda={reg} iters={iters}");
                                if let (Some(Ok(a)), Some(Ok(b))) = (&g_t, &g_lib) {
                                    for (n, x, y) in [("lex", &a.lex, &b.lex), ("matrix", &a.matrix, &b.matrix), ("unk", &a.unk, &b.unk), ("left", &a.left, &b.left), ("right", &a.right, &b.right), ("cost", &a.cost_sorted, &b.cost_sorted)] {
                                        if x != y {
                                            eprintln!("DIFF {n}:\n--- program\n{}\n--- library\n{}\n--- corpus\n{}", String::from_utf8_lossy(x), String::from_utf8_lossy(y), s.corpus);
                                            break;
                                        }
                                    }
                                } else {
                                    eprintln!("DIFF status {:?} {:?}", g_t.as_ref().map(|x| x.is_ok()), g_lib.as_ref().map(|x| x.is_ok()));
                                }
                            }
                            // the file written by the program cannot be read back / generated from although the same training in
                            // process can: C15 on the program itself
                            if matches!(g_t, Some(Err(())) | None) && matches!(g_lib, Some(Ok(_))) {
                                diffs.push("train-model-unreadable".to_string());
                            }
                            diffs.push(if repro { "train-model-differs".to_string() } else { "train-not-reproducible-in-process".to_string() });
                        }
                    }
                }
            }
        }

        // ---- compile (matrix)
        write(&env, "char.def", s.chardef.as_bytes());
        let (st_c, _) = run_bin(
            &env,
            "compile",
            &["-l".into(), p(&env, "lex.csv"), "-m".into(), p(&env, "matrix.def"), "-u".into(), p(&env, "unk.def"),
              "-c".into(), p(&env, "char.def"), "-o".into(), p(&env, "sys.dic.zst")],
            None,
        );
        let lib_sys = guarded(|| {
            SystemDictionaryBuilder::from_readers(&g.lex[..], &g.matrix[..], s.chardef.as_bytes(), &g.unk[..]).map_err(|_| ())
        });
        let mut steps = vec!["dictgen", "compile"];
        if st_c != status_of(&lib_sys) {
            diffs.push(format!("compile-status:{st_c}/{}", status_of(&lib_sys)));
        }
        // ---- compile (bigram, raw or dual)
        let dual = rng.below(2) == 1;
        let mut bargs: Vec<String> = vec![
            "-l".into(), p(&env, "lex.csv"), "-u".into(), p(&env, "unk.def"), "-c".into(), p(&env, "char.def"),
            "-o".into(), p(&env, "small.dic.zst"), "--bigram-right-in".into(), p(&env, "bigram.right"),
            "--bigram-left-in".into(), p(&env, "bigram.left"), "--bigram-cost-in".into(), p(&env, "bigram.cost"),
        ];
        if dual {
            bargs.push("--dual-connector".into());
        }
        let (st_b, _) = run_bin(&env, "compile", &bargs, None);
        let lib_small = guarded(|| {
            SystemDictionaryBuilder::from_readers_with_bigram_info(
                &g.lex[..], &g.right[..], &g.left[..], &g.cost_raw[..], s.chardef.as_bytes(), &g.unk[..], dual,
            )
            .map_err(|_| ())
        });
        if st_b != status_of(&lib_small) {
            diffs.push(format!("compile-bigram-status:{st_b}/{}", status_of(&lib_small)));
        }
        if st_b == "ok" {
            match unzstd_file(&env, "small.dic.zst") {
                Some(bytes) => {
                    if let Some(Ok(d)) = guarded(|| Dictionary::read(&bytes[..]).map_err(|_| ())) {
                        let obs = match crate::tok::conn_dump(&d) {
                            Some(c) => format!("ok {c}"),
                            None => "costpanic".to_string(),
                        };
                        // (the image bytes of a bigram dictionary depend on hash-map iteration order: compare meaning)
                        // A dual connector whose pre-summed part leaves 16 bits saturates, and WHICH templates are
                        // pre-summed depends on hash-map iteration order: such dictionaries are not reproducible
                        // (C07's caveat) and are left out; they are recognised by raw != dual in the library.
                        // the option --dual-connector must select the connector type
                        if vibrato::verif::connector_kind(&d) != if dual { 2 } else { 1 } {
                            diffs.push("compile-bigram-kind".to_string());
                        }
                        let saturating = dual && {
                            let raw = guarded(|| {
                                SystemDictionaryBuilder::from_readers_with_bigram_info(
                                    &g.lex[..], &g.right[..], &g.left[..], &g.cost_raw[..], s.chardef.as_bytes(), &g.unk[..], false,
                                )
                                .ok()
                            })
                            .flatten();
                            match (&raw, &lib_small) {
                                (Some(r), Some(Ok(dl))) => crate::tok::conn_dump(r) != crate::tok::conn_dump(dl),
                                _ => true,
                            }
                        };
                        if !saturating {
                            if let Some(Ok(dl)) = &lib_small {
                                if crate::tok::conn_dump(dl).map(|c| format!("ok {c}")) != Some(obs.clone()) {
                                    diffs.push("compile-bigram-costs".to_string());
                                }
                            }
                            writeln!(out, "conn {id}.cli KIND {} {} {} {} IMPL {obs} ## CLI=compile", if dual { 2 } else { 1 },
                                     hex(&g.right), hex(&g.left), hex(&g.cost_raw)).unwrap();
                        }
                    } else {
                        diffs.push("compile-bigram-unreadable".to_string());
                    }
                }
                None => diffs.push("compile-bigram-not-zstd".to_string()),
            }
        }
        let sys_bytes = if st_c == "ok" { unzstd_file(&env, "sys.dic.zst") } else { None };
        if let (Some(bytes), Some(Ok(d))) = (&sys_bytes, &lib_sys) {
            if image_of(d) != *bytes {
                diffs.push("compile-image".to_string());
            }
        } else if st_c == "ok" {
            diffs.push("compile-not-zstd".to_string());
        }

        // ---- tokenize
        if let (Some(bytes), Some(Ok(_))) = (&sys_bytes, &lib_sys) {
            steps.push("tokenize");
            let sents = sentences(&mut rng, &s);
            let input: Vec<u8> = stdin_lines(&mut rng, &sents);
            let ign = rng.below(3) == 0;
            let maxg = if rng.below(3) == 0 { Some(rng.below(4)) } else { None };
            // user lexicon given to the program: none, the one written by dictgen, or a word with an EMPTY feature
            // column that covers the beginning of the first sentence (cheap enough to be on the best path)
            let mut user_bytes: Option<Vec<u8>> = None;
            match rng.below(3) {
                0 if with_user && !g.user.is_empty() => user_bytes = Some(g.user.clone()),
                1 => {
                    if let Some(first) = sents.iter().find(|x| !x.is_empty()) {
                        let w: String = first.chars().take(1 + rng.below(2)).collect();
                        let cell = if w.contains(',') || w.contains('"') { format!("\"{}\"", w.replace('"', "\"\"")) } else { w };
                        user_bytes = Some(format!("{cell},0,0,-30000,\n").into_bytes());
                    }
                }
                _ => {}
            }
            if let Some(u) = &user_bytes {
                write(&env, "tok_user.csv", u);
            }
            let use_user = user_bytes.is_some();
            for mecab in [false, true] {
                let mut targs: Vec<String> = vec!["-i".into(), p(&env, "sys.dic.zst"), "-O".into(), if mecab { "mecab".into() } else { "detail".into() }];
                if ign {
                    targs.push("-S".into());
                }
                if let Some(m) = maxg {
                    targs.extend(["-M".into(), m.to_string()]);
                }
                if use_user {
                    targs.extend(["-u".into(), p(&env, "tok_user.csv")]);
                }
                let (st_t, printed) = run_bin(&env, "tokenize", &targs, Some(&input));
                let lib = guarded(|| {
                    let mut d = Dictionary::read(&bytes[..]).map_err(|_| ())?;
                    if use_user {
                        d = d.reset_user_lexicon_from_reader(Some(&user_bytes.as_ref().unwrap()[..])).map_err(|_| ())?;
                    }
                    Ok(d)
                });
                let lib = match lib {
                    Some(Ok(d)) => detail_lines(d, &sents, ign, maxg, mecab),
                    Some(Err(())) => Some(Err(())),
                    None => None,
                };
                if st_t != status_of(&lib) {
                    diffs.push(format!("tokenize-status:{st_t}/{}", status_of(&lib)));
                    continue;
                }
                if let Some(Ok((expect, toks))) = lib {
                    if expect != printed {
                        diffs.push(format!("tokenize-output-{}", if mecab { "mecab" } else { "detail" }));
                    }
                    if mecab {
                        // the whole output through the corpus reader: its examples must be exactly the tokenizer's tokens of the
                        // input lines (sentences without tokens are dropped) - C19's clause about the program itself
                        let want: Vec<Vec<(String, String)>> = toks.iter().filter(|t| !t.is_empty()).cloned().collect();
                        let got: Option<Vec<Vec<(String, String)>>> = guarded(|| Corpus::from_reader(&printed[..]).ok())
                            .flatten()
                            .map(|c| c.iter().map(|e| e.tokens().iter().map(|w| (w.surface().to_string(), w.feature().to_string())).collect()).collect());
                        if got != Some(want) {
                            diffs.push("tokenize-mecab-tokens-differ".to_string());
                        }
                        // per sentence: the text the program printed for it, through the corpus reader
                        let mut rest = &printed[..];
                        for (k, t) in toks.iter().enumerate() {
                            let mut len = 0usize;
                            for (sf, ft) in t {
                                len += sf.len() + 1 + ft.len() + 1;
                            }
                            len += 4;
                            if rest.len() < len {
                                break;
                            }
                            let (chunk, r2) = rest.split_at(len);
                            rest = r2;
                            let mut line = format!("corpus {id}.cli{k} mecab {}", t.len());
                            for (sf, ft) in t {
                                line.push_str(&format!(" {} {}", hex(sf.as_bytes()), hex(ft.as_bytes())));
                            }
                            let same = match guarded(|| Corpus::from_reader(chunk)) {
                                Some(Ok(c)) => {
                                    let ex: Vec<Vec<(String, String)>> = c
                                        .iter()
                                        .map(|e| e.tokens().iter().map(|w| (w.surface().to_string(), w.feature().to_string())).collect())
                                        .collect();
                                    if t.is_empty() { ex.is_empty() } else { ex.len() == 1 && ex[0] == *t }
                                }
                                _ => false,
                            };
                            writeln!(out, "{line} IMPL OUT {} PARSE {} ## RT={} KIND=tokenizer CLI=tokenize", hex(chunk), corpus_obs(chunk), same as u8).unwrap();
                        }
                    }
                }
            }

            // ---- reorder (statistics of connection ids over the sentences) and map with its output
            steps.push("reorder");
            {
                // blank lines between and after the sentences (they must contribute nothing)
                let mut rsents: Vec<String> = vec![];
                for x in &sents {
                    rsents.push(x.clone());
                    if rng.below(3) == 0 {
                        rsents.push(String::new());
                    }
                    if rng.below(6) == 0 {
                        rsents.push(String::new());
                    }
                }
                // now and then no sentence at all, or blank lines only: every count is 0, the probabilities are 0/0 = NaN,
                // and the files must still be a mapping that `map` accepts (C13: ALWAYS a valid mapping)
                let sents = match rng.below(7) {
                    0 => vec![],
                    1 => vec![String::new(); 1 + rng.below(3)],
                    _ => rsents,
                };
                let input: Vec<u8> = stdin_lines(&mut rng, &sents);
                let (st_r, _) = run_bin(&env, "reorder", &["-i".into(), p(&env, "sys.dic.zst"), "-o".into(), p(&env, "reordered")], Some(&input));
                let mut counts: Option<(Vec<usize>, Vec<usize>)> = None;
                let lib = guarded(|| -> Result<(Vec<u8>, Vec<u8>, Vec<u16>, Vec<u16>), ()> {
                    let d = Dictionary::read(&bytes[..]).map_err(|_| ())?;
                    let tokenizer = Tokenizer::new(d);
                    let mut w = tokenizer.new_worker();
                    w.init_connid_counter();
                    for s in &sents {
                        w.reset_sentence(s);
                        w.tokenize();
                        w.update_connid_counts();
                    }
                    let (lp, rp) = w.compute_connid_probs();
                    let render = |v: &[(usize, f64)]| -> Vec<u8> {
                        let mut o = vec![];
                        for (i, pr) in v {
                            o.extend_from_slice(format!("{i}\t{pr}\n").as_bytes());
                        }
                        o
                    };
                    let ids = |v: &[(usize, f64)]| -> Vec<u16> { v.iter().map(|x| x.0 as u16).collect() };
                    counts = vibrato::verif::connid_counts(&w);
                    Ok((render(&lp), render(&rp), ids(&lp), ids(&rp)))
                });
                if st_r != status_of(&lib) {
                    diffs.push(format!("reorder-status:{st_r}/{}", status_of(&lib)));
                } else if let Some(Ok((lm, rm, lids, rids))) = lib {
                    if read(&env, "reordered.lmap") != lm || read(&env, "reordered.rmap") != rm {
                        diffs.push("reorder-files".to_string());
                        // C13 on the program itself: the ids it wrote must list 1..n-1 once, by non-increasing frequency (the
                        // number of connection-cost evaluations over the GIVEN sentences: the library's counter), ties ascending
                        let file_ids = |name: &str| -> Vec<usize> {
                            String::from_utf8_lossy(&read(&env, name)).lines().filter_map(|l| l.split('\t').next().and_then(|x| x.parse().ok())).collect()
                        };
                        let sorted_ok = |cnt: &Vec<usize>, ids: &Vec<usize>| -> bool {
                            let n = cnt.len();
                            ids.len() + 1 == n
                                && (1..n).all(|i| ids.contains(&i))
                                && ids.windows(2).all(|w| cnt[w[0]] > cnt[w[1]] || (cnt[w[0]] == cnt[w[1]] && w[0] < w[1]))
                        };
                        // ... and the frequency written next to an id is its count over the sum of all counts
                        let freq_ok = |cnt: &Vec<usize>, name: &str| -> bool {
                            let sum: usize = cnt.iter().sum();
                            String::from_utf8_lossy(&read(&env, name)).lines().all(|l| {
                                let mut c = l.split('\t');
                                match (c.next().and_then(|x| x.parse::<usize>().ok()), c.next().and_then(|x| x.parse::<f64>().ok())) {
                                    (Some(id), Some(p)) if id < cnt.len() => {
                                        let want = cnt[id] as f64 / sum as f64;
                                        (p.is_nan() && want.is_nan()) || p == want
                                    }
                                    _ => false,
                                }
                            })
                        };
                        if let Some((cl, cr)) = &counts {
                            if !sorted_ok(cl, &file_ids("reordered.lmap")) || !sorted_ok(cr, &file_ids("reordered.rmap"))
                                || !freq_ok(cl, "reordered.lmap") || !freq_ok(cr, "reordered.rmap")
                            {
                                diffs.push("reorder-order-not-by-frequency".to_string());
                            }
                        }
                    }
                    // the files it wrote are a valid input of `map` (C13: always a valid mapping), with the library's result
                    let (st_m, _) = run_bin(&env, "map", &["-i".into(), p(&env, "sys.dic.zst"), "-m".into(), p(&env, "reordered"), "-o".into(), p(&env, "reordered.dic.zst")], None);
                    let libm = guarded(|| {
                        Dictionary::read(&bytes[..]).map_err(|_| ())?.map_connection_ids_from_iter(lids.clone(), rids.clone()).map_err(|_| ())
                    });
                    if st_m != "ok" || status_of(&libm) != "ok" {
                        diffs.push(format!("reorder-mapping-rejected:{st_m}/{}", status_of(&libm)));
                    } else if let Some(Ok(md)) = libm {
                        match unzstd_file(&env, "reordered.dic.zst") {
                            Some(mb) if mb == image_of(&md) => {}
                            _ => diffs.push("reorder-map-image".to_string()),
                        }
                    }
                }
            }

            // ---- map
            steps.push("map");
            if let Some(Ok(d)) = guarded(|| Dictionary::read(&bytes[..]).map_err(|_| ())) {
                let nl = vibrato::verif::num_left(&d);
                let nr = vibrato::verif::num_right(&d);
                let perm = |rng: &mut Rng, n: usize| -> Vec<u16> {
                    let mut v: Vec<u16> = (1..n as u16).collect();
                    for i in (1..v.len()).rev() {
                        let j = rng.below(i + 1);
                        v.swap(i, j);
                    }
                    match rng.below(8) {
                        0 if !v.is_empty() => { v[0] = 0; }                       // BOS/EOS id
                        1 if v.len() >= 2 => { v[1] = v[0]; }                     // duplicate
                        2 => { v.pop(); }                                         // too few
                        _ => {}
                    }
                    v
                };
                let lmap = perm(&mut rng, nl);
                let rmap = perm(&mut rng, nr);
                let render = |v: &[u16]| -> Vec<u8> {
                    let mut o = vec![];
                    for (i, x) in v.iter().enumerate() {
                        // second column as written by the `reorder` tooling (ignored by `map`)
                        writeln!(&mut o, "{x}\t{}", 100 - (i % 50)).unwrap();
                    }
                    o
                };
                write(&env, "mapping.lmap", &render(&lmap));
                write(&env, "mapping.rmap", &render(&rmap));
                let (st_m, _) = run_bin(&env, "map", &["-i".into(), p(&env, "sys.dic.zst"), "-m".into(), p(&env, "mapping"), "-o".into(), p(&env, "mapped.dic.zst")], None);
                let lib = guarded(|| d.map_connection_ids_from_iter(lmap.clone(), rmap.clone()).map_err(|_| ()));
                if st_m != status_of(&lib) {
                    diffs.push(format!("map-status:{st_m}/{}", status_of(&lib)));
                } else if let Some(Ok(md)) = lib {
                    match unzstd_file(&env, "mapped.dic.zst") {
                        Some(mb) if mb == image_of(&md) => {}
                        _ => diffs.push("map-image".to_string()),
                    }
                }
            }
        }
        // ---- examples/mecab_smalldic (MeCab model -> small dictionary)
        let have_example = env.bin.join("mecab_smalldic").exists();
        if have_example {
            steps.push("mecab_smalldic");
        }
        for mi in 0..(if have_example { 3 } else { 0 }) {
            let (fd, rid, lid, md, cf, _) = crate::extract::gen_mecab_inputs(&mut rng);
            // costs near the i32 limits make the connector's i32 sum overflow (outside C07's hypotheses); the
            // library-level `extract` stream keeps the extreme factors for the file generation itself
            let cf = if cf.is_finite() && cf.abs() <= 1e6 { cf } else { 700.0 };
            let dual = rng.below(2) == 1;
            let (lex, unk, chr): (&[u8], &[u8], &[u8]) = (b"a,0,0,0,f\n", b"DEFAULT,0,0,0,*\n", b"DEFAULT 0 1 0\n");
            write(&env, "m_lex.csv", lex);
            write(&env, "m_unk.def", unk);
            write(&env, "m_char.def", chr);
            write(&env, "feature.def", &fd);
            write(&env, "right-id.def", &rid);
            write(&env, "left-id.def", &lid);
            write(&env, "model.def", &md);
            let mut margs: Vec<String> = vec![
                "-l".into(), p(&env, "m_lex.csv"), "-u".into(), p(&env, "m_unk.def"), "-c".into(), p(&env, "m_char.def"),
                "-f".into(), p(&env, "feature.def"), "-a".into(), p(&env, "right-id.def"), "-b".into(), p(&env, "left-id.def"),
                "-m".into(), p(&env, "model.def"), format!("--cost-factor={cf}"), "-o".into(), p(&env, "mecab.dic.zst"),
            ];
            if dual {
                margs.push("--dual-connector".into());
            }
            let (st_m, _) = run_bin(&env, "mecab_smalldic", &margs, None);
            let files = guarded(|| {
                let (mut r, mut l, mut c) = (vec![], vec![], vec![]);
                vibrato::mecab::generate_bigram_info(&fd[..], &rid[..], &lid[..], &md[..], cf, &mut r, &mut l, &mut c)
                    .map(|_| (r, l, c))
                    .map_err(|_| ())
            });
            let lib = match &files {
                None => None,
                Some(Err(())) => Some(Err(())),
                Some(Ok((r, l, c))) => guarded(|| {
                    SystemDictionaryBuilder::from_readers_with_bigram_info(lex, &r[..], &l[..], &c[..], chr, unk, dual).map_err(|_| ())
                }),
            };
            if st_m != status_of(&lib) {
                diffs.push(format!("mecab-status:{st_m}/{}", status_of(&lib)));
            } else if let (Some(Ok((r, l, c))), "ok") = (&files, st_m) {
                match unzstd_file(&env, "mecab.dic.zst").and_then(|b| guarded(|| Dictionary::read(&b[..]).ok()).flatten()) {
                    Some(d) => {
                        let obs = match crate::tok::conn_dump(&d) {
                            Some(t) => format!("ok {t}"),
                            // i32 overflow of the cost sum under overflow checks (weights × factor near the i32 limits)
                            None => continue,
                        };
                        // the files are the library's (the extract stream ties them to the model); the table is the example's
                        writeln!(out, "conn {id}.mecab{mi} KIND {} {} {} {} IMPL {obs} ## CLI=mecab_smalldic", if dual { 2 } else { 1 }, hex(r), hex(l), hex(c)).unwrap();
                    }
                    None => diffs.push("mecab-unreadable".to_string()),
                }
            }
        }
        let obs = if diffs.is_empty() { "same".to_string() } else { format!("differs:{}", diffs.join(",")) };
        writeln!(out, "cli {id} IMPL {obs} ## STEPS={}", steps.join(",")).unwrap();
    }
    clean(&env.work);
    let _ = std::fs::remove_dir(&env.work);
}
