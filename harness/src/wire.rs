//! Line protocol helpers: hex byte strings, `-` = empty.
pub fn hex(bytes: &[u8]) -> String {
    if bytes.is_empty() {
        return "-".to_string();
    }
    let mut s = String::with_capacity(bytes.len() * 2);
    for b in bytes {
        s.push_str(&format!("{:02x}", b));
    }
    s
}

pub fn hexs(s: &str) -> String {
    hex(s.as_bytes())
}

pub fn unhex(s: &str) -> Option<Vec<u8>> {
    if s == "-" {
        return Some(vec![]);
    }
    if s.len() % 2 != 0 {
        return None;
    }
    let b = s.as_bytes();
    let v = |c: u8| -> Option<u8> {
        match c {
            b'0'..=b'9' => Some(c - b'0'),
            b'a'..=b'f' => Some(c - b'a' + 10),
            b'A'..=b'F' => Some(c - b'A' + 10),
            _ => None,
        }
    };
    let mut out = Vec::with_capacity(s.len() / 2);
    for i in (0..b.len()).step_by(2) {
        out.push(v(b[i])? * 16 + v(b[i + 1])?);
    }
    Some(out)
}

/// Runs `f`, mapping a panic to `None`.
pub fn guarded<T>(f: impl FnOnce() -> T) -> Option<T> {
    std::panic::catch_unwind(std::panic::AssertUnwindSafe(f)).ok()
}
