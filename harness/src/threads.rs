//! Stream `threads` (concurrency clause of C04): one shared `Tokenizer`, 16 workers on 16
//! threads over disjoint random sentence streams; every thread's results must equal those of
//! fresh sequential workers.  `Tokenizer`/`Dictionary` being `Send + Sync` is checked at
//! compile time right here.
use crate::gen::{gen_dict, gen_sentence, GenCfg};
use crate::rng::Rng;
use crate::tok::{build_dict, tokens_obs};
use std::io::Write;
use vibrato::Tokenizer;

fn assert_send_sync<T: Send + Sync>() {}

pub fn run(seed: u64, n: usize, out: &mut dyn Write) {
    assert_send_sync::<Tokenizer>();
    assert_send_sync::<vibrato::Dictionary>();
    let mut rng = Rng::new(seed ^ 0x746872);
    let mut made = 0;
    while made < n {
        let mut cfg = GenCfg::default();
        cfg.kind = None;
        // every other case: many connection ids (thousands of distinct id pairs in flight: any table shared between
        // workers is under eviction pressure) and a compact connector
        if made % 2 == 1 {
            cfg.max_ids = 70;
            cfg.kind = Some(1 + (made / 2 % 2) as u8);
        }
        let mut drng = rng.fork();
        let mut d = gen_dict(&mut drng, &cfg);
        if made % 2 == 1 {
            // several hundred words over a small alphabet with ids spread over the whole connector
            let abc = ['a', 'b', 'c', 'd', '1', '2'];
            for i in 0..600usize {
                let w: String = (0..1 + i % 3).map(|k| abc[(i / 6usize.pow(k as u32)) % 6]).collect();
                d.lex.extend_from_slice(format!("{w},{},{},{},w{i}\n", drng.below(d.num_left), drng.below(d.num_right), drng.range(-40, 40)).as_bytes());
                d.surfaces.push(w);
            }
        }
        let dict = match build_dict(&d) {
            Some(Ok(x)) => x,
            _ => continue,
        };
        let ign = d.has_space && rng.chance(1, 2);
        let tokenizer = match Tokenizer::new(dict).ignore_space(ign) {
            Ok(t) => t.max_grouping_len(*rng.pick(&[0usize, 2, 24])),
            Err(_) => continue,
        };
        let streams: Vec<Vec<String>> = (0..16)
            .map(|_| {
                let mut srng = rng.fork();
                (0..20).map(|_| gen_sentence(&mut srng, &d, &cfg, if d.surfaces.len() > 100 { 30 } else { 6 })).collect()
            })
            .collect();
        // sequential reference: a fresh worker per sentence
        let reference: Option<Vec<Vec<String>>> = crate::wire::guarded(|| {
            streams
                .iter()
                .map(|ss| {
                    ss.iter()
                        .map(|s| {
                            let mut w = tokenizer.new_worker();
                            w.reset_sentence(s);
                            w.tokenize();
                            tokens_obs(&w)
                        })
                        .collect()
                })
                .collect()
        });
        let reference = match reference {
            Some(r) => r,
            None => continue, // uncovered category etc.: not a concurrency case
        };
        let tk = &tokenizer;
        let results: Vec<Option<Vec<String>>> = std::thread::scope(|sc| {
            let handles: Vec<_> = streams
                .iter()
                .map(|ss| {
                    sc.spawn(move || {
                        let mut w = tk.new_worker();
                        ss.iter()
                            .map(|s| {
                                w.reset_sentence(s);
                                w.tokenize();
                                tokens_obs(&w)
                            })
                            .collect::<Vec<String>>()
                    })
                })
                .collect();
            handles.into_iter().map(|h| h.join().ok()).collect()
        });
        let same = results.iter().zip(&reference).all(|(a, b)| a.as_ref() == Some(b));
        writeln!(out, "threads {seed}.{made} WORKERS 16 SENTENCES 20 KIND {} IMPL {}", d.kind, if same { "same-as-sequential" } else { "differs" }).unwrap();
        made += 1;
    }
}
