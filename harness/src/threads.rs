//! Stream `threads` (concurrency clause of C04): one shared `Tokenizer`, 16 workers on 16
//! threads over disjoint random sentence streams; every thread's results must equal those of
//! fresh sequential workers.  `Tokenizer`/`Dictionary` being `Send + Sync` is checked at
//! compile time right here.
use crate::gen::{gen_dict, gen_sentence, GenCfg};
use crate::rng::Rng;
use crate::tok::{build_dict, tokens_obs};
use std::io::Write;
use vibrato::Tokenizer;

fn assert_send_sync<T: Send + Sync>() {}

pub fn run(seed: u64, n: usize, out: &mut dyn Write) {
    assert_send_sync::<Tokenizer>();
    assert_send_sync::<vibrato::Dictionary>();
    let mut rng = Rng::new(seed ^ 0x746872);
    let mut made = 0;
    while made < n {
        let mut cfg = GenCfg::default();
        cfg.kind = None;
        let mut drng = rng.fork();
        let d = gen_dict(&mut drng, &cfg);
        let dict = match build_dict(&d) {
            Some(Ok(x)) => x,
            _ => continue,
        };
        let ign = d.has_space && rng.chance(1, 2);
        let tokenizer = match Tokenizer::new(dict).ignore_space(ign) {
            Ok(t) => t.max_grouping_len(*rng.pick(&[0usize, 2, 24])),
            Err(_) => continue,
        };
        let streams: Vec<Vec<String>> = (0..16)
            .map(|_| {
                let mut srng = rng.fork();
                (0..20).map(|_| gen_sentence(&mut srng, &d, &cfg, 6)).collect()
            })
            .collect();
        // sequential reference: a fresh worker per sentence
        let reference: Option<Vec<Vec<String>>> = crate::wire::guarded(|| {
            streams
                .iter()
                .map(|ss| {
                    ss.iter()
                        .map(|s| {
                            let mut w = tokenizer.new_worker();
                            w.reset_sentence(s);
                            w.tokenize();
                            tokens_obs(&w)
                        })
                        .collect()
                })
                .collect()
        });
        let reference = match reference {
            Some(r) => r,
            None => continue, // uncovered category etc.: not a concurrency case
        };
        let tk = &tokenizer;
        let results: Vec<Option<Vec<String>>> = std::thread::scope(|sc| {
            let handles: Vec<_> = streams
                .iter()
                .map(|ss| {
                    sc.spawn(move || {
                        let mut w = tk.new_worker();
                        ss.iter()
                            .map(|s| {
                                w.reset_sentence(s);
                                w.tokenize();
                                tokens_obs(&w)
                            })
                            .collect::<Vec<String>>()
                    })
                })
                .collect();
            handles.into_iter().map(|h| h.join().ok()).collect()
        });
        let same = results.iter().zip(&reference).all(|(a, b)| a.as_ref() == Some(b));
        writeln!(out, "threads {seed}.{made} WORKERS 16 SENTENCES 20 KIND {} IMPL {}", d.kind, if same { "same-as-sequential" } else { "differs" }).unwrap();
        made += 1;
    }
}
