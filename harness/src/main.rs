//! vharness: drives the real vibrato implementation on generated cases and prints
//! one protocol line per case (input + implementation observation).
mod cli;
mod conn;
mod corpus;
mod csvs;
mod evalsplit;
mod extract;
mod trainer;
mod trainnew;
mod gen;
mod image;
mod limits;
mod mapimg;
mod replay;
mod rewrite;
mod rng;
mod threads;
mod tok;
mod wire;

use gen::{gen_dict, gen_perm, gen_sentence, DictSrc, GenCfg};
use rng::Rng;
use std::io::Write;
use tok::{DOp, WOp};

/// Profile `u16` of the stream `tok`: boundaries holding about 65536 nodes (`Node.min_idx` is a `u16`).
/// A lexicon with `rows` homographs of `a` (all cost 100 except the one at `cheap`, cost 1), a word `b`;
/// sentence `ab`.  Up to 65536 nodes the stored back pointer is exact; from 65537 on it wraps (known
/// finding F15).  The case with exactly 65536 rows keeps the cheapest row away from index 65535, which a
/// debug build rejects with `debug_assert_ne!(min_idx, INVALID_IDX)` although release builds are right.
/// The dictionary is not sent (2.4 MB per case, and the CSV model is quadratic): the Lean driver rebuilds
/// the lattice environment from (rows, cheap), see Driver/Tok16.lean.
pub fn tok16_obs(rows: usize, cheap: usize) -> String {
    let mut lex = String::new();
    for i in 0..rows {
        lex.push_str(&format!("a,0,0,{},r{i}\n", if i == cheap { 1 } else { 100 }));
    }
    lex.push_str("b,0,0,5,B\n");
    let d = DictSrc {
        kind: 0,
        lex: lex.into_bytes(),
        matrix: b"1 1\n0 0 0\n".to_vec(),
        right: vec![],
        left: vec![],
        cost: vec![],
        chardef: b"DEFAULT 0 1 0\n".to_vec(),
        unk: b"DEFAULT,0,0,1000,unk\n".to_vec(),
        num_right: 1,
        num_left: 1,
        cates: vec![],
        surfaces: vec!["a".into(), "b".into()],
        has_space: false,
        space_chars: vec![],
    };
    match tok::build_dict(&d) {
        Some(Ok(dict)) => {
            let wops = vec![WOp::Reset("ab".into()), WOp::Tokenize, WOp::QueryTokens];
            let obs = tok::run_case(dict, &[], false, 0, &wops);
            if obs.is_empty() { "-".to_string() } else { obs.join(" ; ") }
        }
        Some(Err(())) => "builderr".to_string(),
        None => "buildpanic".to_string(),
    }
}

fn tok_u16(seed: u64, n: usize, out: &mut dyn Write) {
    let fam: [(usize, usize); 5] = [(65536, 7), (65537, 65536), (65535, 65534), (65541, 65539), (65537, 3)];
    for (k, (rows, cheap)) in fam.iter().enumerate() {
        if k >= n {
            break;
        }
        writeln!(out, "tok16 {seed}.u{k} {rows} {cheap} IMPL {} ## ROWS={rows} CHEAP={cheap}", tok16_obs(*rows, *cheap)).unwrap();
    }
}

pub fn chain_obs(len: usize, w: i64, c: i64) -> String {
    let (len, w, c) = (&len, &w, &c);
    let lex = format!("a,0,0,{w},A\n");
    let matrix = format!("1 1\n0 0 {c}\n");
    let obs = crate::wire::guarded(|| {
        let dict = vibrato::SystemDictionaryBuilder::from_readers(lex.as_bytes(), matrix.as_bytes(), &b"DEFAULT 0 1 0\n"[..], &b"DEFAULT,0,0,1000,unk\n"[..]).ok()?;
        let tokenizer = vibrato::Tokenizer::new(dict);
        let mut worker = tokenizer.new_worker();
        worker.reset_sentence("a".repeat(*len));
        worker.tokenize();
        let nt = worker.num_tokens();
        let mut ok = true;
        let mut last = 0i64;
        for i in 0..nt {
            let t = worker.token(i);
            last = t.total_cost() as i64;
            ok &= t.surface() == "a" && last == (i as i64 + 1) * (w + c);
        }
        Some(format!("ok {nt} {last} {}", ok as u8))
    });
    let obs = match obs {
        None => "panic".to_string(),
        Some(None) => "err".to_string(),
        Some(Some(x)) => x,
    };
    obs
}

/// Stream `tokchain` (C02, "costs within 32-bit range"): a sentence of `len` copies of the only word `a` (word cost `w`,
/// connection cost `c` everywhere): one segmentation, accumulated costs up to just below 2^31.
/// `tokchain <id> <len> <w> <c> IMPL ok <tokens> <total_cost of the last token> <every total_cost is (i+1)*(w+c)> | panic`
fn tok_chain(seed: u64, n: usize, out: &mut dyn Write) {
    let fam: [(usize, i64, i64); 4] = [(40000, 32767, 1), (65000, 32767, 255), (30000, -32768, -300), (12, 5, -7)];
    for (k, (len, w, c)) in fam.iter().enumerate() {
        if k >= n {
            break;
        }
        let obs = chain_obs(*len, *w, *c);
        writeln!(out, "tokchain {seed}.c{k} {len} {w} {c} IMPL {obs}").unwrap();
    }
}

fn tok_profile(profile: &str, seed: u64, n: usize, out: &mut dyn Write) {
    if profile == "u16" {
        return tok_u16(seed, n, out);
    }
    let mut rng = Rng::new(seed ^ 0x746f6b);
    let mut made = 0usize;
    let mut dict_no = 0usize;
    while made < n {
        let mut cfg = GenCfg::default();
        cfg.kind = Some(0);
        match profile {
            "c12" => cfg.space_pre = true,
            "nul" => cfg.nul_in_sentence = true,
            "c11" => cfg.big_homographs = true,
            "c07tok" => cfg.kind = Some(1 + rng.below(2) as u8),
            "c01" => {
                cfg.kind = if rng.chance(1, 3) { None } else { Some(0) };
                // costs near the limits of their types: word and matrix costs around +-30000 (i16), raw bigram entries around
                // +-60000 (i32), so that prefix costs at one boundary differ by more than 2^15 and connection costs leave i16
                if rng.chance(1, 5) {
                    cfg.cost_mag = 30000;
                    if rng.chance(1, 2) {
                        cfg.kind = Some(1);
                    }
                }
            }
            // costs at the limits of their types throughout (C02: "costs within 32-bit range"): raw connector two times out of three
            "c02x" => {
                cfg.cost_mag = 30000;
                cfg.kind = Some(if rng.chance(2, 3) { 1 } else { 0 });
            }
            "c06" | "c08" => {
                cfg.kind = if rng.chance(2, 3) { None } else { Some(0) };
                cfg.max_ids = 6;
            }
            // many connection ids: the sort of compute_probs works on slices past the small-sort threshold, with many ties
            "c13" if rng.chance(1, 5) => cfg.max_ids = *rng.pick(&[34usize, 48, 70, 130]),
            "mixed" => cfg.kind = None,
            _ => {}
        }
        let mut drng = rng.fork();
        if profile == "c10" {
            cfg.cover_unk = drng.chance(9, 10);
            // a third of the dictionaries go through from_readers_with_bigram_info (raw or dual connector)
            if drng.chance(1, 3) {
                cfg.kind = Some(1 + drng.below(2) as u8);
            }
        }
        let mut d = gen_dict(&mut drng, &cfg);
        let mut corruption = String::new();
        if profile == "c10" && drng.chance(5, 6) {
            corruption = corrupt(&mut drng, &mut d);
        }
        let dname = format!("d{seed}_{dict_no}");
        dict_no += 1;
        let (line, dict) = tok::def_line(&dname, &d);
        if profile == "c10" {
            writeln!(out, "{line} ## CORRUPTION={}", if corruption.is_empty() { "none" } else { &corruption }).unwrap();
            made += 1;
        } else {
            writeln!(out, "{line}").unwrap();
        }
        if dict.is_none() {
            continue;
        }
        drop(dict);
        let per_dict = if profile == "c10" { 3 } else { 6 + rng.below(10) };
        for case_no in 0..per_dict {
            let first_case_of_dict = case_no == 0;
            if made >= n {
                break;
            }
            let mut crng = rng.fork();
            let id = format!("{seed}.{made}");
            let dict = match tok::build_dict(&d) {
                Some(Ok(x)) => x,
                _ => break,
            };
            let ign = d.has_space && crng.chance(1, 2) || (profile == "c12");
            let ign = if !d.has_space && crng.chance(1, 10) { true } else { ign };
            let maxg = *crng.pick(&[0usize, 0, 1, 2, 3, 24]);
            let mut dops = vec![];
            let mut wops = vec![];
            match profile {
                "c04" | "c13" => {
                    if profile == "c13" || crng.chance(1, 2) {
                        wops.push(WOp::InitCounter);
                    }
                    let steps = 2 + crng.below(8);
                    let mut counter = wops.len() == 1;
                    for _ in 0..steps {
                        match crng.below(10) {
                            0..=4 => {
                                let s = if crng.chance(1, 6) { String::new() } else { gen_sentence(&mut crng, &d, &cfg, 5) };
                                wops.push(WOp::Reset(s));
                                wops.push(WOp::Tokenize);
                                wops.push(WOp::QueryTokens);
                                if counter && crng.chance(3, 4) {
                                    wops.push(WOp::UpdateCounts);
                                    wops.push(WOp::Counts);
                                }
                            }
                            5 => wops.push(WOp::Tokenize),
                            6 => wops.push(WOp::QueryTokens),
                            7 => {
                                let s = gen_sentence(&mut crng, &d, &cfg, 3);
                                wops.push(WOp::Reset(s));
                                wops.push(WOp::QueryTokens);
                            }
                            8 => {
                                if counter {
                                    wops.push(WOp::Probs);
                                } else {
                                    wops.push(WOp::InitCounter);
                                    counter = true;
                                }
                            }
                            _ => wops.push(WOp::Lattice),
                        }
                    }
                    if counter {
                        wops.push(WOp::Probs);
                    }
                }
                "c12" => {
                    // half of the families carry a user lexicon (surfaces free of spaces, as the precondition demands)
                    if crng.chance(1, 2) {
                        let mut pool = d.surfaces.clone();
                        let nrows = 1 + crng.below(4);
                        let csv = gen::gen_lex_rows(&mut crng, nrows, d.num_left, d.num_right, 40, false, &mut pool);
                        dops.push(DOp::User(csv.into_bytes()));
                    }
                    // one family: the same segments re-spaced in several ways
                    let nseg = crng.below(4);
                    let mut segs: Vec<String> = vec![];
                    for _ in 0..nseg {
                        let mut w = String::new();
                        for _ in 0..1 + crng.below(3) {
                            if !d.surfaces.is_empty() && crng.chance(1, 2) {
                                w.push_str(&d.surfaces[crng.below(d.surfaces.len())]);
                            } else {
                                loop {
                                    let ch = *crng.pick(gen::ALPHA);
                                    if ch != ' ' && ch != '\u{3000}' {
                                        w.push(ch);
                                        break;
                                    }
                                }
                            }
                        }
                        segs.push(w);
                    }
                    let variants = 3 + crng.below(4);
                    for _ in 0..variants {
                        let mut sent = String::new();
                        // runs of the characters that THIS dictionary puts into SPACE
                        let sp: Vec<char> = if d.space_chars.is_empty() { vec![' ', '\u{3000}'] } else { d.space_chars.clone() };
                        let run = |rng: &mut Rng, min: usize| -> String {
                            let n = min + rng.below(3);
                            (0..n).map(|_| if rng.chance(1, 3) { sp[sp.len() - 1] } else { sp[0] }).collect()
                        };
                        sent.push_str(&run(&mut crng, 0));
                        for (k, sg) in segs.iter().enumerate() {
                            if k > 0 {
                                sent.push_str(&run(&mut crng, 1));
                            }
                            sent.push_str(sg);
                        }
                        sent.push_str(&run(&mut crng, 0));
                        wops.extend([WOp::Reset(sent), WOp::Tokenize, WOp::QueryTokens]);
                    }
                }
                "c06" | "c08" | "c05" => {
                    let mut k = 1 + crng.below(4);
                    if (profile == "c06" && crng.chance(1, 3)) || (profile == "c08" && crng.chance(1, 6)) {
                        // structured: several mappings (likely non-commuting), then a user lexicon, maybe a round trip
                        k = 0;
                        for _ in 0..2 + crng.below(2) {
                            dops.push(DOp::Map(gen_perm(&mut crng, d.num_left), gen_perm(&mut crng, d.num_right)));
                            if crng.chance(1, 4) {
                                dops.push(DOp::WriteRead);
                            }
                        }
                        let mut pool = d.surfaces.clone();
                        let nrows = 2 + crng.below(4);
                        let csv = gen::gen_lex_rows(&mut crng, nrows, d.num_left, d.num_right, 40, true, &mut pool);
                        dops.push(DOp::User(csv.into_bytes()));
                        if crng.chance(1, 3) {
                            dops.push(DOp::Map(gen_perm(&mut crng, d.num_left), gen_perm(&mut crng, d.num_right)));
                        }
                    }
                    for _ in 0..k {
                        match crng.below(if profile == "c08" { 4 } else { 6 }) {
                            0 | 1 => {
                                // user lexicon
                                let mut pool = d.surfaces.clone();
                                // out-of-range ids on either side, also in the gap between the two dimensions of a non-square
                                // connector (a right id below the number of LEFT ids and vice versa)
                                let bad = crng.chance(1, 6);
                                let (nl, nr) = if !bad {
                                    (d.num_left, d.num_right)
                                } else {
                                    match crng.below(4) {
                                        0 => (d.num_left + 1, d.num_right),
                                        1 => (d.num_left, d.num_right + 1),
                                        2 => (d.num_left, d.num_left.max(d.num_right + 1)),
                                        _ => (d.num_right.max(d.num_left + 1), d.num_right),
                                    }
                                };
                                let nrows = 1 + crng.below(4);
                                let mut csv = gen::gen_lex_rows(&mut crng, nrows, nl, nr, 40, true, &mut pool);
                                if crng.chance(1, 6) {
                                    // structural rows (empty surface, short row, lone quote …), mostly at the end
                                    let rows = [",0,0,0,x", ",0,0,0,", "", ",", "a,0", "a,0,0,0", ",0,0", "\"a", ",1"];
                                    for _ in 0..1 + crng.below(2) {
                                        csv.push_str(rows[crng.below(rows.len())]);
                                        csv.push('\n');
                                    }
                                    if crng.chance(1, 2) {
                                        csv.pop();
                                    }
                                }
                                dops.push(DOp::User(csv.into_bytes()));
                            }
                            2 => {
                                // clearing, or (now and then) a user file that is empty / only blank lines: an error, and in no
                                // case a way of keeping the previous user lexicon
                                if crng.chance(1, 3) {
                                    dops.push(DOp::User(crng.pick(&[&b""[..], &b"\n"[..], &b"\r\n\r\n"[..], &b" \n"[..]]).to_vec()));
                                } else {
                                    dops.push(DOp::UserNone);
                                }
                            }
                            3 | 4 => {
                                let mut l = gen_perm(&mut crng, d.num_left);
                                let mut r = gen_perm(&mut crng, d.num_right);
                                if crng.chance(1, 6) {
                                    // malformed
                                    match crng.below(5) {
                                        0 => l.push(0),
                                        1 => { if !r.is_empty() { let x = r[0]; r.push(x); } else { r.push(1); } }
                                        2 => { l.pop(); }
                                        3 => r.push(r.len() as u16 + 1),
                                        _ => { if !l.is_empty() { l[0] = l.len() as u16 + 3; } else { l.push(7); } }
                                    }
                                }
                                dops.push(DOp::Map(l, r));
                            }
                            _ => dops.push(DOp::WriteRead),
                        }
                    }
                    // the sentence draws from the system surfaces AND from the surfaces of the user lexicons of the history
                    let mut d2 = d.clone();
                    for op in &dops {
                        if let DOp::User(b) = op {
                            for row in String::from_utf8_lossy(b).lines() {
                                let cell = if row.starts_with('"') {
                                    row[1..].split("\",").next().unwrap_or("").replace("\"\"", "\"")
                                } else {
                                    row.split(',').next().unwrap_or("").to_string()
                                };
                                if !cell.is_empty() {
                                    d2.surfaces.push(cell);
                                }
                            }
                        }
                    }
                    let s = gen_sentence(&mut crng, &d2, &cfg, 6);
                    wops.extend([WOp::Reset(s), WOp::Tokenize, WOp::QueryTokens, WOp::Lattice]);
                }
                _ => {
                    // one third of the cases carry a user lexicon (and sometimes an id mapping)
                    if crng.chance(1, 3) {
                        let mut pool = d.surfaces.clone();
                        let nrows = 1 + crng.below(4);
                        let csv = gen::gen_lex_rows(&mut crng, nrows, d.num_left, d.num_right, 40, !cfg.space_pre, &mut pool);
                        dops.push(DOp::User(csv.into_bytes()));
                        if crng.chance(1, 3) {
                            dops.push(DOp::Map(gen_perm(&mut crng, d.num_left), gen_perm(&mut crng, d.num_right)));
                        }
                    }
                    // one third of the cases reuse the worker for several sentences
                    let nsent = if crng.chance(1, 3) { 2 + crng.below(2) } else { 1 };
                    for si in 0..nsent {
                        let mut s = gen_sentence(&mut crng, &d, &cfg, 7);
                        // c10 profile: the first sentence of a dictionary's first case contains every lexicon surface once (an accepted
                        // dictionary must be usable through EVERY entry it accepted)
                        if profile == "c10" && si == 0 && first_case_of_dict {
                            let mut all: Vec<String> = d.surfaces.clone();
                            all.sort();
                            all.dedup();
                            crng.shuffle(&mut all);
                            s = all.concat() + &s;
                        }
                        wops.extend([WOp::Reset(s), WOp::Tokenize, WOp::QueryTokens, WOp::Lattice]);
                    }
                }
            }
            // a fifth of the cases set the tokenizer's options more than once: every setter overwrites, so only the final
            // values may count (`ignore_space(true)` then `ignore_space(false)` must switch the option off again)
            let mut hist = String::new();
            if profile != "c10" && crng.chance(1, 5) {
                hist.push('H');
                for _ in 0..1 + crng.below(3) {
                    if crng.chance(1, 2) {
                        // ignore_space(true) only where it cannot fail, so that the history does not change the outcome class too often
                        let b = if d.has_space { crng.below(2) } else { usize::from(crng.chance(1, 8)) };
                        hist.push_str(&format!("i{b}"));
                    } else {
                        hist.push_str(&format!("m{}", crng.pick(&[0usize, 1, 2, 5, 24])));
                    }
                }
            }
            let line = tok::case_line_hist(&id, &dname, dict, &dops, &hist, ign, maxg, &wops);
            writeln!(out, "{line}").unwrap();
            made += 1;
        }
    }
}

/// Single-edit corruptions of valid definition files (stream `tok c10`).
fn corrupt(rng: &mut Rng, d: &mut gen::DictSrc) -> String {
    let which = rng.below(4);
    // for raw / dual dictionaries the connector slot is one of the three bigram files
    let bigram_file = if d.kind != 0 { 1 + rng.below(3) } else { 0 };
    let name = if which == 1 && d.kind != 0 { ["", "bigram.right", "bigram.left", "bigram.cost"][bigram_file] } else { ["lex", "matrix", "char", "unk"][which] };
    let (nl, nr) = (d.num_left, d.num_right);
    let file: &mut Vec<u8> = match (which, bigram_file) {
        (0, _) => &mut d.lex,
        (1, 0) => &mut d.matrix,
        (1, 1) => &mut d.right,
        (1, 2) => &mut d.left,
        (1, _) => &mut d.cost,
        (2, _) => &mut d.chardef,
        _ => &mut d.unk,
    };
    let mut bytes = std::mem::take(file);
    let kind = rng.below(18);
    let label;
    match kind {
        0 => {
            bytes.clear();
            label = "empty";
        }
        1 if !bytes.is_empty() => {
            let p = rng.below(bytes.len());
            bytes.remove(p);
            label = "delete-byte";
        }
        2 => {
            let p = rng.below(bytes.len() + 1);
            bytes.insert(p, *rng.pick(&[b',', b' ', b'\n', b'\r', b'0', b'9', b'x', b'#', b'"', b'-', b'.', 0xff, 0xe3]));
            label = "insert-byte";
        }
        3 if !bytes.is_empty() => {
            let p = rng.below(bytes.len());
            bytes[p] = *rng.pick(&[b',', b' ', b'\n', b'1', b'7', b'Z', b'\t', 0x80]);
            label = "replace-byte";
        }
        4 if !bytes.is_empty() => {
            let p = rng.below(bytes.len());
            bytes.truncate(p);
            label = "cut";
        }
        5 => {
            // drop or duplicate a field of a random line
            let text = String::from_utf8_lossy(&bytes).to_string();
            let mut lines: Vec<String> = text.lines().map(|l| l.to_string()).collect();
            if !lines.is_empty() {
                let li = rng.below(lines.len());
                let sep = if which == 0 || which == 3 { ',' } else { ' ' };
                let mut cols: Vec<String> = lines[li].split(sep).map(|c| c.to_string()).collect();
                let ci = rng.below(cols.len());
                if rng.chance(1, 2) {
                    cols.remove(ci);
                } else {
                    let c = cols[ci].clone();
                    cols.insert(ci, c);
                }
                lines[li] = cols.join(&sep.to_string());
            }
            bytes = (lines.join("\n") + "\n").into_bytes();
            label = "drop-or-dup-field";
        }
        6 => {
            let text = String::from_utf8_lossy(&bytes).to_string();
            let mut lines: Vec<&str> = text.lines().collect();
            if lines.len() >= 2 {
                let a = rng.below(lines.len());
                let b = rng.below(lines.len());
                lines.swap(a, b);
            }
            bytes = (lines.join("\n") + "\n").into_bytes();
            label = "swap-lines";
        }
        7 => {
            // a number out of range
            let text = String::from_utf8_lossy(&bytes).to_string();
            let big = *rng.pick(&["65536", "70000", "-1", "32768", "-32769", "99999999999999999999", "+3", "1.5", "0x1", "65535", "65534", "65535",
                                  // around the widths of usize: products such as `left_id * num_right` must not be formed before the range check
                                  "9223372036854775808", "18446744073709551615", "18446744073709551616", "4611686018427387904", "4294967296"]);
            let mut out = String::new();
            let mut done = false;
            for tok in text.split_inclusive(|c: char| c == ',' || c == ' ' || c == '\n') {
                let core = tok.trim_end_matches(|c: char| c == ',' || c == ' ' || c == '\n');
                if !done && !core.is_empty() && core.chars().all(|c| c.is_ascii_digit() || c == '-') && rng.chance(1, 3) {
                    out.push_str(big);
                    out.push_str(&tok[core.len()..]);
                    done = true;
                } else {
                    out.push_str(tok);
                }
            }
            bytes = out.into_bytes();
            label = "number-out-of-range";
        }
        8 => {
            bytes = String::from_utf8_lossy(&bytes).replace('\n', "\r\n").into_bytes();
            label = "crlf";
        }
        9 => {
            let mut b = vec![0xef, 0xbb, 0xbf];
            b.extend_from_slice(&bytes);
            bytes = b;
            label = "bom";
        }
        10 => {
            while bytes.last() == Some(&b'\n') {
                bytes.pop();
            }
            label = "no-final-newline";
        }
        11 => {
            bytes.extend_from_slice(b"\n\n");
            label = "trailing-blank-lines";
        }
        12 => {
            // targeted: undefined names
            let s = String::from_utf8_lossy(&bytes).replace("SPACE", "SPACEX").replacen("DEFAULT", "DEFAULTX", 1);
            bytes = s.into_bytes();
            label = "undefined-name";
        }
        13 | 16 | 17 if which == 0 || which == 3 => {
            // a connection id exactly at a boundary of the connector (numLeft, numRight, or one below the larger)
            let text = String::from_utf8_lossy(&bytes).to_string();
            let mut lines: Vec<String> = text.lines().map(|l| l.to_string()).collect();
            if !lines.is_empty() {
                let li = rng.below(lines.len());
                let mut cols: Vec<String> = lines[li].split(',').map(|c| c.to_string()).collect();
                if cols.len() >= 4 {
                    let side = 1 + rng.below(2); // 1 = left id column, 2 = right id column
                    // mostly the first id that is out of range on that very side
                    let own = if side == 1 { nl } else { nr };
                    let v = if rng.chance(2, 3) { own } else { *rng.pick(&[nl, nr, nl.max(nr) - 1, nl.min(nr), 65535, 65534]) };
                    cols[side] = v.to_string();
                    lines[li] = cols.join(",");
                }
            }
            bytes = (lines.join("\n") + "\n").into_bytes();
            label = "id-at-connector-boundary";
        }
        15 if which == 0 || which == 3 => {
            // structural rows of the csv dialect: empty surfaces (skipped by the parser), short rows, lone quotes,
            // rows of commas; one to three of them, mostly at the end of the file, with or without a final newline
            let text = String::from_utf8_lossy(&bytes).to_string();
            let mut lines: Vec<String> = text.lines().map(|l| l.to_string()).collect();
            let rows = [",0,0,0,x", ",0,0,0,", "", ",", ",,,,", "a,0", "a,0,0", "a,0,0,0", ",0,0", "\"a", "b,0,0,0,\"q", ",1", ",0,0,0,x,y"];
            for _ in 0..1 + rng.below(3) {
                let at = if rng.chance(2, 3) { lines.len() } else { rng.below(lines.len() + 1) };
                lines.insert(at, rows[rng.below(rows.len())].to_string());
            }
            let mut b = lines.join("\n").into_bytes();
            if rng.chance(1, 2) {
                b.push(b'\n');
            }
            bytes = b;
            label = "csv-structural-rows";
        }
        14 if which == 1 && bigram_file == 0 => {
            // a body row whose one id is valid and whose other id is near the width of usize (the index `left * num_right + right`
            // must not be formed before both ids are checked)
            let huge = *rng.pick(&["9223372036854775808", "18446744073709551615", "4611686018427387904", "6148914691236517206", "18446744073709551616"]);
            let row = match rng.below(4) {
                0 => format!("{} {huge} 5\n", rng.below(nr.max(1))),
                1 => format!("{huge} {} 5\n", rng.below(nl.max(1))),
                // an id that is in range for the OTHER side only (non-square connector): right id in [num_right, num_left) ...
                2 => format!("{} {} 5\n", nr + rng.below(nl.saturating_sub(nr).max(1)), rng.below(nl.max(1))),
                // ... or left id in [num_left, num_right)
                _ => format!("{} {} 5\n", rng.below(nr.max(1)), nl + rng.below(nr.saturating_sub(nl).max(1))),
            };
            if bytes.last().map_or(false, |b| *b != b'\n') {
                bytes.push(b'\n');
            }
            bytes.extend_from_slice(row.as_bytes());
            label = "matrix-row-id-near-usize";
        }
        13 if which == 2 => {
            let extra = *rng.pick(&[
                "BIG 0 0 16\n", "BIG 1 1 65535\n", "0x0041 DEFAULT UNDEFINED\n", "0x0041 #nothing\n", "0x0041\n",
                "0x0041..0x0040 DEFAULT\n", "0x10000 DEFAULT\n", "0xFFFF..0x10000 DEFAULT\n", "0x..0x41 DEFAULT\n",
                "0xFFFFFFFFFFFFFFFFF DEFAULT\n", "X 2 0 0\n", "X 0 0\n",
            ]);
            bytes.extend_from_slice(extra.as_bytes());
            label = "chardef-targeted";
        }
        14 | 15 | 16 if which == 2 => {
            // many categories (the limit is 18: both sides of it are drawn often)
            let n = *rng.pick(&[17usize, 18, 18, 19, 19, 20, 30, 40, 260]);
            let mut s = String::new();
            for i in 0..n {
                s.push_str(&format!("M{i} 0 1 0\n"));
            }
            s.push_str(&format!("0x0061 M{}\n", n - 1));
            bytes.extend_from_slice(s.as_bytes());
            label = "chardef-many-categories";
        }
        _ => {
            let p = rng.below(bytes.len() + 1);
            let junk: Vec<u8> = (0..1 + rng.below(6)).map(|_| rng.below(256) as u8).collect();
            for (k, b) in junk.iter().enumerate() {
                bytes.insert(p + k, *b);
            }
            label = "random-bytes";
        }
    }
    *file = bytes;
    format!("{name}:{label}")
}

fn main() {
    // panics of the code under test are observations, not noise (VERIF_PANIC_MSG=1 prints where they happen)
    if std::env::var("VERIF_PANIC_MSG").is_ok() {
        std::panic::set_hook(Box::new(|info| eprintln!("PANIC: {info}")));
    } else {
        std::panic::set_hook(Box::new(|_| {}));
    }
    let args: Vec<String> = std::env::args().collect();
    if args.len() < 2 {
        eprintln!("usage: vharness <stream> ...");
        std::process::exit(2);
    }
    let stdout = std::io::stdout();
    let mut out = std::io::BufWriter::new(stdout.lock());
    match args[1].as_str() {
        "tok" => {
            let profile = &args[2];
            let seed: u64 = args[3].parse().unwrap();
            let n: usize = args[4].parse().unwrap();
            tok_profile(profile, seed, n, &mut out);
        }
        "rewrite" => {
            let seed: u64 = args[2].parse().unwrap();
            let n: usize = args[3].parse().unwrap();
            rewrite::run(seed, n, &mut out);
        }
        "image" => {
            let seed: u64 = args[3].parse().unwrap();
            let n: usize = args[4].parse().unwrap();
            image::run(&args[2], seed, n, &mut out);
        }
        "csv" => {
            let seed: u64 = args[2].parse().unwrap();
            let n: usize = args[3].parse().unwrap();
            csvs::run(seed, n, &mut out);
        }
        "threads" => {
            let seed: u64 = args[2].parse().unwrap();
            let n: usize = args[3].parse().unwrap();
            threads::run(seed, n, &mut out);
        }
        "evalsplit" => {
            let seed: u64 = args[2].parse().unwrap();
            let n: usize = args[3].parse().unwrap();
            evalsplit::run(seed, n, &mut out);
        }
        "replayfile" => {
            replay::run(&args[2], &mut out);
        }
        "conn" => {
            let seed: u64 = args[2].parse().unwrap();
            let n: usize = args[3].parse().unwrap();
            conn::run_conn(seed, n, &mut out);
        }
        "conn3" => {
            let seed: u64 = args[2].parse().unwrap();
            let n: usize = args[3].parse().unwrap();
            conn::run_conn3(seed, n, &mut out);
        }
        "scorer" => {
            let seed: u64 = args[2].parse().unwrap();
            let n: usize = args[3].parse().unwrap();
            conn::run_scorer(seed, n, &mut out);
        }
        "extract" => {
            let seed: u64 = args[2].parse().unwrap();
            let n: usize = args[3].parse().unwrap();
            let only_mecab = args.get(4).map(|x| x == "mecab").unwrap_or(false);
            extract::run(seed, n, only_mecab, &mut out);
        }
        "train" => match args[2].as_str() {
            "replay" => trainer::replay(&mut out),
            "probes" => trainer::probes(&mut out),
            "f27" => trainer::f27(&mut out),
            mode => {
                let seed: u64 = args[3].parse().unwrap();
                let n: usize = args[4].parse().unwrap();
                trainer::run(mode, seed, n, &mut out);
            }
        },
        "trainnew" => {
            let seed: u64 = args[2].parse().unwrap();
            let n: usize = args[3].parse().unwrap();
            trainnew::run(seed, n, &mut out);
        }
        "tokchain" => {
            let seed: u64 = args[2].parse().unwrap();
            let n: usize = args[3].parse().unwrap();
            tok_chain(seed, n, &mut out);
        }
        "mapimg" => {
            let seed: u64 = args[2].parse().unwrap();
            let n: usize = args[3].parse().unwrap();
            mapimg::run(seed, n, &mut out);
        }
        "limits" => {
            let seed: u64 = args[2].parse().unwrap();
            let n: usize = args[3].parse().unwrap();
            limits::run(seed, n, &mut out);
        }
        "cli" => {
            let seed: u64 = args[2].parse().unwrap();
            let n: usize = args[3].parse().unwrap();
            cli::run(seed, n, &mut out);
        }
        "corpus" => {
            let seed: u64 = args[2].parse().unwrap();
            let n: usize = args[3].parse().unwrap();
            corpus::run(seed, n, &mut out);
        }
        other => {
            eprintln!("unknown stream {other}");
            std::process::exit(2);
        }
    }
}
