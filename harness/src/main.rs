//! vharness: drives the real vibrato implementation on generated cases and prints
//! one protocol line per case (input + implementation observation).
mod corpus;
mod gen;
mod image;
mod rewrite;
mod rng;
mod tok;
mod wire;

use gen::{gen_dict, gen_perm, gen_sentence, GenCfg};
use rng::Rng;
use std::io::Write;
use tok::{DOp, WOp};

fn tok_profile(profile: &str, seed: u64, n: usize, out: &mut dyn Write) {
    let mut rng = Rng::new(seed ^ 0x746f6b);
    let mut made = 0usize;
    let mut dict_no = 0usize;
    while made < n {
        let mut cfg = GenCfg::default();
        cfg.kind = Some(0);
        match profile {
            "c12" => cfg.space_pre = true,
            "c07tok" => cfg.kind = Some(1 + rng.below(2) as u8),
            "mixed" => cfg.kind = None,
            _ => {}
        }
        let mut drng = rng.fork();
        let d = gen_dict(&mut drng, &cfg);
        let dname = format!("d{seed}_{dict_no}");
        dict_no += 1;
        let (line, dict) = tok::def_line(&dname, &d);
        writeln!(out, "{line}").unwrap();
        if dict.is_none() {
            continue;
        }
        drop(dict);
        let per_dict = 6 + rng.below(10);
        for _ in 0..per_dict {
            if made >= n {
                break;
            }
            let mut crng = rng.fork();
            let id = format!("{seed}.{made}");
            let dict = match tok::build_dict(&d) {
                Some(Ok(x)) => x,
                _ => break,
            };
            let ign = d.has_space && crng.chance(1, 2) || (profile == "c12");
            let ign = if !d.has_space && crng.chance(1, 10) { true } else { ign };
            let maxg = *crng.pick(&[0usize, 0, 1, 2, 3, 24]);
            let mut dops = vec![];
            let mut wops = vec![];
            match profile {
                "c04" | "c13" => {
                    if profile == "c13" || crng.chance(1, 2) {
                        wops.push(WOp::InitCounter);
                    }
                    let steps = 2 + crng.below(8);
                    let mut counter = wops.len() == 1;
                    for _ in 0..steps {
                        match crng.below(10) {
                            0..=4 => {
                                let s = if crng.chance(1, 6) { String::new() } else { gen_sentence(&mut crng, &d, &cfg, 5) };
                                wops.push(WOp::Reset(s));
                                wops.push(WOp::Tokenize);
                                wops.push(WOp::QueryTokens);
                                if counter && crng.chance(3, 4) {
                                    wops.push(WOp::UpdateCounts);
                                    wops.push(WOp::Counts);
                                }
                            }
                            5 => wops.push(WOp::Tokenize),
                            6 => wops.push(WOp::QueryTokens),
                            7 => {
                                let s = gen_sentence(&mut crng, &d, &cfg, 3);
                                wops.push(WOp::Reset(s));
                                wops.push(WOp::QueryTokens);
                            }
                            8 => {
                                if counter {
                                    wops.push(WOp::Probs);
                                } else {
                                    wops.push(WOp::InitCounter);
                                    counter = true;
                                }
                            }
                            _ => wops.push(WOp::Lattice),
                        }
                    }
                    if counter {
                        wops.push(WOp::Probs);
                    }
                }
                "c06" | "c08" | "c05" => {
                    let k = 1 + crng.below(4);
                    for _ in 0..k {
                        match crng.below(if profile == "c08" { 3 } else { 6 }) {
                            0 | 1 => {
                                // user lexicon
                                let mut pool = d.surfaces.clone();
                                let bad = crng.chance(1, 8);
                                let nl = if bad { d.num_left + 1 } else { d.num_left };
                                let nrows = 1 + crng.below(4);
                                let csv = gen::gen_lex_rows(&mut crng, nrows, nl, d.num_right, 40, true, &mut pool);
                                dops.push(DOp::User(csv.into_bytes()));
                            }
                            2 => dops.push(DOp::UserNone),
                            3 | 4 => {
                                let mut l = gen_perm(&mut crng, d.num_left);
                                let mut r = gen_perm(&mut crng, d.num_right);
                                if crng.chance(1, 6) {
                                    // malformed
                                    match crng.below(5) {
                                        0 => l.push(0),
                                        1 => { if !r.is_empty() { let x = r[0]; r.push(x); } else { r.push(1); } }
                                        2 => { l.pop(); }
                                        3 => r.push(r.len() as u16 + 1),
                                        _ => { if !l.is_empty() { l[0] = l.len() as u16 + 3; } else { l.push(7); } }
                                    }
                                }
                                dops.push(DOp::Map(l, r));
                            }
                            _ => dops.push(DOp::WriteRead),
                        }
                    }
                    let s = gen_sentence(&mut crng, &d, &cfg, 6);
                    wops.extend([WOp::Reset(s), WOp::Tokenize, WOp::QueryTokens, WOp::Lattice]);
                }
                _ => {
                    let s = gen_sentence(&mut crng, &d, &cfg, 7);
                    wops.extend([WOp::Reset(s), WOp::Tokenize, WOp::QueryTokens, WOp::Lattice]);
                }
            }
            let line = tok::case_line(&id, &dname, dict, &dops, ign, maxg, &wops);
            writeln!(out, "{line}").unwrap();
            made += 1;
        }
    }
}

fn main() {
    std::panic::set_hook(Box::new(|_| {}));
    let args: Vec<String> = std::env::args().collect();
    if args.len() < 2 {
        eprintln!("usage: vharness <stream> ...");
        std::process::exit(2);
    }
    let stdout = std::io::stdout();
    let mut out = std::io::BufWriter::new(stdout.lock());
    match args[1].as_str() {
        "tok" => {
            let profile = &args[2];
            let seed: u64 = args[3].parse().unwrap();
            let n: usize = args[4].parse().unwrap();
            tok_profile(profile, seed, n, &mut out);
        }
        "rewrite" => {
            let seed: u64 = args[2].parse().unwrap();
            let n: usize = args[3].parse().unwrap();
            rewrite::run(seed, n, &mut out);
        }
        "image" => {
            let seed: u64 = args[3].parse().unwrap();
            let n: usize = args[4].parse().unwrap();
            image::run(&args[2], seed, n, &mut out);
        }
        "corpus" => {
            let seed: u64 = args[2].parse().unwrap();
            let n: usize = args[3].parse().unwrap();
            corpus::run(seed, n, &mut out);
        }
        other => {
            eprintln!("unknown stream {other}");
            std::process::exit(2);
        }
    }
}
