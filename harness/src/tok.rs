//! Stream `tok`: a dictionary (source files), dictionary-level operations, tokenizer
//! options and a history of worker operations, run against the real implementation.
//!
//! Line formats (tokens separated by one space; byte strings hex, `-` = empty):
//!
//! ```text
//! def <dname> KIND <0|1|2> LEX <hex> MATRIX <hex> RIGHT <hex> LEFT <hex> COST <hex> CHAR <hex> UNK <hex>
//!     IMPL <ok <numRight> <numLeft> <costs row-major r*numLeft+l ...> | err | panic>
//! tok <id> <dname> DOPS <k> <dop>* OPT <ignore_space 0|1> <max_grouping_len> WOPS <k> <wop>* IMPL <obs>
//!   dop := M <nl> <ids..> <nr> <ids..> | U <csv hex> | UN | W
//!   wop := R <sentence hex> | T | Q | L | I | U | P | C
//!   obs := <step-result> ( ' ; ' <step-result> )* | '-'    one per failing step and per Q/L/P/C step; after a DOPS history
//!          with a mapping, first `K <numRight> <numLeft> <costs row-major>` (the connector after the operations, <= 1024 cells)
//! ```
use crate::gen::DictSrc;
use crate::wire::{guarded, hex, hexs};
use vibrato::dictionary::{Dictionary, SystemDictionaryBuilder};
use vibrato::Tokenizer;

#[derive(Clone, Debug)]
pub enum DOp {
    Map(Vec<u16>, Vec<u16>),
    User(Vec<u8>),
    UserNone,
    WriteRead,
}

#[derive(Clone, Debug)]
pub enum WOp {
    Reset(String),
    Tokenize,
    QueryTokens,
    Lattice,
    InitCounter,
    UpdateCounts,
    Probs,
    Counts,
}

pub fn build_dict(d: &DictSrc) -> Option<Result<Dictionary, ()>> {
    guarded(|| {
        if d.kind == 0 {
            SystemDictionaryBuilder::from_readers(
                &d.lex[..],
                &d.matrix[..],
                &d.chardef[..],
                &d.unk[..],
            )
            .map_err(|_| ())
        } else {
            SystemDictionaryBuilder::from_readers_with_bigram_info(
                &d.lex[..],
                &d.right[..],
                &d.left[..],
                &d.cost[..],
                &d.chardef[..],
                &d.unk[..],
                d.kind == 2,
            )
            .map_err(|_| ())
        }
    })
}

pub fn conn_dump(dict: &Dictionary) -> Option<String> {
    guarded(|| {
        let nr = vibrato::verif::num_right(dict);
        let nl = vibrato::verif::num_left(dict);
        let mut s = format!("{nr} {nl}");
        for r in 0..nr {
            for l in 0..nl {
                s.push_str(&format!(" {}", vibrato::verif::conn_cost(dict, r as u16, l as u16)));
            }
        }
        s
    })
}

pub fn def_line(name: &str, d: &DictSrc) -> (String, Option<Dictionary>) {
    let mut line = format!(
        "def {name} KIND {} LEX {} MATRIX {} RIGHT {} LEFT {} COST {} CHAR {} UNK {} IMPL ",
        d.kind,
        hex(&d.lex),
        hex(&d.matrix),
        hex(&d.right),
        hex(&d.left),
        hex(&d.cost),
        hex(&d.chardef),
        hex(&d.unk)
    );
    match build_dict(d) {
        None => {
            line.push_str("panic");
            (line, None)
        }
        Some(Err(())) => {
            line.push_str("err");
            (line, None)
        }
        Some(Ok(dict)) => match conn_dump(&dict) {
            Some(c) => {
                line.push_str("ok ");
                line.push_str(&c);
                (line, Some(dict))
            }
            None => {
                line.push_str("costpanic");
                (line, None)
            }
        },
    }
}

fn dops_str(dops: &[DOp]) -> String {
    let mut s = format!("DOPS {}", dops.len());
    for op in dops {
        match op {
            DOp::Map(l, r) => {
                s.push_str(&format!(" M {}", l.len()));
                for x in l {
                    s.push_str(&format!(" {x}"));
                }
                s.push_str(&format!(" {}", r.len()));
                for x in r {
                    s.push_str(&format!(" {x}"));
                }
            }
            DOp::User(b) => s.push_str(&format!(" U {}", hex(b))),
            DOp::UserNone => s.push_str(" UN"),
            DOp::WriteRead => s.push_str(" W"),
        }
    }
    s
}

fn wops_str(wops: &[WOp]) -> String {
    let mut s = format!("WOPS {}", wops.len());
    for op in wops {
        match op {
            WOp::Reset(x) => s.push_str(&format!(" R {}", hexs(x))),
            WOp::Tokenize => s.push_str(" T"),
            WOp::QueryTokens => s.push_str(" Q"),
            WOp::Lattice => s.push_str(" L"),
            WOp::InitCounter => s.push_str(" I"),
            WOp::UpdateCounts => s.push_str(" U"),
            WOp::Probs => s.push_str(" P"),
            WOp::Counts => s.push_str(" C"),
        }
    }
    s
}

pub fn apply_dops(mut dict: Dictionary, dops: &[DOp], obs: &mut Vec<String>) -> Option<Dictionary> {
    for (i, op) in dops.iter().enumerate() {
        let r = guarded(move || match op {
            DOp::Map(l, r) => dict
                .map_connection_ids_from_iter(l.iter().cloned(), r.iter().cloned())
                .map_err(|_| ()),
            DOp::User(b) => dict
                .reset_user_lexicon_from_reader(Some(&b[..]))
                .map_err(|_| ()),
            DOp::UserNone => dict
                .reset_user_lexicon_from_reader(None::<&[u8]>)
                .map_err(|_| ()),
            DOp::WriteRead => {
                let mut buf = vec![];
                let n = dict.write(&mut buf).map_err(|_| ())?;
                if n != buf.len() {
                    return Err(());
                }
                Dictionary::read(&buf[..]).map_err(|_| ())
            }
        });
        match r {
            None => {
                obs.push(format!("D{i} panic"));
                return None;
            }
            Some(Err(())) => {
                obs.push(format!("D{i} err"));
                return None;
            }
            Some(Ok(d)) => dict = d,
        }
    }
    Some(dict)
}

pub fn tokens_obs(worker: &vibrato::tokenizer::worker::Worker) -> String {
    // the two ways of reading the result, `token(i)` and `token_iter()`, must give the same tokens: when they differ the
    // iterator's reading is reported (`token(i)` is what every other observation uses)
    let a = tokens_obs_from((0..worker.num_tokens()).map(|i| worker.token(i)));
    let b = tokens_obs_from(worker.token_iter());
    if a == b { a } else { b }
}

fn tokens_obs_from<'w, 't: 'w>(it: impl Iterator<Item = vibrato::token::Token<'w, 't>>) -> String {
    let toks: Vec<_> = it.collect();
    let n = toks.len();
    let mut s = format!("ok {n}");
    for t in toks {
        let rc = t.range_char();
        let rb = t.range_byte();
        s.push_str(&format!(
            " {} {} {} {} {} {} {} {} {} {} {} {}",
            rc.start,
            rc.end,
            rb.start,
            rb.end,
            hexs(t.surface()),
            t.lex_type() as u8,
            t.word_idx().word_id,
            t.left_id(),
            t.right_id(),
            t.word_cost(),
            t.total_cost(),
            hexs(t.feature())
        ));
    }
    s
}

fn vnode_str(n: &vibrato::verif::VNode) -> String {
    format!(
        "{} {} {} {} {} {} {} {}",
        n.word_id, n.lex_type, n.start_node, n.start_word, n.left_id, n.right_id, n.min_idx, n.min_cost
    )
}

pub fn lattice_obs(worker: &vibrato::tokenizer::worker::Worker) -> String {
    let (ends, eos) = vibrato::verif::lattice_dump(worker);
    let mut s = format!("lat {}", ends.len());
    for v in &ends {
        s.push_str(&format!(" {}", v.len()));
        for n in v {
            s.push(' ');
            s.push_str(&vnode_str(n));
        }
    }
    match eos {
        Some(n) => {
            s.push_str(" eos ");
            s.push_str(&vnode_str(&n));
        }
        None => s.push_str(" noeos"),
    }
    s
}

/// Runs a whole case; returns the observation string.
pub fn run_case(dict: Dictionary, dops: &[DOp], ign: bool, maxg: usize, wops: &[WOp]) -> Vec<String> {
    run_case_hist(dict, dops, "", ign, maxg, wops)
}

/// `hist`: option settings applied to the tokenizer BEFORE the final ones, `H` followed by items `i0` / `i1`
/// (`ignore_space(false/true)`) and `m<n>` (`max_grouping_len(n)`); empty = none.  Every setter overwrites its
/// option, so the history must not matter (except that `ignore_space(true)` fails without a SPACE category).
pub fn run_case_hist(dict: Dictionary, dops: &[DOp], hist: &str, ign: bool, maxg: usize, wops: &[WOp]) -> Vec<String> {
    let mut obs: Vec<String> = vec![];
    let dict = match apply_dops(dict, dops, &mut obs) {
        Some(d) => d,
        None => return obs,
    };
    // after a history that contains an id mapping: the whole connection-cost table of the resulting dictionary
    // (C06: "connection cost between mapped ids equals the original cost between the original ids", every connector kind)
    if dops.iter().any(|op| matches!(op, DOp::Map(_, _)))
        && vibrato::verif::num_right(&dict) * vibrato::verif::num_left(&dict) <= 1024
    {
        match conn_dump(&dict) {
            Some(c) => obs.push(format!("K {c}")),
            None => {
                obs.push("K panic".to_string());
                return obs;
            }
        }
    }
    let hist = hist.to_string();
    let tokenizer = match guarded(move || -> Result<Tokenizer, ()> {
        let mut t = Tokenizer::new(dict);
        let b = hist.as_bytes();
        let mut i = 1;
        while i < b.len() {
            let k = b[i];
            let mut j = i + 1;
            while j < b.len() && b[j].is_ascii_digit() {
                j += 1;
            }
            let n: usize = hist[i + 1..j].parse().unwrap_or(0);
            t = if k == b'i' { t.ignore_space(n != 0).map_err(|_| ())? } else { t.max_grouping_len(n) };
            i = j;
        }
        t.ignore_space(ign).map_err(|_| ())
    }) {
        None => {
            obs.push("O panic".to_string());
            return obs;
        }
        Some(Err(())) => {
            obs.push("O err".to_string());
            return obs;
        }
        Some(Ok(t)) => t.max_grouping_len(maxg),
    };
    let mut worker = tokenizer.new_worker();
    for (i, op) in wops.iter().enumerate() {
        let r = guarded(|| match op {
            WOp::Reset(s) => {
                worker.reset_sentence(s);
                None
            }
            WOp::Tokenize => {
                worker.tokenize();
                None
            }
            WOp::QueryTokens => Some(tokens_obs(&worker)),
            WOp::Lattice => Some(lattice_obs(&worker)),
            WOp::InitCounter => {
                worker.init_connid_counter();
                None
            }
            WOp::UpdateCounts => {
                worker.update_connid_counts();
                None
            }
            WOp::Probs => {
                let (l, r) = worker.compute_connid_probs();
                let mut s = format!("probs {}", l.len());
                for (id, _) in &l {
                    s.push_str(&format!(" {id}"));
                }
                s.push_str(&format!(" {}", r.len()));
                for (id, _) in &r {
                    s.push_str(&format!(" {id}"));
                }
                Some(s)
            }
            WOp::Counts => match vibrato::verif::connid_counts(&worker) {
                None => Some("counts none".to_string()),
                Some((l, r)) => {
                    let mut s = format!("counts {}", l.len());
                    for x in &l {
                        s.push_str(&format!(" {x}"));
                    }
                    s.push_str(&format!(" {}", r.len()));
                    for x in &r {
                        s.push_str(&format!(" {x}"));
                    }
                    Some(s)
                }
            },
        });
        match r {
            None => {
                obs.push(format!("W{i} panic"));
                return obs;
            }
            Some(None) => {}
            Some(Some(s)) => {
                obs.push(format!("W{i} {s}"));
            }
        }
    }
    obs
}

pub fn case_line(id: &str, dname: &str, dict: Dictionary, dops: &[DOp], ign: bool, maxg: usize, wops: &[WOp]) -> String {
    case_line_hist(id, dname, dict, dops, "", ign, maxg, wops)
}

pub fn case_line_hist(
    id: &str,
    dname: &str,
    dict: Dictionary,
    dops: &[DOp],
    hist: &str,
    ign: bool,
    maxg: usize,
    wops: &[WOp],
) -> String {
    let obs = run_case_hist(dict, dops, hist, ign, maxg, wops);
    format!(
        "tok {id} {dname} {} OPT {} {maxg}{}{hist} {} IMPL {}",
        dops_str(dops),
        ign as u8,
        if hist.is_empty() { "" } else { " " },
        wops_str(wops),
        if obs.is_empty() { "-".to_string() } else { obs.join(" ; ") }
    )
}
