//! Stream `csv` (property C11, parts of C10/C14): `Lexicon::parse_csv`, `parse_csv_row`,
//! `quote_csv_cell` and the raw csv-core reader against their Lean ports.
//!
//! Lines (formats: `lean/Vibrato/Driver/LexCsv.lean`):
//!   `csv <id> LEX <file hex> IMPL <panic|err|ok n (surface l r c feature)*> ## KIND=.. WF=<0|1> EXPECT=<hex rows>`
//!   `csv <id> ROW <row hex> IMPL ..` / `csv <id> QUOTE <cell hex> IMPL ..` / `csv <id> FIELDS <hex> IMPL ..`
use crate::rng::Rng;
use crate::wire::{guarded, hex};
use std::io::Write;

fn cell_text(rng: &mut Rng) -> String {
    let parts = ["a", "b", "名", "😀", " ", "x y", "1", "é", "*", "-"];
    let n = rng.below(4);
    let mut s = String::new();
    for _ in 0..n {
        s.push_str(parts[rng.below(parts.len())]);
    }
    s
}

/// Renders a cell: plain when possible, otherwise (or by choice) quoted; special content only
/// in quoted cells.
fn render_cell(rng: &mut Rng, special: bool) -> (String, String) {
    let mut v = cell_text(rng);
    if special {
        let extras = [",", "\"", "\n", "\r\n", ",,", "\"\"", "\r"];
        for _ in 0..1 + rng.below(2) {
            let pos = rng.below(v.chars().count() + 1);
            let idx = v.char_indices().nth(pos).map(|(i, _)| i).unwrap_or(v.len());
            v.insert_str(idx, extras[rng.below(extras.len())]);
        }
    }
    let needs = v.contains(',') || v.contains('"') || v.contains('\n') || v.contains('\r');
    let rendered = if needs || rng.chance(1, 6) {
        format!("\"{}\"", v.replace('"', "\"\""))
    } else {
        v.clone()
    };
    (v, rendered)
}

fn render_cell_p(rng: &mut Rng, num: u32, den: u32) -> (String, String) {
    let special = rng.chance(num, den);
    render_cell(rng, special)
}

pub fn lex_obs(bytes: &[u8]) -> String {
    match guarded(|| vibrato::verif::parse_lex_csv(bytes)) {
        None => "panic".to_string(),
        Some(Err(())) => "err".to_string(),
        Some(Ok(v)) => {
            let mut s = format!("ok {}", v.len());
            for (surf, l, r, c, f) in &v {
                s.push_str(&format!(" {} {l} {r} {c} {}", hex(surf.as_bytes()), hex(f.as_bytes())));
            }
            s
        }
    }
}

fn fields_obs(mut bytes: &[u8]) -> String {
    let mut rdr = csv_core::Reader::new();
    let mut out = [0u8; 4096];
    let mut parts = vec![];
    loop {
        let (res, nin, nout) = rdr.read_field(bytes, &mut out);
        let kind = match res {
            csv_core::ReadFieldResult::InputEmpty => "I",
            csv_core::ReadFieldResult::OutputFull => "O",
            csv_core::ReadFieldResult::Field { record_end: false } => "F0",
            csv_core::ReadFieldResult::Field { record_end: true } => "F1",
            csv_core::ReadFieldResult::End => "E",
        };
        parts.push(format!("{kind} {nin} {}", hex(&out[..nout])));
        bytes = &bytes[nin..];
        if kind == "E" || kind == "O" {
            break;
        }
        if parts.len() > 100000 {
            break;
        }
    }
    format!("{} {}", parts.len(), parts.join(" "))
}

pub fn run(seed: u64, n: usize, out: &mut dyn Write) {
    let mut rng = Rng::new(seed ^ 0x637376);
    // pinned end-of-file variants first
    let pinned: [&[u8]; 6] = [b"a,0,0,0,", b"a,0,0,0,f\n\n", b"a,0,0,0,f\r\n", b"a,0,0,0,f,", b"\n", b"a,1,2,3,f,g"];
    for (i, p) in pinned.iter().enumerate() {
        writeln!(out, "csv {seed}.p{i} LEX {} IMPL {} ## KIND=pinned WF=1", hex(p), lex_obs(p)).unwrap();
    }
    for i in 0..n {
        let id = format!("{seed}.{i}");
        match rng.below(10) {
            // well-formed lexicon files: the expected entries are known to the generator
            0..=4 => {
                let nrows = rng.below(6);
                let mut file = String::new();
                let mut expect = String::new();
                let mut nexp = 0;
                for r in 0..nrows {
                    while rng.chance(1, 6) {
                        file.push_str(if rng.chance(1, 3) { "\r\n" } else { "\n" });
                    }
                    let (sv, sr) = if rng.chance(1, 8) { (String::new(), String::new()) } else { render_cell_p(&mut rng, 1, 4) };
                    let l = *rng.pick(&[0u32, 1, 7, 65535, 12]);
                    let rr = *rng.pick(&[0u32, 2, 65535, 300]);
                    let c = *rng.pick(&[0i32, -1, 32767, -32768, 5, 100]);
                    let ls = if rng.chance(1, 10) { format!("+{l}") } else if rng.chance(1, 10) { format!("0{l}") } else { l.to_string() };
                    // numeric cells may be quoted as well
                    let q = |rng: &mut Rng, s: String| -> String { if rng.chance(1, 6) { format!("\"{s}\"") } else { s } };
                    let ls = q(&mut rng, ls);
                    let rs = q(&mut rng, rr.to_string());
                    let cs = q(&mut rng, c.to_string());
                    let nf = 1 + rng.below(3);
                    let mut feats = vec![];
                    for _ in 0..nf {
                        feats.push(render_cell_p(&mut rng, 1, 4).1);
                    }
                    // a "tall" quoted cell: many short lines inside one field, so that the field is longer than every
                    // physical line of the file (a CSV row is not a line: buffers must be sized by the field)
                    if rng.chance(1, 8) {
                        let n = 6 + rng.below(40);
                        let brk = if rng.chance(1, 4) { "\r\n" } else { "\n" };
                        let body: Vec<&str> = (0..n).map(|_| *rng.pick(&["", "a", "b", "ab", "名", "\"\""])).collect();
                        let at = rng.below(feats.len() + 1);
                        feats.insert(at, format!("\"{}\"", body.join(brk)));
                    }
                    if rng.chance(1, 8) {
                        feats.push(String::new()); // feature ending in ','
                    }
                    let feature = feats.join(",");
                    file.push_str(&format!("{sr},{ls},{rs},{cs},{feature}"));
                    let last = r + 1 == nrows;
                    if !last || rng.chance(3, 4) {
                        file.push_str(if rng.chance(1, 5) { "\r\n" } else { "\n" });
                    }
                    if !sv.is_empty() {
                        expect.push_str(&format!(" {} {l} {rr} {c} {}", hex(sv.as_bytes()), hex(feature.as_bytes())));
                        nexp += 1;
                    }
                }
                while rng.chance(1, 8) {
                    file.push('\n');
                }
                let o = lex_obs(file.as_bytes());
                writeln!(out, "csv {id} LEX {} IMPL {o} ## KIND=wellformed WF=1 EXPECT=ok_{nexp}{}", hex(file.as_bytes()), expect.replace(' ', "_")).unwrap();
            }
            // corrupted files
            5 | 6 => {
                let mut file = Vec::new();
                for _ in 0..rng.below(4) {
                    let (_, sr) = render_cell_p(&mut rng, 1, 3);
                    file.extend_from_slice(format!("{sr},{},{},{},{}\n", rng.below(4), rng.below(4), rng.range(-5, 5), render_cell_p(&mut rng, 0, 1).1).as_bytes());
                }
                for _ in 0..1 + rng.below(2) {
                    if file.is_empty() {
                        file.push(b',');
                        continue;
                    }
                    let pos = rng.below(file.len());
                    match rng.below(6) {
                        0 => {
                            file.remove(pos);
                        }
                        1 => file.insert(pos, *rng.pick(&[b',', b'"', b'\n', b'\r', b'x', 0xff, 0xc3])),
                        2 => file[pos] = *rng.pick(&[b',', b'"', b'\n', b'-', b'9', 0x80]),
                        3 => file.truncate(pos),
                        4 => {
                            let big = vec![b'z'; 4090 + rng.below(12)];
                            for (k, b) in big.iter().enumerate() {
                                file.insert(pos + k, *b);
                            }
                        }
                        _ => file.extend_from_slice(b"65536,1,1,1,f\n"),
                    }
                }
                let o = lex_obs(&file);
                writeln!(out, "csv {id} LEX {} IMPL {o} ## KIND=corrupt WF=0", hex(&file)).unwrap();
            }
            // parse_csv_row / quote_csv_cell
            7 => {
                let k = 1 + rng.below(4);
                let cells: Vec<String> = (0..k).map(|_| render_cell_p(&mut rng, 1, 3).1).collect();
                let mut row = cells.join(",");
                if rng.chance(1, 30) {
                    row.push_str(&"y".repeat(4090 + rng.below(10)));
                }
                let o = match guarded(|| vibrato::verif::parse_csv_row(&row)) {
                    None => "panic".to_string(),
                    Some(v) => {
                        let mut s = format!("ok {}", v.len());
                        for c in &v {
                            s.push_str(&format!(" {}", hex(c.as_bytes())));
                        }
                        s
                    }
                };
                writeln!(out, "csv {id} ROW {} IMPL {o} ## KIND=row", hex(row.as_bytes())).unwrap();
            }
            8 => {
                let (v, _) = render_cell_p(&mut rng, 1, 2);
                let mut v = v.into_bytes();
                if rng.chance(1, 20) {
                    v.extend(std::iter::repeat(b'"').take(2040 + rng.below(20)));
                }
                let o = match guarded(|| vibrato::verif::quote_csv_cell(&v)) {
                    None => "panic".to_string(),
                    Some(q) => {
                        // predicate of C14's lemma: reading the quoted cell back gives the cell
                        let back = std::str::from_utf8(&q).ok().and_then(|s| guarded(|| vibrato::verif::parse_csv_row(s)));
                        let rt = match back {
                            Some(cells) => (cells.len() == 1 && cells[0].as_bytes() == &v[..]) as u8,
                            None => 2,
                        };
                        format!("ok {} ## KIND=quote RT={rt}", hex(&q))
                    }
                };
                if o.contains(" ## ") {
                    writeln!(out, "csv {id} QUOTE {} IMPL {o}", hex(&v)).unwrap();
                } else {
                    writeln!(out, "csv {id} QUOTE {} IMPL {o} ## KIND=quote", hex(&v)).unwrap();
                }
            }
            // raw csv-core reader on arbitrary bytes
            _ => {
                let alphabet: [&[u8]; 12] = [b",", b"\"", b"\n", b"\r", b"a", b"b", b" ", b"\"\"", b"\r\n", b"#", b"\xef\xbb\xbf", b"x"];
                let mut bytes = vec![];
                for _ in 0..rng.below(14) {
                    bytes.extend_from_slice(alphabet[rng.below(alphabet.len())]);
                }
                let o = fields_obs(&bytes);
                writeln!(out, "csv {id} FIELDS {} IMPL {o} ## KIND=fields", hex(&bytes)).unwrap();
            }
        }
    }
}
