//! Stream `trainnew` (properties C18 and C17): from the five seed files of a training set-up to the label feature
//! sets that `TrainerConfig::from_readers` + `Trainer::new` register, and the interning maps / counters of the
//! feature extractor — observed directly after `Trainer::new` through the hook `trainer_labels` (head word `okfull`).
//!
//! `trainnew <id> <lex> <char> <unk> <feature.def> <rewrite.def> IMPL <err|panic|okfull n SET… c c c MAP MAP MAP>`
//! (format documented in `lean/Vibrato/Driver/TrainerNew.lean`).  Three in eight set-ups are plain generator output,
//! the others carry a wild rewrite.def / feature.def, extra lexicon rows, or byte-level corruption of one file.
//! (Generators written by the proof agent that built the Lean model; moved here unchanged.)
use crate::rng::Rng;
use crate::wire::{guarded, hex};
use std::io::Write;

fn oid(x: &Option<u32>) -> String {
    match x {
        Some(i) => i.to_string(),
        None => "0".to_string(),
    }
}

pub fn observe(lex: &[u8], chardef: &[u8], unk: &[u8], fdef: &[u8], rdef: &[u8]) -> String {
    match guarded(|| vibrato::trainer::verif::trainer_labels(lex, chardef, unk, fdef, rdef)) {
        None => "panic".to_string(),
        Some(Err(())) => "err".to_string(),
        Some(Ok((sets, mut maps, nexts))) => {
            let mut t: Vec<String> = vec!["okfull".into(), sets.len().to_string()];
            for (u, r, l) in &sets {
                t.push(u.len().to_string());
                t.extend(u.iter().map(|x| x.to_string()));
                t.push(r.len().to_string());
                t.extend(r.iter().map(oid));
                t.push(l.len().to_string());
                t.extend(l.iter().map(oid));
            }
            for c in &nexts {
                t.push(c.to_string());
            }
            for m in maps.iter_mut() {
                m.sort_by_key(|x| x.1);
                t.push(m.len().to_string());
                for (s, id) in m.iter() {
                    t.push(hex(s.as_bytes()));
                    t.push(id.to_string());
                }
            }
            t.join(" ")
        }
    }
}

fn gen_rewrite_wild(rng: &mut Rng) -> String {
    let pats = ["*", "N", "V", "(N|V)", "a", "(a|b)", "P", "r0", "()", "(", ")", "(a|", "(*)", "**", "q,1", "名", "(名|r1)", ""];
    let rews = [
        "$1", "$2", "$3", "X", "N", "$4", "*", "a", "$0", "$01", "$", "$x", "$1x", "a$1", "$18446744073709551615",
        "$18446744073709551616", "$007", "名", "", "$٣",
    ];
    let heads = [
        "[unigram rewrite]", "[left rewrite]", "[right rewrite]", "  [left rewrite]\t", "\u{3000}[right rewrite]\u{a0}",
        "[unigram  rewrite]", "[Unigram rewrite]", "[left rewrite] x", "[bigram rewrite]",
    ];
    let seps = [" ", "\t", "  ", " \t ", "\u{c}", "\u{3000}", "\u{b}"];
    let eols = ["\n", "\n", "\n", "\r\n", "\n\n", "\r", ""];
    let mut s = String::new();
    let nl = rng.below(9);
    // most files start with a header so that rules are reachable
    if rng.chance(5, 6) {
        s.push_str(heads[rng.below(3)]);
        s.push('\n');
    }
    for _ in 0..nl {
        match rng.below(10) {
            0 | 1 => s.push_str(*rng.pick(&heads)),
            2 => s.push_str(*rng.pick(&["# c", "#", "   # indented", "", "  ", "x#y z"])),
            _ => {
                let pl = 1 + rng.below(3);
                let rl = 1 + rng.below(3);
                let wild = rng.chance(1, 5);
                let pp: &[&str] = if wild { &pats } else { &pats[..8] };
                let rr: &[&str] = if wild { &rews } else { &rews[..8] };
                let p: Vec<&str> = (0..pl).map(|_| *rng.pick(pp)).collect();
                let r: Vec<&str> = (0..rl).map(|_| *rng.pick(rr)).collect();
                if rng.chance(1, 12) {
                    s.push_str(*rng.pick(&seps));
                }
                s.push_str(&p.join(","));
                s.push_str(if wild { *rng.pick(&seps) } else { " " });
                s.push_str(&r.join(","));
                if rng.chance(1, 15) {
                    s.push_str(" third");
                }
                if rng.chance(1, 12) {
                    s.push_str(*rng.pick(&seps));
                }
            }
        }
        s.push_str(if rng.chance(1, 6) { *rng.pick(&eols) } else { "\n" });
    }
    s
}

fn gen_feature_wild(rng: &mut Rng) -> String {
    let lines = [
        "UNIGRAM u:%F[0]", "UNIGRAM %F?[1]/%t", "UNIGRAM", "UNIGRAM ", "UNIGRAM  x", "BIGRAM %L[0]/%R[0]", "BIGRAM a/b/c",
        "BIGRAM ab", "BIGRAM /", "BIGRAM %L?[1]/%R?[2]", "# c", "", "  UNIGRAM t:%t  ", "unigram x", "BIGRAM\t%L[0]/%R[0]",
        "UNIGRAM %F[18446744073709551616]", "UNIGRAM %F[18446744073709551615]", "BIGRAM x/%R[99999999999999999999]",
        "UNIGRAM 名%F[1]名", "BIGRAM %L[1],%L[0]/%R[1],%R?[0]", "\u{3000}BIGRAM c/c\u{a0}",
    ];
    let mut s = String::new();
    let n = 1 + rng.below(6);
    for _ in 0..n {
        s.push_str(*rng.pick(&lines));
        s.push_str(if rng.chance(1, 8) { "\r\n" } else { "\n" });
    }
    s
}

fn corrupt(rng: &mut Rng, b: &mut Vec<u8>) {
    let k = 1 + rng.below(2);
    for _ in 0..k {
        let special = [b',', b'"', b'\n', b'\r', b' ', 0xff, 0xe3, 0x80, b'0', b'1', b'$', b'(', b')', b'|', b'*', b'#', b'[', 0, b'\t', b'%', b'/'];
        match rng.below(4) {
            0 if !b.is_empty() => {
                let i = rng.below(b.len());
                b[i] = *rng.pick(&special);
            }
            1 => {
                let i = rng.below(b.len() + 1);
                b.insert(i, *rng.pick(&special));
            }
            2 if !b.is_empty() => {
                let i = rng.below(b.len());
                b.remove(i);
            }
            _ => {
                if !b.is_empty() {
                    let i = rng.below(b.len());
                    b.truncate(i);
                }
            }
        }
    }
}

fn extra_lex_rows(rng: &mut Rng, lex: &mut String) {
    let rows = [
        ",0,0,0,empty-surface\n", "x,1,0,0,N\n", "y,0,1,0,N\n", "😀z,0,0,5,N,a,r1\n", "\u{0}a,0,0,0,N\n", "漢,0,0,0,\"q,1\",*\n",
        "w,0,0,0,\n", "w,0,0,0\n", "v,0,0,0,N,\"a\"\"b\",\"c\nd\"\n", "é,0,0,-3,V,b,名,extra,more\n", " ,0,0,0,P\n",
        "\u{3000}b,0,0,0,P,*,*\n", "a,0,0,0,N,a,r1\n", "a,0,0,0,N,a,r1\n",
    ];
    let k = 1 + rng.below(3);
    for _ in 0..k {
        lex.push_str(*rng.pick(&rows));
    }
}


pub fn run(seed: u64, n: usize, out: &mut dyn Write) {
    let mut rng = Rng::new(seed ^ 0x746e6577);
    for i in 0..n {
        let mut r = rng.fork();
        let s = crate::trainer::gen_setup(&mut r);
        let (mut lex, mut chardef, mut unk, mut fdef, mut rdef) = (
            s.lex.clone().into_bytes(), s.chardef.clone().into_bytes(), s.unk.clone().into_bytes(),
            s.feature_def.clone().into_bytes(), s.rewrite_def.clone().into_bytes(),
        );
        let kind = i % 8;
        match kind {
            0 | 1 | 2 => {}
            3 => rdef = gen_rewrite_wild(&mut r).into_bytes(),
            4 => {
                let mut l = s.lex.clone();
                extra_lex_rows(&mut r, &mut l);
                lex = l.into_bytes();
                if r.chance(1, 2) {
                    rdef = gen_rewrite_wild(&mut r).into_bytes();
                }
            }
            5 => fdef = gen_feature_wild(&mut r).into_bytes(),
            6 => {
                let t = match r.below(5) {
                    0 => &mut lex,
                    1 => &mut chardef,
                    2 => &mut unk,
                    3 => &mut fdef,
                    _ => &mut rdef,
                };
                corrupt(&mut r, t);
            }
            _ => {
                rdef = gen_rewrite_wild(&mut r).into_bytes();
                if r.chance(1, 3) {
                    fdef = gen_feature_wild(&mut r).into_bytes();
                }
                if r.chance(1, 3) {
                    corrupt(&mut r, &mut unk);
                }
            }
        }
        let obs = observe(&lex, &chardef, &unk, &fdef, &rdef);
        let res = obs.split(' ').next().unwrap().to_string();
        writeln!(out, "trainnew {seed}.{i} {} {} {} {} {} IMPL {obs} ## KIND=k{kind} RES={res}", hex(&lex), hex(&chardef), hex(&unk), hex(&fdef), hex(&rdef)).unwrap();
    }
}
