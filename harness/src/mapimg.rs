//! Stream `mapimg` (property C06): the internal tables of a dictionary before and after
//! `map_connection_ids_from_iter`, observed through `Dictionary::write`, against the abstract model of id mapping
//! (`lean/Vibrato/Model/Mapper.lean`: connector layouts of all three kinds, parameter tables, stored mapper).
//!
//!   mapimg <id> <image A hex> M <nl> <ids..> <nr> <ids..> <image B hex | err | panic> IMPL <err | panic | ok same> ## KIND=<0|1|2> PRE=<ops before A>
//!
//! `A` is written after a random prefix of dictionary operations (user lexicon, earlier mappings, write/read), so the
//! stored mapper and an already translated user lexicon are part of what the model sees.
use crate::gen::{self, gen_dict, gen_perm, GenCfg};
use crate::rng::Rng;
use crate::tok::{self, DOp};
use crate::wire::{guarded, hex};
use std::io::Write;

/// Maps `dict` with the id sequences `l` / `r`; returns (image after | `err` | `panic`, observation, COSTS flag).
pub fn map_obs(dict: vibrato::Dictionary, l: &Vec<u16>, r: &Vec<u16>) -> (String, &'static str, &'static str) {
    let (lc, rc) = (l.clone(), r.clone());
    let before = tok::conn_dump(&dict);
    let res = guarded(move || {
        let m = dict.map_connection_ids_from_iter(lc.into_iter(), rc.into_iter()).map_err(|_| ())?;
        let mut b = vec![];
        m.write(&mut b).map_err(|_| ())?;
        Ok::<(Vec<u8>, Option<String>), ()>((b, tok::conn_dump(&m)))
    });
    // C06's cost clause on the implementation alone: cost'(new r, new l) = cost(r, l) for every pair of ids, where the
    // new id of old id `x` is the (1-based) position of `x` in the sequence handed to the mapping, and 0 stays 0
    let mut costs = "na";
    let (btok, impl_obs) = match res {
        None => ("panic".to_string(), "panic"),
        Some(Err(())) => ("err".to_string(), "err"),
        Some(Ok((b, after))) => {
            let parse = |s: &Option<String>| -> Option<(usize, usize, Vec<i64>)> {
                let t: Vec<i64> = s.as_ref()?.split(' ').filter_map(|x| x.parse().ok()).collect();
                Some((*t.first()? as usize, *t.get(1)? as usize, t[2..].to_vec()))
            };
            costs = match (parse(&before), parse(&after)) {
                (Some((nr, nl, a)), Some((nr2, nl2, c))) if nr == nr2 && nl == nl2 && a.len() == nr * nl && c.len() == nr * nl => {
                    let newid = |v: &Vec<u16>, n: usize| -> Vec<usize> {
                        let mut m = vec![0usize; n];
                        for (i, old) in v.iter().enumerate() {
                            if (*old as usize) < n {
                                m[*old as usize] = i + 1;
                            }
                        }
                        m
                    };
                    let (ml, mr) = (newid(&l, nl), newid(&r, nr));
                    let mut ok = true;
                    for x in 0..nr {
                        for y in 0..nl {
                            ok &= c[mr[x] * nl + ml[y]] == a[x * nl + y];
                        }
                    }
                    if ok { "1" } else { "0" }
                }
                _ => "0",
            };
            (hex(&b), "ok same")
        }
    };
    (btok, impl_obs, costs)
}

pub fn run(seed: u64, n: usize, out: &mut dyn Write) {
    let mut rng = Rng::new(seed ^ 0x6d6170696d67);
    let mut made = 0usize;
    while made < n {
        let mut cfg = GenCfg::default();
        cfg.kind = Some((made % 3) as u8);
        cfg.max_ids = if rng.chance(1, 6) { 12 } else { 6 };
        let mut drng = rng.fork();
        let d = gen_dict(&mut drng, &cfg);
        let dict = match tok::build_dict(&d) {
            Some(Ok(x)) => x,
            _ => continue,
        };
        // prefix: user lexicon and / or earlier mappings, so that the stored mapper exists and a user lexicon is loaded
        let mut pre: Vec<DOp> = vec![];
        let mut tag = String::new();
        for _ in 0..rng.below(4) {
            match rng.below(4) {
                0 | 1 => {
                    pre.push(DOp::Map(gen_perm(&mut rng, d.num_left), gen_perm(&mut rng, d.num_right)));
                    tag.push('M');
                }
                2 => {
                    let mut pool = d.surfaces.clone();
                    let nrows = 1 + rng.below(3);
                    let csv = gen::gen_lex_rows(&mut rng, nrows, d.num_left, d.num_right, 40, true, &mut pool);
                    pre.push(DOp::User(csv.into_bytes()));
                    tag.push('U');
                }
                _ => {
                    pre.push(DOp::WriteRead);
                    tag.push('W');
                }
            }
        }
        let mut obs = vec![];
        let dict = match tok::apply_dops(dict, &pre, &mut obs) {
            Some(x) => x,
            None => continue,
        };
        let mut a = vec![];
        if guarded(|| dict.write(&mut a).is_ok()) != Some(true) {
            continue;
        }
        let mut l = gen_perm(&mut rng, d.num_left);
        let mut r = gen_perm(&mut rng, d.num_right);
        if rng.chance(1, 8) {
            match rng.below(5) {
                0 => l.push(0),
                1 => {
                    if !r.is_empty() {
                        let x = r[0];
                        r.push(x);
                    } else {
                        r.push(1);
                    }
                }
                2 => {
                    l.pop();
                }
                3 => r.push(r.len() as u16 + 1),
                _ => {
                    if !l.is_empty() {
                        l[0] = l.len() as u16 + 3;
                    } else {
                        l.push(7);
                    }
                }
            }
        }
        let (btok, impl_obs, costs) = map_obs(dict, &l, &r);
        let ids = |v: &Vec<u16>| -> String { v.iter().map(|x| format!(" {x}")).collect() };
        writeln!(
            out,
            "mapimg {seed}.{made} {} M {}{} {}{} {btok} IMPL {impl_obs} ## KIND={} PRE={} COSTS={costs}",
            hex(&a),
            l.len(),
            ids(&l),
            r.len(),
            ids(&r),
            d.kind,
            if tag.is_empty() { "-" } else { &tag }
        )
        .unwrap();
        made += 1;
    }
}
