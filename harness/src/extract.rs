//! Stream `extract` (properties C18, C20): feature templates, interning, `feature.def` parsing,
//! `Trainer::extract_feature_set`, and `mecab::generate_bigram_info`, driven through the hooks
//! `vibrato::trainer::verif::{extract_session, feature_config_probe, extract_feature_sets}` and
//! the public `vibrato::mecab::generate_bigram_info`.
//!
//! Lines (formats and observations documented in `lean/Vibrato/Driver/Extractor.lean`):
//!   extract <id> EXPAND <U|L|R> <tpl> <cate> <m> cells            IMPL none|some <hex>|panic
//!   extract <id> SESSION UNI <k> tpls BI <k> (l r)* CALLS <n> (<U|L|R> <cate> <m> cells)*
//!                                                                  IMPL panic|ok ...
//!   extract <id> FEATSET UNI .. BI .. RW <n> rules <n> rules <n> rules ROWS <n> (<cate> <row>)* FIXED <0|1>
//!                                                                  IMPL panic|ok ...
//!   extract <id> FEATCFG <file> <cate> <m> cells                   IMPL err|panic|ok ...
//!   extract <id> MECAB <feature.def> <right-id.def> <left-id.def> <model.def> <cost_factor bits> [FIXED 1]
//!                                                                  IMPL err|panic|ok <r> <l> <c>
//! followed (harness only, stripped before comparison) by ` ## KIND=.. RES=.. [flags]`.
use crate::rng::Rng;
use crate::wire::{guarded, hex, hexs};
use std::io::Write;
use vibrato::trainer::verif as hooks;

type Rule = (Vec<String>, Vec<String>);

fn letter(kind: u8) -> char {
    match kind {
        0 => 'F',
        1 => 'L',
        _ => 'R',
    }
}

/// A template for `kind` (0 = U, 1 = L, 2 = R); `slash` allows '/' (not for feature.def files).
fn gen_template(rng: &mut Rng, kind: u8, wild: bool) -> String {
    let k = if wild { rng.below(7) } else { 1 + rng.below(4) };
    let mut s = String::new();
    for _ in 0..k {
        // letter: mostly the one of the kind, sometimes a foreign one (must stay literal text)
        let c = if rng.chance(5, 6) { letter(kind) } else { *rng.pick(&['F', 'L', 'R', 'f', 'T']) };
        let idx = match rng.below(12) {
            0..=3 => "0".to_string(),
            4..=6 => "1".to_string(),
            7 => "2".to_string(),
            8 => "3".to_string(),
            9 => "01".to_string(),
            10 => "12".to_string(),
            _ => "007".to_string(),
        };
        let piece: String = if wild {
            match rng.below(30) {
                0..=5 => format!("%{c}[{idx}]"),
                6..=8 => format!("%{c}?[{idx}]"),
                9 | 10 => "%t".to_string(),
                11 => format!("%{c}[]"),
                12 => format!("%{c}[a]"),
                13 => format!("%{c}[{idx}"),
                14 => format!("%{c}{idx}]"),
                15 => format!("%%{c}[{idx}]"),
                16 => format!("%{c}??[{idx}]"),
                17 => format!("%{c}[%{c}[{idx}]]"),
                18 => format!("%{c}[1%{c}?[{idx}]"),
                19 => "%".to_string(),
                20 => format!("%{c}"),
                21 => "?".to_string(),
                22 => "[".to_string(),
                23 => "]".to_string(),
                24 => "あ".to_string(),
                25 => format!("%{c}[{idx}]%{c}[{idx}]"),
                26 => format!("%{c}[１]"),
                27 => ":".to_string(),
                28 => "t".to_string(),
                _ => {
                    if rng.chance(1, 4) {
                        // index above usize::MAX: `parse::<usize>().unwrap()` panics in `new`
                        format!("%{c}[18446744073709551616]")
                    } else if rng.chance(1, 2) {
                        format!("%{c}[18446744073709551615]")
                    } else {
                        format!("%{c}?[000000000000000000000001]")
                    }
                }
            }
        } else {
            match rng.below(10) {
                0..=4 => format!("%{c}[{idx}]"),
                5 | 6 => format!("%{c}?[{idx}]"),
                7 => "%t".to_string(),
                8 => "p:".to_string(),
                _ => ",".to_string(),
            }
        };
        s.push_str(&piece);
    }
    s
}

fn gen_cells(rng: &mut Rng, small: bool) -> Vec<String> {
    let m = rng.below(5);
    (0..m)
        .map(|_| {
            if small {
                rng.pick(&["a", "b", "*", "a", "", "あ"]).to_string()
            } else {
                rng.pick(&["a", "b", "*", "", "あ", "名詞", "x,y", "%F[0]", "BOS/EOS", "**", "*", "3"]).to_string()
            }
        })
        .collect()
}

fn kind_tag(kind: u8) -> &'static str {
    match kind {
        0 => "U",
        1 => "L",
        _ => "R",
    }
}

fn show_ids(ids: &[Option<u32>]) -> String {
    let mut s = format!("{}", ids.len());
    for i in ids {
        match i {
            Some(i) => s.push_str(&format!(" {i}")),
            None => s.push_str(" -"),
        }
    }
    s
}

fn show_maps(maps: &hooks::IdMaps) -> String {
    let mut s = String::new();
    for (tag, m) in ["U", "L", "R"].iter().zip(maps.iter()) {
        if !s.is_empty() {
            s.push(' ');
        }
        s.push_str(&format!("{tag} {}", m.len()));
        for (k, v) in m {
            s.push_str(&format!(" {} {v}", hexs(k)));
        }
    }
    s
}

fn templates_part(uni: &[String], bi: &[(String, String)]) -> String {
    let mut line = format!("UNI {}", uni.len());
    for t in uni {
        line.push_str(&format!(" {}", hexs(t)));
    }
    line.push_str(&format!(" BI {}", bi.len()));
    for (l, r) in bi {
        line.push_str(&format!(" {} {}", hexs(l), hexs(r)));
    }
    line
}

fn cells_part(cells: &[String]) -> String {
    let mut s = format!("{}", cells.len());
    for c in cells {
        s.push_str(&format!(" {}", hexs(c)));
    }
    s
}

fn expand_case(rng: &mut Rng, id: &str, out: &mut dyn Write) {
    let kind = rng.below(3) as u8;
    let tpl = gen_template(rng, kind, true);
    let cate = if rng.chance(1, 8) { u32::MAX - rng.below(3) as u32 } else { rng.below(20) as u32 };
    let cells = gen_cells(rng, false);
    let (uni, bi): (Vec<String>, Vec<(String, String)>) = match kind {
        0 => (vec![tpl.clone()], vec![]),
        1 => (vec![], vec![(tpl.clone(), String::new())]),
        _ => (vec![], vec![(String::new(), tpl.clone())]),
    };
    let calls = vec![(kind, cate, cells.clone())];
    let obs = match guarded(|| hooks::extract_session(&uni, &bi, &calls)) {
        None => "panic".to_string(),
        Some((res, maps)) => match res[0].first().copied().flatten() {
            None => "none".to_string(),
            Some(fid) => {
                let m = &maps[kind as usize];
                let s = m.iter().find(|(_, v)| *v == fid).map(|(k, _)| k.clone()).unwrap();
                format!("some {}", hexs(&s))
            }
        },
    };
    let res = obs.split(' ').next().unwrap().to_string();
    writeln!(
        out,
        "extract {id} EXPAND {} {} {cate} {} IMPL {obs} ## KIND=expand RES={res}",
        kind_tag(kind),
        hexs(&tpl),
        cells_part(&cells)
    )
    .unwrap();
}

fn gen_template_set(rng: &mut Rng, wild: bool) -> (Vec<String>, Vec<(String, String)>) {
    let uni: Vec<String> = (0..rng.below(4)).map(|_| gen_template(rng, 0, wild)).collect();
    let bi: Vec<(String, String)> = (0..rng.below(4))
        .map(|_| (gen_template(rng, 1, wild), gen_template(rng, 2, wild)))
        .collect();
    (uni, bi)
}

fn session_case(rng: &mut Rng, id: &str, out: &mut dyn Write) {
    let wild = rng.chance(1, 3);
    let (uni, bi) = gen_template_set(rng, wild);
    let n = rng.below(8);
    let calls: Vec<(u8, u32, Vec<String>)> = (0..n)
        .map(|_| (rng.below(3) as u8, rng.below(3) as u32, gen_cells(rng, true)))
        .collect();
    let mut line = format!("extract {id} SESSION {} CALLS {n}", templates_part(&uni, &bi));
    for (k, cate, cells) in &calls {
        line.push_str(&format!(" {} {cate} {}", kind_tag(*k), cells_part(cells)));
    }
    let obs = match guarded(|| hooks::extract_session(&uni, &bi, &calls)) {
        None => "panic".to_string(),
        Some((res, maps)) => {
            let mut s = format!("ok {}", res.len());
            for r in &res {
                s.push_str(&format!(" {}", show_ids(r)));
            }
            s.push_str(&format!(" {}", show_maps(&maps)));
            s
        }
    };
    let res = obs.split(' ').next().unwrap().to_string();
    writeln!(out, "{line} IMPL {obs} ## KIND=session RES={res}").unwrap();
}

fn gen_rules(rng: &mut Rng) -> Vec<Rule> {
    (0..rng.below(3))
        .map(|_| {
            let p: Vec<String> = (0..rng.below(4))
                .map(|_| rng.pick(&["*", "a", "b", "(a|b)", "あ", "*"]).to_string())
                .collect();
            let w: Vec<String> = (0..rng.below(4))
                .map(|_| rng.pick(&["$1", "$2", "$3", "x", "*", "$4"]).to_string())
                .collect();
            (p, w)
        })
        .collect()
}

fn gen_csv_row(rng: &mut Rng) -> String {
    let m = rng.below(5);
    let cells: Vec<&str> = (0..m)
        .map(|_| *rng.pick(&["a", "b", "*", "", "あ", "\"x,y\"", "\"a\"", "\"\"", "\"q\"\"r\"", "a\"b", " a", "BOS/EOS"]))
        .collect();
    cells.join(",")
}

fn rules_part(rules: &[Rule]) -> String {
    let mut s = format!("{}", rules.len());
    for (p, w) in rules {
        s.push_str(&format!(" {} {}", cells_part(p), cells_part(w)));
    }
    s
}

fn featset_case(rng: &mut Rng, id: &str, fixed: bool, out: &mut dyn Write) {
    let (uni, bi) = gen_template_set(rng, false);
    let (ru, rl, rr) = (gen_rules(rng), gen_rules(rng), gen_rules(rng));
    let n = rng.below(5);
    let rows: Vec<(u32, String)> = (0..n).map(|_| (rng.below(4) as u32, gen_csv_row(rng))).collect();
    let mut line = format!(
        "extract {id} FEATSET {} RW {} {} {} ROWS {n}",
        templates_part(&uni, &bi),
        rules_part(&ru),
        rules_part(&rl),
        rules_part(&rr)
    );
    for (cate, row) in &rows {
        line.push_str(&format!(" {cate} {}", hexs(row)));
    }
    let _ = fixed; // the repair state is chosen by the model driver (check.py), never probed from the code
    let obs = match guarded(|| hooks::extract_feature_sets(&uni, &bi, [&ru, &rl, &rr], &rows)) {
        None => "panic".to_string(),
        Some((res, maps)) => {
            let mut s = format!("ok {}", res.len());
            for (u, r, l) in &res {
                let u: Vec<Option<u32>> = u.iter().map(|x| Some(*x)).collect();
                s.push_str(&format!(" U {} R {} L {}", show_ids(&u), show_ids(r), show_ids(l)));
            }
            s.push_str(&format!(" {}", show_maps(&maps)));
            s
        }
    };
    let res = obs.split(' ').next().unwrap().to_string();
    writeln!(out, "{line} IMPL {obs} ## KIND=featset RES={res}").unwrap();
}

fn gen_feature_def(rng: &mut Rng, wild: bool) -> Vec<u8> {
    let mut file: Vec<u8> = vec![];
    let nl = rng.below(7);
    for li in 0..nl {
        let line: Vec<u8> = match rng.below(if wild { 20 } else { 8 }) {
            0..=2 => format!("UNIGRAM {}", gen_template(rng, 0, false)).into_bytes(),
            3..=5 => format!("BIGRAM {}/{}", gen_template(rng, 1, false), gen_template(rng, 2, false)).into_bytes(),
            6 => b"# comment / UNIGRAM".to_vec(),
            7 => b"".to_vec(),
            8 => format!("  UNIGRAM  {} \t", gen_template(rng, 0, true)).into_bytes(),
            9 => format!("BIGRAM {}/{}/{}", gen_template(rng, 1, false), gen_template(rng, 2, false), "x").into_bytes(),
            10 => format!("BIGRAM {}", gen_template(rng, 1, false)).into_bytes(),
            11 => b"UNIGRAM".to_vec(),
            12 => b"UNIGRAMx".to_vec(),
            13 => b"BIGRAM /".to_vec(),
            14 => "\u{3000}UNIGRAM u:%F[0]\u{a0}".as_bytes().to_vec(),
            15 => b"UNIGRAM \xff".to_vec(),
            16 => b"unigram %F[0]".to_vec(),
            17 => format!("BIGRAM {}/{}", gen_template(rng, 1, true), gen_template(rng, 2, true)).into_bytes(),
            18 => b"   # indented comment".to_vec(),
            _ => b"BIGRAM\t%L[0]/%R[0]".to_vec(),
        };
        file.extend_from_slice(&line);
        match rng.below(8) {
            0 => file.extend_from_slice(b"\r\n"),
            1 if li + 1 == nl => {}
            _ => file.push(b'\n'),
        }
    }
    file
}

fn featcfg_case(rng: &mut Rng, id: &str, out: &mut dyn Write) {
    let file = gen_feature_def(rng, true);
    let cate = rng.below(5) as u32;
    let cells = gen_cells(rng, false);
    let obs = match guarded(|| hooks::feature_config_probe(&file, cate, &cells)) {
        None => "panic".to_string(),
        Some(None) => "err".to_string(),
        Some(Some(maps)) => format!("ok {}", show_maps(&maps)),
    };
    let res = obs.split(' ').next().unwrap().to_string();
    writeln!(
        out,
        "extract {id} FEATCFG {} {cate} {} IMPL {obs} ## KIND=featcfg RES={res}",
        hex(&file),
        cells_part(&cells)
    )
    .unwrap();
}

fn gen_weight(rng: &mut Rng) -> String {
    let mut pick = rng.below(24);
    // malformed weights make the whole call fail: keep them rare
    if matches!(pick, 6 | 9 | 10 | 11 | 12) && !rng.chance(1, 8) {
        pick = 19;
    }
    match pick {
        0 => "1.5".to_string(),
        1 => "-2".to_string(),
        2 => "0".to_string(),
        3 => "0.0004".to_string(),
        4 => "-0.5".to_string(),
        5 => "3.".to_string(),
        6 => ".".to_string(),
        7 => ".5".to_string(),
        8 => "-.25".to_string(),
        9 => "1-2".to_string(),
        10 => "--1".to_string(),
        11 => "-".to_string(),
        12 => "1.2.3".to_string(),
        13 => "-0".to_string(),
        14 => {
            // long digit strings (slow path of the decimal parser, overflow to inf)
            let long = rng.chance(1, 4);
            let k = 1 + rng.below(if long { 400 } else { 40 });
            let mut s = String::new();
            if rng.chance(1, 2) {
                s.push('-');
            }
            for i in 0..k {
                if i > 0 && rng.chance(1, 12) && !s.contains('.') {
                    s.push('.');
                }
                s.push((b'0' + rng.below(10) as u8) as char);
            }
            s
        }
        15 => {
            // tiny: subnormal range / underflow
            let k = 300 + rng.below(40);
            format!("0.{}{}", "0".repeat(k), 1 + rng.below(9999))
        }
        16 => "2147483648".to_string(),
        17 => "-2147483649.5".to_string(),
        18 => "0.9999999999999999".to_string(),
        _ => {
            let a = rng.below(50);
            let b = rng.below(100000);
            format!("{}{a}.{b:05}", if rng.chance(1, 2) { "-" } else { "" })
        }
    }
}

fn gen_id_def(rng: &mut Rng, flags: &mut Vec<String>) -> Vec<u8> {
    let n = rng.below(6);
    let mut ids: Vec<String> = (0..n).map(|i| i.to_string()).collect();
    match rng.below(24) {
        0 => {
            if !ids.is_empty() {
                ids.remove(0);
                flags.push("NOZERO".to_string());
            }
        }
        1 => {
            if ids.len() > 2 {
                ids.remove(1 + rng.below(ids.len() - 2));
                flags.push("GAP".to_string());
            }
        }
        2 => {
            if !ids.is_empty() {
                let j = rng.below(ids.len());
                let d = ids[j].clone();
                ids.push(d);
                flags.push("DUP".to_string());
            }
        }
        3 => {
            ids.push((n + 1 + rng.below(3)).to_string());
            flags.push("GAPEND".to_string());
        }
        4 => {
            ids.push(rng.pick(&["x", "", "-1", "18446744073709551616", "18446744073709551615", "+1", "１"]).to_string());
            flags.push("BADID".to_string());
        }
        5 => rng.shuffle(&mut ids),
        6 => {
            if !ids.is_empty() {
                ids.remove(0);
                let far = (n + 3).to_string();
                ids.push(far);
                flags.push("NOZERO_FAR".to_string());
            }
        }
        _ => {}
    }
    let mut file = vec![];
    let cnt = ids.len();
    for (li, idt) in ids.iter().enumerate() {
        let feats: String = if idt == "0" && rng.chance(7, 8) {
            rng.pick(&["BOS/EOS,*,*", "BOS/EOS", "\"BOS/EOS\",a", "BOS/EOS,BOS/EOS"]).to_string()
        } else if idt == "0" {
            flags.push("ZERO_NOT_BOS".to_string());
            rng.pick(&["a,b", "", "BOS/EOSx", " BOS/EOS"]).to_string()
        } else {
            gen_csv_row(rng)
        };
        let sep = match rng.below(90) {
            0 => {
                flags.push("BADSEP".to_string());
                "\t"
            }
            1 => "  ",
            2 => {
                flags.push("BADSEP".to_string());
                ""
            }
            _ => " ",
        };
        file.extend_from_slice(format!("{idt}{sep}{feats}").as_bytes());
        if rng.chance(1, 60) {
            file.push(0xff);
            flags.push("BADUTF8".to_string());
        }
        match rng.below(8) {
            0 => file.extend_from_slice(b"\r\n"),
            1 if li + 1 == cnt => {}
            _ => file.push(b'\n'),
        }
    }
    file
}

/// Does this source tree reject an id file that does not define id 0? (finding F12)
fn mecab_fixed() -> bool {
    let (mut r, mut l, mut c) = (vec![], vec![], vec![]);
    vibrato::mecab::generate_bigram_info(
        &b"BIGRAM %L[0]/%R[0]\n"[..],
        &b"1 a\n2 b\n3 c\n"[..],
        &b"0 BOS/EOS\n1 a\n"[..],
        &b""[..],
        1.0,
        &mut r,
        &mut l,
        &mut c,
    )
    .is_err()
}

/// Inputs of one MeCab conversion case: (feature.def, right-id.def, left-id.def, model.def, cost factor, generator notes).
pub fn gen_mecab_inputs(rng: &mut Rng) -> (Vec<u8>, Vec<u8>, Vec<u8>, Vec<u8>, f64, Vec<String>) {
    let mut flags: Vec<String> = vec![];
    let wild = rng.chance(1, 10);
    let feature_def = gen_feature_def(rng, wild);
    let right_id = gen_id_def(rng, &mut flags);
    let left_id = gen_id_def(rng, &mut flags);
    // candidate feature strings: the expansions of the id lines (when the config parses)
    let mut lefts: Vec<String> = vec!["".to_string(), "BOS/EOS".to_string(), "zz".to_string()];
    let mut rights: Vec<String> = lefts.clone();
    {
        let collect = |file: &[u8]| -> Vec<(u32, String)> {
            String::from_utf8_lossy(file)
                .lines()
                .filter_map(|l| l.split_once(' ').map(|(_, f)| (0u32, f.to_string())))
                .collect()
        };
        let mut bi: Vec<(String, String)> = vec![];
        for l in String::from_utf8_lossy(&feature_def).lines() {
            if let Some(t) = l.trim().strip_prefix("BIGRAM ") {
                let p: Vec<&str> = t.split('/').collect();
                if p.len() == 2 {
                    bi.push((p[0].to_string(), p[1].to_string()));
                }
            }
        }
        let rows_l = collect(&right_id);
        let rows_r = collect(&left_id);
        let none: Vec<Rule> = vec![];
        if let Some((_, maps)) = guarded(|| hooks::extract_feature_sets(&[], &bi, [&none, &none, &none], &rows_l)) {
            lefts.extend(maps[1].iter().map(|x| x.0.clone()));
        }
        if let Some((_, maps)) = guarded(|| hooks::extract_feature_sets(&[], &bi, [&none, &none, &none], &rows_r)) {
            rights.extend(maps[2].iter().map(|x| x.0.clone()));
        }
    }
    let mut model = vec![];
    let nm = rng.below(10);
    for li in 0..nm {
        let w = gen_weight(rng);
        let l = rng.pick(&lefts).clone();
        let r = rng.pick(&rights).clone();
        let line = match rng.below(20) {
            0 => format!("{w}\t{l}"),
            1 => format!("{w}\t{l}/{r}/x"),
            2 => format!("{w} {l}/{r}"),
            3 => format!("x{w}\t{l}/{r}"),
            4 => format!("{w}\t{l}BOS/EOS/{r}"),
            5 => format!("\t{l}/{r}"),
            _ => format!("{w}\t{l}/{r}"),
        };
        model.extend_from_slice(line.as_bytes());
        match rng.below(8) {
            0 => model.extend_from_slice(b"\r\n"),
            1 if li + 1 == nm => {}
            _ => model.push(b'\n'),
        }
    }
    let cf: f64 = match rng.below(16) {
        0 => 1.0,
        1 => -1.0,
        2 => 0.0,
        3 => 1e10,
        4 => 1e300,
        5 => f64::INFINITY,
        6 => f64::NAN,
        7 => 0.5,
        8 => 123.456,
        9 => f64::from_bits(rng.next()),
        10 => -1e10,
        _ => 700.0,
    };
    (feature_def, right_id, left_id, model, cf, flags)
}

/// Observation of one `EXPAND` case (also used by replays).
pub fn expand_obs(kind: u8, tpl: &str, cate: u32, cells: &[String]) -> String {
    let (uni, bi): (Vec<String>, Vec<(String, String)>) = match kind {
        0 => (vec![tpl.to_string()], vec![]),
        1 => (vec![], vec![(tpl.to_string(), String::new())]),
        _ => (vec![], vec![(String::new(), tpl.to_string())]),
    };
    let calls = vec![(kind, cate, cells.to_vec())];
    match guarded(|| hooks::extract_session(&uni, &bi, &calls)) {
        None => "panic".to_string(),
        Some((res, maps)) => match res[0].first().copied().flatten() {
            None => "none".to_string(),
            Some(fid) => {
                let m = &maps[kind as usize];
                let s = m.iter().find(|(_, v)| *v == fid).map(|(k, _)| k.clone()).unwrap();
                format!("some {}", hexs(&s))
            }
        },
    }
}

/// Observation of one `MECAB` case (also used by replays).
pub fn mecab_obs(feature_def: &[u8], right_id: &[u8], left_id: &[u8], model: &[u8], cf: f64) -> String {
    match guarded(|| {
        let (mut r, mut l, mut c) = (vec![], vec![], vec![]);
        vibrato::mecab::generate_bigram_info(feature_def, right_id, left_id, model, cf, &mut r, &mut l, &mut c).map(|_| (r, l, c))
    }) {
        None => "panic".to_string(),
        Some(Err(_)) => "err".to_string(),
        Some(Ok((r, l, c))) => format!("ok {} {} {}", hex(&r), hex(&l), hex(&c)),
    }
}

fn mecab_case(rng: &mut Rng, id: &str, fixed: bool, out: &mut dyn Write) {
    let (feature_def, right_id, left_id, model, cf, flags) = gen_mecab_inputs(rng);
    let obs = match guarded(|| {
        let (mut r, mut l, mut c) = (vec![], vec![], vec![]);
        vibrato::mecab::generate_bigram_info(
            &feature_def[..],
            &right_id[..],
            &left_id[..],
            &model[..],
            cf,
            &mut r,
            &mut l,
            &mut c,
        )
        .map(|_| (r, l, c))
    }) {
        None => "panic".to_string(),
        Some(Err(_)) => "err".to_string(),
        Some(Ok((r, l, c))) => format!("ok {} {} {}", hex(&r), hex(&l), hex(&c)),
    };
    let res = obs.split(' ').next().unwrap().to_string();
    let fl = if flags.is_empty() { "none".to_string() } else { flags.join(",") };
    writeln!(
        out,
        "extract {id} MECAB {} {} {} {} {}{} IMPL {obs} ## KIND=mecab RES={res} FLAGS={fl}",
        hex(&feature_def),
        hex(&right_id),
        hex(&left_id),
        hex(&model),
        cf.to_bits(),
        if fixed { "" } else { "" }
    )
    .unwrap();
}

pub fn run(seed: u64, n: usize, only_mecab: bool, out: &mut dyn Write) {
    let mut rng = Rng::new(seed ^ 0x657874);
    // which edge-reuse policy does the rewriter of this source tree use? (finding F10)
    let s = |v: &[&str]| -> Vec<String> { v.iter().map(|x| x.to_string()).collect() };
    let probe_rules = vec![(s(&["*", "x"]), s(&["1"])), (s(&["a", "y"]), s(&["2"])), (s(&["*", "y"]), s(&["3"]))];
    let fixed = hooks::rewrite(&probe_rules, &s(&["a", "y"])) == Some(s(&["2"]));
    let f12_fixed = mecab_fixed();
    for made in 0..n {
        let id = format!("{seed}.{made}");
        let mut crng = rng.fork();
        let pick = if only_mecab { 19 } else { rng.below(20) };
        match pick {
            0..=6 => expand_case(&mut crng, &id, out),
            7..=10 => session_case(&mut crng, &id, out),
            11 | 12 => featset_case(&mut crng, &id, fixed, out),
            13 | 14 => featcfg_case(&mut crng, &id, out),
            _ => mecab_case(&mut crng, &id, f12_fixed, out),
        }
    }
}
