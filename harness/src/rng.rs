//! splitmix64: every random choice of a run derives from one seed.
#[derive(Clone)]
pub struct Rng(pub u64);

impl Rng {
    pub fn new(seed: u64) -> Self {
        Rng(seed.wrapping_mul(0x9E3779B97F4A7C15).wrapping_add(0x1234_5678_9abc_def1))
    }
    pub fn next(&mut self) -> u64 {
        self.0 = self.0.wrapping_add(0x9E3779B97F4A7C15);
        let mut z = self.0;
        z = (z ^ (z >> 30)).wrapping_mul(0xBF58476D1CE4E5B9);
        z = (z ^ (z >> 27)).wrapping_mul(0x94D049BB133111EB);
        z ^ (z >> 31)
    }
    /// uniform in 0..n (n > 0)
    pub fn below(&mut self, n: usize) -> usize {
        (self.next() % (n as u64)) as usize
    }
    /// inclusive range
    pub fn range(&mut self, lo: i64, hi: i64) -> i64 {
        lo + (self.next() % ((hi - lo + 1) as u64)) as i64
    }
    pub fn chance(&mut self, num: u32, den: u32) -> bool {
        (self.next() % den as u64) < num as u64
    }
    pub fn pick<'a, T>(&mut self, xs: &'a [T]) -> &'a T {
        &xs[self.below(xs.len())]
    }
    pub fn fork(&mut self) -> Rng {
        Rng::new(self.next())
    }
    pub fn shuffle<T>(&mut self, xs: &mut [T]) {
        for i in (1..xs.len()).rev() {
            let j = self.below(i + 1);
            xs.swap(i, j);
        }
    }
}
