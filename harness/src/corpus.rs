//! Stream `corpus` (property C19): `Corpus::from_reader` / `Example::write` on generated
//! corpora, and the tokenizer's MeCab-style output fed back to the corpus reader.
//!
//! Lines: `corpus <id> parse <hex>` / `corpus <id> mecab <k> (<surface> <feature>){k}`,
//! answered with the canonical observation documented in `lean/Vibrato/Driver/Corpus.lean`,
//! followed (harness only, stripped before comparison) by ` ## RT=<0|1|na>`: whether
//! re-parsing the written-back examples gives the same examples (property predicate on the
//! implementation).
use crate::gen::{gen_dict, gen_sentence, GenCfg};
use crate::rng::Rng;
use crate::wire::{guarded, hex};
use std::io::Write;
use vibrato::trainer::Corpus;
use vibrato::Tokenizer;

fn examples(c: &Corpus) -> Vec<Vec<(String, String)>> {
    c.iter()
        .map(|ex| {
            ex.tokens()
                .iter()
                .map(|w| (w.surface().to_string(), w.feature().to_string()))
                .collect()
        })
        .collect()
}

/// The observation prefix (before ` REWRITE `) that a parse returning exactly `exs` produces.
pub fn expected_obs(exs: &[Vec<(String, String)>]) -> String {
    let mut s = format!("ok {}", exs.len());
    for ex in exs {
        s.push_str(&format!(" {}", ex.len()));
        for (a, b) in ex {
            s.push_str(&format!(" {} {}", hex(a.as_bytes()), hex(b.as_bytes())));
        }
    }
    s
}

pub fn obs(input: &[u8]) -> (String, String) {
    match guarded(|| Corpus::from_reader(input)) {
        None => ("panic".to_string(), "na".to_string()),
        Some(Err(_)) => ("err".to_string(), "na".to_string()),
        Some(Ok(corpus)) => {
            let mut s = format!("ok {}", corpus.len());
            let mut rewrite = vec![];
            for ex in corpus.iter() {
                s.push_str(&format!(" {}", ex.tokens().len()));
                for w in ex.tokens() {
                    s.push_str(&format!(" {} {}", hex(w.surface().as_bytes()), hex(w.feature().as_bytes())));
                }
                ex.write(&mut rewrite).unwrap();
            }
            s.push_str(&format!(" REWRITE {}", hex(&rewrite)));
            let rt = match guarded(|| Corpus::from_reader(&rewrite[..])) {
                Some(Ok(c2)) => {
                    if examples(&c2) == examples(&corpus) {
                        "1"
                    } else {
                        "0"
                    }
                }
                _ => "0",
            };
            (s, rt.to_string())
        }
    }
}

pub fn run(seed: u64, n: usize, out: &mut dyn Write) {
    let mut rng = Rng::new(seed ^ 0x636f72);
    let pieces: Vec<&[u8]> = vec![
        b"a", b"b", b"\t", b"\t", b"\n", b"\n", b"\r", b"\r\n", b"EOS", b"EOS\n", b"EOS\r\n",
        "あ".as_bytes(), "😀".as_bytes(), b"\xe3\x81", b"\x80", b"\xff", b"\xc0\xaf", b"\xed\xa0\x80",
        b"\xf4\x90\x80\x80", b"\xf0\x90\x80\x80", b" ", b",", b"x\ty\n", b"\tq\n", b"z\t\n",
        b"\xe0\xa0\x80", b"\xe0\x9f\x80", b"\xf4\x8f\xbf\xbf", b"\xc2\x80", b"\xc1\x80", b"\xef\xbf\xbf",
    ];
    let frag: Vec<&[u8]> = vec![b"a", b"bc", "あ".as_bytes(), b"EOS", b"", b"N,x", b" ", "😀".as_bytes(), b"q"];
    let terms: Vec<&[u8]> = vec![b"\n", b"\n", b"\n", b"\n", b"\r\n", b"\r\n", b""];
    let mut made = 0;
    let mut dict_cache: Option<(crate::gen::DictSrc, GenCfg)> = None;
    // pinned: tokens whose surface / feature is 65536 bytes or longer (the tokenizer makes such tokens from a long run of
    // one groupable category): lengths are not 16-bit quantities
    let long: [(String, String); 3] = [
        ("a".repeat(65536), "N,x".to_string()),
        ("あ".repeat(23334), "記号".to_string()),
        ("b".to_string(), "f".repeat(65537)),
    ];
    for (k, (s, f)) in long.iter().enumerate() {
        if k >= n {
            break;
        }
        let input = format!("x\ty\nEOS\n{s}\t{f}\nEOS\n").into_bytes();
        let expect = vec![vec![("x".to_string(), "y".to_string())], vec![(s.clone(), f.clone())]];
        let (o, rt) = obs(&input);
        let want = expected_obs(&expect);
        let exp = o.split(" REWRITE ").next() == Some(want.as_str());
        writeln!(out, "corpus {seed}.long{k} parse {} IMPL {o} ## RT={rt} KIND=examples EXP={} EXPECT={}", hex(&input), exp as u8, hex(want.as_bytes())).unwrap();
    }
    while made < n {
        let id = format!("{seed}.{made}");
        match rng.below(10) {
            // malformed byte soup (model == implementation, never a panic)
            0 | 1 => {
                let k = rng.below(12);
                let mut input = vec![];
                for _ in 0..k {
                    input.extend_from_slice(pieces[rng.below(pieces.len())]);
                }
                if rng.chance(1, 10) {
                    input.push(rng.below(256) as u8);
                }
                let (o, rt) = obs(&input);
                writeln!(out, "corpus {id} parse {} IMPL {o} ## RT={rt} KIND=soup", hex(&input)).unwrap();
            }
            // structured corpora in the documented format (plus rare garbage lines)
            2..=6 => {
                let nl = rng.below(9);
                let mut input = vec![];
                for li in 0..nl {
                    match rng.below(12) {
                        0..=6 => {
                            for _ in 0..rng.below(3) {
                                input.extend_from_slice(frag[rng.below(frag.len())]);
                            }
                            input.push(b'\t');
                            for _ in 0..rng.below(3) {
                                input.extend_from_slice(frag[rng.below(frag.len())]);
                            }
                        }
                        7..=9 => input.extend_from_slice(b"EOS"),
                        10 => {
                            for _ in 0..rng.below(3) {
                                input.extend_from_slice(frag[rng.below(frag.len())]);
                            }
                        }
                        _ => {
                            for _ in 0..rng.below(4) {
                                input.extend_from_slice(pieces[rng.below(pieces.len())]);
                            }
                        }
                    }
                    let t = terms[rng.below(terms.len())];
                    if t.is_empty() && li + 1 != nl {
                        input.push(b'\n');
                    } else {
                        input.extend_from_slice(t);
                    }
                }
                let (o, rt) = obs(&input);
                writeln!(out, "corpus {id} parse {} IMPL {o} ## RT={rt} KIND=structured", hex(&input)).unwrap();
            }
            // well-formed examples written one after the other (as `Example::write` does), including sentences whose
            // surfaces are all empty and token lines after the last EOS: the reader must return exactly the
            // non-empty ones, in order (theorems empty_sentences_dropped, trailing_tokens_dropped)
            7 => {
                let surf: Vec<&str> = vec!["", "", "a", "bc", "あ", "EOS", " ", "😀", "x\r", "q,r"];
                let feat: Vec<&str> = vec!["", "N,x", "EOS", "記号,空", "a b", "\"q\"", "*", "x\ry"];
                let nex = rng.below(6);
                let mut exs: Vec<Vec<(String, String)>> = vec![];
                for _ in 0..nex {
                    let nw = rng.below(4);
                    let all_empty = rng.chance(1, 4);
                    exs.push((0..nw).map(|_| {
                        let s = if all_empty { "" } else { surf[rng.below(surf.len())] };
                        (s.to_string(), feat[rng.below(feat.len())].to_string())
                    }).collect());
                }
                let mut input: Vec<u8> = vec![];
                for ex in &exs {
                    for (s, f) in ex {
                        input.extend_from_slice(format!("{s}\t{f}\n").as_bytes());
                    }
                    input.extend_from_slice(b"EOS\n");
                }
                if rng.chance(1, 3) {
                    for _ in 0..1 + rng.below(2) {
                        input.extend_from_slice(format!("{}\t{}\n", surf[rng.below(surf.len())], feat[rng.below(feat.len())]).as_bytes());
                    }
                }
                let expect: Vec<Vec<(String, String)>> = exs.into_iter().filter(|e| e.iter().any(|(s, _)| !s.is_empty())).collect();
                let (o, rt) = obs(&input);
                let want = expected_obs(&expect);
                let exp = o.split(" REWRITE ").next() == Some(want.as_str());
                writeln!(out, "corpus {id} parse {} IMPL {o} ## RT={rt} KIND=examples EXP={} EXPECT={}", hex(&input), exp as u8, hex(want.as_bytes())).unwrap();
            }
            // real tokenizer output rendered as the CLI does (`-O mecab`), fed to the reader
            _ => {
                if dict_cache.is_none() || rng.chance(1, 8) {
                    let cfg = GenCfg::default();
                    let mut drng = rng.fork();
                    let mut d = gen_dict(&mut drng, &cfg);
                    // a word whose surface is the sentence terminator of the corpus format
                    if drng.chance(1, 2) {
                        d.lex.extend_from_slice(b"EOS,0,0,-3,eos-word\n");
                        d.surfaces.push("EOS".to_string());
                    }
                    dict_cache = Some((d, cfg));
                }
                let (d, cfg) = dict_cache.as_ref().unwrap();
                let dict = match crate::tok::build_dict(d) {
                    Some(Ok(x)) => x,
                    _ => {
                        dict_cache = None;
                        continue;
                    }
                };
                let ign = d.has_space && rng.chance(1, 2);
                let tokenizer = match Tokenizer::new(dict).ignore_space(ign) {
                    Ok(t) => t,
                    Err(_) => continue,
                };
                let mut crng = rng.fork();
                let sent = gen_sentence(&mut crng, d, cfg, 6);
                let toks: Option<Vec<(String, String)>> = guarded(|| {
                    let mut worker = tokenizer.new_worker();
                    worker.reset_sentence(&sent);
                    worker.tokenize();
                    (0..worker.num_tokens())
                        .map(|i| {
                            let t = worker.token(i);
                            (t.surface().to_string(), t.feature().to_string())
                        })
                        .collect()
                });
                let toks = match toks {
                    Some(t) => t,
                    None => continue,
                };
                // the printing loop of tokenize/src/main.rs (OutputMode::Mecab)
                let mut printed: Vec<u8> = vec![];
                let mut line = format!("corpus {id} mecab {}", toks.len());
                for (s, f) in &toks {
                    printed.write_all(s.as_bytes()).unwrap();
                    printed.write_all(b"\t").unwrap();
                    printed.write_all(f.as_bytes()).unwrap();
                    printed.write_all(b"\n").unwrap();
                    line.push_str(&format!(" {} {}", hex(s.as_bytes()), hex(f.as_bytes())));
                }
                printed.write_all(b"EOS\n").unwrap();
                let (o, _) = obs(&printed);
                // predicate: the parsed corpus is exactly the tokenizer's tokens
                let same = match guarded(|| Corpus::from_reader(&printed[..])) {
                    Some(Ok(c)) => {
                        let ex = examples(&c);
                        if toks.is_empty() {
                            ex.is_empty()
                        } else {
                            ex.len() == 1 && ex[0] == toks
                        }
                    }
                    _ => false,
                };
                writeln!(out, "{line} IMPL OUT {} PARSE {o} ## RT={} KIND=tokenizer", hex(&printed), same as u8).unwrap();
            }
        }
        made += 1;
    }
}
