//! Streams `conn` and `scorer` (property C07).
//!
//! `conn <id> KIND <1|2> <bigram.right hex> <bigram.left hex> <bigram.cost hex> IMPL <err|panic|ok nr nl costs…>`
//!   the connector is built through `SystemDictionaryBuilder::from_readers_with_bigram_info`
//!   around a minimal lexicon that only uses id 0, and every `cost(r, l)` is read through the hook.
//! `scorer <id> SCORER <n> (k1 k2 cost)* QUERIES <m> (k1 k2)* ACC <j> (k1 k2)* IMPL bases … checks … costs … answers … acc <v>`
use crate::gen::gen_bigram;
use crate::rng::Rng;
use crate::wire::{guarded, hex};
use std::io::Write;
use vibrato::SystemDictionaryBuilder;

pub fn conn_obs(kind: u8, right: &[u8], left: &[u8], cost: &[u8]) -> String {
    let r = guarded(|| {
        SystemDictionaryBuilder::from_readers_with_bigram_info(
            &b"a,0,0,0,f\n"[..],
            right,
            left,
            cost,
            &b"DEFAULT 0 1 0\n"[..],
            &b"DEFAULT,0,0,0,*\n"[..],
            kind == 2,
        )
        .map_err(|_| ())
    });
    match r {
        None => "panic".to_string(),
        Some(Err(())) => "err".to_string(),
        Some(Ok(d)) => match crate::tok::conn_dump(&d) {
            Some(c) => format!("ok {c}"),
            None => "costpanic".to_string(),
        },
    }
}

pub fn run_conn(seed: u64, n: usize, out: &mut dyn Write) {
    let mut rng = Rng::new(seed ^ 0x636f6e);
    // pinned: padding lanes vs the (empty, empty) pair; fewer than 8 templates; no templates
    let pinned: [(&str, &str, &str, u8); 6] = [
        ("1\ta\n", "1\tb\n", "/\t5\na/b\t3\n", 1),
        ("1\ta\n", "1\tb\n", "/\t5\na/b\t3\n", 2),
        ("1\ta,b,c,d,e,f,g,h,i\n", "1\ta,b,c,d,e,f,g,h,i\n", "/\t1000\na/a\t7\ni/i\t2\n", 2),
        ("1\ta,b,c,d,e,f,g,h,i\n", "1\ta,b,c,d,e,f,g,h,i\n", "/\t1000\na/a\t7\ni/i\t2\n", 1),
        ("", "", "", 1),
        ("", "", "x/y\t4\n", 2),
    ];
    for (i, (r, l, c, k)) in pinned.iter().enumerate() {
        let o = conn_obs(*k, r.as_bytes(), l.as_bytes(), c.as_bytes());
        writeln!(out, "conn {seed}.p{i} KIND {k} {} {} {} IMPL {o} ## PIN=1", hex(r.as_bytes()), hex(l.as_bytes()), hex(c.as_bytes())).unwrap();
    }
    for i in 0..n {
        let kind = 1 + rng.below(2) as u8;
        let nr = 1 + rng.below(5);
        let nl = 1 + rng.below(5);
        let k = match rng.below(6) {
            0 => rng.below(3),
            1 => 7 + rng.below(3),
            2 => 15 + rng.below(3),
            _ => rng.below(21),
        };
        let (mut r, mut l, mut c) = gen_bigram(&mut rng, nr, nl, k, 60);
        // the (empty, empty) pair and BOS/EOS lines are listed in a third of the models
        if rng.chance(1, 3) {
            c.push_str(&format!("/\t{}\n", rng.range(-40, 40)));
        }
        // rare malformed edits
        if rng.chance(1, 12) {
            match rng.below(5) {
                0 => r = r.replacen('\t', " ", 1),
                1 => l.push_str("9\tz\n"),
                2 => c.push_str("nocost\n"),
                3 => c.push_str("a/b/c\t1\n"),
                _ => r = r.replace('\n', "\r\n"),
            }
        }
        let o = conn_obs(kind, r.as_bytes(), l.as_bytes(), c.as_bytes());
        writeln!(out, "conn {seed}.{i} KIND {kind} {} {} {} IMPL {o} ## K={k}", hex(r.as_bytes()), hex(l.as_bytes()), hex(c.as_bytes())).unwrap();
    }
}

pub fn run_scorer(seed: u64, n: usize, out: &mut dyn Write) {
    let mut rng = Rng::new(seed ^ 0x73636f);
    for i in 0..n {
        let ne = rng.below(24);
        let kmax: u32 = *rng.pick(&[4u32, 8, 20, 64, 1000]);
        let mut entries: Vec<(u32, u32, i32)> = vec![];
        for _ in 0..ne {
            let k1 = rng.below(kmax as usize) as u32;
            let k2 = rng.below(kmax as usize) as u32;
            entries.push((k1, k2, rng.range(-100, 100) as i32));
        }
        if rng.chance(1, 4) && !entries.is_empty() {
            // overwrite an existing key
            let e = entries[rng.below(entries.len())];
            entries.push((e.0, e.1, rng.range(-9, 9) as i32));
        }
        let mut queries: Vec<(u32, u32)> = vec![];
        for _ in 0..12 {
            if !entries.is_empty() && rng.chance(1, 2) {
                let e = entries[rng.below(entries.len())];
                queries.push((e.0, e.1));
            } else {
                queries.push((rng.below(kmax as usize + 3) as u32, if rng.chance(1, 8) { 0x7fff_ffff } else { rng.below(kmax as usize + 3) as u32 }));
            }
        }
        let nacc = *rng.pick(&[0usize, 3, 8, 9, 16]);
        let acc: Vec<(u32, u32)> = (0..nacc)
            .map(|_| {
                if !entries.is_empty() && rng.chance(2, 3) {
                    let e = entries[rng.below(entries.len())];
                    (e.0, e.1)
                } else {
                    (rng.below(kmax as usize) as u32, rng.below(kmax as usize) as u32)
                }
            })
            .collect();
        let l1: Vec<u32> = acc.iter().map(|p| p.0).collect();
        let l2: Vec<u32> = acc.iter().map(|p| p.1).collect();
        let mut line = format!("scorer {seed}.{i} SCORER {}", entries.len());
        for e in &entries {
            line.push_str(&format!(" {} {} {}", e.0, e.1, e.2));
        }
        line.push_str(&format!(" QUERIES {}", queries.len()));
        for q in &queries {
            line.push_str(&format!(" {} {}", q.0, q.1));
        }
        line.push_str(&format!(" ACC {}", acc.len()));
        for q in &acc {
            line.push_str(&format!(" {} {}", q.0, q.1));
        }
        let obs = match guarded(|| vibrato::verif::scorer_probe(&entries, &queries, &l1, &l2)) {
            None => "panic".to_string(),
            Some((bases, checks, costs, answers, accv)) => {
                let v = |xs: &[u32]| -> String { format!("{}{}", xs.len(), xs.iter().map(|x| format!(" {x}")).collect::<String>()) };
                let vi = |xs: &[i32]| -> String { format!("{}{}", xs.len(), xs.iter().map(|x| format!(" {x}")).collect::<String>()) };
                let a: String = answers.iter().map(|x| match x { Some(c) => format!(" {c}"), None => " none".to_string() }).collect();
                format!("bases {} checks {} costs {} answers {}{} acc {accv}", v(&bases), v(&checks), vi(&costs), answers.len(), a)
            }
        };
        writeln!(out, "{line} IMPL {obs}").unwrap();
    }
}

fn tok_all(dict: vibrato::Dictionary, sents: &[String], ign: bool) -> Option<Vec<String>> {
    guarded(move || {
        let t = vibrato::Tokenizer::new(dict).ignore_space(ign).ok()?;
        let mut w = t.new_worker();
        Some(
            sents
                .iter()
                .map(|s| {
                    w.reset_sentence(s);
                    w.tokenize();
                    crate::tok::tokens_obs(&w)
                })
                .collect(),
        )
    })
    .flatten()
}

/// `conn3`: the same lexicon compiled with the raw connector, the dual connector and a
/// matrix.def materialised from the connector's cost table; all three must tokenize identically.
pub fn run_conn3(seed: u64, n: usize, out: &mut dyn Write) {
    use crate::gen::{gen_dict, gen_sentence, GenCfg};
    use crate::tok::build_dict;
    let mut rng = Rng::new(seed ^ 0x633363);
    let mut made = 0;
    while made < n {
        let mut cfg = GenCfg::default();
        cfg.kind = Some(1);
        let mut drng = rng.fork();
        let mut d = gen_dict(&mut drng, &cfg);
        let raw = match build_dict(&d) {
            Some(Ok(x)) => x,
            _ => continue,
        };
        d.kind = 2;
        let dual = match build_dict(&d) {
            Some(Ok(x)) => x,
            _ => {
                writeln!(out, "conn3 {seed}.{made} IMPL dual-build-failed").unwrap();
                made += 1;
                continue;
            }
        };
        let nr = vibrato::verif::num_right(&raw);
        let nl = vibrato::verif::num_left(&raw);
        let mut matrix = format!("{nr} {nl}\n");
        let mut fits = true;
        for r in 0..nr {
            for l in 0..nl {
                let c = vibrato::verif::conn_cost(&raw, r as u16, l as u16);
                if c < i16::MIN as i32 || c > i16::MAX as i32 {
                    fits = false;
                }
                matrix.push_str(&format!("{r} {l} {c}\n"));
            }
        }
        if !fits {
            continue;
        }
        d.kind = 0;
        d.matrix = matrix.into_bytes();
        let mat = match build_dict(&d) {
            Some(Ok(x)) => x,
            _ => {
                writeln!(out, "conn3 {seed}.{made} IMPL matrix-build-failed").unwrap();
                made += 1;
                continue;
            }
        };
        let ign = d.has_space && rng.chance(1, 2);
        let mut srng = rng.fork();
        let sents: Vec<String> = (0..6).map(|_| gen_sentence(&mut srng, &d, &cfg, 6)).collect();
        let a = tok_all(raw, &sents, ign);
        let b = tok_all(dual, &sents, ign);
        let c = tok_all(mat, &sents, ign);
        let verdict = if a.is_some() && a == b && b == c { "same" } else if a.is_none() && b.is_none() && c.is_none() { "same" } else { "differs" };
        writeln!(out, "conn3 {seed}.{made} IMPL {verdict}").unwrap();
        made += 1;
    }
}
