//! Stream `train` (properties C14, C15, C16): tiny training set-ups trained with the real
//! `vibrato::trainer`, operation histories over `Model::{write_dictionary, write_bigram_details,
//! write_model, read_model, read_user_lexicon}`, and the emitted files compiled back into
//! dictionaries.
//!
//! Lines (observation format: `lean/Vibrato/Driver/Trainer.lean`):
//!
//!   train <id>.a GEN <image hex> none        IMPL <obs> ## <flags>
//!   train <id>.b GEN <image hex> <user hex>  IMPL <obs> ## <flags>
//!   train <id>.c GEN <image2 hex> none       IMPL <obs> ## <flags>   (image written AFTER read_user_lexicon)
//!   train <id>.d GEN <image2 hex> <user hex> IMPL <obs> ## <flags>
//!   train <id>.r REENC <image hex>           IMPL ok same
//!
//! `<obs>` is what the real crate does for `read_model(image)`, optionally
//! `read_user_lexicon(user)`, `write_dictionary`, `write_bigram_details`:
//! `err | panic | ok <lex> <matrix> <unk> <user> <bigram.left> <bigram.right> <bigram.cost sorted>`.
//!
//! Harness-only flags after `##` (implementation-side predicates of the properties):
//!   RT=<0|1>        files generated from the reloaded model equal those from the in-memory model
//!                   (bigram.cost as a multiset of lines) and generating twice gives the same
//!   COMPILES=<0|1>  `SystemDictionaryBuilder::from_readers(lex, matrix, char.def, unk)` is Ok
//!   USERC=<0|1|na>  the emitted user.csv is accepted by `reset_user_lexicon_from_reader`
//!   BIG=<0|1>       the bigram files compile with `from_readers_with_bigram_info` (raw)
//!   CLOSE=<d[@r:l:m:c]|na>  max over all id pairs of |raw connector cost - matrix connector cost|
//!                   (and, when non-zero, the first worst pair: right id, left id, matrix cost, raw cost)
//!   CLOSED=<d|na|buildpanic>  the same for the dual connector (`buildpanic`: building it panicked)
//!   DIMS=<0|1|na>   raw connector and matrix connector have the same numbers of ids
//!   K=<k>           number of bigram templates
//!   ZERO=<0|1>      all emitted costs are 0 (training left no weight)
//!   SLASH=<0|1>     some feature value contains `/` (bigram.cost lines become ambiguous)
//!   EMPTYCLASS=<0|1> some connection class has an empty feature list (virtual edge of the corpus)
//!   STAR=<0|1>      some bigram feature string is literally `*`
use crate::gen::{gen_chardef, gen_surface, CateSpec, GenCfg};
use crate::rng::Rng;
use crate::wire::{guarded, hex};
use std::io::Write;
use vibrato::trainer::{Corpus, Model, Trainer, TrainerConfig};
use vibrato::{Dictionary, SystemDictionaryBuilder};

pub struct Setup {
    pub lex: String,
    pub chardef: String,
    pub unk: String,
    pub feature_def: String,
    pub rewrite_def: String,
    pub corpus: String,
    pub user: String,
    pub k: usize,
    pub slash: bool,
    pub rows: Vec<(String, String)>,
}

fn csv_cell(s: &str) -> String {
    if s.is_empty() || s.contains(',') || s.contains('"') || s.contains('\n') || s.contains('\r') {
        format!("\"{}\"", s.replace('"', "\"\""))
    } else {
        s.to_string()
    }
}

fn gen_feature(rng: &mut Rng, slash: bool) -> String {
    // the last value begins with a double quote (`"x`): every writer must quote it
    let pos = *rng.pick(&["N", "V", "P", "N", "\"q,1\"", "\"d\"\"q\"", "N", "V", "\"\"\"x\""]);
    let sub = *rng.pick(&["*", "a", "b", "a"]);
    let read = match rng.below(6) {
        0 => "*".to_string(),
        1 if slash => "x/y".to_string(),
        2 => "名".to_string(),
        _ => format!("r{}", rng.below(3)),
    };
    match rng.below(8) {
        0 => pos.to_string(),
        1 => format!("{pos},{sub}"),
        2 => format!("{pos},{sub},{read},extra"),
        _ => format!("{pos},{sub},{read}"),
    }
}

fn gen_templates(rng: &mut Rng) -> (String, usize) {
    let uni_pool = [
        "u0:%F[0]",
        "u1:%F[0],%F?[1]",
        "u2:%t",
        "u3:%F[2]/%t",
        "u4:%F?[2]",
        "u5:%F[0],%F[1],%F[5]",
        "%F[1]",
        "名%F?[0]名%t%t",
        "const",
    ];
    let big_pool = [
        ("%L[0]", "%R[0]"),
        ("b1:%L[0]", "b1:%R[1]"),
        ("b2:%L?[1]", "b2:%R[0]"),
        ("b3:%L[0],%L?[2]", "b3:%R?[2]"),
        ("b4:%L[1]", "b4:%R?[1]"),
        ("b5", "b5:%R[0]"),
        ("b6:%L[0]", "b6"),
        ("b7:%L[2]", "b7:%R[2]"),
        ("b8:%L[0],%L[1]", "b8:%R[0],%R[1]"),
        ("b9:%L[7]", "b9:%R?[7]"),
        ("名%L[0]", "名%R[0]"),
        ("c", "c"),
        ("%L[1]", "%R[1]"),
    ];
    let mut s = String::new();
    if rng.chance(1, 3) {
        s.push_str("# generated feature.def\n\n");
    }
    let nu = 1 + rng.below(4);
    // a third of the set-ups use per-column unigram templates only: a word's merged weight is then a sum of per-column
    // weights, and a new combination of trained column values (a user entry) can outweigh every seed entry
    let per_column = rng.chance(1, 3);
    for i in 0..nu {
        if per_column {
            s.push_str(&format!("UNIGRAM {}\n", ["u0:%F[0]", "%F[1]", "u4:%F?[2]", "u0:%F[0]"][(i + rng.below(2)) % 4]));
        } else {
            s.push_str(&format!("UNIGRAM {}\n", rng.pick(&uni_pool)));
        }
    }
    let k = if rng.chance(1, 4) { 8 + rng.below(5) } else { 1 + rng.below(6) };
    // the last pool entry yields feature strings that are literally `*`: only sometimes
    let pool_len = if rng.chance(1, 8) { big_pool.len() } else { big_pool.len() - 1 };
    for _ in 0..k {
        let (l, r) = &big_pool[rng.below(pool_len)];
        s.push_str(&format!("BIGRAM {l}/{r}\n"));
    }
    (s, k)
}

fn gen_rewrite(rng: &mut Rng) -> String {
    let pats = ["*", "N", "V", "(N|V)", "a", "(a|b)", "P", "r0"];
    let rews = ["$1", "$2", "$3", "X", "N", "$4", "*", "a"];
    let mut s = String::new();
    for sec in ["[unigram rewrite]", "[left rewrite]", "[right rewrite]"] {
        s.push_str(sec);
        s.push('\n');
        let n = rng.below(4);
        for _ in 0..n {
            let pl = 1 + rng.below(3);
            let rl = 1 + rng.below(3);
            let p: Vec<&str> = (0..pl).map(|_| *rng.pick(&pats)).collect();
            let r: Vec<&str> = (0..rl).map(|_| *rng.pick(&rews)).collect();
            s.push_str(&format!("{} {}\n", p.join(","), r.join(",")));
        }
        if rng.chance(1, 4) {
            s.push_str("# comment\n\n");
        }
    }
    s
}

fn gen_unk_rows(rng: &mut Rng, cates: &[CateSpec], slash: bool) -> String {
    let mut rows = vec![];
    for c in cates {
        let n = if rng.chance(9, 10) { 1 + rng.below(2) } else { 0 };
        for _ in 0..n {
            rows.push(format!("{},0,0,{},{}\n", c.name, rng.range(-5, 30), gen_feature(rng, slash)));
        }
    }
    if rows.is_empty() {
        rows.push(format!("DEFAULT,0,0,0,{}\n", gen_feature(rng, slash)));
    }
    if rng.chance(1, 2) {
        rng.shuffle(&mut rows);
    }
    rows.concat()
}

/// A feature row whose columns come from the seed rows (a different seed row per column): every per-column
/// expansion is a trained feature while the combination is new.
fn crossover_feature(rng: &mut Rng, rows: &[(String, String)]) -> Option<String> {
    // raw cells (quotes kept), split at commas outside quotes
    let split = |t: &str| -> Vec<String> {
        let (mut cells, mut cur, mut q) = (vec![], String::new(), false);
        for ch in t.chars() {
            if ch == '"' {
                q = !q;
            }
            if ch == ',' && !q {
                cells.push(std::mem::take(&mut cur));
            } else {
                cur.push(ch);
            }
        }
        cells.push(cur);
        cells
    };
    let cols: Vec<Vec<String>> = rows.iter().map(|r| split(&r.1)).collect();
    let width = cols.iter().map(|c| c.len()).max().unwrap_or(0);
    let mut out: Vec<String> = vec![];
    for j in 0..width {
        let have: Vec<&Vec<String>> = cols.iter().filter(|c| c.len() > j).collect();
        if have.is_empty() {
            break;
        }
        out.push(have[rng.below(have.len())][j].clone());
    }
    if out.is_empty() { None } else { Some(out.join(",")) }
}

/// The cost column of every row of an emitted lexicon file (`surface,left,right,cost,...`, surface possibly quoted).
fn row_costs(file: &[u8]) -> Vec<i64> {
    let text = String::from_utf8_lossy(file);
    let mut out = vec![];
    // rows end at line breaks outside quotes
    let (mut q, mut cur, mut rows) = (false, String::new(), vec![]);
    for ch in text.chars() {
        if ch == '"' {
            q = !q;
        }
        if ch == '\n' && !q {
            rows.push(std::mem::take(&mut cur));
        } else {
            cur.push(ch);
        }
    }
    for row in rows {
        let (mut q, mut commas, mut cell) = (false, 0, String::new());
        for ch in row.chars() {
            if ch == '"' {
                q = !q;
            }
            if ch == ',' && !q {
                commas += 1;
                if commas == 4 {
                    break;
                }
                if commas == 3 {
                    cell.clear();
                }
                continue;
            }
            if commas == 3 {
                cell.push(ch);
            }
        }
        if let Ok(c) = cell.parse::<i64>() {
            out.push(c);
        }
    }
    out
}

/// Does some user entry carry the largest absolute weight of the model (its cost is at the end of the 16-bit scale
/// while no system entry's is)?
fn user_is_max(g: &Option<Result<Gen, ()>>) -> bool {
    match g {
        Some(Ok(g)) => {
            let l = row_costs(&g.lex).into_iter().map(|c| c.abs()).max().unwrap_or(0);
            let u = row_costs(&g.user).into_iter().map(|c| c.abs()).max().unwrap_or(0);
            u >= 32766 && l < 32000
        }
        _ => false,
    }
}

pub fn gen_setup(rng: &mut Rng) -> Setup {
    let cfg = GenCfg::default();
    let slash = rng.chance(1, 25);
    let (chardef, cates, _has_space) = gen_chardef(rng, &cfg);
    let unk = gen_unk_rows(rng, &cates, slash);
    // seed lexicon: 3..8 rows, homographs, surfaces that need quoting
    let n = 3 + rng.below(6);
    let mut rows: Vec<(String, String)> = vec![];
    for _ in 0..n {
        let surf = if !rows.is_empty() && rng.chance(1, 4) {
            rows[rng.below(rows.len())].0.clone()
        } else {
            let mut s = gen_surface(rng, true);
            if rng.chance(1, 6) {
                s.push(*rng.pick(&[',', '"', ',', '"', '\r', '\n']));
                if rng.chance(1, 2) {
                    s.push('a');
                }
            }
            s
        };
        rows.push((surf, gen_feature(rng, slash)));
    }
    let mut lex = String::new();
    for (s, f) in &rows {
        lex.push_str(&format!("{},0,0,0,{}\n", csv_cell(s), f));
    }
    let (feature_def, k) = gen_templates(rng);
    let rewrite_def = gen_rewrite(rng);
    // corpus
    let allow_unknown = rng.chance(1, 5);
    let mut corpus = String::new();
    let ns = 1 + rng.below(10);
    for _ in 0..ns {
        let nt = 1 + rng.below(5);
        for _ in 0..nt {
            if allow_unknown && rng.chance(1, 6) {
                // an unknown word (compatible unk entry or virtual edge)
                let s = gen_surface(rng, false);
                corpus.push_str(&format!("{}\t{}\n", s, gen_feature(rng, slash)));
            } else {
                let (s, f) = &rows[rng.below(rows.len())];
                if s.contains('\t') || s.contains('\n') || s.contains('\r') {
                    continue;
                }
                corpus.push_str(&format!("{s}\t{f}\n"));
            }
        }
        corpus.push_str("EOS\n");
    }
    // user lexicon
    let mut user = String::new();
    let nu = 1 + rng.below(6);
    for _ in 0..nu {
        let s = if rng.chance(1, 3) { rows[rng.below(rows.len())].0.clone() } else { gen_surface(rng, true) };
        let mut f = if rng.chance(1, 3) { rows[rng.below(rows.len())].1.clone() } else { gen_feature(rng, slash) };
        // crossover rows: every feature column comes from some seed row (a different one per column), so that each
        // per-column expansion is a trained feature while the combination is new - such an entry can outweigh every
        // seed entry (its merged weight becomes the largest absolute weight of the model)
        let cross = rng.chance(1, 2);
        if cross {
            if let Some(x) = crossover_feature(rng, &rows) {
                f = x;
            }
        }
        let params = match rng.below(5) {
            _ if cross => "0,0,0".to_string(),
            0 => format!("{},{},{}", rng.below(3), rng.below(3), rng.range(-40, 40)),
            1 => "0,0,7".to_string(),
            2 => format!("{},{},0", 1 + rng.below(2), 1 + rng.below(2)),
            _ => "0,0,0".to_string(),
        };
        user.push_str(&format!("{},{},{}\n", csv_cell(&s), params, f));
    }
    Setup { lex, chardef, unk, feature_def, rewrite_def, corpus, user, k, slash, rows }
}

/// Training in a helper thread with a wall-clock limit: the CRF optimiser of the dependency (L-BFGS with a backtracking
/// line search) does not terminate on some degenerate set-ups (seen in a thorough run: set-up 994 of seed 1 spun for 90
/// minutes).  Training itself is outside every property ("for which training succeeds"): such a set-up is skipped.  The
/// abandoned thread ends with the process.
pub fn train(s: &Setup, reg: f64, iters: u64) -> Option<Model> {
    let s2 = Setup {
        lex: s.lex.clone(), chardef: s.chardef.clone(), unk: s.unk.clone(), feature_def: s.feature_def.clone(),
        rewrite_def: s.rewrite_def.clone(), corpus: s.corpus.clone(), user: s.user.clone(), k: s.k, slash: s.slash, rows: vec![],
    };
    let (tx, rx) = std::sync::mpsc::channel();
    std::thread::spawn(move || {
        let _ = tx.send(train_unlimited(&s2, reg, iters));
    });
    let limit: u64 = std::env::var("VERIF_TRAIN_LIMIT_S").ok().and_then(|x| x.parse().ok()).unwrap_or(60);
    match rx.recv_timeout(std::time::Duration::from_secs(limit)) {
        Ok(m) => m,
        Err(_) => {
            eprintln!("training exceeded {limit} s: set-up skipped");
            None
        }
    }
}

fn train_unlimited(s: &Setup, reg: f64, iters: u64) -> Option<Model> {
    guarded(|| {
        let config = TrainerConfig::from_readers(
            s.lex.as_bytes(),
            s.chardef.as_bytes(),
            s.unk.as_bytes(),
            s.feature_def.as_bytes(),
            s.rewrite_def.as_bytes(),
        )
        .ok()?;
        let corpus = Corpus::from_reader(s.corpus.as_bytes()).ok()?;
        Trainer::new(config).ok()?.regularization_cost(reg).max_iter(iters).train(corpus).ok()
    })
    .flatten()
}

#[derive(Clone, PartialEq, Eq, Debug)]
pub struct Gen {
    pub lex: Vec<u8>,
    pub matrix: Vec<u8>,
    pub unk: Vec<u8>,
    pub user: Vec<u8>,
    pub left: Vec<u8>,
    pub right: Vec<u8>,
    pub cost_sorted: Vec<u8>,
    pub cost_raw: Vec<u8>,
}

pub fn sort_lines(b: &[u8]) -> Vec<u8> {
    let mut lines: Vec<&[u8]> = b.split(|&c| c == b'\n').collect();
    if lines.last().map_or(false, |l| l.is_empty()) {
        lines.pop();
    }
    lines.sort();
    let mut out = vec![];
    for l in lines {
        out.extend_from_slice(l);
        out.push(b'\n');
    }
    out
}

/// `write_dictionary` then `write_bigram_details`: Some(Ok(files)) / Some(Err) / None = panic.
pub fn generate(m: &mut Model) -> Option<Result<Gen, ()>> {
    guarded(|| {
        let (mut lex, mut matrix, mut unk, mut user) = (vec![], vec![], vec![], vec![]);
        if m.write_dictionary(&mut lex, &mut matrix, &mut unk, &mut user).is_err() {
            return Err(());
        }
        let (mut left, mut right, mut cost) = (vec![], vec![], vec![]);
        if m.write_bigram_details(&mut left, &mut right, &mut cost).is_err() {
            return Err(());
        }
        Ok(Gen { lex, matrix, unk, user, left, right, cost_sorted: sort_lines(&cost), cost_raw: cost })
    })
}

pub fn same_files(a: &Gen, b: &Gen) -> bool {
    a.lex == b.lex
        && a.matrix == b.matrix
        && a.unk == b.unk
        && a.user == b.user
        && a.left == b.left
        && a.right == b.right
        && a.cost_sorted == b.cost_sorted
}

pub fn obs_of(g: &Option<Result<Gen, ()>>) -> String {
    match g {
        None => "panic".to_string(),
        Some(Err(())) => "err".to_string(),
        Some(Ok(g)) => format!(
            "ok {} {} {} {} {} {} {}",
            hex(&g.lex),
            hex(&g.matrix),
            hex(&g.unk),
            hex(&g.user),
            hex(&g.left),
            hex(&g.right),
            hex(&g.cost_sorted)
        ),
    }
}

/// The observation of the real crate for a `GEN` line.
pub fn observe_gen(image: &[u8], user: Option<&[u8]>) -> (String, Option<Result<Gen, ()>>) {
    let r = guarded(|| {
        let mut m = match Model::read_model(image) {
            Ok(m) => m,
            Err(_) => return Some(Err(())),
        };
        if let Some(u) = user {
            if m.read_user_lexicon(u).is_err() {
                return Some(Err(()));
            }
        }
        generate(&mut m)
    })
    .flatten();
    (obs_of(&r), r)
}

/// "different strings receive different ids" after a reload followed by `read_user_lexicon`
/// (which interns the user entries' expansions): every interning map of the model is injective.
fn injective_after_reload(image: &[u8], user: &[u8]) -> &'static str {
    let r = guarded(|| {
        let mut m = Model::read_model(image).ok()?;
        m.read_user_lexicon(user).ok()?;
        let maps = vibrato::trainer::verif::model_feature_maps(&m);
        Some(maps.iter().all(|mp| {
            let mut ids: Vec<u32> = mp.iter().map(|x| x.1).collect();
            ids.sort_unstable();
            ids.windows(2).all(|w| w[0] != w[1])
        }))
    })
    .flatten();
    match r {
        Some(true) => "1",
        Some(false) => "0",
        None => "na",
    }
}

fn all_costs_zero(g: &Gen) -> bool {
    let col = |line: &str, sep: char, idx: usize| -> bool {
        line.split(sep).nth(idx).map_or(true, |c| c == "0")
    };
    String::from_utf8_lossy(&g.matrix).lines().skip(1).all(|l| col(l, ' ', 2))
        && String::from_utf8_lossy(&g.cost_raw).lines().all(|l| l.rsplit('\t').next() == Some("0"))
}

/// some connection class has no feature at all (virtual edges): a line `<id>\t` in bigram.left/right
fn empty_class(g: &Gen) -> bool {
    let f = |b: &[u8]| String::from_utf8_lossy(b).lines().any(|l| l.ends_with('\t'));
    f(&g.left) || f(&g.right)
}

/// some bigram feature string is literally `*` (collides with the marker written for `None`)
fn star_feature(g: &Gen) -> bool {
    String::from_utf8_lossy(&g.cost_raw).lines().any(|l| {
        let f = l.split('\t').next().unwrap_or("");
        f.starts_with("*/") || f.ends_with("/*")
    })
}

struct Compiled {
    compiles: bool,
    userc: String,
    big: bool,
    close: String,
    closed: String,
    dims: String,
    /// can the dual connector's pre-summed `i16` part saturate at all?  It sums, per id pair, one bigram.cost entry for
    /// each template that is not in the 8 raw lanes: impossible with at most 8 templates, and impossible when
    /// (templates - 8) * largest |entry| fits 16 bits (then C07's `dual_eq_raw_of_fits` applies: dual = raw)
    sat: bool,
}

fn max_diff(a: &Dictionary, b: &Dictionary) -> Option<String> {
    use vibrato::verif::{conn_cost, num_left, num_right};
    guarded(|| {
        let nr = num_right(a).min(num_right(b));
        let nl = num_left(a).min(num_left(b));
        let mut d = 0i64;
        let mut worst = String::new();
        for r in 0..nr {
            for l in 0..nl {
                let x = conn_cost(a, r as u16, l as u16) as i64;
                let y = conn_cost(b, r as u16, l as u16) as i64;
                if (x - y).abs() > d {
                    d = (x - y).abs();
                    worst = format!("@{r}:{l}:{x}:{y}");
                }
            }
        }
        format!("{d}{worst}")
    })
}

fn compile_flags(s: &Setup, g: &Gen) -> Compiled {
    compile_flags_cd(&s.chardef, g)
}

fn compile_flags_cd(chardef: &str, g: &Gen) -> Compiled {
    use vibrato::verif::{num_left, num_right};
    let mat = guarded(|| {
        SystemDictionaryBuilder::from_readers(&g.lex[..], &g.matrix[..], chardef.as_bytes(), &g.unk[..]).ok()
    })
    .flatten();
    let userc = if g.user.is_empty() {
        "na".to_string()
    } else {
        let r = guarded(|| {
            let d = SystemDictionaryBuilder::from_readers(&g.lex[..], &g.matrix[..], chardef.as_bytes(), &g.unk[..]).ok()?;
            d.reset_user_lexicon_from_reader(Some(&g.user[..])).ok()
        })
        .flatten();
        if r.is_some() { "1".to_string() } else { "0".to_string() }
    };
    let raw = guarded(|| {
        SystemDictionaryBuilder::from_readers_with_bigram_info(
            &g.lex[..], &g.right[..], &g.left[..], &g.cost_raw[..], chardef.as_bytes(), &g.unk[..], false,
        )
        .ok()
    })
    .flatten();
    let dual_r = guarded(|| {
        SystemDictionaryBuilder::from_readers_with_bigram_info(
            &g.lex[..], &g.right[..], &g.left[..], &g.cost_raw[..], chardef.as_bytes(), &g.unk[..], true,
        )
        .ok()
    });
    let dual_panicked = dual_r.is_none();
    let dual = dual_r.flatten();
    let (close, dims) = match (&mat, &raw) {
        (Some(m), Some(r)) => (
            max_diff(m, r).unwrap_or("panic".to_string()),
            if num_left(m) == num_left(r) && num_right(m) == num_right(r) { "1" } else { "0" }.to_string(),
        ),
        _ => ("na".to_string(), "na".to_string()),
    };
    let closed = match (&mat, &dual) {
        (Some(m), Some(r)) => max_diff(m, r).unwrap_or("panic".to_string()),
        _ => if dual_panicked { "buildpanic".to_string() } else { "na".to_string() },
    };
    let maxabs = String::from_utf8_lossy(&g.cost_raw)
        .lines()
        .filter_map(|l| l.rsplit('\t').next().and_then(|c| c.trim().parse::<i64>().ok()))
        .map(|c| c.abs())
        .max()
        .unwrap_or(0);
    let k = String::from_utf8_lossy(&g.left)
        .lines()
        .chain(String::from_utf8_lossy(&g.right).lines().collect::<Vec<_>>().into_iter())
        .map(|l| {
            // number of cells of the widest row (commas outside quotes + 1)
            let row = l.split('\t').nth(1).unwrap_or("");
            let (mut q, mut n) = (false, 1i64);
            for ch in row.chars() {
                if ch == '"' {
                    q = !q;
                } else if ch == ',' && !q {
                    n += 1;
                }
            }
            n
        })
        .max()
        .unwrap_or(0);
    let sat = k > 8 && (k - 8) * maxabs > 32767;
    Compiled { compiles: mat.is_some(), userc, big: raw.is_some(), close, closed, dims, sat }
}

pub fn trainer_flags(s: &Setup, rt: bool, g: &Option<Result<Gen, ()>>) -> String {
    flags(s, rt, g)
}

fn flags(s: &Setup, rt: bool, g: &Option<Result<Gen, ()>>) -> String {
    let seeds = format!("{}.{}.{}.{}", hex(s.lex.as_bytes()), hex(s.unk.as_bytes()), hex(s.feature_def.as_bytes()), hex(s.rewrite_def.as_bytes()));
    let classes = match g {
        Some(Ok(g)) => classes_flag(s.lex.as_bytes(), s.chardef.as_bytes(), s.unk.as_bytes(), s.feature_def.as_bytes(), s.rewrite_def.as_bytes(), g, s.user.as_bytes()),
        _ => "na".to_string(),
    };
    format!("{} CLASSES={classes} SEEDS={seeds}", flags_core(&s.chardef, s.k, s.slash, rt, g))
}

/// C18, second half: every word of the emitted lexicons carries connection ids whose rows in
/// bigram.left / bigram.right list, position by position, the expansion of the RIGHT / LEFT templates
/// over the word's rewritten features (`*` where the expansion yields no feature or training dropped it).
/// The expansions come from `expected_bigram_tuples` (a fresh configuration read from the seed files).
/// `1`, `0:<what>`, or `na` (files unreadable).  User rows are checked when their ids were assigned
/// by the model (the emitted row differs from `…,0,0,0,…` input) — rows with explicit ids are copied.
pub fn classes_flag(lex: &[u8], chardef: &[u8], unk: &[u8], fdef: &[u8], rdef: &[u8], g: &Gen, user_in: &[u8]) -> String {
    let r = guarded(|| -> Option<String> {
        let parse = |b: &[u8]| vibrato::verif::parse_lex_csv(b).ok();
        let mut words: Vec<(String, u16, u16, String)> = vec![];
        for (tag, file) in [("lex", &g.lex), ("unk", &g.unk)] {
            for (i, e) in parse(file)?.into_iter().enumerate() {
                words.push((format!("{tag}:{i}"), e.1, e.2, e.4));
            }
        }
        if !g.user.is_empty() {
            // the emitted rows follow the input rows; a row given as `…,0,0,0,…` had its parameters assigned by the model
            let input = parse(user_in)?;
            for (i, e) in parse(&g.user)?.into_iter().enumerate() {
                if input.get(i).map_or(false, |x| x.1 == 0 && x.2 == 0 && x.3 == 0) {
                    words.push((format!("user:{i}"), e.1, e.2, e.4));
                }
            }
        }
        let rows: Vec<(String, u32)> = words.iter().map(|w| (w.3.clone(), 0u32)).collect();
        let exp = vibrato::trainer::verif::expected_bigram_tuples(lex, chardef, unk, fdef, rdef, &rows)?;
        let table = |b: &[u8]| -> Vec<Option<Vec<String>>> {
            String::from_utf8_lossy(b)
                .lines()
                .map(|l| match l.split_once('\t') {
                    Some((_, "")) => None,
                    Some((_, cells)) => Some(vibrato::verif::parse_csv_row(cells)),
                    None => None,
                })
                .collect()
        };
        let (tl, tr) = (table(&g.left), table(&g.right));
        let check = |what: &str, id: u16, tab: &Vec<Option<Vec<String>>>, want: &Vec<Option<String>>| -> Option<String> {
            if id == 0 {
                return None;
            }
            match tab.get(usize::from(id) - 1) {
                None => Some(format!("{what}-id-{id}-not-listed")),
                Some(None) => None, // a class without any feature (virtual edge): nothing listed
                Some(Some(cells)) => {
                    if cells.len() != want.len() {
                        return Some(format!("{what}-id-{id}-has-{}-cells-for-{}-templates", cells.len(), want.len()));
                    }
                    for (k, (c, w)) in cells.iter().zip(want).enumerate() {
                        let ok = c == "*" || Some(c) == w.as_ref();
                        if !ok {
                            return Some(format!("{what}-id-{id}-position-{k}"));
                        }
                    }
                    None
                }
            }
        };
        for (w, (el, er)) in words.iter().zip(&exp) {
            // bigram.left[left id] lists the RIGHT-template expansions, bigram.right[right id] the LEFT-template ones
            if let Some(bad) = check("left", w.1, &tl, er).or_else(|| check("right", w.2, &tr, el)) {
                return Some(format!("0:{}:{bad}", w.0));
            }
        }
        Some("1".to_string())
    });
    match r {
        Some(Some(x)) => x,
        _ => "na".to_string(),
    }
}

/// The harness-side predicates of a `GEN` line; `CHARDEF` is carried so that a replay can recompute them.
pub fn flags_core(chardef: &str, k: usize, slash: bool, rt: bool, g: &Option<Result<Gen, ()>>) -> String {
    match g {
        Some(Ok(g)) => {
            let c = compile_flags_cd(chardef, g);
            format!(
                "RT={} COMPILES={} USERC={} BIG={} CLOSE={} CLOSED={} SAT={} DIMS={} K={} ZERO={} SLASH={} EMPTYCLASS={} STAR={} CHARDEF={}",
                rt as u8, c.compiles as u8, c.userc, c.big as u8, c.close, c.closed, c.sat as u8, c.dims, k,
                all_costs_zero(g) as u8, slash as u8, empty_class(g) as u8, star_feature(g) as u8, hex(chardef.as_bytes())
            )
        }
        _ => format!("RT={} COMPILES=na K={} SLASH={} CHARDEF={}", rt as u8, k, slash as u8, hex(chardef.as_bytes())),
    }
}

pub fn run(mode: &str, seed: u64, n: usize, out: &mut dyn Write) {
    let mut rng = Rng::new(seed ^ 0x747261696e);
    let mut made = 0usize;
    let mut attempts = 0usize;
    while made < n && attempts < 20 * n + 20 {
        attempts += 1;
        let mut srng = rng.fork();
        let s = gen_setup(&mut srng);
        // strong regularisation prunes whole feature families (models without any bigram weight, all-zero models)
        let reg = *srng.pick(&[0.0001f64, 0.001, 0.01, 0.01, 0.1, 0.5, 0.5, 5.0, 50.0]);
        let iters = *srng.pick(&[1u64, 3, 10, 30, 100]);
        let id = format!("{seed}.{made}");
        let mut m0 = match train(&s, reg, iters) {
            Some(m) => m,
            None => continue,
        };
        // generate, generate again (determinism), write, read, generate
        let g1 = generate(&mut m0);
        let g1b = generate(&mut m0);
        let mut image = vec![];
        if guarded(|| m0.write_model(&mut image).is_ok()) != Some(true) {
            continue;
        }
        let (obs_a, g2) = observe_gen(&image, None);
        let det = match (&g1, &g1b) {
            (Some(Ok(a)), Some(Ok(b))) => a == b,
            (a, b) => a.is_none() == b.is_none(),
        };
        let rt_a = det
            && match (&g1, &g2) {
                (Some(Ok(a)), Some(Ok(b))) => same_files(a, b),
                (None, None) => true,
                (Some(Err(())), Some(Err(()))) => true,
                _ => false,
            };
        // after training exactly the weighted features keep their strings (so that a later `read_user_lexicon`
        // finds the trained features of a `0,0,0` row): unigram map ids = ids with a weight index, right map
        // strings = strings used by some bigram weight
        let prune = guarded(|| {
            let maps = vibrato::trainer::verif::model_feature_maps(&m0);
            let mut have: Vec<u32> = maps[0].iter().map(|x| x.1).collect();
            have.sort_unstable();
            let want = vibrato::trainer::verif::unigram_weighted_ids(&m0);
            let mut used: Vec<String> = vibrato::trainer::verif::bigram_weight_table(&m0).into_iter().map(|x| x.1).filter(|x| !x.is_empty()).collect();
            used.sort();
            used.dedup();
            let mut right: Vec<String> = maps[2].iter().map(|x| x.0.clone()).collect();
            right.sort();
            have == want && right == used
        });
        let prune = match prune {
            Some(true) => "1",
            Some(false) => "0",
            None => "na",
        };
        writeln!(out, "train {id}.a GEN {} none IMPL {} ## {} PRUNE={prune}", hex(&image), obs_a, flags(&s, rt_a, &g2)).unwrap();
        if mode != "noreenc" && made % 4 == 0 {
            let r = guarded(|| Model::read_model(&image[..]).is_ok());
            let o = match r {
                None => "panic",
                Some(true) => "ok same",
                Some(false) => "err",
            };
            writeln!(out, "train {id}.r REENC {} IMPL {}", hex(&image), o).unwrap();
        }
        // user lexicon on the reloaded model vs on the in-memory model
        let user = s.user.as_bytes();
        let (obs_b, g3) = observe_gen(&image, Some(user));
        let mut det_user = true;
        let g3m = guarded(|| {
            if m0.read_user_lexicon(user).is_err() {
                return Some(Err(()));
            }
            let first = generate(&mut m0);
            // generating again from the same model (user entries included) gives the same files
            let again = generate(&mut m0);
            det_user = match (&first, &again) {
                (Some(Ok(a)), Some(Ok(b))) => same_files(a, b),
                (a, b) => a.is_none() == b.is_none(),
            };
            first
        })
        .flatten();
        let rt_b = det_user && match (&g3, &g3m) {
            (Some(Ok(a)), Some(Ok(b))) => same_files(a, b),
            (None, None) => true,
            (Some(Err(())), Some(Err(()))) => true,
            _ => false,
        };
        writeln!(out, "train {id}.b GEN {} {} IMPL {} ## {} INJ={}", hex(&image), hex(user), obs_b, flags(&s, rt_b, &g3), injective_after_reload(&image, user)).unwrap();
        // synthetic raw models: the trained image with transformed weights (sign patterns, one dominating
        // weight, cancellation, very small / very large magnitudes)
        if let Some(Ok(mut ms)) = guarded(|| Model::read_model(&image[..]).map_err(|_| ())) {
            let variants = if mode == "full" { 3 } else { 1 };
            for v in 0..variants {
                // kind 7: unigram weights large and positive, bigram weights tiny: the largest absolute weight is a
                // word's merged unigram weight, so a `0,0,0` user entry that combines strongly weighted features changes
                // the scale of every emitted cost (the generation before `read_user_lexicon` must not be remembered)
                let kind = if rng.chance(1, 4) { 7 } else { rng.below(7) };
                let j = rng.below(64);
                let salt = rng.next();
                // kind 6: two templates cancel each other (+H / -H), everything else is tiny, so single
                // bigram weights exceed every merged weight (bigram.cost entries beyond 16 bits)
                let mut tmpl: std::collections::HashMap<usize, u8> = std::collections::HashMap::new();
                if kind == 6 {
                    let table = vibrato::trainer::verif::bigram_weight_table(&ms);
                    let pre = |l: &str, r: &str| -> String {
                        let x = if l.is_empty() { r } else { l };
                        x.chars().take(2).collect()
                    };
                    let mut names: Vec<String> = table.iter().map(|(l, r, _)| pre(l, r)).collect();
                    names.sort();
                    names.dedup();
                    // templates without optional (`?`) fields are defined for every class: prefer them
                    let total: Vec<String> = names.iter().filter(|n| ["b1", "b5", "b6", "b7", "b8"].contains(&n.as_str())).cloned().collect();
                    if total.len() >= 2 && rng.below(4) != 0 {
                        names = total;
                    }
                    if names.len() >= 2 {
                        let a = names[rng.below(names.len())].clone();
                        let mut b = names[rng.below(names.len())].clone();
                        if a == b {
                            b = names[(names.iter().position(|x| *x == a).unwrap() + 1) % names.len()].clone();
                        }
                        for (l, r, i) in &table {
                            let p = pre(l, r);
                            if p == a {
                                tmpl.insert(*i, 1);
                            } else if p == b {
                                tmpl.insert(*i, 2);
                            }
                        }
                    }
                }
                let bigram_idx: std::collections::HashSet<usize> = if kind == 7 {
                    vibrato::trainer::verif::bigram_weight_table(&ms).into_iter().map(|x| x.2).collect()
                } else {
                    Default::default()
                };
                let f = move |i: usize, w: f64| -> f64 {
                    let h = (i as u64).wrapping_mul(0x9E3779B97F4A7C15) ^ salt;
                    match kind {
                        // unigram weights spread over [-10, 10], bigram weights tiny: the largest absolute weight is always a
                        // word's merged unigram weight
                        7 => if bigram_idx.contains(&i) { w * 0.001 } else { ((h >> 8) % 2001) as f64 / 100.0 - 10.0 },
                        6 => match tmpl.get(&i) {
                            Some(1) => 5.0 + w * 0.05,
                            Some(2) => -5.0 + w * 0.05,
                            _ => w * 0.05,
                        },
                        0 => if h & 1 == 0 { w } else { -w },
                        1 => if i % 64 == j { w * 40.0 + 3.0 } else { w },
                        2 => if i % 2 == 0 { w * 3.0 + 0.5 } else { -(w * 3.0 + 0.5) },
                        3 => w * 1e-13,
                        4 => w * 1e6,
                        _ => ((h >> 8) % 2001) as f64 / 100.0 - 10.0,
                    }
                };
                if let Some(Ok(img)) = guarded(|| vibrato::trainer::verif::write_model_with_weights(&mut ms, &f)) {
                    let (obs_s, gs) = observe_gen(&img, None);
                    writeln!(out, "train {id}.s{v} GEN {} none IMPL {} ## {} SYNTH={kind}", hex(&img), obs_s, flags(&s, true, &gs)).unwrap();
                    // history on the synthetic model: generate, read the user lexicon, generate again -- against a model
                    // that is read back and sees the user lexicon before its first generation
                    if kind == 7 || kind == 5 {
                        // search for a user lexicon whose entry becomes the largest absolute weight of the model (decided on
                        // a model that reads it before its first generation); fall back to the set-up's own user lexicon
                        let mut user_u: Vec<u8> = user.to_vec();
                        for _ in 0..12 {
                            if let Some(f) = crossover_feature(&mut rng, &s.rows) {
                                let surf = s.rows[rng.below(s.rows.len())].0.clone();
                                let cand = format!("{},0,0,0,{}\n", csv_cell(&surf), f).into_bytes();
                                let (_, g) = observe_gen(&img, Some(&cand[..]));
                                if user_is_max(&g) {
                                    user_u = cand;
                                    break;
                                }
                            }
                        }
                        let user = &user_u[..];
                        let (obs_u, gu) = observe_gen(&img, Some(user));
                        let gm = guarded(|| {
                            let mut m = Model::read_model(&img[..]).ok()?;
                            let _ = generate(&mut m);
                            if m.read_user_lexicon(user).is_err() {
                                return Some(Err(()));
                            }
                            generate(&mut m)
                        })
                        .flatten();
                        let rt_u = match (&gu, &gm) {
                            (Some(Ok(a)), Some(Ok(b))) => same_files(a, b),
                            (None, None) => true,
                            (Some(Err(())), Some(Err(()))) => true,
                            _ => false,
                        };
                        writeln!(out, "train {id}.u{v} GEN {} {} IMPL {} ## {} SYNTH={kind}", hex(&img), hex(user), obs_u, flags(&s, rt_u, &gu)).unwrap();
                    }
                }
            }
        }
        // image written after the user lexicon was read (user_entries are not part of it)
        if mode == "full" || made % 4 == 1 {
            let mut image2 = vec![];
            if guarded(|| m0.write_model(&mut image2).is_ok()) == Some(true) {
                let (obs_c, g4) = observe_gen(&image2, None);
                let rt_c = match (&g3m, &g4) {
                    (Some(Ok(a)), Some(Ok(b))) => same_files(a, b),
                    _ => false,
                };
                writeln!(out, "train {id}.c GEN {} none IMPL {} ## {}", hex(&image2), obs_c, flags(&s, rt_c, &g4)).unwrap();
                let (obs_d, g5) = observe_gen(&image2, Some(user));
                writeln!(out, "train {id}.d GEN {} {} IMPL {} ## {}", hex(&image2), hex(user), obs_d, flags(&s, true, &g5)).unwrap();
            }
        }
        made += 1;
    }
}

/// `vharness train replay`: reads lines `<id> <image hex> <user hex|none>` from stdin and
/// prints the implementation's `GEN` observation (for hand-made model images).
pub fn replay(out: &mut dyn Write) {
    use std::io::BufRead;
    let stdin = std::io::stdin();
    for line in stdin.lock().lines() {
        let line = line.unwrap();
        let t: Vec<&str> = line.split_whitespace().collect();
        if t.len() != 3 {
            continue;
        }
        let image = match crate::wire::unhex(t[1]) {
            Some(b) => b,
            None => continue,
        };
        let user = if t[2] == "none" { None } else { crate::wire::unhex(t[2]) };
        let (obs, _) = observe_gen(&image, user.as_deref());
        writeln!(out, "train {} GEN {} {} IMPL {}", t[0], t[1], t[2], obs).unwrap();
    }
}

/// `vharness train f27`: a minimal instance of finding F27 as a protocol line (no seed entry yields a right-context
/// feature, so training leaves the bigram weight table empty; a user entry then brings one and `merge` panics).
pub fn f27(out: &mut dyn Write) {
    let s = Setup {
        lex: "a,0,0,0,N\nb,0,0,0,V\n".to_string(),
        chardef: "DEFAULT 0 1 0\n".to_string(),
        unk: "DEFAULT,0,0,0,U\n".to_string(),
        feature_def: "UNIGRAM u:%F[0]\nBIGRAM l:%L?[1]/r:%R?[1]\n".to_string(),
        rewrite_def: "[unigram rewrite]\n[left rewrite]\n[right rewrite]\n".to_string(),
        corpus: "a\tN\nb\tV\nEOS\nb\tV\nEOS\n".to_string(),
        user: "c,0,0,0,N,x\n".to_string(),
        k: 1,
        slash: false,
        rows: vec![],
    };
    let mut m = match train(&s, 0.01, 10) {
        Some(m) => m,
        None => return,
    };
    let mut image = vec![];
    if m.write_model(&mut image).is_err() {
        return;
    }
    for (id, user) in [("f27.a", None), ("f27.b", Some(s.user.as_bytes()))] {
        let (obs, g) = observe_gen(&image, user);
        writeln!(out, "train {id} GEN {} {} IMPL {obs} ## {}", hex(&image), user.map_or("none".to_string(), hex), flags(&s, true, &g)).unwrap();
    }
}

/// `vharness train probes`: hand-written set-ups for the side conditions of C14's
/// `emitted_compiles` (printed as readable text, not protocol lines).
pub fn probes(out: &mut dyn Write) {
    let base = Setup {
        lex: "a,0,0,0,N,x\nb,0,0,0,V,y\n".to_string(),
        chardef: "DEFAULT 0 1 0\nSPACE 0 1 0\n0x0020 SPACE\n".to_string(),
        unk: "DEFAULT,0,0,0,U,*\nSPACE,0,0,0,S,*\n".to_string(),
        feature_def: "UNIGRAM u:%F[0]\nBIGRAM l:%L[0]/r:%R[0]\n".to_string(),
        rewrite_def: "[unigram rewrite]\n[left rewrite]\n[right rewrite]\n".to_string(),
        corpus: "a\tN,x\nb\tV,y\nEOS\nb\tV,y\nEOS\n".to_string(),
        user: String::new(),
        k: 1,
        slash: false,
        rows: vec![],
    };
    let mut cases: Vec<(&str, Setup)> = vec![];
    let clone = |s: &Setup| Setup {
        lex: s.lex.clone(), chardef: s.chardef.clone(), unk: s.unk.clone(), feature_def: s.feature_def.clone(),
        rewrite_def: s.rewrite_def.clone(), corpus: s.corpus.clone(), user: s.user.clone(), k: s.k, slash: s.slash, rows: vec![],
    };
    cases.push(("baseline", clone(&base)));
    let mut c = clone(&base);
    c.chardef = "DEFAULT 0 1 0\nA,B 0 1 0\n0x0020 A,B\n".to_string();
    c.unk = "DEFAULT,0,0,0,U,*\n\"A,B\",0,0,0,S,*\n".to_string();
    cases.push(("category-name-with-comma", c));
    let mut c = clone(&base);
    c.lex = "\u{feff}a,0,0,0,N,x\nb,0,0,0,V,y\n".to_string();
    c.corpus = "\u{feff}a\tN,x\nb\tV,y\nEOS\n".to_string();
    cases.push(("first-surface-starts-with-bom (file starts with ef bb bf ef bb bf?)", c));
    let mut c = clone(&base);
    c.lex = "\"\u{feff}a\",0,0,0,N,x\nb,0,0,0,V,y\n".to_string();
    c.corpus = "\u{feff}a\tN,x\nb\tV,y\nEOS\n".to_string();
    cases.push(("first-surface-starts-with-bom-quoted-in-seed", c));
    let mut c = clone(&base);
    c.lex = "a,0,0,0,N,\"x\ny\"\nb,0,0,0,V,y\n".to_string();
    c.feature_def = "UNIGRAM u:%F[0]\nBIGRAM l:%L[1]/r:%R[1]\n".to_string();
    c.corpus = "b\tV,y\nEOS\n".to_string();
    cases.push(("feature-cell-with-newline", c));
    let mut c = clone(&base);
    c.corpus = "a\tN,x\nzz\tQ,q\nEOS\n".to_string();
    c.unk = "DEFAULT,0,0,0,U,*\n".to_string();
    c.chardef = "DEFAULT 0 1 0\n".to_string();
    cases.push(("virtual-edge (corpus word without lexicon/unk match)", c));
    let mut c = clone(&base);
    c.lex = "a,0,0,0,N,x/y\na,0,0,0,V,y\nb,0,0,0,P,z\nb,0,0,0,Q,w\n".to_string();
    c.feature_def = "UNIGRAM u:%F[0]\nBIGRAM l:%L[1]/r:%R[1]\n".to_string();
    c.corpus = "a\tN,x/y\nb\tP,z\nEOS\nb\tQ,w\na\tV,y\nEOS\na\tN,x/y\nb\tP,z\na\tN,x/y\nEOS\nb\tQ,w\na\tV,y\nb\tQ,w\nEOS\n".to_string();
    cases.push(("feature-value-with-slash", c));
    let mut c = clone(&base);
    c.lex = "a,0,0,0,N,*\na,0,0,0,V,y\nb,0,0,0,P,z\nb,0,0,0,Q,*\n".to_string();
    c.feature_def = "UNIGRAM u:%F[0]\nBIGRAM %L[1]/%R[1]\nBIGRAM l:%L?[1]/r:%R?[1]\n".to_string();
    c.corpus = "a\tN,*\nb\tP,z\nEOS\nb\tQ,*\na\tV,y\nEOS\na\tN,*\nb\tP,z\na\tN,*\nEOS\nb\tQ,*\na\tV,y\nb\tQ,*\nEOS\n".to_string();
    c.k = 2;
    cases.push(("feature-string-is-star (template consisting of %L[1] only)", c));
    for (name, s) in cases {
        writeln!(out, "=== {name}").unwrap();
        let mut m = match train(&s, 0.001, 100) {
            Some(m) => m,
            None => {
                writeln!(out, "training failed").unwrap();
                continue;
            }
        };
        match generate(&mut m) {
            Some(Ok(g)) => {
                let c = compile_flags(&s, &g);
                writeln!(out, "COMPILES={} BIG={} CLOSE={} CLOSED={} SAT={} DIMS={}", c.compiles as u8, c.big as u8, c.close, c.closed, c.sat as u8, c.dims).unwrap();
                writeln!(out, "-- lex.csv\n{}-- unk.def\n{}-- matrix.def\n{}-- bigram.left\n{}-- bigram.right\n{}-- bigram.cost\n{}",
                    String::from_utf8_lossy(&g.lex).escape_debug(), String::from_utf8_lossy(&g.unk).escape_debug(),
                    String::from_utf8_lossy(&g.matrix).escape_debug(), String::from_utf8_lossy(&g.left).escape_debug(),
                    String::from_utf8_lossy(&g.right).escape_debug(), String::from_utf8_lossy(&g.cost_sorted).escape_debug()).unwrap();
                // what does the re-read lexicon contain?
                let re = vibrato::verif::parse_lex_csv(&g.lex);
                writeln!(out, "\n-- parse_csv(lex.csv) surfaces: {:?}", re.map(|v| v.into_iter().map(|e| e.0).collect::<Vec<_>>())).unwrap();
            }
            Some(Err(())) => writeln!(out, "generate: Err").unwrap(),
            None => writeln!(out, "generate: panic").unwrap(),
        }
    }
}
