//! `vharness replayfile <path>`: re-executes protocol lines (as written into replay files or
//! kept in `/verif/corpus/<id>/`) against the current implementation.  Everything after
//! ` IMPL ` on an input line is ignored and recomputed; lines starting with `#`, `MODEL` or
//! `P ` are skipped.
use crate::gen::DictSrc;
use crate::tok::{self, DOp, WOp};
use crate::wire::{hex, unhex};
use std::collections::HashMap;
use std::io::Write;

fn field<'a>(t: &'a [&'a str], key: &str) -> Option<&'a str> {
    t.iter().position(|x| *x == key).and_then(|i| t.get(i + 1)).copied()
}

fn parse_def(t: &[&str]) -> Option<(String, DictSrc)> {
    let name = t.get(1)?.to_string();
    let g = |k: &str| -> Option<Vec<u8>> { unhex(field(t, k)?) };
    Some((
        name,
        DictSrc {
            kind: field(t, "KIND")?.parse().ok()?,
            lex: g("LEX")?,
            matrix: g("MATRIX")?,
            right: g("RIGHT")?,
            left: g("LEFT")?,
            cost: g("COST")?,
            chardef: g("CHAR")?,
            unk: g("UNK")?,
            num_right: 0,
            num_left: 0,
            cates: vec![],
            surfaces: vec![],
            has_space: false,
        space_chars: vec![],
        },
    ))
}

fn parse_tok(t: &[&str]) -> Option<(String, String, Vec<DOp>, bool, usize, Vec<WOp>, String)> {
    let id = t.get(1)?.to_string();
    let dname = t.get(2)?.to_string();
    let mut i = 3;
    if *t.get(i)? != "DOPS" {
        return None;
    }
    let k: usize = t.get(i + 1)?.parse().ok()?;
    i += 2;
    let mut dops = vec![];
    for _ in 0..k {
        match *t.get(i)? {
            "M" => {
                let nl: usize = t.get(i + 1)?.parse().ok()?;
                let l: Vec<u16> = t[i + 2..i + 2 + nl].iter().map(|x| x.parse().ok()).collect::<Option<_>>()?;
                let j = i + 2 + nl;
                let nr: usize = t.get(j)?.parse().ok()?;
                let r: Vec<u16> = t[j + 1..j + 1 + nr].iter().map(|x| x.parse().ok()).collect::<Option<_>>()?;
                dops.push(DOp::Map(l, r));
                i = j + 1 + nr;
            }
            "U" => {
                dops.push(DOp::User(unhex(t.get(i + 1)?)?));
                i += 2;
            }
            "UN" => {
                dops.push(DOp::UserNone);
                i += 1;
            }
            "W" => {
                dops.push(DOp::WriteRead);
                i += 1;
            }
            _ => return None,
        }
    }
    if *t.get(i)? != "OPT" {
        return None;
    }
    let ign = *t.get(i + 1)? == "1";
    let maxg: usize = t.get(i + 2)?.parse().ok()?;
    i += 3;
    let mut hist = String::new();
    if t.get(i)?.starts_with('H') {
        hist = t[i].to_string();
        i += 1;
    }
    if *t.get(i)? != "WOPS" {
        return None;
    }
    let k: usize = t.get(i + 1)?.parse().ok()?;
    i += 2;
    let mut wops = vec![];
    for _ in 0..k {
        match *t.get(i)? {
            "R" => {
                wops.push(WOp::Reset(String::from_utf8(unhex(t.get(i + 1)?)?).ok()?));
                i += 2;
            }
            x => {
                wops.push(match x {
                    "T" => WOp::Tokenize,
                    "Q" => WOp::QueryTokens,
                    "L" => WOp::Lattice,
                    "I" => WOp::InitCounter,
                    "U" => WOp::UpdateCounts,
                    "P" => WOp::Probs,
                    "C" => WOp::Counts,
                    _ => return None,
                });
                i += 1;
            }
        }
    }
    Some((id, dname, dops, ign, maxg, wops, hist))
}

fn parse_rewrite(t: &[&str]) -> Option<(String, Vec<(Vec<String>, Vec<String>)>, Vec<String>)> {
    let id = t.get(1)?.to_string();
    let s = |h: &str| -> Option<String> { String::from_utf8(unhex(h)?).ok() };
    let mut i = 2;
    if *t.get(i)? != "RULES" {
        return None;
    }
    let n: usize = t.get(i + 1)?.parse().ok()?;
    i += 2;
    let mut rules = vec![];
    for _ in 0..n {
        let kp: usize = t.get(i)?.parse().ok()?;
        let p: Vec<String> = t[i + 1..i + 1 + kp].iter().map(|h| s(h)).collect::<Option<_>>()?;
        i += 1 + kp;
        let kr: usize = t.get(i)?.parse().ok()?;
        let r: Vec<String> = t[i + 1..i + 1 + kr].iter().map(|h| s(h)).collect::<Option<_>>()?;
        i += 1 + kr;
        rules.push((p, r));
    }
    if *t.get(i)? != "FEATS" {
        return None;
    }
    let m: usize = t.get(i + 1)?.parse().ok()?;
    let feats: Vec<String> = t[i + 2..i + 2 + m].iter().map(|h| s(h)).collect::<Option<_>>()?;
    Some((id, rules, feats))
}

pub fn run(path: &str, out: &mut dyn Write) {
    let text = std::fs::read_to_string(path).expect("replay file");
    let mut dicts: HashMap<String, DictSrc> = HashMap::new();
    for line in text.lines() {
        let line = line.trim();
        if line.is_empty() || line.starts_with('#') || line.starts_with("MODEL") || line.starts_with("P ") {
            continue;
        }
        let input = line.split(" IMPL ").next().unwrap();
        let flags = line.split(" ## ").nth(1).map(|f| format!(" ## {f}")).unwrap_or_default();
        let t: Vec<&str> = input.split(' ').filter(|x| !x.is_empty()).collect();
        match t.first().copied() {
            Some("def") => {
                if let Some((name, d)) = parse_def(&t) {
                    let (l, _) = tok::def_line(&name, &d);
                    writeln!(out, "{l}{flags}").unwrap();
                    dicts.insert(name, d);
                }
            }
            Some("tok") => {
                if let Some((id, dname, dops, ign, maxg, wops, hist)) = parse_tok(&t) {
                    if let Some(d) = dicts.get(&dname) {
                        if let Some(Ok(dict)) = tok::build_dict(d) {
                            writeln!(out, "{}", tok::case_line_hist(&id, &dname, dict, &dops, &hist, ign, maxg, &wops)).unwrap();
                        }
                    }
                }
            }
            Some("rewrite") => {
                if let Some((id, rules, feats)) = parse_rewrite(&t) {
                    writeln!(out, "{}", crate::rewrite::case_line(&id, &rules, &feats)).unwrap();
                }
            }
            Some("csv") => {
                if t.len() >= 4 && t[2] == "LEX" {
                    if let Some(b) = unhex(t[3]) {
                        writeln!(out, "csv {} LEX {} IMPL {}{flags}", t[1], hex(&b), crate::csvs::lex_obs(&b)).unwrap();
                    }
                }
            }
            Some("image") => {
                if t.len() >= 3 {
                    if let Some(b) = unhex(t[2]) {
                        if let Some(ci) = t.iter().position(|x| *x == "CUTS") {
                            let cuts: Vec<usize> = t[ci + 2..].iter().filter_map(|x| x.parse().ok()).collect();
                            let obs: Vec<String> = cuts.iter().map(|&k| crate::image::observe(&b[..k.min(b.len())])).collect();
                            writeln!(out, "{input} IMPL {}{flags}", obs.join(" ; ")).unwrap();
                        } else if flags.contains("MODE=full") && flags.contains(" BEH=") {
                            // BEH is recomputed as far as the image alone allows
                            let beh = crate::image::replay_beh(&b);
                            let fl: Vec<String> = flags.split(' ').map(|x| if x.starts_with("BEH=") { format!("BEH={beh}") } else { x.to_string() }).collect();
                            writeln!(out, "{input} IMPL {}{}", crate::image::observe(&b), fl.join(" ")).unwrap();
                        } else {
                            writeln!(out, "{input} IMPL {}{flags}", crate::image::observe(&b)).unwrap();
                        }
                    }
                }
            }
            Some("mapimg") => {
                // `mapimg <id> <A hex> M <nl> ids <nr> ids <B|err|panic>`: read A back, map, write again
                if let Some(mi) = t.iter().position(|x| *x == "M") {
                    let parse = |from: usize| -> Option<(Vec<u16>, usize)> {
                        let n: usize = t.get(from)?.parse().ok()?;
                        let v: Vec<u16> = t.get(from + 1..from + 1 + n)?.iter().filter_map(|x| x.parse().ok()).collect();
                        if v.len() == n { Some((v, from + 1 + n)) } else { None }
                    };
                    if let (Some(a), Some((l, next))) = (unhex(t[2]), parse(mi + 1)) {
                        if let Some((r, _)) = parse(next) {
                            let (btok, obs, costs) = match crate::wire::guarded(|| vibrato::Dictionary::read(&a[..]).ok()).flatten() {
                                Some(d) => crate::mapimg::map_obs(d, &l, &r),
                                None => ("err".to_string(), "err", "na"),
                            };
                            // the COSTS flag is recomputed
                            let flags: String = flags.split(' ').map(|x| if x.starts_with("COSTS=") { format!("COSTS={costs}") } else { x.to_string() }).collect::<Vec<_>>().join(" ");
                            let head = t[..t.len() - 1].join(" ");
                            writeln!(out, "{head} {btok} IMPL {obs}{flags}").unwrap();
                        }
                    }
                }
            }
            Some("train") => {
                // train <id> GEN <image> <user|none>   /   train <id> REENC <image>
                if t.len() >= 5 && t[2] == "GEN" {
                    if let Some(img) = unhex(t[3]) {
                        let user = if t[4] == "none" { None } else { unhex(t[4]) };
                        let field = |k: &str| -> Option<String> {
                            flags.split(' ').find_map(|x| x.strip_prefix(k).map(|v| v.to_string()))
                        };
                        let lib = crate::trainer::observe_gen(&img, user.as_deref());
                        let (obs, g) = if t[1].ends_with(".cli") && std::env::var("VERIF_CLI_BIN").is_ok() {
                            crate::cli::dictgen_gen(&img, user.as_deref())
                        } else {
                            crate::trainer::observe_gen(&img, user.as_deref())
                        };
                        // predicates recomputed on what the current tree produces (RT: against a second, library-side
                        // generation from the same image; the in-memory side of the original case cannot be replayed)
                        let fl = match field("CHARDEF=").and_then(|h| unhex(&h)).and_then(|b| String::from_utf8(b).ok()) {
                            Some(cd) => {
                                let k: usize = field("K=").and_then(|x| x.parse().ok()).unwrap_or(0);
                                let slash = field("SLASH=").map_or(false, |x| x == "1");
                                let rt = lib.0 == obs;
                                let mut f = format!(" ## {}", crate::trainer::flags_core(&cd, k, slash, rt, &g));
                                if let Some(sy) = field("SYNTH=") {
                                    f.push_str(&format!(" SYNTH={sy}"));
                                }
                                if let Some(seeds) = field("SEEDS=") {
                                    let parts: Vec<Option<Vec<u8>>> = seeds.split('.').map(|h| unhex(h)).collect();
                                    if let ([Some(lx), Some(un), Some(fd), Some(rd)], Some(Ok(gen))) = (&parts[..], &g) {
                                        let cl = crate::trainer::classes_flag(lx, cd.as_bytes(), un, fd, rd, gen, user.as_deref().unwrap_or(&[]));
                                        f.push_str(&format!(" CLASSES={cl} SEEDS={seeds}"));
                                    }
                                }
                                f
                            }
                            None => flags.clone(),
                        };
                        writeln!(out, "{input} IMPL {obs}{fl}").unwrap();
                    }
                }
            }
            Some("extract") => {
                // extract <id> EXPAND <U|L|R> <tpl> <cate> <m> cells   /   extract <id> MECAB <fd> <rid> <lid> <md> <cf bits>
                let us = |h: &str| unhex(h).and_then(|b| String::from_utf8(b).ok());
                if t.len() >= 7 && t[2] == "EXPAND" {
                    let kind = match t[3] { "U" => 0u8, "L" => 1, _ => 2 };
                    if let (Some(tpl), Ok(cate), Ok(m)) = (us(t[4]), t[5].parse::<u32>(), t[6].parse::<usize>()) {
                        let cells: Option<Vec<String>> = t[7..].iter().take(m).map(|c| us(c)).collect();
                        if let Some(cells) = cells {
                            writeln!(out, "{input} IMPL {}{flags}", crate::extract::expand_obs(kind, &tpl, cate, &cells)).unwrap();
                        }
                    }
                } else if t.len() >= 8 && t[2] == "MECAB" {
                    if let (Some(a), Some(b), Some(c), Some(d), Ok(bits)) = (unhex(t[3]), unhex(t[4]), unhex(t[5]), unhex(t[6]), t[7].parse::<u64>()) {
                        let obs = crate::extract::mecab_obs(&a, &b, &c, &d, f64::from_bits(bits));
                        writeln!(out, "{input} IMPL {obs}{flags}").unwrap();
                    }
                }
            }
            Some("trainnew") => {
                if t.len() >= 7 {
                    let f: Vec<Option<Vec<u8>>> = t[2..7].iter().map(|h| unhex(h)).collect();
                    if let [Some(a), Some(b), Some(c), Some(d), Some(e)] = &f[..] {
                        writeln!(out, "{input} IMPL {}{flags}", crate::trainnew::observe(a, b, c, d, e)).unwrap();
                    }
                }
            }
            Some("limits") => {
                if t.len() >= 6 && t[2] == "BIGRAM" {
                    if let Ok(rows) = t[3].parse::<usize>() {
                        let side = if t[4] == "L" { 'L' } else { 'R' };
                        writeln!(out, "{input} IMPL {}", crate::limits::bigram_obs(rows.min(200_000), side, t[5] == "1")).unwrap();
                    }
                } else if t.len() >= 5 && t[2] == "MATRIX" {
                    if let (Ok(a), Ok(b)) = (t[3].parse::<usize>(), t[4].parse::<usize>()) {
                        writeln!(out, "{input} IMPL {}", crate::limits::matrix_obs(a, b)).unwrap();
                    }
                }
            }
            Some("tokchain") => {
                if t.len() >= 5 {
                    if let (Ok(len), Ok(w), Ok(c)) = (t[2].parse::<usize>(), t[3].parse::<i64>(), t[4].parse::<i64>()) {
                        writeln!(out, "{input} IMPL {}", crate::chain_obs(len.min(100_000), w, c)).unwrap();
                    }
                }
            }
            Some("tok16") => {
                if t.len() >= 4 {
                    if let (Ok(rows), Ok(cheap)) = (t[2].parse::<usize>(), t[3].parse::<usize>()) {
                        writeln!(out, "{input} IMPL {} ## ROWS={rows} CHEAP={cheap}", crate::tok16_obs(rows.min(200_000), cheap)).unwrap();
                    }
                }
            }
            Some("conn") => {
                // conn <id> KIND <k> <right> <left> <cost>
                if t.len() >= 7 && t[2] == "KIND" {
                    if let (Some(r), Some(l), Some(c)) = (unhex(t[4]), unhex(t[5]), unhex(t[6])) {
                        let kind: u8 = t[3].parse().unwrap_or(1);
                        writeln!(out, "{input} IMPL {}{flags}", crate::conn::conn_obs(kind, &r, &l, &c)).unwrap();
                    }
                }
            }
            Some("corpus") => {
                if t.len() >= 4 && t[2] == "parse" {
                    if let Some(b) = unhex(t[3]) {
                        let (o, rt) = crate::corpus::obs(&b);
                        let kind = flags.split("KIND=").nth(1).map(|k| format!(" KIND={}", k.split(' ').next().unwrap())).unwrap_or_default();
                        // EXP is recomputed against the recorded expectation
                        let exp = flags.split(' ').find_map(|x| x.strip_prefix("EXPECT=")).map(|h| {
                            let want = unhex(h).and_then(|b| String::from_utf8(b).ok()).unwrap_or_default();
                            format!(" EXP={} EXPECT={h}", (o.split(" REWRITE ").next() == Some(want.as_str())) as u8)
                        }).unwrap_or_default();
                        writeln!(out, "{input} IMPL {o} ## RT={rt}{kind}{exp}").unwrap();
                    }
                }
            }
            _ => {}
        }
    }
}
