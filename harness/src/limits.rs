//! Stream `limits` (property C10): the builders at the width limits of their id types.
//!
//! `limits <id> BIGRAM <rows> <side: R|L> <dual: 0|1> IMPL <build> [cost=<ok|panic>] [tok=<ok n|panic>]`
//!   bigram.right (side R) or bigram.left (side L) with `rows` rows of pairwise different features at 9
//!   templates (1 row on the other side), a lexicon word whose id on that side is the largest one that fits
//!   `u16`; `from_readers_with_bigram_info`, then the connection cost of the largest id and a tokenization.
//! `limits <id> MATRIX <num_right> <num_left> IMPL …`  the same for matrix.def headers around 65535/65536.
//! The expected observation (Lean driver: `MODEL nopanic`) is "no `panic` anywhere": every outcome is a
//! dictionary that can be used, or an error value.
use crate::wire::guarded;
use std::io::Write;
use vibrato::{SystemDictionaryBuilder, Tokenizer};

fn probe(dict: vibrato::Dictionary, r: u16, l: u16) -> String {
    let c = guarded(|| vibrato::verif::conn_cost(&dict, r, l));
    let t = guarded(|| {
        let tokenizer = Tokenizer::new(dict);
        let mut w = tokenizer.new_worker();
        w.reset_sentence("aa");
        w.tokenize();
        w.num_tokens()
    });
    format!(
        "cost={} tok={}",
        if c.is_some() { "ok" } else { "panic" },
        match t {
            Some(n) => format!("ok{n}"),
            None => "panic".to_string(),
        }
    )
}

pub fn bigram_obs(rows: usize, side: char, dual: bool) -> String {
    let mut big = String::new();
    let mut cost = String::new();
    for i in 1..=rows {
        big.push_str(&format!("{i}\tf{i},f{i},f{i},f{i},f{i},f{i},f{i},f{i},f{i}\n"));
    }
    // every row's feature is listed, so that the rows stay pairwise different inside the connector
    for i in 1..=rows {
        if side == 'R' {
            cost.push_str(&format!("f{i}/A\t{}\n", i % 7 + 1));
        } else {
            cost.push_str(&format!("A/f{i}\t{}\n", i % 7 + 1));
        }
    }
    let small = "1\tA,A,A,A,A,A,A,A,A\n".to_string();
    let top = rows.min(65535);
    let (right, left, lex) = if side == 'R' {
        (&big, &small, format!("a,1,{top},1,x\n"))
    } else {
        (&small, &big, format!("a,{top},1,1,x\n"))
    };
    let r = guarded(|| {
        SystemDictionaryBuilder::from_readers_with_bigram_info(
            lex.as_bytes(), right.as_bytes(), left.as_bytes(), cost.as_bytes(),
            &b"DEFAULT 0 1 0\n"[..], &b"DEFAULT,0,0,10,*\n"[..], dual,
        )
    });
    match r {
        None => "panic".to_string(),
        Some(Err(_)) => "err".to_string(),
        Some(Ok(d)) => {
            let (rr, ll) = if side == 'R' { (top as u16, 1u16) } else { (1u16, top as u16) };
            format!("ok {}", probe(d, rr, ll))
        }
    }
}

pub fn matrix_obs(nr: usize, nl: usize) -> String {
    let matrix = format!("{nr} {nl}\n0 0 1\n");
    let lex = format!("a,{},{},1,x\n", nl.saturating_sub(1).min(65535), nr.saturating_sub(1).min(65535));
    let r = guarded(|| {
        SystemDictionaryBuilder::from_readers(lex.as_bytes(), matrix.as_bytes(), &b"DEFAULT 0 1 0\n"[..], &b"DEFAULT,0,0,10,*\n"[..])
    });
    match r {
        None => "panic".to_string(),
        Some(Err(_)) => "err".to_string(),
        Some(Ok(d)) => format!("ok {}", probe(d, nr.saturating_sub(1).min(65535) as u16, nl.saturating_sub(1).min(65535) as u16)),
    }
}

pub fn run(_seed: u64, n: usize, out: &mut dyn Write) {
    let mut cases: Vec<(usize, char, bool)> = vec![];
    for rows in [65535usize, 65534, 65536, 65537] {
        for side in ['R', 'L'] {
            for dual in [false, true] {
                cases.push((rows, side, dual));
            }
        }
    }
    for (k, (rows, side, dual)) in cases.into_iter().enumerate() {
        if k >= n {
            break;
        }
        writeln!(out, "limits 0.{k} BIGRAM {rows} {side} {} IMPL {}", dual as u8, bigram_obs(rows, side, dual)).unwrap();
    }
    // matrix.def headers around the u16 limit (a sparse matrix: only the header and one entry)
    for (k, (nr, nl)) in [(65535usize, 2usize), (65536, 2), (2, 65535), (2, 65536), (70000, 1)].into_iter().enumerate() {
        writeln!(out, "limits 1.{k} MATRIX {nr} {nl} IMPL {}", matrix_obs(nr, nl)).unwrap();
    }
}
