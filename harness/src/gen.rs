//! Structured generators: dictionaries (as source files), sentences, histories.
use crate::rng::Rng;

/// Alphabet used for surfaces and sentences: 1..4-byte characters, two SPACE
/// characters, an astral character, a character outside every generated range.
pub const ALPHA: &[char] = &[
    'a', 'b', 'c', 'd', '1', '2', ' ', '\u{3000}', 'あ', '漢', 'é', '😀', 'z',
    // first UTF-8 byte 0xEF (the first byte of a byte-order mark)
    'Ｊ', 'ｱ',
    // the last entries of the 65536-entry category table
    '\u{FFFF}', '\u{FFFD}',
];

#[derive(Clone, Debug)]
pub struct CateSpec {
    pub name: String,
    pub invoke: bool,
    pub group: bool,
    pub length: u32,
}

#[derive(Clone, Debug)]
pub struct DictSrc {
    pub kind: u8, // 0 matrix, 1 raw, 2 dual
    pub lex: Vec<u8>,
    pub matrix: Vec<u8>,
    pub right: Vec<u8>,
    pub left: Vec<u8>,
    pub cost: Vec<u8>,
    pub chardef: Vec<u8>,
    pub unk: Vec<u8>,
    pub num_right: usize,
    pub num_left: usize,
    pub cates: Vec<CateSpec>,
    pub surfaces: Vec<String>,
    pub has_space: bool,
    /// under `space_pre`: the characters that char.def puts into SPACE (one or both of U+0020, U+3000)
    pub space_chars: Vec<char>,
}

#[derive(Clone, Debug)]
pub struct GenCfg {
    /// every category gets at least one unk.def entry
    pub cover_unk: bool,
    /// SPACE characters belong to SPACE alone and no surface contains one (C12 precondition)
    pub space_pre: bool,
    /// allow U+0000 in sentences
    pub nul_in_sentence: bool,
    /// maximum ids per side
    pub max_ids: usize,
    /// cost magnitude
    pub cost_mag: i64,
    /// connector kind (0 matrix / 1 raw / 2 dual); None = random among allowed
    pub kind: Option<u8>,
    /// always add a large family of homographs (postings width boundaries)
    pub big_homographs: bool,
}

impl Default for GenCfg {
    fn default() -> Self {
        GenCfg {
            cover_unk: true,
            space_pre: false,
            nul_in_sentence: true,
            max_ids: 4,
            cost_mag: 40,
            kind: Some(0),
            big_homographs: false,
        }
    }
}

fn small_cost(rng: &mut Rng, mag: i64) -> i64 {
    match rng.below(6) {
        0 => 0,
        1 => rng.range(-3, 3),
        2 => *rng.pick(&[-mag, mag, 1, -1]),
        _ => rng.range(-mag, mag),
    }
}

pub fn gen_surface(rng: &mut Rng, allow_space: bool) -> String {
    let n = 1 + rng.below(3) + if rng.chance(1, 6) { rng.below(3) } else { 0 };
    let mut s = String::new();
    for _ in 0..n {
        loop {
            let c = *rng.pick(ALPHA);
            if !allow_space && (c == ' ' || c == '\u{3000}') {
                continue;
            }
            s.push(c);
            break;
        }
    }
    s
}

fn feature(rng: &mut Rng, i: usize) -> String {
    let f = feature_core(rng, i);
    // features ending in white space (a blank-symbol entry whose last column is the blank itself)
    if rng.chance(1, 8) {
        format!("{f}{}", *rng.pick(&[" ", "\u{3000}", "\t", ",\u{3000}", "  "]))
    } else {
        f
    }
}

fn feature_core(rng: &mut Rng, i: usize) -> String {
    let kinds = if rng.chance(1, 10) { 5 } else { 4 };
    match rng.below(kinds) {
        // a quoted cell that spans two lines: the feature is the raw remainder of the row, line break included
        4 => format!("g{i},\"a\nb{i}\",z"),
        0 => format!("f{i}"),
        1 => format!("f{i},名詞,*"),
        2 => format!("\"q,{i}\",x"),
        _ => format!("p{},y{}", rng.below(3), i),
    }
}

pub fn gen_lex_rows(
    rng: &mut Rng,
    n: usize,
    num_left: usize,
    num_right: usize,
    mag: i64,
    allow_space: bool,
    pool: &mut Vec<String>,
) -> String {
    let mut out = String::new();
    for i in 0..n {
        // reuse surfaces (homographs), extend existing ones (nested prefixes)
        let surf = if !pool.is_empty() && rng.chance(1, 4) {
            rng.pick(pool).clone()
        } else if !pool.is_empty() && rng.chance(1, 4) {
            let mut s = rng.pick(pool).clone();
            s.push_str(&gen_surface(rng, allow_space));
            s
        } else {
            gen_surface(rng, allow_space)
        };
        pool.push(surf.clone());
        let l = rng.below(num_left);
        let r = rng.below(num_right);
        let c = small_cost(rng, mag);
        let cell = if surf.contains(',') || surf.contains('"') {
            format!("\"{}\"", surf.replace('"', "\"\""))
        } else {
            surf
        };
        let feat = feature(rng, i);
        out.push_str(&format!("{cell},{l},{r},{c},{feat}\n"));
        // now and then the same row again with another (often cheaper) cost: rows that differ only in their cost are
        // distinct words
        if rng.chance(1, 8) {
            out.push_str(&format!("{cell},{l},{r},{},{feat}\n", c - 1 - small_cost(rng, mag).abs()));
            if let Some(sf) = pool.last().cloned() {
                pool.push(sf);
            }
        }
    }
    out
}

pub fn gen_chardef(rng: &mut Rng, cfg: &GenCfg) -> (String, Vec<CateSpec>, bool) {
    let (s, c, h, _) = gen_chardef_sp(rng, cfg);
    (s, c, h)
}

/// As `gen_chardef`, also returning the characters of the SPACE category under `space_pre`.
pub fn gen_chardef_sp(rng: &mut Rng, cfg: &GenCfg) -> (String, Vec<CateSpec>, bool, Vec<char>) {
    let mut cates = vec![CateSpec {
        name: "DEFAULT".into(),
        invoke: rng.chance(1, 2),
        group: rng.chance(1, 2),
        length: rng.below(4) as u32,
    }];
    let has_space = cfg.space_pre || rng.chance(3, 4);
    if has_space {
        cates.push(CateSpec {
            name: "SPACE".into(),
            invoke: rng.chance(1, 2),
            group: rng.chance(2, 3),
            length: rng.below(3) as u32,
        });
    }
    // the category set is an 18-bit field: now and then 17, 18 (the most that fits), 19 or 20 categories in all
    let extra = if rng.chance(1, 12) {
        *rng.pick(&[17usize, 18, 18, 19, 19, 20]) - 1 - usize::from(has_space)
    } else {
        rng.below(4)
    };
    for i in 0..extra {
        cates.push(CateSpec {
            name: format!("K{i}"),
            invoke: rng.chance(1, 2),
            group: rng.chance(1, 2),
            length: if rng.chance(1, 8) { rng.below(16) as u32 } else { rng.below(4) as u32 },
        });
    }
    let mut s = String::new();
    if rng.chance(1, 3) {
        s.push_str("# generated char.def\n\n");
    }
    // category definitions in a random order, DEFAULT anywhere
    let mut order: Vec<usize> = (0..cates.len()).collect();
    if rng.chance(1, 2) {
        rng.shuffle(&mut order);
    }
    // category ids follow definition order except DEFAULT = 0 pre-registered
    let mut defined: Vec<CateSpec> = vec![cates[0].clone()];
    for &i in &order {
        let c = &cates[i];
        let sep = if rng.chance(1, 4) { "\t" } else { " " };
        s.push_str(&format!(
            "{}{sep}{}{sep}{} {}\n",
            c.name, c.invoke as u8, c.group as u8, c.length
        ));
        if i != 0 {
            defined.push(c.clone());
        }
    }
    let mut space_chars: Vec<char> = vec![];
    let names: Vec<String> = cates.iter().map(|c| c.name.clone()).collect();
    let non_space: Vec<String> =
        names.iter().filter(|n| n.as_str() != "SPACE").cloned().collect();
    // ranges
    if has_space {
        if cfg.space_pre {
            // the precondition of C12 does not say WHICH characters are spaces: both, only U+0020, or only U+3000
            match rng.below(4) {
                0 => {
                    s.push_str("0x0020 SPACE\n");
                    space_chars.push(' ');
                }
                1 => {
                    s.push_str("0x3000 SPACE\n");
                    space_chars.push('\u{3000}');
                }
                _ => {
                    s.push_str("0x0020 SPACE\n0x3000 SPACE\n");
                    space_chars.extend([' ', '\u{3000}']);
                }
            }
        } else {
            s.push_str("0x0020 SPACE");
            if rng.chance(1, 4) {
                s.push_str(&format!(" {}", rng.pick(&non_space)));
            }
            s.push('\n');
            if rng.chance(1, 2) {
                s.push_str("0x3000 SPACE\n");
            }
        }
    }
    let nranges = rng.below(6);
    let pts: [u32; 12] = [0x0, 0x31, 0x32, 0x61, 0x62, 0x63, 0x64, 0xE9, 0x3042, 0x6F22, 0xFFFC, 0xFFFF];
    for _ in 0..nranges {
        let a = *rng.pick(&pts);
        let line = if rng.chance(1, 2) {
            format!("0x{:04X}", a)
        } else {
            let b = (a + rng.below(4) as u32).min(0xFFFF);
            format!("0x{:04X}..0x{:04x}", a, b)
        };
        let pool = if cfg.space_pre { &non_space } else { &names };
        let k = 1 + rng.below(2) + if rng.chance(1, 5) { 1 } else { 0 };
        let mut cs = vec![];
        for _ in 0..k {
            cs.push(rng.pick(pool).clone());
        }
        // under the C12 precondition ranges must not re-categorise the space characters
        if cfg.space_pre && (a <= 0x20 && a + 4 >= 0x20) && line.contains("..") {
            continue;
        }
        let _ = &space_chars;
        s.push_str(&format!("{line} {}", cs.join(" ")));
        if rng.chance(1, 6) {
            s.push_str(" # note");
        }
        s.push('\n');
    }
    (s, defined, has_space, space_chars)
}

pub fn gen_unk(rng: &mut Rng, cates: &[CateSpec], cfg: &GenCfg, nl: usize, nr: usize) -> String {
    let mut rows: Vec<String> = vec![];
    for (ci, c) in cates.iter().enumerate() {
        let last = ci + 1 == cates.len();
        let n = if cfg.cover_unk { 1 + rng.below(2) + rng.below(2) } else if last && rng.chance(1, 2) { 0 } else { rng.below(3) };
        for j in 0..n {
            rows.push(format!(
                "{},{},{},{},unk-{}-{}\n",
                c.name,
                rng.below(nl),
                rng.below(nr),
                small_cost(rng, cfg.cost_mag) + 5,
                c.name,
                j
            ));
        }
    }
    if rng.chance(1, 2) {
        rng.shuffle(&mut rows);
    }
    rows.concat()
}

pub fn gen_matrix(rng: &mut Rng, nr: usize, nl: usize, mag: i64) -> String {
    let mut s = format!("{nr} {nl}\n");
    let dense = rng.chance(2, 3);
    for r in 0..nr {
        for l in 0..nl {
            if dense || rng.chance(1, 2) {
                s.push_str(&format!("{r} {l} {}\n", small_cost(rng, mag)));
            }
        }
    }
    s
}

/// A bigram model description with `k` templates. Returns (right, left, cost).
pub fn gen_bigram(rng: &mut Rng, nr: usize, nl: usize, k: usize, mag: i64) -> (String, String, String) {
    // feature vocabulary per position; some strings shared across positions
    let vocab = |rng: &mut Rng, pos: usize| -> String {
        match rng.below(7) {
            0 => "*".to_string(),
            // leading / trailing white space belongs to the feature string (bigram.cost lines are not trimmed)
            6 => (*rng.pick(&[" w", "w ", "\u{3000}", " ", "w\u{3000}"])).to_string(),
            1 => format!("s{}", rng.below(2)),
            2 => format!("\"q,{}\"", rng.below(2)),
            _ => format!("p{}v{}", pos, rng.below(3)),
        }
    };
    let mut rights: Vec<Vec<String>> = vec![];
    let mut lefts: Vec<Vec<String>> = vec![];
    // a third of the rows repeat an earlier row, entirely or up to two positions: connection ids that share their
    // feature list (or the part of it that the dual connector pre-sums) collapse to one row of its matrix part
    let row = |rng: &mut Rng, rows: &Vec<Vec<String>>| -> Vec<String> {
        if !rows.is_empty() && rng.chance(1, 3) {
            let mut r = rows[rng.below(rows.len())].clone();
            for _ in 0..rng.below(3) {
                if !r.is_empty() {
                    let p = rng.below(r.len());
                    r[p] = vocab(rng, p);
                }
            }
            r
        } else {
            let len = if rng.chance(1, 4) { rng.below(k + 1) } else { k };
            (0..len).map(|p| vocab(rng, p)).collect()
        }
    };
    for _ in 1..nr {
        let r = row(rng, &rights);
        rights.push(r);
    }
    for _ in 1..nl {
        let r = row(rng, &lefts);
        lefts.push(r);
    }
    let mut right = String::new();
    for (i, row) in rights.iter().enumerate() {
        right.push_str(&format!("{}\t{}\n", i + 1, row.join(",")));
    }
    let mut left = String::new();
    for (i, row) in lefts.iter().enumerate() {
        left.push_str(&format!("{}\t{}\n", i + 1, row.join(",")));
    }
    // cost lines: pairs of (unquoted) feature strings that occur, plus BOS/EOS lines and misses
    let unq = |s: &str| -> String {
        if s.starts_with('"') {
            s[1..s.len() - 1].replace("\"\"", "\"")
        } else {
            s.to_string()
        }
    };
    let mut cost = String::new();
    let mut seen = std::collections::BTreeSet::new();
    let n = rng.below(3 * k + 4);
    for _ in 0..n {
        let (rf, lf) = match rng.below(8) {
            0 => {
                let mut pool: Vec<String> = vec!["x".to_string()];
                if !lefts.is_empty() {
                    pool.extend(lefts[rng.below(lefts.len())].iter().cloned());
                }
                (String::new(), unq(&pool[rng.below(pool.len())]))
            }
            1 => {
                let mut pool: Vec<String> = vec!["x".to_string()];
                if !rights.is_empty() {
                    pool.extend(rights[rng.below(rights.len())].iter().cloned());
                }
                (unq(&pool[rng.below(pool.len())]), String::new())
            }
            2 => (format!("miss{}", rng.below(3)), format!("miss{}", rng.below(3))),
            _ => {
                let p = rng.below(k.max(1));
                let r = if rights.is_empty() { "x".to_string() } else { rights[rng.below(rights.len())].get(p).cloned().unwrap_or("x".into()) };
                let l = if lefts.is_empty() { "x".to_string() } else { lefts[rng.below(lefts.len())].get(p).cloned().unwrap_or("x".into()) };
                (unq(&r), unq(&l))
            }
        };
        if rf.contains('/') || lf.contains('/') || rf == "*" || lf == "*" {
            continue;
        }
        if !seen.insert((rf.clone(), lf.clone())) {
            continue;
        }
        cost.push_str(&format!("{rf}/{lf}\t{}\n", small_cost(rng, mag)));
    }
    (right, left, cost)
}

pub fn gen_dict(rng: &mut Rng, cfg: &GenCfg) -> DictSrc {
    let kind = cfg.kind.unwrap_or_else(|| rng.below(3) as u8);
    let nr = 1 + rng.below(cfg.max_ids);
    let nl = 1 + rng.below(cfg.max_ids);
    let (chardef, cates, has_space, space_chars) = gen_chardef_sp(rng, cfg);
    let unk = gen_unk(rng, &cates, cfg, nl, nr);
    let mut pool = vec![];
    let nrows = 1 + rng.below(8);
    let mut lex = gen_lex_rows(rng, nrows, nl, nr, cfg.cost_mag, !cfg.space_pre, &mut pool);
    // width boundaries of the postings lists: a large family of homographs (>= 256 rows of one surface)
    if (cfg.big_homographs || rng.chance(1, 25)) && !pool.is_empty() {
        let surf = pool[rng.below(pool.len())].clone();
        let n = *rng.pick(&[255usize, 255, 510, 256, 257, 300, 513, 765]);
        let cell = if surf.contains(',') || surf.contains('"') {
            format!("\"{}\"", surf.replace('"', "\"\""))
        } else {
            surf.clone()
        };
        // the family has exactly `n` rows in all (the rows the surface already has count)
        let existing = pool.iter().filter(|x| **x == surf).count();
        for i in 0..n.saturating_sub(existing) {
            lex.push_str(&format!("{cell},{},{},{},h{i}\n", rng.below(nl), rng.below(nr), small_cost(rng, cfg.cost_mag)));
        }
    }
    // c11 profile: one very cheap word with a unique surface whose feature has white space at its ends / a trailing comma / a
    // quoted cell with blanks: the stored feature must be the remainder of the row byte for byte
    if cfg.big_homographs {
        let feat = *rng.pick(&["f \u{3000}", "g,", "h\t", " i", "j  ", "\"k, \" ", "l,\u{3000}"]);
        lex.push_str(&format!("xq,0,0,-30000,{feat}\n"));
        for _ in 0..3 {
            pool.push("xq".to_string());
        }
    }
    let (matrix, right, left, cost) = if kind == 0 {
        (gen_matrix(rng, nr, nl, cfg.cost_mag), String::new(), String::new(), String::new())
    } else {
        let k = if kind == 2 { 8 + rng.below(9) } else if rng.chance(1, 3) { 9 + rng.below(11) } else { rng.below(12) };
        // large magnitudes (profile c01, a fifth of the dictionaries): the raw connector's entries are i32 and may lie far
        // outside the i16 range of matrix.def; the dual connector keeps small entries (its pre-summed i16 part must not
        // saturate, see DESIGN 10.2: the template split is hash-order dependent there)
        let bmag = if cfg.cost_mag > 1000 { if kind == 1 { 2 * cfg.cost_mag } else { 40 } } else { cfg.cost_mag };
        let (r, l, c) = gen_bigram(rng, nr, nl, k, bmag);
        (String::new(), r, l, c)
    };
    DictSrc {
        kind,
        lex: lex.into_bytes(),
        matrix: matrix.into_bytes(),
        right: right.into_bytes(),
        left: left.into_bytes(),
        cost: cost.into_bytes(),
        chardef: chardef.into_bytes(),
        unk: unk.into_bytes(),
        num_right: nr,
        num_left: nl,
        cates,
        surfaces: pool,
        has_space,
        space_chars,
    }
}

pub fn gen_sentence(rng: &mut Rng, d: &DictSrc, cfg: &GenCfg, max_parts: usize) -> String {
    let parts = rng.below(max_parts + 1);
    let mut s = String::new();
    // now and then the sentence begins with U+FEFF (a byte-order mark is an ordinary character of the input)
    if rng.chance(1, 40) {
        s.push('\u{FEFF}');
    }
    for _ in 0..parts {
        match rng.below(10) {
            0..=4 if !d.surfaces.is_empty() => s.push_str(&d.surfaces[rng.below(d.surfaces.len())]),
            5 | 6 => {
                let n = 1 + rng.below(3);
                let sp = if rng.chance(1, 4) { '\u{3000}' } else { ' ' };
                for _ in 0..n {
                    s.push(sp);
                }
            }
            7 if cfg.nul_in_sentence => s.push('\0'),
            // characters above U+FFFF whose low 16 bits are a space, an ideographic space or a letter
            8 if rng.chance(1, 4) => s.push(*rng.pick(&['\u{10020}', '\u{13000}', '\u{10061}', '\u{2F800}'])),
            _ => s.push(*rng.pick(ALPHA)),
        }
    }
    s
}

pub fn gen_perm(rng: &mut Rng, n: usize) -> Vec<u16> {
    // permutation of 1..n-1 (n = number of ids including 0)
    let mut v: Vec<u16> = (1..n as u16).collect();
    // now and then the identity except for the two highest ids (on a non-square connector: beyond the other side's ids)
    if v.len() >= 3 && rng.chance(1, 6) {
        let k = v.len();
        v.swap(k - 1, k - 2);
        return v;
    }
    rng.shuffle(&mut v);
    v
}
