//! Stream `evalsplit` (property C19, last clause): the real programs `split`, `evaluate` (package
//! `evaluate`) and `tokenize -O wakati|detail`, run as processes on files in a scratch directory and
//! compared with the Lean model `Vibrato/Model/EvalSplit.lean` (driver `Vibrato/Driver/EvalSplit.lean`,
//! where the exact line formats are documented).
//!
//! Environment: `VERIF_CLI_BIN` = directory holding the binaries `split`, `evaluate`, `tokenize`;
//! `VERIF_CLI_WORK` = scratch directory (created, emptied after every case, removed at the end).
//!
//! Lines written:
//!  * `evalsplit <id> SPLIT <corpus> <valid_ratio bits> <test_ratio bits> IMPL <err|panic|ok <valid> <test> <train>> ## KIND=…`
//!  * `evalsplit <id> EVAL <corpus> SYS <m> TOKS{m} IDX <j> <index>{j} IMPL <err|panic|ok <p> <r> <f1>> ## KIND=… OPTS=…`
//!      TOKS = the library tokenizer's tokens (in-process, same dictionary / user lexicon / max_grouping_len)
//!      for the concatenated surfaces of each example the library's `Corpus::from_reader` returns
//!  * `evalsplit <id> WAKATI <k> SENT{k} IMPL <err|panic|ok <stdout>> ## OPTS=…`
//!  * `evalsplit <id> DETAIL <k> DSENT{k} IMPL <err|panic|ok <stdout>> ## OPTS=…`
use crate::cli::{clean, image_of, p, read, run_bin, write, zstd_of, Env};
use crate::gen::{gen_dict, gen_lex_rows, gen_sentence, DictSrc, GenCfg};
use crate::rng::Rng;
use crate::wire::{guarded, hex};
use std::io::Write;
use std::path::PathBuf;
use vibrato::dictionary::LexType;
use vibrato::trainer::Corpus;
use vibrato::{Dictionary, Tokenizer};

type Ex = Vec<(String, String)>;

const SURF: &[&str] = &["a", "bc", "あ", "EOS", " ", "😀", "x\r", "q,r", "", "ab", "漢é", "1"];
const FEAT_SAFE: &[&str] = &[
    "N,x", "EOS", "記号,空", "a b", "\"q\"", "*", "x\ry", "\"a,b\",c", "N,\"x\"\"y\"", "V", "N,x,y,z", "\"p\nq\"", "f0,名詞,*",
];
/// feature strings on which evaluate's own `parse_csv_row` panics (empty, trailing comma, trailing CR)
const FEAT_EDGE: &[&str] = &["", "p,", "N,x\r"];

fn gen_examples(rng: &mut Rng, max_ex: usize, edge: bool) -> Vec<Ex> {
    let nex = rng.below(max_ex + 1);
    let mut exs = vec![];
    for _ in 0..nex {
        let nw = if rng.chance(1, 8) { 0 } else { 1 + rng.below(4) };
        let all_empty = rng.chance(1, 10);
        let ex: Ex = (0..nw)
            .map(|_| {
                let s = if all_empty { "" } else { *rng.pick(SURF) };
                let f = if edge && rng.chance(1, 6) { *rng.pick(FEAT_EDGE) } else { *rng.pick(FEAT_SAFE) };
                let f = if edge && rng.chance(1, 8) {
                    // a cell around the size of evaluate's field buffer
                    let n = *rng.pick(&[4095usize, 4096, 4097]);
                    if rng.chance(1, 2) { format!("{},k", "L".repeat(n)) } else { "L".repeat(n) }
                } else {
                    f.to_string()
                };
                (s.to_string(), f.replace('\n', " "))
            })
            .collect();
        exs.push(ex);
    }
    exs
}

/// Renders examples as a corpus text.  `style`: 0 = `\n` (what `Example::write` emits), 1 = `\r\n`,
/// 2 = mixed with rare irregularities (missing final terminator, `\r\r\n`, a garbage line, trailing tokens).
fn render(rng: &mut Rng, exs: &[Ex], style: u8) -> Vec<u8> {
    let mut o: Vec<u8> = vec![];
    let term = |rng: &mut Rng, o: &mut Vec<u8>| match style {
        0 => o.extend_from_slice(b"\n"),
        1 => o.extend_from_slice(b"\r\n"),
        _ => {
            if rng.chance(1, 12) {
                o.extend_from_slice(b"\r\r\n")
            } else if rng.chance(1, 3) {
                o.extend_from_slice(b"\r\n")
            } else {
                o.extend_from_slice(b"\n")
            }
        }
    };
    for ex in exs {
        for (s, f) in ex {
            o.extend_from_slice(s.as_bytes());
            o.push(b'\t');
            o.extend_from_slice(f.as_bytes());
            term(rng, &mut o);
        }
        o.extend_from_slice(b"EOS");
        term(rng, &mut o);
    }
    if style == 2 {
        match rng.below(10) {
            0 => {
                // last line without terminator
                while matches!(o.last(), Some(b'\n') | Some(b'\r')) {
                    o.pop();
                }
            }
            1 => o.extend_from_slice(b"tail\tX\n"),
            2 => o.extend_from_slice(b"\n"),
            3 => o.extend_from_slice(b"a\tb\tc\nEOS\n"),
            4 => o.extend_from_slice(b"\xff\tx\nEOS\n"),
            _ => {}
        }
    }
    o
}

struct Dict {
    src: DictSrc,
    image: Vec<u8>,
    user: Option<Vec<u8>>,
}

fn gen_dictionary(rng: &mut Rng) -> Option<Dict> {
    let cfg = GenCfg::default();
    let mut drng = rng.fork();
    let mut d = gen_dict(&mut drng, &cfg);
    // words whose surface is the sentence terminator of the corpus format / whose feature column is empty,
    // ends in a comma, or holds a cell longer than evaluate's 4096-byte field buffer
    if drng.chance(1, 3) {
        d.lex.extend_from_slice(b"EOS,0,0,-3,eos-word\n");
        d.surfaces.push("EOS".to_string());
    }
    if drng.chance(1, 6) {
        d.lex.extend_from_slice(b"zz,0,0,-30,\n");
        d.surfaces.push("zz".to_string());
    }
    if drng.chance(1, 10) {
        d.lex.extend_from_slice(b"zc,0,0,-30,\"x,\"\n");
        d.surfaces.push("zc".to_string());
    }
    if drng.chance(1, 6) {
        let n = *drng.pick(&[4095usize, 4096, 4097, 5000]);
        d.lex.extend_from_slice(format!("zl,0,0,-30,{},k\n", "L".repeat(n)).as_bytes());
        d.surfaces.push("zl".to_string());
    }
    let dict = match crate::tok::build_dict(&d) {
        Some(Ok(x)) => x,
        _ => return None,
    };
    let image = image_of(&dict);
    let user = if drng.chance(1, 3) {
        let mut pool = d.surfaces.clone();
        let nrows = 1 + drng.below(3);
        let rows = gen_lex_rows(&mut drng, nrows, d.num_left, d.num_right, 60, true, &mut pool);
        // cheap enough to be chosen
        let rows = rows
            .lines()
            .map(|l| {
                let mut cells: Vec<String> = split_lex_row(l);
                if cells.len() >= 4 {
                    cells[3] = "-60".to_string();
                }
                cells.join(",") + "\n"
            })
            .collect::<String>();
        Some(rows.into_bytes())
    } else {
        None
    };
    Some(Dict { src: d, image, user })
}

/// the first four cells of a generated lexicon row and the rest verbatim (the surface may be quoted)
fn split_lex_row(l: &str) -> Vec<String> {
    let mut cells = vec![];
    let mut rest = l;
    if rest.starts_with('"') {
        // quoted surface: up to the closing quote that is followed by a comma
        let b = rest.as_bytes();
        let mut i = 1;
        while i < b.len() {
            if b[i] == b'"' {
                if i + 1 < b.len() && b[i + 1] == b'"' {
                    i += 2;
                    continue;
                }
                break;
            }
            i += 1;
        }
        cells.push(rest[..=i.min(rest.len() - 1)].to_string());
        rest = rest.get(i + 2..).unwrap_or("");
    } else if let Some((a, b)) = rest.split_once(',') {
        cells.push(a.to_string());
        rest = b;
    }
    for _ in 0..3 {
        if let Some((a, b)) = rest.split_once(',') {
            cells.push(a.to_string());
            rest = b;
        }
    }
    cells.push(rest.to_string());
    cells
}

fn load(dict: &Dict, with_user: bool) -> Option<Dictionary> {
    guarded(|| {
        let mut d = Dictionary::read(&dict.image[..]).ok()?;
        if with_user {
            if let Some(u) = &dict.user {
                d = d.reset_user_lexicon_from_reader(Some(&u[..])).ok()?;
            }
        }
        Some(d)
    })
    .flatten()
}

struct Tk {
    surface: String,
    feature: String,
    lex: u8,
    left: u16,
    right: u16,
    wcost: i16,
    total: i32,
    start: usize,
    end: usize,
}

/// the library tokenizer's tokens for each sentence (None = `tokenize()` panicked)
fn lib_tokens(d: Dictionary, ign: bool, maxg: Option<usize>, sents: &[String]) -> Option<Vec<Option<Vec<Tk>>>> {
    let tokenizer = guarded(|| Tokenizer::new(d).ignore_space(ign).ok().map(|t| t.max_grouping_len(maxg.unwrap_or(0)))).flatten()?;
    let mut all = vec![];
    for s in sents {
        let r = guarded(|| {
            let mut worker = tokenizer.new_worker();
            worker.reset_sentence(s);
            worker.tokenize();
            worker
                .token_iter()
                .map(|t| Tk {
                    surface: t.surface().to_string(),
                    feature: t.feature().to_string(),
                    lex: match t.lex_type() {
                        LexType::System => 0,
                        LexType::User => 1,
                        LexType::Unknown => 2,
                    },
                    left: t.left_id(),
                    right: t.right_id(),
                    wcost: t.word_cost(),
                    total: t.total_cost(),
                    start: t.range_char().start,
                    end: t.range_char().end,
                })
                .collect::<Vec<Tk>>()
        });
        all.push(r);
    }
    Some(all)
}

fn sentences(rng: &mut Rng, d: &DictSrc, n: usize) -> Vec<String> {
    let cfg = GenCfg::default();
    let mut v = vec![];
    for _ in 0..n {
        let mut s = gen_sentence(rng, d, &cfg, 6);
        if !d.surfaces.is_empty() {
            // the special words
            for w in ["zz", "zc", "zl", "EOS"] {
                if d.surfaces.iter().any(|x| x == w) && rng.chance(1, 5) {
                    s.push_str(w);
                }
            }
        }
        // one sentence per input line of `tokenize`: no line feed, and `lines()` strips a final CR
        let s: String = s.chars().filter(|c| *c != '\n').collect();
        let s = s.trim_end_matches('\r').to_string();
        v.push(s);
    }
    v
}

fn status_obs(st: &str, body: impl FnOnce() -> String) -> String {
    match st {
        "ok" => format!("ok {}", body()),
        "panic" => "panic".to_string(),
        _ => "err".to_string(),
    }
}

fn ratio_text(f: f64) -> String {
    format!("{}", f)
}

fn split_case(env: &Env, rng: &mut Rng, id: &str, corpus: &[u8], kind: &str, out: &mut dyn Write) {
    let pairs: &[(f64, f64)] = &[
        (0.0, 0.0), (1.0, 0.0), (0.0, 1.0), (0.5, 0.5), (0.9, 0.2), (0.1, 0.1), (0.3, 0.3), (1.0, 1.0), (0.34, 0.33),
        (0.25, 0.75), (0.7, 0.3), (0.1, 0.9), (1.5, 0.1), (-0.1, 0.0), (f64::NAN, 0.1), (0.2, f64::INFINITY), (-0.0, 0.5),
    ];
    let (vr, tr) = if rng.chance(1, 4) {
        let a = rng.below(1001) as f64 / 1000.0;
        let b = rng.below(1001) as f64 / 1000.0;
        (a, if rng.chance(1, 2) { 1.0 - a } else { b })
    } else {
        *rng.pick(pairs)
    };
    write(env, "corpus.txt", corpus);
    let args: Vec<String> = vec![
        "-i".into(), p(env, "corpus.txt"), "-t".into(), p(env, "train.txt"), "-v".into(), p(env, "valid.txt"),
        "-e".into(), p(env, "test.txt"), format!("--valid-ratio={}", ratio_text(vr)), format!("--test-ratio={}", ratio_text(tr)),
    ];
    let (st, _) = run_bin(env, "split", &args, None);
    let files_exist = ["train.txt", "valid.txt", "test.txt"].iter().filter(|f| env.work.join(f).exists()).count();
    let obs = status_obs(st, || format!("{} {} {}", hex(&read(env, "valid.txt")), hex(&read(env, "test.txt")), hex(&read(env, "train.txt"))));
    writeln!(out, "evalsplit {id} SPLIT {} {} {} IMPL {obs} ## KIND={kind} FILES={files_exist} RATIOS={},{}",
             hex(corpus), vr.to_bits(), tr.to_bits(), ratio_text(vr), ratio_text(tr)).unwrap();
}

fn f64_obs(line: Option<&str>, key: &str) -> String {
    let v = line.and_then(|l| l.strip_prefix(key)).and_then(|x| x.trim().parse::<f64>().ok());
    match v {
        Some(f) if f.is_nan() => "nan".to_string(),
        Some(f) => f.to_bits().to_string(),
        None => "unparsable".to_string(),
    }
}

#[allow(clippy::too_many_arguments)]
fn eval_case(env: &Env, rng: &mut Rng, id: &str, dict: &Dict, with_user: bool, maxg: Option<usize>, corpus: &[u8], kind: &str,
             out: &mut dyn Write) {
    // --feature-indices: none, or a list that may repeat and may be out of range
    let idx: Vec<usize> = match rng.below(4) {
        0 | 1 => vec![],
        2 => vec![rng.below(3)],
        _ => (0..1 + rng.below(3)).map(|_| *rng.pick(&[0usize, 1, 2, 5, 40])).collect(),
    };
    write(env, "test.txt", corpus);
    write(env, "sys.dic.zst", &zstd_of(&dict.image));
    let mut args: Vec<String> = vec!["-t".into(), p(env, "test.txt"), "-i".into(), p(env, "sys.dic.zst")];
    let use_user = with_user && dict.user.is_some();
    if use_user {
        write(env, "user.csv", dict.user.as_ref().unwrap());
        args.extend(["-u".into(), p(env, "user.csv")]);
    }
    if let Some(m) = maxg {
        args.extend(["-M".into(), m.to_string()]);
    }
    if !idx.is_empty() {
        args.push(format!("--feature-indices={}", idx.iter().map(|x| x.to_string()).collect::<Vec<_>>().join(",")));
    }
    let (st, printed) = run_bin(env, "evaluate", &args, None);
    let text = String::from_utf8_lossy(&printed).to_string();
    let mut lines = text.lines();
    let obs = status_obs(st, || {
        let a = f64_obs(lines.next(), "Precision =");
        let b = f64_obs(lines.next(), "Recall =");
        let c = f64_obs(lines.next(), "F1 =");
        format!("{a} {b} {c}")
    });
    // the library's view: parsed examples and the tokens of each concatenated sentence
    let exs: Vec<String> = match guarded(|| Corpus::from_reader(corpus)) {
        Some(Ok(c)) => c.iter().map(|e| e.tokens().iter().map(|w| w.surface()).collect::<String>()).collect(),
        _ => vec![],
    };
    let toks = load(dict, use_user).and_then(|d| lib_tokens(d, false, maxg, &exs));
    let toks = match toks {
        Some(t) => t,
        None => return,
    };
    let mut line = format!("evalsplit {id} EVAL {} SYS {}", hex(corpus), toks.len());
    for t in &toks {
        match t {
            None => line.push_str(" panic"),
            Some(ts) => {
                line.push_str(&format!(" {}", ts.len()));
                for k in ts {
                    line.push_str(&format!(" {} {} {}", k.start, k.end, hex(k.feature.as_bytes())));
                }
            }
        }
    }
    line.push_str(&format!(" IDX {}", idx.len()));
    for i in &idx {
        line.push_str(&format!(" {i}"));
    }
    writeln!(out, "{line} IMPL {obs} ## KIND={kind} OPTS=user:{},M:{} PRINTED={}", use_user as u8,
             maxg.map(|m| m.to_string()).unwrap_or("-".into()), hex(text.as_bytes())).unwrap();
}

fn canonical(exs: &[Ex]) -> Vec<u8> {
    let mut o = vec![];
    for ex in exs {
        for (s, f) in ex {
            o.extend_from_slice(format!("{s}\t{f}\n").as_bytes());
        }
        o.extend_from_slice(b"EOS\n");
    }
    o
}

/// A reference corpus that deliberately differs from the tokenizer's segmentation.
fn perturb(rng: &mut Rng, exs: &mut Vec<Ex>) {
    for ex in exs.iter_mut() {
        for _ in 0..1 + rng.below(2) {
            if ex.is_empty() {
                break;
            }
            let i = rng.below(ex.len());
            match rng.below(6) {
                0 if i + 1 < ex.len() => {
                    // merge two tokens
                    let (s2, _) = ex.remove(i + 1);
                    ex[i].0.push_str(&s2);
                }
                1 if ex[i].0.chars().count() >= 2 => {
                    // split a token
                    let first: String = ex[i].0.chars().take(1).collect();
                    let rest: String = ex[i].0.chars().skip(1).collect();
                    let f = ex[i].1.clone();
                    ex[i].0 = first;
                    ex.insert(i + 1, (rest, f));
                }
                2 => ex[i].1 = format!("{},zz", ex[i].1),
                3 => ex[i].1 = "other".to_string(),
                4 => {
                    // an empty-surface token (same range start, maybe the same features: a duplicate key)
                    let f = if rng.chance(1, 2) { ex[i].1.clone() } else { "e".to_string() };
                    ex.insert(i, (String::new(), f.clone()));
                    if rng.chance(1, 2) {
                        ex.insert(i, (String::new(), f));
                    }
                }
                _ => {
                    // change the first feature cell only
                    let rest = ex[i].1.split_once(',').map(|x| x.1.to_string());
                    ex[i].1 = match rest {
                        Some(r) => format!("X,{r}"),
                        None => "X".to_string(),
                    };
                }
            }
        }
    }
}

fn parse_canonical(text: &[u8]) -> Option<Vec<Ex>> {
    let c = guarded(|| Corpus::from_reader(text))?.ok()?;
    Some(c.iter().map(|e| e.tokens().iter().map(|w| (w.surface().to_string(), w.feature().to_string())).collect()).collect())
}

pub fn run(seed: u64, n: usize, out: &mut dyn Write) {
    let env = Env {
        bin: PathBuf::from(std::env::var("VERIF_CLI_BIN").expect("VERIF_CLI_BIN")),
        work: PathBuf::from(std::env::var("VERIF_CLI_WORK").expect("VERIF_CLI_WORK")),
    };
    std::fs::create_dir_all(&env.work).expect("scratch dir");
    let mut rng = Rng::new(seed ^ 0x6576_616c);
    let mut dict: Option<Dict> = None;
    let mut made = 0usize;
    let mut attempts = 0usize;
    while made < n && attempts < 20 * n + 20 {
        attempts += 1;
        clean(&env.work);
        let id = format!("{seed}.{made}");
        if dict.is_none() || rng.chance(1, 6) {
            dict = gen_dictionary(&mut rng);
            if dict.is_none() {
                continue;
            }
        }
        let d = dict.as_ref().unwrap();
        let with_user = d.user.is_some() && rng.chance(2, 3);
        let maxg = if rng.chance(1, 3) { Some(rng.below(4)) } else { None };
        match rng.below(20) {
            // ---- split on generated corpora
            0..=3 => {
                let max_ex = *rng.pick(&[0usize, 1, 2, 3, 7, 12, 20]);
                let exs = gen_examples(&mut rng, max_ex, true);
                let style = *rng.pick(&[0u8, 0, 1, 2, 2]);
                let corpus = render(&mut rng, &exs, style);
                split_case(&env, &mut rng, &id, &corpus, if style == 2 { "generated-irregular" } else { "generated" }, out);
                made += 1;
            }
            // ---- split on the real tokenizer's output
            4..=6 => {
                let ns = 1 + rng.below(10);
                let sents = sentences(&mut rng, &d.src, ns);
                if let Some(text) = tokenize_mecab(&env, d, with_user, maxg, false, &sents) {
                    split_case(&env, &mut rng, &id, &text, "tokenizer-output", out);
                    made += 1;
                }
            }
            // ---- evaluate: the tokenizer's own output (same dictionary, same -M, no -S)
            7..=9 => {
                let ns = 1 + rng.below(5);
                let sents = sentences(&mut rng, &d.src, ns);
                if let Some(text) = tokenize_mecab(&env, d, with_user, maxg, false, &sents) {
                    eval_case(&env, &mut rng, &id, d, with_user, maxg, &text, "self", out);
                    made += 1;
                }
            }
            // ---- evaluate: output produced with other options (-S, another -M, without the user lexicon)
            10 | 11 => {
                let ns = 1 + rng.below(5);
                let sents = sentences(&mut rng, &d.src, ns);
                let ign = d.src.has_space && rng.chance(1, 2);
                let other_m = if rng.chance(1, 2) { Some(rng.below(3)) } else { None };
                if let Some(text) = tokenize_mecab(&env, d, !with_user, other_m, ign, &sents) {
                    eval_case(&env, &mut rng, &id, d, with_user, maxg, &text, "other-options", out);
                    made += 1;
                }
            }
            // ---- evaluate: a reference that deliberately differs from the tokenizer's segmentation
            12..=14 => {
                let ns = 1 + rng.below(4);
                let sents = sentences(&mut rng, &d.src, ns);
                if let Some(text) = tokenize_mecab(&env, d, with_user, maxg, false, &sents) {
                    if let Some(mut exs) = parse_canonical(&text) {
                        perturb(&mut rng, &mut exs);
                        let corpus = canonical(&exs);
                        eval_case(&env, &mut rng, &id, d, with_user, maxg, &corpus, "perturbed", out);
                        made += 1;
                    }
                }
            }
            // ---- evaluate: corpora unrelated to the dictionary (incl. malformed ones and feature edge cases)
            15 | 16 => {
                let edge = rng.chance(1, 2);
                let max_ex = *rng.pick(&[0usize, 1, 2, 4]);
                let mut exs = gen_examples(&mut rng, max_ex, edge);
                if edge && rng.chance(1, 3) {
                    // one cell right at the size of evaluate's field buffer: 4096 bytes with nothing after it are
                    // accepted, 4096 bytes followed by anything and 4097 bytes are not
                    let n = *rng.pick(&[4095usize, 4096, 4097]);
                    let f = if rng.chance(1, 2) { format!("{},k", "L".repeat(n)) } else { "L".repeat(n) };
                    exs.push(vec![("a".to_string(), "N".to_string()), ("b".to_string(), f)]);
                }
                let style = *rng.pick(&[0u8, 1, 2]);
                let corpus = render(&mut rng, &exs, style);
                eval_case(&env, &mut rng, &id, d, with_user, maxg, &corpus, if edge { "generated-edge" } else { "generated" }, out);
                made += 1;
            }
            // ---- tokenize -O wakati / -O detail
            _ => {
                let ns = 1 + rng.below(5);
                let sents = sentences(&mut rng, &d.src, ns);
                let ign = d.src.has_space && rng.chance(1, 3);
                let wakati = rng.chance(1, 2);
                let toks = load(d, with_user).and_then(|dd| lib_tokens(dd, ign, maxg, &sents));
                let toks = match toks {
                    Some(t) => t,
                    None => continue,
                };
                let mut args: Vec<String> = vec!["-i".into(), p(&env, "sys.dic.zst"), "-O".into(), if wakati { "wakati".into() } else { "detail".into() }];
                write(&env, "sys.dic.zst", &zstd_of(&d.image));
                if ign {
                    args.push("-S".into());
                }
                if let Some(m) = maxg {
                    args.extend(["-M".into(), m.to_string()]);
                }
                if with_user {
                    write(&env, "user.csv", d.user.as_ref().unwrap());
                    args.extend(["-u".into(), p(&env, "user.csv")]);
                }
                let input: Vec<u8> = crate::cli::stdin_lines(&mut rng, &sents);
                let (st, printed) = run_bin(&env, "tokenize", &args, Some(&input));
                let obs = status_obs(st, || hex(&printed));
                let mut line = format!("evalsplit {id} {} {}", if wakati { "WAKATI" } else { "DETAIL" }, toks.len());
                for t in &toks {
                    match t {
                        None => line.push_str(" panic"),
                        Some(ts) => {
                            line.push_str(&format!(" {}", ts.len()));
                            for k in ts {
                                if wakati {
                                    line.push_str(&format!(" {}", hex(k.surface.as_bytes())));
                                } else {
                                    line.push_str(&format!(" {} {} {} {} {} {} {}", hex(k.surface.as_bytes()), hex(k.feature.as_bytes()),
                                                           k.lex, k.left, k.right, k.wcost, k.total));
                                }
                            }
                        }
                    }
                }
                writeln!(out, "{line} IMPL {obs} ## OPTS=S:{},user:{},M:{}", ign as u8, with_user as u8,
                         maxg.map(|m| m.to_string()).unwrap_or("-".into())).unwrap();
                made += 1;
            }
        }
    }
    clean(&env.work);
    let _ = std::fs::remove_dir(&env.work);
}

/// stdout of the real `tokenize -O mecab` (None when the program did not exit with status 0)
fn tokenize_mecab(env: &Env, d: &Dict, with_user: bool, maxg: Option<usize>, ign: bool, sents: &[String]) -> Option<Vec<u8>> {
    write(env, "sys.dic.zst", &zstd_of(&d.image));
    let mut args: Vec<String> = vec!["-i".into(), p(env, "sys.dic.zst"), "-O".into(), "mecab".into()];
    if ign {
        args.push("-S".into());
    }
    if let Some(m) = maxg {
        args.extend(["-M".into(), m.to_string()]);
    }
    if with_user && d.user.is_some() {
        write(env, "user.csv", d.user.as_ref().unwrap());
        args.extend(["-u".into(), p(env, "user.csv")]);
    }
    let input: Vec<u8> = sents.iter().flat_map(|x| x.bytes().chain(std::iter::once(b'\n'))).collect();
    let (st, printed) = run_bin(env, "tokenize", &args, Some(&input));
    if st == "ok" {
        Some(printed)
    } else {
        None
    }
}
