//! Stream `image` (properties C05, C09): dictionary images written by the real
//! `Dictionary::write`, read back whole, truncated at chosen offsets, or with a foreign magic.
//!
//! Line: `image <id> <image hex> CUTS <k> <n_1..n_k> IMPL <obs_1> ; ... ; <obs_k> ## <flags>`
//! (observation format: `lean/Vibrato/Driver/Image.lean`).  Harness-only flags after `##`:
//! `KIND=<0|1|2> USER=<0|1> MAP=<0|1> LEN=<n> MODE=<full|cuts|magic>` and for MODE=full
//! `BEH=<0|1>`: the reloaded dictionary tokenizes probe sentences exactly like the original,
//! writes the same bytes again, and `write` reported the emitted length.
use crate::gen::{gen_dict, gen_perm, gen_sentence, GenCfg};
use crate::rng::Rng;
use crate::tok::{apply_dops, build_dict, tokens_obs, DOp};
use crate::wire::{guarded, hex};
use std::io::{Cursor, Write};
use vibrato::{Dictionary, Tokenizer};

fn fnv64(bs: &[u8]) -> u64 {
    let mut h: u64 = 0xcbf29ce484222325;
    for &b in bs {
        h = (h ^ b as u64).wrapping_mul(0x100000001b3);
    }
    h
}

fn first_diff(a: &[u8], b: &[u8]) -> Option<usize> {
    let n = a.len().min(b.len());
    for i in 0..n {
        if a[i] != b[i] {
            return Some(i);
        }
    }
    if a.len() == b.len() {
        None
    } else {
        Some(n)
    }
}

pub fn observe(input: &[u8]) -> String {
    guarded(|| {
        let mut cur = Cursor::new(input);
        match Dictionary::read(&mut cur) {
            Err(_) => "err".to_string(),
            Ok(d) => {
                let consumed = cur.position();
                let mut v = vec![];
                let n = d.write(&mut v).unwrap();
                if n != v.len() {
                    return format!("ok {} {} {} wrong-length-reported", consumed, n, fnv64(&v));
                }
                let cmp = match first_diff(&v, input) {
                    None => "same".to_string(),
                    Some(k) => format!("diff@{}", k),
                };
                format!("ok {} {} {} {}", consumed, v.len(), fnv64(&v), cmp)
            }
        }
    })
    .unwrap_or_else(|| "panic".to_string())
}

fn tokens_of(dict: Dictionary, sents: &[String], ign: bool) -> Option<(Vec<String>, Dictionary)> {
    guarded(move || {
        let t = Tokenizer::new(dict);
        let t = if ign { t.ignore_space(true).ok()? } else { t };
        let mut out = vec![];
        {
            let mut w = t.new_worker();
            for s in sents {
                w.reset_sentence(s);
                w.tokenize();
                out.push(tokens_obs(&w));
            }
        }
        // give the dictionary back by rebuilding from a write/read is not possible without
        // consuming; the caller keeps its own copy instead
        let mut buf = vec![];
        t.dictionary().write(&mut buf).ok()?;
        Some((out, Dictionary::read(&buf[..]).ok()?))
    })
    .flatten()
}

/// Builds a dictionary with a random history of API operations and returns its image.
fn make_image(rng: &mut Rng) -> Option<(Vec<u8>, String, crate::gen::DictSrc, GenCfg, Option<Dictionary>)> {
    let mut cfg = GenCfg::default();
    cfg.kind = None;
    // costs at the limits of their types in a fifth of the images: word / matrix costs around +-30000 (i16), raw bigram
    // entries around +-60000 (the scorer stores i32): the image must keep every cost at its full width
    if rng.chance(1, 5) {
        cfg.cost_mag = 30000;
        if rng.chance(2, 3) {
            cfg.kind = Some(1);
        }
    }
    let mut drng = rng.fork();
    let d = gen_dict(&mut drng, &cfg);
    let dict = match build_dict(&d) {
        Some(Ok(x)) => x,
        _ => return None,
    };
    let mut dops = vec![];
    let mut user = 0;
    let mut map = 0;
    for _ in 0..rng.below(4) {
        match rng.below(4) {
            0 | 1 => {
                let mut pool = d.surfaces.clone();
                let nrows = 1 + rng.below(3);
                let csv = crate::gen::gen_lex_rows(rng, nrows, d.num_left, d.num_right, 40, true, &mut pool);
                dops.push(DOp::User(csv.into_bytes()));
                user = 1;
            }
            2 => {
                dops.push(DOp::Map(gen_perm(rng, d.num_left), gen_perm(rng, d.num_right)));
                map = 1;
            }
            _ => dops.push(DOp::WriteRead),
        }
    }
    let mut obs = vec![];
    let dict = apply_dops(dict, &dops, &mut obs)?;
    let mut v = vec![];
    let n = guarded(|| dict.write(&mut v).ok()).flatten()?;
    if n != v.len() {
        return Some((v, format!("KIND={} USER={user} MAP={map} WRONGLEN=1", d.kind), d, cfg, None));
    }
    Some((v, format!("KIND={} USER={user} MAP={map}", d.kind), d, cfg, Some(dict)))
}

/// A dictionary whose image exceeds the usual power-of-two size limits (64 MiB, 128 MiB):
/// written, read back, compared on probe sentences.  The image itself is not printed.
fn big_case(rng: &mut Rng, id: &str, out: &mut dyn Write) {
    let n = *rng.pick(&[5900usize, 6000, 8300]);
    let lex = format!("a,1,1,3,fa\nab,2,{},-2,fab\nb,{},7,1,fb\n", n - 1, n / 2);
    let mut matrix = format!("{n} {n}\n");
    for _ in 0..200 {
        matrix.push_str(&format!("{} {} {}\n", rng.below(n), rng.below(n), rng.range(-50, 50)));
    }
    let chardef = "DEFAULT 0 1 0\n";
    let unk = "DEFAULT,3,4,10,*\n";
    let r = guarded(|| -> Result<(usize, bool), String> {
        let d = vibrato::SystemDictionaryBuilder::from_readers(lex.as_bytes(), matrix.as_bytes(), chardef.as_bytes(), unk.as_bytes())
            .map_err(|e| format!("build:{e}"))?;
        let mut v = vec![];
        let w = d.write(&mut v).map_err(|e| format!("write:{e}"))?;
        if w != v.len() {
            return Err("wrong-length-reported".into());
        }
        let d2 = Dictionary::read(&v[..]).map_err(|_| "err".to_string())?;
        let sents: Vec<String> = vec!["abab".into(), "ba".into(), "xab".into()];
        let (ta, _) = tokens_of(d, &sents, false).ok_or("tok")?;
        let (tb, _) = tokens_of(d2, &sents, false).ok_or("tok")?;
        Ok((v.len(), ta == tb))
    });
    match r {
        None => writeln!(out, "imagebig {id} DIM {n} IMPL panic ## MODE=big").unwrap(),
        Some(Err(e)) => writeln!(out, "imagebig {id} DIM {n} IMPL {} ## MODE=big", if e == "err" { "err".to_string() } else { format!("err({e})").replace(' ', "_") }).unwrap(),
        Some(Ok((len, same))) => writeln!(out, "imagebig {id} DIM {n} IMPL ok ## MODE=big LEN={len} BEH={}", same as u8).unwrap(),
    }
}

/// Replay-time part of `BEH` that needs only the image: a dictionary read from it writes the same bytes again,
/// into a `Vec` and into sinks that accept a few bytes per call, and reports their number.
pub fn replay_beh(v: &[u8]) -> &'static str {
    let r = crate::wire::guarded(|| -> Option<bool> {
        let b = Dictionary::read(v).ok()?;
        let mut buf = vec![];
        let nb = b.write(&mut buf).ok()?;
        let mut ok = nb == buf.len() && buf == v;
        for cap in [1usize, 5, 16, 20, 21, 100] {
            let mut sink = ChunkSink { buf: vec![], cap };
            let ns = b.write(&mut sink).ok()?;
            ok = ok && sink.buf == v && ns == v.len();
        }
        Some(ok)
    });
    match r {
        Some(Some(true)) => "1",
        Some(Some(false)) => "0",
        _ => "na",
    }
}

struct ChunkSink {
    buf: Vec<u8>,
    cap: usize,
}

impl Write for ChunkSink {
    fn write(&mut self, data: &[u8]) -> std::io::Result<usize> {
        let k = data.len().min(self.cap);
        self.buf.extend_from_slice(&data[..k]);
        Ok(k)
    }
    fn flush(&mut self) -> std::io::Result<()> {
        Ok(())
    }
}

pub fn run(mode: &str, seed: u64, n: usize, out: &mut dyn Write) {
    let mut rng = Rng::new(seed ^ 0x696d67);
    let mut made = 0;
    while made < n {
        if mode == "big" {
            big_case(&mut rng, &format!("{seed}.{made}"), out);
            made += 1;
            continue;
        }
        let (v, flags, d, cfg, original) = match make_image(&mut rng) {
            Some(x) => x,
            None => continue,
        };
        let id = format!("{seed}.{made}");
        match mode {
            // whole image: decode / re-encode, behaviour of the reloaded dictionary
            "full" | "fullx" => {
                let o = observe(&v);
                let mut tokfnv: u64 = 0;
                let beh = (|| -> Option<bool> {
                    // the original in-memory dictionary (as built and operated on) vs the reloaded one
                    let a = original?;
                    let b = Dictionary::read(&v[..]).ok()?;
                    let mut srng = rng.fork();
                    let sents: Vec<String> = (0..4).map(|_| gen_sentence(&mut srng, &d, &cfg, 6)).collect();
                    let ign = d.has_space && srng.chance(1, 2);
                    let (ta, a2) = tokens_of(a, &sents, ign)?;
                    tokfnv = fnv64(ta.join("|").as_bytes());
                    // b goes through one more write/read before tokenizing
                    let mut buf = vec![];
                    let nb = b.write(&mut buf).ok()?;
                    if nb != buf.len() || buf != v {
                        return Some(false);
                    }
                    let b2 = Dictionary::read(&buf[..]).ok()?;
                    let (tb, _) = tokens_of(b2, &sents, ign)?;
                    let mut again = vec![];
                    a2.write(&mut again).ok()?;
                    // a sink whose write() accepts only a few bytes per call (legal for `Write`): same image, same count
                    let cap = *srng.pick(&[1usize, 5, 16, 20, 21, 100]);
                    let mut sink = ChunkSink { buf: vec![], cap };
                    let ns = a2.write(&mut sink).ok()?;
                    Some(ta == tb && again == v && sink.buf == v && ns == v.len())
                })();
                let beh = match beh {
                    Some(true) => "1",
                    Some(false) => "0",
                    None => "na",
                };
                writeln!(out, "image {id} {} IMPL {o} ## {flags} LEN={} MODE=full BEH={beh} IMGFNV={} TOKFNV={tokfnv}", hex(&v), v.len(), fnv64(&v)).unwrap();
            }
            // truncations
            "cuts" | "allcuts" => {
                let len = v.len();
                let mut cuts: Vec<usize> = vec![];
                if mode == "allcuts" {
                    cuts.extend(0..len);
                } else {
                    cuts.extend(0..len.min(400));
                    cuts.extend(len.saturating_sub(1500)..len);
                    for _ in 0..600 {
                        cuts.push(rng.below(len));
                    }
                    cuts.sort();
                    cuts.dedup();
                }
                // emit in chunks so lines stay manageable
                for (ci, chunk) in cuts.chunks(4000).enumerate() {
                    let obs: Vec<String> = chunk.iter().map(|&k| observe(&v[..k])).collect();
                    let cs: Vec<String> = chunk.iter().map(|k| k.to_string()).collect();
                    writeln!(out, "image {id}.{ci} {} CUTS {} {} IMPL {} ## {flags} LEN={len} MODE=cuts", hex(&v), chunk.len(), cs.join(" "), obs.join(" ; ")).unwrap();
                }
            }
            // foreign / partial magic
            _ => {
                let mut w = v.clone();
                match rng.below(5) {
                    0 => {
                        let i = rng.below(21);
                        w[i] ^= 1 << rng.below(8);
                    }
                    1 => {
                        w.drain(0..1 + rng.below(20));
                    }
                    2 => {
                        w.insert(0, rng.below(256) as u8);
                    }
                    3 => {
                        // older / newer version string
                        w[19] = b'0' + rng.below(10) as u8;
                        if w[19] == v[19] {
                            w[19] = b'x';
                        }
                    }
                    _ => {
                        w.truncate(rng.below(21));
                    }
                }
                let o = observe(&w);
                writeln!(out, "image {id} {} IMPL {o} ## {flags} LEN={} MODE=magic", hex(&w), w.len()).unwrap();
            }
        }
        made += 1;
    }
}
