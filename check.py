#!/usr/bin/env python3
"""Single entry point of the verification framework.

  check.py --setup                      build everything once (offline)
  check.py <Cxx> [--tier quick|thorough] [--seed N] [--replay FILE]

Verdict logic (DESIGN.md section 3.3): proofs build + axioms clean + the model and
the implementation agree on every generated case + the executable property
predicates hold on the implementation's observations  =>  exit 0.
Otherwise VIOLATION (exit 1), unless every failing input matches a known finding.
Exit 2 = infrastructure error (never silent).
"""
import collections
import hashlib
import json
import os
import re
import subprocess
import sys
import time

ROOT = os.path.dirname(os.path.abspath(__file__))
LEAN = os.path.join(ROOT, "lean")
HARNESS = os.path.join(ROOT, "harness")
WORK = os.path.join(ROOT, "work")
REPLAYS = os.path.join(ROOT, "replays")
EVID = os.path.join(ROOT, "evidence")
VMODEL = os.path.join(LEAN, ".lake", "build", "bin", "vmodel")
VHARNESS = os.path.join(HARNESS, "target", "debug", "vharness")
ALLOWED_AXIOMS = {"propext", "Classical.choice", "Quot.sound"}
ENV = dict(os.environ, CARGO_NET_OFFLINE="true")

sys.path.insert(0, os.path.join(ROOT, "tools"))
from registry import PROPS, FIXES  # noqa: E402


def _stdin_null():
    """An empty stdin for every subprocess.  /dev/null has been seen replaced by a regular file full of junk in this
    sandbox (something ran as root with `-o /dev/null`); cargo's `rustc -` probe then reads the junk and fails.  If
    /dev/null is not a character device an empty scratch file is used instead."""
    import stat
    try:
        if stat.S_ISCHR(os.stat(os.devnull).st_mode):
            return subprocess.DEVNULL
    except OSError:
        pass
    os.makedirs(os.path.join(os.path.dirname(os.path.abspath(__file__)), "work"), exist_ok=True)
    p = os.path.join(os.path.dirname(os.path.abspath(__file__)), "work", "empty-stdin")
    open(p, "w").close()
    return open(p)


STDIN_NULL = _stdin_null()


def sh(cmd, cwd=None, timeout=None, stdin=STDIN_NULL, stdout=subprocess.PIPE, stderr=subprocess.PIPE):
    return subprocess.run(cmd, cwd=cwd, env=ENV, timeout=timeout, stdin=stdin, stdout=stdout,
                          stderr=stderr, text=True)


def infra(msg):
    print("INFRASTRUCTURE-ERROR: " + msg)
    sys.exit(2)


# ---------------------------------------------------------------- build steps

def extract_consts():
    """returns None if fine, else a description of what could not be translated"""
    p = os.path.join(ROOT, "tools", "extract_consts.py")
    r = sh([sys.executable, p])
    if r.returncode != 0:
        return "constant translator failed: " + (r.stdout + r.stderr).strip()
    return None


def lake_build(targets):
    r = sh(["lake", "build"] + targets, cwd=LEAN, timeout=3600)
    return r.returncode == 0, (r.stdout + r.stderr)


VHARNESS_AVX2 = os.path.join(HARNESS, "target-avx2", "debug", "vharness")


def have_avx2():
    try:
        return "avx2" in open("/proc/cpuinfo").read()
    except OSError:
        return False


def cargo_build(avx2=False):
    lock_src = "/repo/Cargo.lock"
    lock_dst = os.path.join(HARNESS, "Cargo.lock")
    if not os.path.exists(lock_dst) and os.path.exists(lock_src):
        import shutil
        shutil.copy(lock_src, lock_dst)
    env = dict(ENV)
    cmd = ["cargo", "build", "--offline"]
    if avx2:
        env["RUSTFLAGS"] = "-C target-feature=+avx2"
        env["CARGO_TARGET_DIR"] = os.path.join(HARNESS, "target-avx2")
    r = subprocess.run(cmd, cwd=HARNESS, env=env, timeout=3600, stdin=STDIN_NULL, stdout=subprocess.PIPE,
                       stderr=subprocess.PIPE, text=True)
    return r.returncode == 0, (r.stdout + r.stderr)


CLI_TARGET = os.path.join(HARNESS, "target-cli")
CLI_BIN = os.path.join(CLI_TARGET, "release")


def cli_build():
    """The workspace's command-line programs, built from /repo's current tree into /verif/harness/target-cli."""
    env = dict(ENV)
    env["CARGO_TARGET_DIR"] = CLI_TARGET
    cmd = ["cargo", "build", "--release", "--offline", "-p", "dictgen", "-p", "compile", "-p", "map", "-p", "tokenize", "-p", "train", "-p", "evaluate"]
    r = subprocess.run(cmd, cwd="/repo", env=env, timeout=3600, stdin=STDIN_NULL, stdout=subprocess.PIPE,
                       stderr=subprocess.PIPE, text=True)
    if r.returncode != 0:
        return False, (r.stdout + r.stderr)
    # examples/mecab_smalldic is outside the workspace: build a copy whose path dependency points at /repo/vibrato
    # (building it in place would write Cargo.lock and target/ into /repo)
    import shutil
    ex = os.path.join(WORK, "ex_mecab_smalldic")
    shutil.rmtree(ex, ignore_errors=True)
    os.makedirs(ex, exist_ok=True)
    shutil.copytree("/repo/examples/mecab_smalldic/src", os.path.join(ex, "src"))
    toml = open("/repo/examples/mecab_smalldic/Cargo.toml").read().replace('path = "../../vibrato"', 'path = "/repo/vibrato"')
    with open(os.path.join(ex, "Cargo.toml"), "w") as f:
        f.write(toml + "\n[workspace]\n")
    shutil.copy("/repo/Cargo.lock", os.path.join(ex, "Cargo.lock"))
    r2 = subprocess.run(["cargo", "build", "--release", "--offline"], cwd=ex, env=env, timeout=3600, stdin=STDIN_NULL,
                        stdout=subprocess.PIPE, stderr=subprocess.PIPE, text=True)
    shutil.rmtree(ex, ignore_errors=True)
    return r2.returncode == 0, (r.stdout + r.stderr + r2.stdout + r2.stderr)


def audit(theorems, modules):
    """#print axioms for every property theorem; returns {theorem: [axioms]} or error text."""
    os.makedirs(WORK, exist_ok=True)
    src = "".join(f"import {m}\n" for m in modules)
    src += "open Vibrato\n"
    for t in theorems:
        src += f"#print axioms {t}\n"
    path = os.path.join(WORK, "Audit_%d.lean" % os.getpid())
    with open(path, "w") as f:
        f.write(src)
    r = sh(["lake", "env", "lean", path], cwd=LEAN, timeout=1800)
    os.unlink(path)
    out = r.stdout + r.stderr
    if r.returncode != 0:
        return None, out
    res = {}
    # "'name' depends on axioms: [a, b]" or "'name' does not depend on any axioms"
    for m in re.finditer(r"'([^']+)' depends on axioms: \[([^\]]*)\]", out.replace("\n ", " ")):
        res[m.group(1)] = [a.strip() for a in m.group(2).split(",") if a.strip()]
    for m in re.finditer(r"'([^']+)' does not depend on any axioms", out):
        res[m.group(1)] = []
    return res, out


FORBIDDEN = re.compile(r"\b(sorry|admit|native_decide|bv_decide|implemented_by)\b|^\s*axiom\s|\bunsafe\s|maxHeartbeats\s+0")


def grep_forbidden(modules):
    """Scan the sources of the given modules (and their local imports) for forbidden constructs."""
    hits = []
    seen = set()
    todo = list(modules)
    while todo:
        m = todo.pop()
        if m in seen or not m.startswith("Vibrato"):
            continue
        seen.add(m)
        p = os.path.join(LEAN, m.replace(".", "/") + ".lean")
        if not os.path.exists(p):
            continue
        in_block = 0
        for ln, line in enumerate(open(p, encoding="utf-8"), 1):
            mm = re.match(r"\s*import\s+(\S+)", line)
            if mm:
                todo.append(mm.group(1))
            # strip comments (block comments tracked coarsely, line comments exactly)
            code = line
            if in_block:
                if "-/" in code:
                    code = code.split("-/", 1)[1]
                    in_block = 0
                else:
                    continue
            while "/-" in code:
                pre, rest = code.split("/-", 1)
                if "-/" in rest:
                    code = pre + rest.split("-/", 1)[1]
                else:
                    code = pre
                    in_block = 1
            code = code.split("--", 1)[0]
            if FORBIDDEN.search(code):
                hits.append(f"{p}:{ln}: {line.strip()}")
    return hits, sorted(seen)


# ---------------------------------------------------------------- streams

def fixes_arg():
    return "".join("1" if FIXES[k] else "0" for k in ["f1", "f2", "f3", "f4", "f5", "f2b", "f8", "f10", "f14", "f12", "f29"])


def run_model_parallel(cases, model):
    """Pipe the case lines through the Lean driver.  Large streams are cut into contiguous slices that are
    evaluated by several driver processes at once (the driver is single-threaded); a slice starts at a `def`
    line when the stream has any, so that every `tok` line finds its dictionary in its own slice."""
    lines = open(cases).read().split("\n")
    if lines and lines[-1] == "":
        lines.pop()
    jobs = min(12, os.cpu_count() or 1)
    slices = [lines]
    if len(lines) >= 200 and jobs > 1:
        has_def = any(l.startswith("def ") for l in lines)
        starts = [i for i, l in enumerate(lines) if (l.startswith("def ") if has_def else True)]
        if starts and starts[0] != 0:
            starts = [0] + starts
        total = sum(len(l) for l in lines) or 1
        target = total / jobs
        cuts, acc, cur = [0], 0, 0
        sset = set(starts)
        for i, l in enumerate(lines):
            if i in sset and i != 0 and acc - cur >= target:
                cuts.append(i)
                cur = acc
            acc += len(l)
        cuts.append(len(lines))
        slices = [lines[a:b] for a, b in zip(cuts, cuts[1:]) if b > a]
        if has_def:
            # safety: every tok line must name a dictionary defined in its own slice
            for sl in slices:
                seen = set()
                for l in sl:
                    t = l.split(" ", 3)
                    if t[0] == "def" and len(t) > 1:
                        seen.add(t[1])
                    elif t[0] == "tok" and len(t) > 2 and t[2] not in seen:
                        slices = [lines]
                        break
                if len(slices) == 1:
                    break
    procs = []
    for k, sl in enumerate(slices):
        pin = f"{cases}.part{k}"
        pout = f"{model}.part{k}"
        with open(pin, "w") as f:
            f.write("\n".join(sl) + "\n")
        fi = open(pin)
        fo = open(pout, "w")
        procs.append((subprocess.Popen([VMODEL, "--fixes", fixes_arg()], env=ENV, stdin=fi, stdout=fo, stderr=subprocess.PIPE,
                                       text=True), fi, fo, pin, pout))
    with open(model, "w") as out:
        for pr, fi, fo, pin, pout in procs:
            try:
                _, err = pr.communicate(timeout=7200)
            except subprocess.TimeoutExpired:
                pr.kill()
                infra("vmodel timed out")
            fi.close()
            fo.close()
            if pr.returncode != 0:
                infra("vmodel failed: " + (err or "")[:2000])
            out.write(open(pout).read())
            os.unlink(pin)
            os.unlink(pout)


def run_stream(pid, idx, hargs, per_case_timeout=20, binary=None):
    """Run harness + model for one stream; returns list of (input_line, impl, model, extra)."""
    d = os.path.join(WORK, pid)
    os.makedirs(d, exist_ok=True)
    cases = os.path.join(d, f"cases_{idx}.txt")
    model = os.path.join(d, f"model_{idx}.txt")
    henv = dict(ENV)
    henv["VERIF_CLI_BIN"] = CLI_BIN
    henv["VERIF_CLI_WORK"] = os.path.join(d, "cli-scratch-%d" % os.getpid())
    with open(cases, "w") as f:
        r = subprocess.run([binary or VHARNESS] + hargs, env=henv, stdin=STDIN_NULL, stdout=f,
                           stderr=subprocess.DEVNULL, timeout=7200)
    import shutil
    shutil.rmtree(henv["VERIF_CLI_WORK"], ignore_errors=True)
    if r.returncode != 0:
        # the harness died (abort/hang inside the implementation): last printed case is the suspect
        return None, cases
    run_model_parallel(cases, model)
    res = []
    with open(cases) as fi, open(model) as fo:
        for a, b in zip(fi, fo):
            a = a.rstrip("\n")
            b = b.rstrip("\n")
            if " IMPL " not in a or " MODEL " not in b:
                infra(f"malformed protocol line: {a[:200]} / {b[:200]}")
            head, impl = a.split(" IMPL ", 1)
            hflags = ""
            if " ## " in impl:
                impl, hflags = impl.split(" ## ", 1)
            mhead, mobs = b.split(" MODEL ", 1)
            extra = ""
            if " P " in mobs:
                mobs, extra = mobs.split(" P ", 1)
            res.append((a, impl, mobs, (extra + " " + hflags).strip()))
        rest = fi.read()
        if rest.strip():
            infra("vmodel produced fewer lines than cases")
    return res, cases


def write_replay(pid, name, content):
    os.makedirs(REPLAYS, exist_ok=True)
    p = os.path.join(REPLAYS, f"{pid}_{name}.txt")
    with open(p, "w") as f:
        f.write(content)
    return p


def load_known():
    p = os.path.join(ROOT, "known_findings.json")
    if not os.path.exists(p):
        return []
    return json.load(open(p)).get("findings", [])


# ---------------------------------------------------------------- main check

def check(pid, tier, seed, replay=None):
    t0 = time.time()
    spec = PROPS[pid]
    os.makedirs(EVID, exist_ok=True)
    broken = []       # (kind, description, replay-content)
    failing = []      # concrete failing inputs: (signature, description, replay-content)
    notes = []

    # 1. proofs
    cerr = extract_consts()
    if cerr:
        broken.append(("proof", cerr, cerr + "\n(the constant is no longer where the translator expects it: the obligations of "
                       "Vibrato/ConstsCheck.lean cannot be re-checked against the current source)"))
    modules = spec["modules"] + ["Vibrato.ConstsCheck"]
    ok, out = lake_build(modules + ["vmodel"])
    theorems = spec["theorems"]
    discharged = 0
    axioms_seen = {}
    if not ok:
        # distinguish a broken proof obligation from anything else by module name in the log
        broken.append(("proof", "lake build failed for " + " ".join(modules),
                       "theorem/obligation no longer checks:\n" + out[-4000:]))
    else:
        hits, scanned = grep_forbidden(modules)
        if hits:
            infra("forbidden construct in proof sources:\n" + "\n".join(hits))
        ax, aout = audit(theorems, modules)
        if ax is None:
            broken.append(("proof", "axiom audit failed", aout[-4000:]))
        else:
            for t in theorems:
                short = t.split(".")[-1]
                found = [k for k in ax if k == t or k.endswith("." + short) or k == short]
                if not found:
                    broken.append(("proof", f"theorem {t} missing from audit", aout[-2000:]))
                    continue
                a = ax[found[0]]
                axioms_seen[t] = a
                if set(a) <= ALLOWED_AXIOMS:
                    discharged += 1
                else:
                    infra(f"theorem {t} depends on non-standard axioms {a}")
        if tier == "thorough":
            for m in modules:
                r = sh(["lake", "env", "leanchecker", m], cwd=LEAN, timeout=3600)
                if r.returncode != 0:
                    infra(f"leanchecker rejected {m}: {(r.stdout + r.stderr)[-2000:]}")
            notes.append("leanchecker re-checked: " + ", ".join(modules))

    for item in (spec.get("pre_checks") or (lambda: []))():
        broken.append(item)

    # 2. harness from the current /repo tree
    ok, out = cargo_build()
    if not ok:
        infra("cargo build of the harness failed (does /repo still compile with --features verif-hooks?)\n" + out[-3000:])

    # 3. correspondence + property predicates
    evaluations = 0
    distinct = set()
    nontrivial = set()
    dist = collections.Counter()
    samples = []
    model_disagreements = 0
    prop_failures = 0
    streams = spec["streams"](tier, seed)
    if replay is not None:
        streams = [(["replayfile", os.path.abspath(replay)], streams[0][1])]
    else:
        # minimised past failures and pinned instances of known findings run first
        cdir = os.path.join(ROOT, "corpus", pid)
        if os.path.isdir(cdir):
            pinned = [(["replayfile", os.path.join(cdir, f)], streams[0][1]) for f in sorted(os.listdir(cdir))]
            streams = pinned + list(streams)
    avx2_built = False
    cli_built = False
    all_records = []
    for idx, entry in enumerate(streams):
        hargs, classify = entry[0], entry[1]
        opts = entry[2] if len(entry) > 2 else {}
        binary = None
        if opts.get("cli") or (hargs[0] == "replayfile" and ".cli" in open(hargs[1], errors="replace").read()):
            if not cli_built:
                ok, out = cli_build()
                if not ok:
                    infra("cargo build of the command-line programs (dictgen, compile, map, tokenize) failed\n" + out[-3000:])
                cli_built = True
            dist["build=cli"] += 0
        if opts.get("avx2"):
            if not have_avx2():
                notes.append("AVX2 not available on this CPU: stream skipped: " + " ".join(hargs))
                continue
            if not avx2_built:
                ok, out = cargo_build(avx2=True)
                if not ok:  # cargo's first rustc probe in a fresh target directory has been seen to fail spuriously
                    ok, out = cargo_build(avx2=True)
                if not ok:
                    infra("cargo build of the AVX2 harness failed\n" + out[-3000:])
                avx2_built = True
            binary = VHARNESS_AVX2
            dist["build=avx2"] += 0
        res, cases_path = run_stream(pid, idx, hargs, binary=binary)
        if res is None:
            last = ""
            try:
                last = open(cases_path).read().splitlines()[-1]
            except Exception:
                pass
            failing.append(("harness-died", "the implementation aborted or hung; last case printed before it",
                            " ".join(hargs) + "\n" + last))
            continue
        classify0 = classify
        defs = {}

        def with_def(l):
            t = l.split()
            if t and t[0] == "tok" and len(t) > 2 and t[2] in defs:
                return defs[t[2]] + "\n" + l
            return l
        for (line, impl, mobs, extra) in res:
            classify = classify0
            if line.startswith("def "):
                defs[line.split()[1]] = line
            if line.startswith("def "):
                on_def = getattr(classify, "on_def", None)
                if on_def is None:
                    if impl.split()[0] != mobs.split()[0] or (impl.startswith("ok") and impl != mobs and " KIND 0 " in line):
                        model_disagreements += 1
                        broken.append(("corr", "builder outcome differs", f"{line[:3000]}\nMODEL {mobs[:500]}"))
                    continue
                classify = on_def
            evaluations += 1
            all_records.append((idx, " ".join(hargs), line.split(" ", 2)[1] if line.count(" ") >= 2 else "", extra))
            hparts = line.split(" IMPL ")[0].split(" ", 2)
            h = hashlib.sha1((hparts[2] if len(hparts) > 2 else line).encode()).hexdigest()
            distinct.add(h)
            info = classify(line, impl, mobs, extra) if classify else {}
            for k in info.get("tags", []):
                dist[k] += 1
            if info.get("nontrivial"):
                nontrivial.add(h)
            if len(samples) < 3 and info.get("nontrivial"):
                samples.append(line[:400])
            pf = info.get("prop_fail")
            if pf:
                prop_failures += 1
                failing.append((pf, info.get("why", pf), f"{with_def(line)}\nMODEL {mobs}\nP {extra}", classify))
            elif info.get("corr_fail"):
                model_disagreements += 1
                broken.append(("corr", info["corr_fail"], f"{with_def(line)}\nMODEL {mobs[:800]}\nP {extra}"))
            elif info.get("ignore"):
                pass
            elif impl != mobs and not line.startswith("def "):
                model_disagreements += 1
                broken.append(("corr", "model and implementation disagree",
                               f"{with_def(line)}\nMODEL {mobs}\nP {extra}"))
    post = spec.get("post_check")
    if post:
        for item in post(all_records):
            failing.append(item)
            prop_failures += 1
    if not samples and evaluations:
        samples.append("(no non-trivial sample)")

    if replay is not None and evaluations == 0:
        infra("the replay file produced no case (line kinds the replayer understands: def/tok, rewrite, csv, image, train GEN, "
              "conn KIND, corpus parse, extract EXPAND/MECAB)")

    # 4. verdict
    known = [k for k in load_known() if k.get("property") == pid and k.get("status") == "known"]
    rc = 0
    printed = set()
    unmatched = []
    for item in failing:
        sig, why, content = item[0], item[1], item[2]
        k = next((k for k in known if k.get("signature") == sig), None)
        if k:
            if sig not in printed:
                print(f"KNOWN-FINDING: property={pid} {k['what']}")
                printed.add(sig)
        else:
            unmatched.append((sig, why, content, item[3] if len(item) > 3 else None))
    # pinned instances of known findings are replayed by the streams themselves (classify tags them)
    if unmatched:
        # among the failing cases of the first signature take the smallest, then shrink it (tok cases)
        sig = unmatched[0][0]
        same = [u for u in unmatched if u[0] == sig]
        sig, why, content, fclassify = min(same, key=lambda u: len(u[2]))
        if fclassify is not None and replay is None and content.startswith("def ") and "\ntok " in content:
            try:
                from shrink import shrink_tok

                def still_fails(dl, tl):
                    sp = os.path.join(WORK, pid, "shrink_case.txt")
                    with open(sp, "w") as f:
                        f.write(dl + "\n" + tl + "\n")
                    res, _ = run_stream(pid, "shrink", ["replayfile", sp])
                    for (line, impl, mobs, extra) in (res or []):
                        if line.startswith("tok "):
                            return fclassify(line, impl, mobs, extra).get("prop_fail") == sig
                    return False
                r = shrink_tok(content, still_fails)
                if r is not None:
                    dl, tl, used = r
                    res, _ = run_stream(pid, "shrink", ["replayfile", os.path.join(WORK, pid, "shrink_case.txt")]) if still_fails(dl, tl) else (None, None)
                    tail = ""
                    for (line, impl, mobs, extra) in (res or []):
                        if line.startswith("tok "):
                            tail = f"{line}\nMODEL {mobs}\nP {extra}"
                    if tail:
                        small = f"{dl}\n{tail}"
                        if len(small) < len(content):
                            content = small + f"\n# (shrunk with {used} evaluations from a case of {len(content)} bytes)"
            except Exception as e:  # the shrinker must never change a verdict
                notes.append("shrinker failed: %r" % (e,))
        p = write_replay(pid, "failing_" + re.sub(r"\W+", "_", sig)[:40], f"# {why}\n{content}\n")
        print(f"VIOLATION property={pid} replay={p}")
        rc = 1
    elif broken:
        kind, why, content = broken[0]
        p = write_replay(pid, "unchecked_" + kind,
                         f"# {why}\n# no concrete failing input of the property was found; the following no longer checks:\n{content}\n")
        print(f"VIOLATION property={pid} replay={p} no-failing-input-found")
        rc = 1

    ev = {
        "property_id": pid,
        "tier": tier,
        "seed": seed,
        "level": "proof",
        "coverage": {
            "obligations": len(theorems),
            "discharged": discharged,
            "checker_cmd": "cd /verif/lean && lake build " + " ".join(modules) + "  # + #print axioms audit"
                           + ("; lake env leanchecker <module>" if tier == "thorough" else ""),
            "trusted_base": spec.get("trusted_base", []) + [
                "Lean 4.33.0 kernel; axioms allowed: propext, Classical.choice, Quot.sound",
                "hand-written model tied to /repo by the differential correspondence run (harness/, Driver/)",
            ],
            "theorems": {t: axioms_seen.get(t) for t in theorems},
            "evaluations": evaluations,
            "distinct_nontrivial": len(nontrivial),
            "distinct_inputs": len(distinct),
            "rule": spec.get("rule", ""),
            "samples": samples,
            "distribution": dict(dist),
            "model_disagreements": model_disagreements,
            "implementation_vs_property_failures": prop_failures,
            "notes": notes,
        },
        "assumptions": spec.get("assumptions", []),
        "wall_s": round(time.time() - t0, 2),
        "violations": (1 if rc else 0),
    }
    with open(os.path.join(EVID, pid + ".json"), "w") as f:
        json.dump(ev, f, indent=1, ensure_ascii=False)
    if rc == 0:
        print(f"OK property={pid} tier={tier} theorems={discharged}/{len(theorems)} cases={evaluations} "
              f"nontrivial={len(nontrivial)} wall={ev['wall_s']}s")
    return rc


def setup():
    cerr = extract_consts()
    if cerr:
        infra(cerr)
    if have_avx2():
        ok, out = cargo_build(avx2=True)
        if not ok:
            print(out[-6000:])
            infra("cargo build (AVX2) failed")
    ok, out = lake_build([])
    if not ok:
        print(out[-6000:])
        infra("lake build failed")
    ok, out = cargo_build()
    if not ok:
        print(out[-6000:])
        infra("cargo build failed")
    print("setup ok")
    return 0


def main():
    args = sys.argv[1:]
    if args and args[0] == "--setup":
        sys.exit(setup())
    if not args or args[0] not in PROPS:
        print("usage: check.py --setup | check.py <property id> [--tier quick|thorough] [--seed N]")
        sys.exit(2)
    pid = args[0]
    tier = os.environ.get("VERIF_TIER", "quick")
    seed = int(os.environ.get("VERIF_SEED", "1"))
    replay = None
    i = 1
    while i < len(args):
        if args[i] == "--tier":
            tier = args[i + 1]
            i += 2
        elif args[i] == "--seed":
            seed = int(args[i + 1])
            i += 2
        elif args[i] == "--replay":
            replay = args[i + 1]
            i += 2
        else:
            i += 1
    sys.exit(check(pid, tier, seed, replay))


if __name__ == "__main__":
    main()
