/-
`vmodel`: line-protocol driver of the executable Lean model.
Reads one case per line on stdin, prints `<stream> <id> MODEL <observation>` per case.
Usage: `vmodel [--fixes <digits 0/1: f1 f2 f3 f4 f5 f2b f8 f10 f14 f12 f29>]`.
-/
import Vibrato.Driver.Tok
import Vibrato.Driver.Tok16
import Vibrato.Driver.Corpus
import Vibrato.Driver.Rewriter
import Vibrato.Driver.Image
import Vibrato.Driver.MapImage
import Vibrato.Driver.LexCsv
import Vibrato.Driver.Conn
import Vibrato.Driver.Extractor
import Vibrato.Driver.MecabSpec
import Vibrato.Driver.Trainer
import Vibrato.Driver.TrainerNew
import Vibrato.Driver.EvalSplit

open Vibrato Vibrato.Driver

structure DState where
  dicts : Tok.Dicts := []
  /-- finding F29 repaired (`evaluate`'s own `parse_csv_row`): 11th digit of `--fixes`, default repaired -/
  f29 : Bool := true

def parseFixes (s : String) : Fixes :=
  let b (i : Nat) : Bool := (s.toList.getD i '1') == '1'
  ⟨b 0, b 1, b 2, b 3, b 4, b 5, b 6, b 7, b 8, b 9⟩

/-- the tokens of a case before the implementation's observation -/
def input (rest : List String) : List String := rest.takeWhile (· ≠ "IMPL")

def stepLine (fx : Fixes) (st : DState) (line : String) : DState × String :=
  match Wire.tokens line with
  | "def" :: rest =>
    let (obs, d) := Tok.handleDef fx rest
    let name := rest.headD "?"
    let st' := match d with
      | some nd => { st with dicts := nd :: st.dicts.filter (·.1 ≠ nd.1) |>.take 4 }
      | none => st
    (st', s!"def {name} MODEL {obs}")
  | "tok" :: id :: rest => (st, s!"tok {id} MODEL {Tok.handleTokP fx st.dicts rest}")
  | "evalsplit" :: id :: rest => (st, s!"evalsplit {id} MODEL {EvalSplit.handleWith st.f29 rest}")
  | "tok16" :: id :: rest => (st, s!"tok16 {id} MODEL {Tok16.handle rest}")
  | "rewrite" :: id :: rest =>
    let inp := input rest
    let impl := " ".intercalate (rest.dropWhile (· ≠ "IMPL") |>.drop 1 |>.takeWhile (· ≠ "##"))
    let model := Rewriter.handle (inp ++ ["FIXED", if fx.f10 then "1" else "0"])
    let spec := Rewriter.handle ("SPEC" :: inp)
    let same := Rewriter.handle ("SAMETRIE" :: inp)
    (st, s!"rewrite {id} MODEL {model} P C17={if spec == impl then "1" else "0"} SAMETRIE={same}")
  | "imagebig" :: id :: _ =>
    -- `C05.reread_equal`: the image of a well-formed dictionary is always read back
    (st, s!"imagebig {id} MODEL ok")
  | "image" :: id :: rest => (st, s!"image {id} MODEL {Image.handle (input rest)}")
  | "tokchain" :: id :: len :: w :: c :: _ =>
    -- a chain lattice (one word `a`, one segmentation): token i carries (i+1)*(w+c); `viterbi_optimal` / `total_cost_prefix`
    -- on the only path.  The costs stay within 32 bits by the choice of the cases.
    let r := match len.toNat?, w.toInt?, c.toInt? with
      | some n, some w, some c => s!"ok {n} {(n : Int) * (w + c)} 1"
      | _, _, _ => "bad-input"
    (st, s!"tokchain {id} MODEL {r}")
  | "mapimg" :: id :: rest => (st, s!"mapimg {id} MODEL {MapImage.handle fx.f3 (input rest)}")
  | "csv" :: id :: rest =>
    let inp := input rest
    let inp := if inp.head? == some "LEX" then inp ++ ["FIXED", if fx.f8 then "1" else "0"] else inp
    (st, s!"csv {id} MODEL {LexCsv.handle inp}")
  | "threads" :: id :: _ =>
    -- `interleave_independent` + `reset_then_tokenize_fresh` (Props/C04): every worker's result
    -- equals the sequential fresh-worker result, whatever the interleaving
    (st, s!"threads {id} MODEL same-as-sequential")
  | "conn" :: id :: rest =>
    let impl := " ".intercalate (rest.dropWhile (· ≠ "IMPL") |>.drop 1 |>.takeWhile (· ≠ "##"))
    (st, s!"conn {id} MODEL {Conn.handle fx.f14 (input rest) impl}")
  | "conn3" :: id :: _ =>
    -- equal cost functions (raw_cost_eq_sum, dual_eq_raw_of_fits) give equal lattices (C06.lattice_relabel
    -- with the identity): the three dictionaries tokenize identically
    (st, s!"conn3 {id} MODEL same")
  | "scorer" :: id :: rest => (st, s!"scorer {id} MODEL {Conn.handleScorer (input rest)}")
  | "extract" :: id :: rest =>
    let inp := input rest
    let inp := match inp.head? with
      | some "FEATSET" => inp ++ ["FIXED", if fx.f10 then "1" else "0"]
      | some "MECAB" => if fx.f12 then inp ++ ["FIXED", "1"] else inp
      | _ => inp
    let model := Extractor.handle inp
    -- MECAB: when the generated files differ from the model's, compare what they MEAN: the defining
    -- feature-pair sums of every id pair (the model's are the model.def sums by `C20.mecab_cost_eq_sum`)
    let implToks := rest.dropWhile (· ≠ "IMPL") |>.drop 1 |>.takeWhile (· ≠ "##")
    let p := match inp.head?, implToks, Wire.tokens model with
      | some "MECAB", ["ok", r, l, c], ["ok", r', l', c'] =>
        if r == r' && l == l' && c == c' then "1" else
        match Wire.bytesOfHex r, Wire.bytesOfHex l, Wire.bytesOfHex c,
              Wire.bytesOfHex r', Wire.bytesOfHex l', Wire.bytesOfHex c' with
        | some a, some b, some d, some a', some b', some d' =>
          if Conn.spec a b d == Conn.spec a' b' d' then "1" else "0"
        | _, _, _, _, _, _ => "n/a"
      | _, _, _ => "n/a"
    -- C20 itself: costs of the dictionary compiled from the IMPLEMENTATION's files = template sums of the inputs
    let spec := match inp, implToks with
      | "MECAB" :: f :: r :: l :: m :: cf :: _, ["ok", a, b, c] =>
        match Wire.bytesOfHex f, Wire.bytesOfHex r, Wire.bytesOfHex l, Wire.bytesOfHex m, cf.toNat?,
              Wire.bytesOfHex a, Wire.bytesOfHex b, Wire.bytesOfHex c with
        | some f, some r, some l, some m, some cf, some a, some b, some c =>
          MecabSpec.specVerdict fx.f14 f r l m (Float.ofBits cf.toUInt64) a b c
        | _, _, _, _, _, _, _, _ => "n/a NOBIGRAM=na"
      | _, _ => "n/a NOBIGRAM=na"
    (st, s!"extract {id} MODEL {model} P MECABCOST={p} MECABSPEC={spec}")
  | "limits" :: id :: "BIGRAM" :: rows :: _ =>
    -- `C10guard.bigram_dict_builders_total_guarded` (never a panic); 65535 or more rows are rejected (F26), fewer
    -- rows give a usable dictionary for the generated files (every row well-formed, ids in range)
    let r := rows.toNat?.getD 0
    (st, s!"limits {id} MODEL {if r ≥ 65535 then "err" else "ok cost=ok tok=ok2"}")
  | "limits" :: id :: "MATRIX" :: nr :: nl :: _ =>
    -- matrix.def header: both numbers are parsed as `u16`
    let ok := nr.toNat?.getD 0 ≤ 65535 && nl.toNat?.getD 0 ≤ 65535
    (st, s!"limits {id} MODEL {if ok then "ok cost=ok tok=ok2" else "err"}")
  | "cli" :: id :: _ =>
    -- the command-line programs are wrappers: their observable results are those of the library calls
    -- they are documented to make (which the other streams tie to the model)
    (st, s!"cli {id} MODEL same")
  | "train" :: id :: rest => (st, s!"train {id} MODEL {Trainer.handle (input rest)}")
  | "trainnew" :: id :: rest =>
    -- C18 (second half): five seed files -> label feature sets of `Trainer::new` (`Model/TrainerNew.lean`);
    -- for an `ok` observation taken from a trained model the model prints its own restricted to what survived
    -- training; for `okfull` (hook `trainer_labels`, directly after `Trainer::new`) its complete observation
    let impl := rest.dropWhile (· ≠ "IMPL") |>.drop 1 |>.takeWhile (· ≠ "##")
    (st, s!"trainnew {id} MODEL {TrainerNew.handle fx (input rest) impl}")
  | "corpus" :: id :: rest => (st, s!"corpus {id} MODEL {Corpus.handle (input rest)}")
  | s :: id :: _ => (st, s!"{s} {id} MODEL unknown-stream")
  | _ => (st, "? ? MODEL badline")

partial def loop (fx : Fixes) (h : IO.FS.Stream) (out : IO.FS.Stream) (st : DState) : IO Unit := do
  let line ← h.getLine
  if line.isEmpty then return ()
  let (st', o) := stepLine fx st line
  out.putStrLn o
  loop fx h out st'

def main (args : List String) : IO Unit := do
  let fx := match args with
    | "--fixes" :: s :: _ => parseFixes s
    | _ => Fixes.all
  let stdin ← IO.getStdin
  let stdout ← IO.getStdout
  let f29 := match args with
    | "--fixes" :: s :: _ => (s.toList.getD 10 '1') == '1'
    | _ => true
  loop fx stdin stdout { f29 := f29 }
  stdout.flush
