import Vibrato.Model.RawConnector
import Vibrato.Proofs.Scorer
/-! Helper lemmas for C07 (raw connector part). -/
namespace Vibrato.RawConnector
open Vibrato.Scorer

/-! ### Part A: `accLanes` on a built scorer is an integer sum -/

/-- Weight stored in the builder for a key pair (`0` if absent). -/
def wgt (t : Trie) (k1 k2 : Nat) : Int := (get2 t k1 k2).getD 0

/-- The per-lane weights of two key vectors. -/
def laneWs (t : Trie) (a b : List Nat) : List Int := List.zipWith (wgt t) a b

/-- Sum of absolute values. -/
def absSum : List Int → Nat
  | [] => 0
  | x :: xs => x.natAbs + absSum xs

theorem absSum_append (a b : List Int) : absSum (a ++ b) = absSum a + absSum b := by
  induction a with
  | nil => simp [absSum]
  | cons x xs ih => simp [absSum, ih]; omega

theorem absSum_replicate (n : Nat) (x : Int) : absSum (List.replicate n x) = n * x.natAbs := by
  induction n with
  | zero => simp [absSum]
  | succ n ih => simp [List.replicate_succ, absSum, ih, Nat.succ_mul]; omega

theorem natAbs_sum_le (l : List Int) : l.sum.natAbs ≤ absSum l := by
  induction l with
  | nil => simp [absSum]
  | cons x xs ih => simp only [List.sum_cons, absSum]; omega

theorem inI32_of_natAbs {x : Int} (h : x.natAbs ≤ 2147483647) : inI32 x = true := by
  unfold inI32 I32_MIN I32_MAX
  simp only [Bool.and_eq_true, decide_eq_true_eq]; omega

theorem addI32_ok (oc : Bool) {a b : Int} (h : (a + b).natAbs ≤ 2147483647) :
    addI32 oc a b = .ok (a + b) := by
  unfold addI32; rw [if_pos (inI32_of_natAbs h)]

theorem accLanes_build (oc : Bool) (t : Trie) (ht : TrieOK t) : ∀ (a b : List Nat) (acc : Int),
    acc.natAbs + absSum (laneWs t a b) ≤ 2147483647 →
    accLanes oc (build t) a b acc = .ok (acc + (laneWs t a b).sum) := by
  intro a
  induction a with
  | nil => intro b acc _; simp [accLanes, laneWs]
  | cons k1 r1 ih =>
    intro b acc h
    cases b with
    | nil => simp [accLanes, laneWs]
    | cons k2 r2 =>
      simp only [laneWs, List.zipWith_cons_cons, absSum, List.sum_cons] at h ⊢
      simp only [accLanes, retrieve_build_aux t ht]
      have hget : t[k1]?.bind (rowLookup k2) = get2 t k1 k2 := rfl
      rw [hget]
      have hw : wgt t k1 k2 = (get2 t k1 k2).getD 0 := rfl
      rw [hw] at h ⊢
      cases hg : get2 t k1 k2 with
      | none =>
        rw [hg] at h
        simp only [Option.getD_none, Int.zero_add] at h ⊢
        exact ih r2 acc (by simp only [laneWs]; omega)
      | some w =>
        rw [hg] at h
        simp only [Option.getD_some] at h ⊢
        rw [addI32_ok oc (by omega)]
        simp only
        rw [ih r2 (acc + w) (by simp only [laneWs]; omega), Int.add_assoc]; rfl

/-! ### Part D: chunk layout -/

theorem accLanes_append (oc : Bool) (s : Scorer) : ∀ (a1 b1 : List Nat) (a2 b2 : List Nat) (acc : Int),
    a1.length = b1.length →
    accLanes oc s (a1 ++ a2) (b1 ++ b2) acc =
      match accLanes oc s a1 b1 acc with
      | .ok x => accLanes oc s a2 b2 x
      | e => e := by
  intro a1
  induction a1 with
  | nil =>
    intro b1 a2 b2 acc h
    cases b1 with
    | nil => simp [accLanes]
    | cons _ _ => simp at h
  | cons k1 r1 ih =>
    intro b1 a2 b2 acc h
    cases b1 with
    | nil => simp at h
    | cons k2 r2 =>
      simp only [List.length_cons, Nat.add_right_cancel_iff] at h
      simp only [List.cons_append, accLanes]
      cases retrieve s k1 k2 with
      | ok o =>
        cases o with
        | none => simp only; exact ih r2 a2 b2 acc h
        | some w =>
          simp only
          cases addI32 oc acc w with
          | ok x => simp only; exact ih r2 a2 b2 x h
          | err => rfl
          | panic => rfl
      | err => rfl
      | panic => rfl

theorem accChunks_eq_accLanes (oc : Bool) (s : Scorer) : ∀ (c1s c2s : List U31x8) (acc : Int),
    c1s.length = c2s.length → (∀ c ∈ c1s, c.length = 8) → (∀ c ∈ c2s, c.length = 8) →
    accChunks oc s c1s c2s acc = accLanes oc s c1s.flatten c2s.flatten acc := by
  intro c1s
  induction c1s with
  | nil =>
    intro c2s acc h _ _
    cases c2s with
    | nil => simp [accChunks, accLanes]
    | cons _ _ => simp at h
  | cons c1 r1 ih =>
    intro c2s acc h h1 h2
    cases c2s with
    | nil => simp at h
    | cons c2 r2 =>
      simp only [List.length_cons, Nat.add_right_cancel_iff] at h
      simp only [List.flatten_cons, accChunks]
      rw [accLanes_append oc s c1 c2 _ _ acc
        (by rw [h1 c1 List.mem_cons_self, h2 c2 List.mem_cons_self])]
      cases accLanes oc s c1 c2 acc with
      | ok x =>
        simp only
        exact ih r2 x h (fun c hc => h1 c (List.mem_cons_of_mem _ hc))
          (fun c hc => h2 c (List.mem_cons_of_mem _ hc))
      | err => rfl
      | panic => rfl

theorem toSimdVecPad_fuel (pad : Nat) : ∀ (n : Nat) (data : List Nat) (f1 f2 : Nat),
    data.length ≤ n → data.length ≤ f1 → data.length ≤ f2 →
    toSimdVecPad pad f1 data = toSimdVecPad pad f2 data := by
  intro n
  induction n with
  | zero =>
    intro data f1 f2 h _ _
    have : data = [] := List.length_eq_zero_iff.1 (by omega)
    subst this
    cases f1 <;> cases f2 <;> simp [toSimdVecPad]
  | succ n ih =>
    intro data f1 f2 h h1 h2
    cases data with
    | nil => cases f1 <;> cases f2 <;> simp [toSimdVecPad]
    | cons x xs =>
      cases f1 with
      | zero => simp at h1
      | succ f1 =>
        cases f2 with
        | zero => simp at h2
        | succ f2 =>
          simp only [toSimdVecPad, List.isEmpty_cons, Bool.false_eq_true, if_false]
          congr 1
          simp only [List.length_cons] at h h1 h2
          apply ih <;> simp only [List.length_drop, List.length_cons] <;> omega

theorem toSimdVecPad_nil (pad fuel : Nat) : toSimdVecPad pad fuel [] = [] := by
  cases fuel <;> simp [toSimdVecPad]

theorem toSimdVecPad_append8 (pad : Nat) (a b : List Nat) (h : a.length = 8) (fuel : Nat)
    (hf : (a ++ b).length ≤ fuel) :
    toSimdVecPad pad fuel (a ++ b) = a :: toSimdVecPad pad b.length b := by
  cases fuel with
  | zero => simp only [List.length_append] at hf; omega
  | succ f =>
    have hne : (a ++ b).isEmpty = false := by
      cases a with
      | nil => simp at h
      | cons _ _ => rfl
    simp only [toSimdVecPad, hne, Bool.false_eq_true, if_false]
    have ht : (a ++ b).take 8 = a := by rw [← h]; simp
    have hd : (a ++ b).drop 8 = b := by rw [← h]; simp
    rw [ht, hd, h]
    simp only [Nat.sub_self, List.replicate_zero, List.append_nil]
    congr 1
    apply toSimdVecPad_fuel pad b.length b f b.length (Nat.le_refl _) _ (Nat.le_refl _)
    simp at hf; omega

/-- Chunking a list whose length is a multiple of 8. -/
theorem toSimdVecPad_mul8 (pad : Nat) : ∀ (n : Nat) (a : List Nat), a.length = 8 * n →
    (toSimdVecPad pad a.length a).length = n ∧ (∀ c ∈ toSimdVecPad pad a.length a, c.length = 8) ∧
    (toSimdVecPad pad a.length a).flatten = a := by
  intro n
  induction n with
  | zero =>
    intro a h
    have : a = [] := List.length_eq_zero_iff.1 (by omega)
    subst this
    simp [toSimdVecPad]
  | succ n ih =>
    intro a h
    have hsplit : a = a.take 8 ++ a.drop 8 := (List.take_append_drop 8 a).symm
    have h8 : (a.take 8).length = 8 := by simp; omega
    have hr : (a.drop 8).length = 8 * n := by simp; omega
    obtain ⟨i1, i2, i3⟩ := ih (a.drop 8) hr
    have := toSimdVecPad_append8 pad (a.take 8) (a.drop 8) h8 a.length (by rw [← hsplit]; exact Nat.le_refl _)
    rw [← hsplit] at this
    rw [this]
    refine ⟨by rw [List.length_cons, i1], ?_, ?_⟩
    · intro c hc
      rcases List.mem_cons.1 hc with rfl | hc
      · exact h8
      · exact i2 c hc
    · rw [List.flatten_cons, i3]; exact hsplit.symm

theorem toSimdVecPad_append (pad : Nat) : ∀ (n : Nat) (a b : List Nat), a.length = 8 * n →
    toSimdVecPad pad (a ++ b).length (a ++ b) =
      toSimdVecPad pad a.length a ++ toSimdVecPad pad b.length b := by
  intro n
  induction n with
  | zero =>
    intro a b h
    have : a = [] := List.length_eq_zero_iff.1 (by omega)
    subst this
    simp [toSimdVecPad]
  | succ n ih =>
    intro a b h
    have hsplit : a = a.take 8 ++ a.drop 8 := (List.take_append_drop 8 a).symm
    have h8 : (a.take 8).length = 8 := by simp; omega
    have hr : (a.drop 8).length = 8 * n := by simp; omega
    have e1 := toSimdVecPad_append8 pad (a.take 8) (a.drop 8 ++ b) h8 (a ++ b).length
      (by rw [← List.append_assoc, ← hsplit]; exact Nat.le_refl _)
    rw [← List.append_assoc, ← hsplit] at e1
    have e2 := toSimdVecPad_append8 pad (a.take 8) (a.drop 8) h8 a.length
      (by rw [← hsplit]; exact Nat.le_refl _)
    rw [← hsplit] at e2
    rw [e1, e2, ih (a.drop 8) b hr]
    rfl

theorem toSimdVecPad_flatten (pad m : Nat) : ∀ (rows : List (List Nat)),
    (∀ row ∈ rows, row.length = 8 * m) →
    toSimdVecPad pad rows.flatten.length rows.flatten =
      (rows.map fun row => toSimdVecPad pad row.length row).flatten := by
  intro rows
  induction rows with
  | nil => intro _; simp [toSimdVecPad]
  | cons row rest ih =>
    intro h
    simp only [List.flatten_cons, List.map_cons]
    rw [toSimdVecPad_append pad m row rest.flatten (h row List.mem_cons_self),
      ih (fun r hr => h r (List.mem_cons_of_mem _ hr))]

theorem drop_take_flatten_uniform {α : Type} (m : Nat) : ∀ (L : List (List α)) (r : Nat) (x : List α),
    (∀ y ∈ L, y.length = m) → L[r]? = some x → (L.flatten.drop (r * m)).take m = x := by
  intro L
  induction L with
  | nil => intro r x _ h; simp at h
  | cons y ys ih =>
    intro r x hL h
    have hy : y.length = m := hL y List.mem_cons_self
    cases r with
    | zero =>
      simp only [List.getElem?_cons_zero, Option.some.injEq] at h
      subst h
      simp only [Nat.zero_mul, List.drop_zero, List.flatten_cons]
      rw [← hy]; simp
    | succ r =>
      simp only [List.getElem?_cons_succ] at h
      simp only [List.flatten_cons]
      have : (r + 1) * m = y.length + r * m := by rw [Nat.succ_mul, hy]; omega
      rw [this, List.drop_append, List.drop_of_length_le (by omega), List.nil_append,
        Nat.add_sub_cancel_left]
      exact ih r x (fun z hz => hL z (List.mem_cons_of_mem _ hz)) h

/-! ### Specification-level reading of the three files -/

/-- The entries `(right feature, left feature, cost)` of `bigram.cost`; `none` if some line is
not UTF-8 or not of the form `right/left<TAB>cost`. -/
def costEntries : List (Option Str) → Option (List (Str × Str × Int))
  | [] => some []
  | none :: _ => none
  | some line :: rest =>
    match parseCostLine line with
    | none => none
    | some e => (costEntries rest).map (e :: ·)

/-- The feature strings of `bigram.right`/`bigram.left`, line `j` must carry id `i + j + 1`. -/
def featLines (parseCsvRow : Str → Outcome (List Str)) : List (Option Str) → Nat → Option (List (List Str))
  | [], _ => some []
  | none :: _, _ => none
  | some line :: rest, i =>
    match parseFeatureLine parseCsvRow line with
    | .ok (id, feats) => if id ≠ i + 1 then none else (featLines parseCsvRow rest (i + 1)).map (feats :: ·)
    | _ => none

/-- The cost listed for a feature pair (the last line wins); `none` if unlisted. -/
def tableOpt : List (Str × Str × Int) → Str → Str → Option Int
  | [], _, _ => none
  | e :: rest, a, b =>
    match tableOpt rest a b with
    | some c => some c
    | none => if e.1 = a ∧ e.2.1 = b then some e.2.2 else none

/-- Unlisted pairs count as 0. -/
def table (es : List (Str × Str × Int)) (a b : Str) : Int := (tableOpt es a b).getD 0

def maxLen : List (List Str) → Nat
  | [] => 0
  | f :: fs => max f.length (maxLen fs)

/-! ### Part B: id maps -/

theorem lookupId_lt {s : Str} : ∀ {m : List Str} {i : Nat}, lookupId s m = some i → i < m.length := by
  intro m
  induction m with
  | nil => intro i h; simp [lookupId] at h
  | cons x xs ih =>
    intro i h
    simp only [lookupId] at h
    split at h
    · cases h; simp
    · cases hl : lookupId s xs with
      | none => rw [hl] at h; simp at h
      | some j =>
        rw [hl] at h; simp at h; subst h
        have := ih hl; simp; omega

theorem lookupId_getElem {s : Str} : ∀ {m : List Str} {i : Nat}, lookupId s m = some i → m[i]? = some s := by
  intro m
  induction m with
  | nil => intro i h; simp [lookupId] at h
  | cons x xs ih =>
    intro i h
    simp only [lookupId] at h
    split at h
    · cases h; subst_vars; simp
    · cases hl : lookupId s xs with
      | none => rw [hl] at h; simp at h
      | some j =>
        rw [hl] at h; simp at h; subst h
        simpa using ih hl

theorem lookupId_append_of_some {s : Str} (x : Str) : ∀ {m : List Str} {i : Nat},
    lookupId s m = some i → lookupId s (m ++ [x]) = some i := by
  intro m
  induction m with
  | nil => intro i h; simp [lookupId] at h
  | cons y ys ih =>
    intro i h
    simp only [lookupId, List.cons_append] at h ⊢
    split at h
    · rename_i hy; rw [if_pos hy]; exact h
    · rename_i hy
      rw [if_neg hy]
      cases hl : lookupId s ys with
      | none => rw [hl] at h; simp at h
      | some j => rw [hl] at h; rw [ih hl]; exact h

theorem lookupId_append_self {s : Str} : ∀ {m : List Str},
    lookupId s m = none → lookupId s (m ++ [s]) = some m.length := by
  intro m
  induction m with
  | nil => intro _; simp [lookupId]
  | cons y ys ih =>
    intro h
    simp only [lookupId, List.cons_append] at h ⊢
    split at h
    · cases h
    · rename_i hy
      rw [if_neg hy]
      cases hl : lookupId s ys with
      | none => rw [ih hl]; simp
      | some j => rw [hl] at h; simp at h

theorem intern_spec {m m' : List Str} {s : Str} {i : Nat} (h : intern m s = .ok (m', i)) :
    lookupId s m' = some i ∧ (∀ x j, lookupId x m = some j → lookupId x m' = some j) ∧
    m'.length ≤ m.length + 1 := by
  unfold intern at h
  cases hl : lookupId s m with
  | some j =>
    rw [hl] at h
    simp only [Outcome.ok.injEq, Prod.mk.injEq] at h
    obtain ⟨rfl, rfl⟩ := h
    exact ⟨hl, fun _ _ h => h, by omega⟩
  | none =>
    rw [hl] at h
    simp only at h
    split at h
    · simp only [Outcome.ok.injEq, Prod.mk.injEq] at h
      obtain ⟨rfl, rfl⟩ := h
      exact ⟨lookupId_append_self hl, fun x j hx => lookupId_append_of_some s hx, by simp⟩
    · cases h

/-- Key pair of a cost entry under the given id maps. -/
def enc (rm lm : List Str) (e : Str × Str × Int) : Nat × Nat × Int :=
  (featId rm e.1, featId lm e.2.1, e.2.2)

theorem featId_of_some {m : List Str} {s : Str} {i : Nat} (h : lookupId s m = some i) : featId m s = i := by
  simp [featId, h]

/-- Invariant of the `bigram.cost` loop. -/
structure CInv (st : CostState) (es : List (Str × Str × Int)) : Prop where
  r0 : lookupId [] st.rmap = some 0
  l0 : lookupId [] st.lmap = some 0
  rmem : ∀ e ∈ es, ∃ i, lookupId e.1 st.rmap = some i
  lmem : ∀ e ∈ es, ∃ i, lookupId e.2.1 st.lmap = some i
  trie : st.trie = ofEntries (es.map (enc st.rmap st.lmap))
  rlen : st.rmap.length ≤ es.length + 1
  llen : st.lmap.length ≤ es.length + 1

theorem ofEntries_append (es : List (Nat × Nat × Int)) (e : Nat × Nat × Int) :
    ofEntries (es ++ [e]) = insert (ofEntries es) e.1 e.2.1 e.2.2 := by
  simp [ofEntries, List.foldl_append]

theorem costStep_inv {st st' : CostState} {es : List (Str × Str × Int)} {line : Str}
    (hinv : CInv st es) (h : costStep st line = .ok st') :
    ∃ e, parseCostLine line = some e ∧ CInv st' (es ++ [e]) := by
  unfold costStep at h
  cases hp : parseCostLine line with
  | none => rw [hp] at h; cases h
  | some e =>
    obtain ⟨rs, ls, c⟩ := e
    rw [hp] at h
    simp only at h
    cases hr : intern st.rmap rs with
    | err => rw [hr] at h; cases h
    | panic => rw [hr] at h; cases h
    | ok pr =>
      obtain ⟨rmap, rid⟩ := pr
      rw [hr] at h
      simp only at h
      cases hl : intern st.lmap ls with
      | err => rw [hl] at h; cases h
      | panic => rw [hl] at h; cases h
      | ok pl =>
        obtain ⟨lmap, lid⟩ := pl
        rw [hl] at h
        simp only [Outcome.ok.injEq] at h
        subst h
        obtain ⟨a1, a2, a3⟩ := intern_spec hr
        obtain ⟨b1, b2, b3⟩ := intern_spec hl
        refine ⟨(rs, ls, c), rfl, ?_⟩
        have hmap : es.map (enc rmap lmap) = es.map (enc st.rmap st.lmap) := by
          apply List.map_congr_left
          intro e he
          obtain ⟨i, hi⟩ := hinv.rmem e he
          obtain ⟨j, hj⟩ := hinv.lmem e he
          simp only [enc, featId_of_some hi, featId_of_some hj, featId_of_some (a2 _ _ hi),
            featId_of_some (b2 _ _ hj)]
        refine ⟨a2 _ _ hinv.r0, b2 _ _ hinv.l0, ?_, ?_, ?_, ?_, ?_⟩
        · intro e he
          rcases List.mem_append.1 he with he | he
          · obtain ⟨i, hi⟩ := hinv.rmem e he; exact ⟨i, a2 _ _ hi⟩
          · simp only [List.mem_singleton] at he; subst he; exact ⟨rid, a1⟩
        · intro e he
          rcases List.mem_append.1 he with he | he
          · obtain ⟨i, hi⟩ := hinv.lmem e he; exact ⟨i, b2 _ _ hi⟩
          · simp only [List.mem_singleton] at he; subst he; exact ⟨lid, b1⟩
        · simp only [List.map_append, List.map_cons, List.map_nil]
          rw [ofEntries_append, hmap, ← hinv.trie]
          simp only [enc, featId_of_some a1, featId_of_some b1]
        · have := hinv.rlen; simp only [List.length_append, List.length_singleton]; omega
        · have := hinv.llen; simp only [List.length_append, List.length_singleton]; omega

theorem costLoop_inv : ∀ (lines : List (Option Str)) (st st' : CostState) (es : List (Str × Str × Int)),
    CInv st es → costLoop lines st = .ok st' →
    ∃ es1, costEntries lines = some es1 ∧ CInv st' (es ++ es1) := by
  intro lines
  induction lines with
  | nil =>
    intro st st' es hinv h
    simp only [costLoop, Outcome.ok.injEq] at h
    subst h
    exact ⟨[], rfl, by simpa using hinv⟩
  | cons l rest ih =>
    intro st st' es hinv h
    cases l with
    | none => simp [costLoop] at h
    | some line =>
      simp only [costLoop] at h
      cases hs : costStep st line with
      | err => rw [hs] at h; cases h
      | panic => rw [hs] at h; cases h
      | ok st1 =>
        rw [hs] at h
        simp only at h
        obtain ⟨e, he, hinv1⟩ := costStep_inv hinv hs
        obtain ⟨es1, h1, h2⟩ := ih st1 st' (es ++ [e]) hinv1 h
        refine ⟨e :: es1, ?_, ?_⟩
        · simp [costEntries, he, h1]
        · simpa using h2

theorem cinv_init : CInv ⟨[[]], [[]], []⟩ [] :=
  ⟨by simp [lookupId], by simp [lookupId], by simp, by simp, by simp [ofEntries], by simp, by simp⟩

/-! ### Part C: feature files -/

theorem featLoop_spec (csv : Str → Outcome (List Str)) (m : List Str) :
    ∀ (lines : List (Option Str)) (i K : Nat) (rows rows' : List (List Nat)) (K' : Nat),
    featLoop csv m lines i K rows = .ok (rows', K') →
    ∃ fss, featLines csv lines i = some fss ∧
      rows' = rows ++ fss.map (fun fs => fs.map (featId m)) ∧ K' = max K (maxLen fss) := by
  intro lines
  induction lines with
  | nil =>
    intro i K rows rows' K' h
    simp only [featLoop, Outcome.ok.injEq, Prod.mk.injEq] at h
    obtain ⟨rfl, rfl⟩ := h
    exact ⟨[], rfl, by simp, by simp [maxLen]⟩
  | cons l rest ih =>
    intro i K rows rows' K' h
    cases l with
    | none => simp [featLoop] at h
    | some line =>
      simp only [featLoop] at h
      cases hp : parseFeatureLine csv line with
      | err => rw [hp] at h; cases h
      | panic => rw [hp] at h; cases h
      | ok pr =>
        obtain ⟨id, feats⟩ := pr
        rw [hp] at h
        simp only at h
        split at h
        · cases h
        · rename_i hid
          obtain ⟨fss, h1, h2, h3⟩ := ih _ _ _ _ _ h
          refine ⟨feats :: fss, ?_, ?_, ?_⟩
          · simp only [featLines, hp, hid, if_false, h1, Option.map_some]
          · rw [h2]; simp
          · rw [h3]; simp only [maxLen]; omega

/-! ### Part E: lanes versus feature strings -/

/-- Feature id of an optional feature (`none` = position beyond a ragged row). -/
def optId (m : List Str) : Option Str → Nat
  | some s => featId m s
  | none => INVALID

/-- Listed cost of an optional feature pair. -/
def pairOpt (es : List (Str × Str × Int)) : Option Str → Option Str → Option Int
  | some a, some b => tableOpt es a b
  | _, _ => none

/-- Cost of an optional feature pair, unlisted/absent = 0. -/
def pairCost (es : List (Str × Str × Int)) (oa ob : Option Str) : Int := (pairOpt es oa ob).getD 0

theorem featId_eq_optId {m : List Str} {x : Str} {i : Nat} (hx : lookupId x m = some i)
    (hm : m.length ≤ INVALID) (o : Option Str) : featId m x = optId m o ↔ o = some x := by
  have hi := lookupId_lt hx
  rw [featId_of_some hx]
  constructor
  · intro h
    cases o with
    | none => simp only [optId] at h; omega
    | some y =>
      simp only [optId, featId] at h
      cases hy : lookupId y m with
      | none => rw [hy] at h; simp only [Option.getD_none] at h; omega
      | some j =>
        rw [hy] at h
        simp only [Option.getD_some] at h
        subst h
        have h1 := lookupId_getElem hx
        have h2 := lookupId_getElem hy
        rw [h1] at h2
        cases h2; rfl
  · intro h; subst h; simp [optId, featId_of_some hx]

theorem lastEntry_enc (rm lm : List Str) (hr : rm.length ≤ INVALID) (hl : lm.length ≤ INVALID) :
    ∀ (es : List (Str × Str × Int)),
    (∀ e ∈ es, ∃ i, lookupId e.1 rm = some i) → (∀ e ∈ es, ∃ i, lookupId e.2.1 lm = some i) →
    ∀ oa ob, lastEntry (es.map (enc rm lm)) (optId rm oa) (optId lm ob) = pairOpt es oa ob := by
  intro es
  induction es with
  | nil => intro _ _ oa ob; cases oa <;> cases ob <;> simp [lastEntry, pairOpt, tableOpt]
  | cons e rest ih =>
    intro h1 h2 oa ob
    have ih' := ih (fun e he => h1 e (List.mem_cons_of_mem _ he))
      (fun e he => h2 e (List.mem_cons_of_mem _ he)) oa ob
    obtain ⟨i, hi⟩ := h1 e List.mem_cons_self
    obtain ⟨j, hj⟩ := h2 e List.mem_cons_self
    simp only [List.map_cons, lastEntry, ih']
    have c1 := featId_eq_optId hi hr oa
    have c2 := featId_eq_optId hj hl ob
    cases oa with
    | none =>
      have : ¬ ((enc rm lm e).1 = optId rm none ∧ (enc rm lm e).2.1 = optId lm ob) := by
        intro hh; have := c1.1 hh.1; cases this
      simp only [pairOpt, this, if_false]
    | some a =>
      cases ob with
      | none =>
        have : ¬ ((enc rm lm e).1 = optId rm (some a) ∧ (enc rm lm e).2.1 = optId lm none) := by
          intro hh; have := c2.1 hh.2; cases this
        simp only [pairOpt, this, if_false]
      | some b =>
        simp only [pairOpt, tableOpt]
        cases tableOpt rest a b with
        | some c => rfl
        | none =>
          simp only
          have : ((enc rm lm e).1 = optId rm (some a) ∧ (enc rm lm e).2.1 = optId lm (some b)) ↔
              (e.1 = a ∧ e.2.1 = b) := by
            simp only [enc]
            rw [c1, c2]
            simp only [Option.some.injEq]
            constructor
            · intro h; exact ⟨h.1.symm, h.2.symm⟩
            · intro h; exact ⟨h.1.symm, h.2.symm⟩
          by_cases hc : e.1 = a ∧ e.2.1 = b
          · rw [if_pos hc, if_pos (this.2 hc)]; rfl
          · rw [if_neg hc, if_neg (fun h => hc (this.1 h))]

/-- What the scorer stores for the ids of two optional features is the listed cost. -/
theorem wgt_optId {st : CostState} {es : List (Str × Str × Int)} (hinv : CInv st es)
    (hr : st.rmap.length ≤ INVALID) (hl : st.lmap.length ≤ INVALID) (oa ob : Option Str) :
    wgt st.trie (optId st.rmap oa) (optId st.lmap ob) = pairCost es oa ob := by
  unfold wgt pairCost
  rw [hinv.trie, get2_ofEntries, lastEntry_enc _ _ hr hl es hinv.rmem hinv.lmem]

theorem trieOK_of_cinv {st : CostState} {es : List (Str × Str × Int)} (hinv : CInv st es)
    (hr : st.rmap.length ≤ INVALID) : TrieOK st.trie := by
  rw [hinv.trie]
  apply TrieSorted.ok (bound := INVALID) _ (by decide)
  apply trieSorted_ofEntries
  intro e he
  obtain ⟨e0, he0, rfl⟩ := List.mem_map.1 he
  obtain ⟨i, hi⟩ := hinv.rmem e0 he0
  simp only [enc, featId_of_some hi]
  have := lookupId_lt hi
  omega

/-! #### Rows -/

/-- Spec row: the feature at every template position `< K` (`none` beyond a ragged row);
id 0 is the empty feature at every position. -/
def specRow (fss : List (List Str)) (K : Nat) : Nat → List (Option Str)
  | 0 => List.replicate K (some [])
  | i + 1 =>
    match fss[i]? with
    | some fs => fs.map some ++ List.replicate (K - fs.length) none
    | none => []

/-- Model row `r` of the flat matrix. -/
def modelRow (fixed : Bool) (K : Nat) (rows : List (List Nat)) (r : Nat) : Option (List Nat) :=
  (bosRow fixed K :: rows.map (padRow K))[r]?

theorem le_paddedSize (K : Nat) : K ≤ paddedSize K := by
  unfold paddedSize SIMD_SIZE
  split
  · omega
  · omega

theorem paddedSize_eq (K : Nat) : paddedSize K = 8 * (paddedSize K / SIMD_SIZE) := by
  unfold paddedSize SIMD_SIZE
  split
  · omega
  · rfl

theorem length_le_maxLen {fss : List (List Str)} {fs : List Str} (h : fs ∈ fss) : fs.length ≤ maxLen fss := by
  induction fss with
  | nil => cases h
  | cons x xs ih =>
    simp only [maxLen]
    rcases List.mem_cons.1 h with rfl | h
    · omega
    · have := ih h; omega

/-- Padding value in the lanes `K .. paddedSize K`: `0` only for row 0 of the pinned code. -/
def padOpt (fixed : Bool) (r : Nat) : Option Str := if r = 0 ∧ fixed = false then some [] else none

theorem modelRow_eq (fixed : Bool) (m : List Str) (h0 : lookupId [] m = some 0) (fss : List (List Str))
    (K : Nat) (hK : maxLen fss ≤ K) (r : Nat) (hr : r ≤ fss.length) :
    modelRow fixed K (fss.map fun fs => fs.map (featId m)) r =
      some ((specRow fss K r).map (optId m) ++
        List.replicate (paddedSize K - K) (optId m (padOpt fixed r))) := by
  have hKK := le_paddedSize K
  cases r with
  | zero =>
    simp only [modelRow, List.getElem?_cons_zero, specRow, List.map_replicate, optId,
      featId_of_some h0, bosRow, padOpt, true_and]
    cases fixed with
    | true => simp
    | false =>
      simp only [Bool.false_eq_true, if_false, if_true, featId_of_some h0,
        List.replicate_append_replicate]
      congr 2; omega
  | succ i =>
    have hi : i < fss.length := by omega
    simp only [modelRow, List.getElem?_cons_succ, List.getElem?_map, specRow,
      List.getElem?_eq_getElem hi, Option.map_some, padOpt]
    have hlen : fss[i].length ≤ K := Nat.le_trans (length_le_maxLen (List.getElem_mem hi)) hK
    simp only [padRow, List.length_map, List.map_append, List.map_map, List.map_replicate, optId,
      Nat.add_one_ne_zero, false_and, if_false, List.append_assoc, List.replicate_append_replicate]
    congr 3
    omega

theorem specRow_length (fss : List (List Str)) (K : Nat) (hK : maxLen fss ≤ K) (r : Nat)
    (hr : r ≤ fss.length) : (specRow fss K r).length = K := by
  cases r with
  | zero => simp [specRow]
  | succ i =>
    have hi : i < fss.length := by omega
    have hlen : fss[i].length ≤ K := Nat.le_trans (length_le_maxLen (List.getElem_mem hi)) hK
    simp only [specRow, List.getElem?_eq_getElem hi, List.length_append, List.length_map,
      List.length_replicate]
    omega

/-- The lane weights of two model rows. -/
theorem laneWs_rows {st : CostState} {es : List (Str × Str × Int)} (hinv : CInv st es)
    (hr : st.rmap.length ≤ INVALID) (hl : st.lmap.length ≤ INVALID)
    (A B : List (Option Str)) (hAB : A.length = B.length) (p : Nat) (x y : Option Str) :
    laneWs st.trie (A.map (optId st.rmap) ++ List.replicate p (optId st.rmap x))
        (B.map (optId st.lmap) ++ List.replicate p (optId st.lmap y)) =
      List.zipWith (pairCost es) A B ++ List.replicate p (pairCost es x y) := by
  unfold laneWs
  rw [List.zipWith_append (by simp [hAB]), List.zipWith_map, List.zipWith_replicate, Nat.min_self]
  congr 1
  · congr 1
    funext a b
    exact wgt_optId hinv hr hl a b
  · rw [wgt_optId hinv hr hl]

/-! ### Assembly -/

theorem costEntries_length : ∀ (lines : List (Option Str)) (es : List (Str × Str × Int)),
    costEntries lines = some es → es.length = lines.length := by
  intro lines
  induction lines with
  | nil => intro es h; simp [costEntries] at h; subst h; rfl
  | cons l rest ih =>
    intro es h
    cases l with
    | none => simp [costEntries] at h
    | some line =>
      simp only [costEntries] at h
      cases hp : parseCostLine line with
      | none => rw [hp] at h; cases h
      | some e =>
        rw [hp] at h
        simp only at h
        cases hc : costEntries rest with
        | none => rw [hc] at h; cases h
        | some es1 =>
          rw [hc] at h
          simp only [Option.map_some, Option.some.injEq] at h
          subst h
          simp [ih es1 hc]

theorem featLines_length (csv : Str → Outcome (List Str)) : ∀ (lines : List (Option Str)) (i : Nat)
    (fss : List (List Str)), featLines csv lines i = some fss → fss.length = lines.length := by
  intro lines
  induction lines with
  | nil => intro i fss h; simp [featLines] at h; subst h; rfl
  | cons l rest ih =>
    intro i fss h
    cases l with
    | none => simp [featLines] at h
    | some line =>
      simp only [featLines] at h
      split at h
      · split at h
        · cases h
        · cases hc : featLines csv rest (i + 1) with
          | none => rw [hc] at h; cases h
          | some f1 =>
            rw [hc] at h
            simp only [Option.map_some, Option.some.injEq] at h
            subst h
            simp [ih _ _ hc]
      · cases h

/-- What `RawConnectorBuilder::from_readers` returns, in terms of the three parsed files. -/
theorem builder_spec {csv : Str → Outcome (List Str)} {right left cost : List (Option Str)} {b : Builder}
    (h : builderFromReaders csv right left cost = .ok b) :
    ∃ st es rfs lfs, CInv st es ∧ costEntries cost = some es ∧
      featLines csv right 0 = some rfs ∧ featLines csv left 0 = some lfs ∧
      b.rightRows = rfs.map (fun fs => fs.map (featId st.rmap)) ∧
      b.leftRows = lfs.map (fun fs => fs.map (featId st.lmap)) ∧
      b.K = max (maxLen rfs) (maxLen lfs) ∧ b.trie = st.trie := by
  unfold builderFromReaders at h
  cases hc : costLoop cost ⟨[[]], [[]], []⟩ with
  | err => rw [hc] at h; cases h
  | panic => rw [hc] at h; cases h
  | ok st =>
    rw [hc] at h
    simp only at h
    cases hr : featLoop csv st.rmap right 0 0 [] with
    | err => rw [hr] at h; cases h
    | panic => rw [hr] at h; cases h
    | ok pr =>
      obtain ⟨rrows, K1⟩ := pr
      rw [hr] at h
      simp only at h
      cases hl : featLoop csv st.lmap left 0 K1 [] with
      | err => rw [hl] at h; cases h
      | panic => rw [hl] at h; cases h
      | ok pl =>
        obtain ⟨lrows, K2⟩ := pl
        rw [hl] at h
        simp only [Outcome.ok.injEq] at h
        subst h
        obtain ⟨es, he, hinv⟩ := costLoop_inv cost _ st [] cinv_init hc
        obtain ⟨rfs, r1, r2, r3⟩ := featLoop_spec csv _ _ _ _ _ _ _ hr
        obtain ⟨lfs, l1, l2, l3⟩ := featLoop_spec csv _ _ _ _ _ _ _ hl
        refine ⟨st, es, rfs, lfs, by simpa using hinv, he, r1, l1, by simpa using r2,
          by simpa using l2, ?_, rfl⟩
        simp only [l3, r3]; omega

theorem toSimdVec_eq (data : List Nat) : toSimdVec data = toSimdVecPad 0 data.length data := rfl

theorem length_flatten_uniform {α : Type} (m : Nat) : ∀ (L : List (List α)),
    (∀ y ∈ L, y.length = m) → L.flatten.length = L.length * m := by
  intro L
  induction L with
  | nil => intro _; simp
  | cons y ys ih =>
    intro h
    simp only [List.flatten_cons, List.length_append, List.length_cons]
    rw [ih (fun z hz => h z (List.mem_cons_of_mem _ hz)), h y List.mem_cons_self, Nat.succ_mul]
    omega

/-- Slicing the chunked flat matrix gives the chunks of one row. -/
theorem featureIds_spec (rowsList : List (List Nat)) (fts : Nat)
    (hrows : ∀ row ∈ rowsList, row.length = 8 * fts) (r : Nat) (row : List Nat)
    (hr : rowsList[r]? = some row) (h16 : r + 1 < 65536) :
    featureIds (toSimdVec rowsList.flatten) fts r = .ok (toSimdVec row) := by
  have hlt : r < rowsList.length := (List.getElem?_eq_some_iff.1 hr).1
  have hL : ∀ y ∈ rowsList.map (fun row => toSimdVecPad 0 row.length row), y.length = fts := by
    intro y hy
    obtain ⟨row', hrow', rfl⟩ := List.mem_map.1 hy
    exact (toSimdVecPad_mul8 0 fts row' (hrows row' hrow')).1
  have heq : toSimdVec rowsList.flatten =
      (rowsList.map (fun row => toSimdVecPad 0 row.length row)).flatten := by
    rw [toSimdVec_eq, toSimdVecPad_flatten 0 fts rowsList hrows]
  have hlen : (toSimdVec rowsList.flatten).length = rowsList.length * fts := by
    rw [heq, length_flatten_uniform fts _ hL, List.length_map]
  unfold featureIds
  rw [if_neg (by omega), if_neg (by
    rw [hlen]
    have : (r + 1) * fts ≤ rowsList.length * fts := Nat.mul_le_mul_right _ (by omega)
    omega)]
  congr 1
  rw [heq]
  apply drop_take_flatten_uniform fts _ r _ hL
  rw [List.getElem?_map, hr]
  rfl

/-- `accumulate_cost` on the chunks of two rows of equal length `8 * n`. -/
theorem accumulate_rows (oc : Bool) (t : Trie) (ht : TrieOK t) (n : Nat) (a b : List Nat)
    (ha : a.length = 8 * n) (hb : b.length = 8 * n)
    (hsum : absSum (laneWs t a b) ≤ 2147483647) :
    accumulate oc (build t) (toSimdVec a) (toSimdVec b) = .ok (laneWs t a b).sum := by
  obtain ⟨a1, a2, a3⟩ := toSimdVecPad_mul8 0 n a ha
  obtain ⟨b1, b2, b3⟩ := toSimdVecPad_mul8 0 n b hb
  unfold accumulate
  rw [accChunks_eq_accLanes oc _ _ _ 0 (by rw [toSimdVec_eq, toSimdVec_eq, a1, b1])
    (by rw [toSimdVec_eq]; exact a2) (by rw [toSimdVec_eq]; exact b2)]
  rw [toSimdVec_eq, toSimdVec_eq, a3, b3, accLanes_build oc t ht a b 0 (by simpa using hsum)]
  simp

theorem buildChecked_ok {t : Trie} {s : Scorer} (h : buildChecked t = .ok s) : s = build t := by
  unfold buildChecked at h
  simp only at h
  split at h
  · cases h; rfl
  · cases h

theorem rowsList_length (fixed : Bool) (K : Nat) (rows : List (List Nat))
    (hrows : ∀ row ∈ rows, row.length ≤ K) :
    ∀ row ∈ bosRow fixed K :: rows.map (padRow K), row.length = 8 * (paddedSize K / SIMD_SIZE) := by
  have hKK := le_paddedSize K
  intro row hrow
  rw [← paddedSize_eq]
  rcases List.mem_cons.1 hrow with rfl | hrow
  · unfold bosRow
    cases fixed with
    | true => simp; omega
    | false => simp
  · obtain ⟨r0, hr0, rfl⟩ := List.mem_map.1 hrow
    have := hrows r0 hr0
    simp only [padRow, List.length_append, List.length_replicate]
    omega

/-- The per-lane weights the connector adds up for `(r, l)`: the `K` template positions followed
by the padding lanes. -/
def rawWs (fixed : Bool) (es : List (Str × Str × Int)) (rfs lfs : List (List Str)) (r l : Nat) : List Int :=
  let K := max (maxLen rfs) (maxLen lfs)
  List.zipWith (pairCost es) (specRow rfs K r) (specRow lfs K l) ++
    List.replicate (paddedSize K - K) (pairCost es (padOpt fixed r) (padOpt fixed l))

theorem rawCost_spec (fixed oc : Bool) (csv : Str → Outcome (List Str))
    (right left cost : List (Option Str)) (conn : Conn)
    (hn : cost.length + 1 ≤ INVALID)
    (h : fromReaders fixed csv right left cost = .ok conn) :
    ∃ es rfs lfs, costEntries cost = some es ∧ featLines csv right 0 = some rfs ∧
      featLines csv left 0 = some lfs ∧
      numIds conn.rightFeatIds conn.fts = rfs.length + 1 ∧
      numIds conn.leftFeatIds conn.fts = lfs.length + 1 ∧
      ∀ r l, r ≤ rfs.length → l ≤ lfs.length → r + 1 < 65536 → l + 1 < 65536 →
        absSum (rawWs fixed es rfs lfs r l) ≤ 2147483647 →
        rawCost oc conn r l = .ok (rawWs fixed es rfs lfs r l).sum := by
  unfold fromReaders at h
  cases hb : builderFromReaders csv right left cost with
  | err => rw [hb] at h; cases h
  | panic => rw [hb] at h; cases h
  | ok b =>
    rw [hb] at h
    simp only at h
    split at h
    · split at h <;> cases h
    · rename_i hpad
      cases hs : buildChecked b.trie with
      | err => rw [hs] at h; cases h
      | panic => rw [hs] at h; cases h
      | ok scorer =>
        rw [hs] at h
        simp only [Outcome.ok.injEq] at h
        subst h
        have hsc := buildChecked_ok hs
        obtain ⟨st, es, rfs, lfs, hinv, he, hrf, hlf, hrr, hlr, hK, htrie⟩ := builder_spec hb
        have hesl := costEntries_length _ _ he
        have hrl : st.rmap.length ≤ INVALID := by have := hinv.rlen; omega
        have hll : st.lmap.length ≤ INVALID := by have := hinv.llen; omega
        have hOK : TrieOK b.trie := by rw [htrie]; exact trieOK_of_cinv hinv hrl
        have hKr : maxLen rfs ≤ b.K := by omega
        have hKl : maxLen lfs ≤ b.K := by omega
        have hrowsR : ∀ row ∈ b.rightRows, row.length ≤ b.K := by
          intro row hrow; rw [hrr] at hrow
          obtain ⟨fs, hfs, rfl⟩ := List.mem_map.1 hrow
          simp only [List.length_map]
          exact Nat.le_trans (length_le_maxLen hfs) hKr
        have hrowsL : ∀ row ∈ b.leftRows, row.length ≤ b.K := by
          intro row hrow; rw [hlr] at hrow
          obtain ⟨fs, hfs, rfl⟩ := List.mem_map.1 hrow
          simp only [List.length_map]
          exact Nat.le_trans (length_le_maxLen hfs) hKl
        have hRL := rowsList_length fixed b.K b.rightRows hrowsR
        have hLL := rowsList_length fixed b.K b.leftRows hrowsL
        have hfts : 0 < paddedSize b.K / SIMD_SIZE := by
          have := paddedSize_eq b.K; omega
        have hflatR : flatMatrix fixed b.K b.rightRows =
            (bosRow fixed b.K :: b.rightRows.map (padRow b.K)).flatten := by
          simp [flatMatrix]
        have hflatL : flatMatrix fixed b.K b.leftRows =
            (bosRow fixed b.K :: b.leftRows.map (padRow b.K)).flatten := by
          simp [flatMatrix]
        have hnum : ∀ (rows : List (List Nat)),
            (∀ row ∈ bosRow fixed b.K :: rows.map (padRow b.K),
              row.length = 8 * (paddedSize b.K / SIMD_SIZE)) →
            numIds (toSimdVec (bosRow fixed b.K :: rows.map (padRow b.K)).flatten)
              (paddedSize b.K / SIMD_SIZE) = rows.length + 1 := by
          intro rows hrows
          unfold numIds
          rw [toSimdVec_eq, toSimdVecPad_flatten 0 _ _ hrows,
            length_flatten_uniform (paddedSize b.K / SIMD_SIZE)]
          · simp only [List.length_map, List.length_cons]
            exact Nat.mul_div_cancel _ hfts
          · intro y hy
            obtain ⟨row', hrow', rfl⟩ := List.mem_map.1 hy
            exact (toSimdVecPad_mul8 0 _ row' (hrows row' hrow')).1
        refine ⟨es, rfs, lfs, he, hrf, hlf, ?_, ?_, ?_⟩
        · simp only; rw [hflatR, hnum _ hRL, hrr]; simp
        · simp only; rw [hflatL, hnum _ hLL, hlr]; simp
        · intro r l hr hl hr16 hl16 hsum
          have hmR := modelRow_eq fixed st.rmap hinv.r0 rfs b.K hKr r hr
          have hmL := modelRow_eq fixed st.lmap hinv.l0 lfs b.K hKl l hl
          rw [← hrr] at hmR
          rw [← hlr] at hmL
          unfold modelRow at hmR hmL
          simp only [rawCost]
          rw [hflatR, hflatL, featureIds_spec _ _ hRL r _ hmR hr16, featureIds_spec _ _ hLL l _ hmL hl16]
          simp only
          have hlw := laneWs_rows hinv hrl hll (specRow rfs b.K r) (specRow lfs b.K l)
            (by rw [specRow_length rfs b.K hKr r hr, specRow_length lfs b.K hKl l hl])
            (paddedSize b.K - b.K) (padOpt fixed r) (padOpt fixed l)
          have hws : rawWs fixed es rfs lfs r l =
              laneWs b.trie
                (List.map (optId st.rmap) (specRow rfs b.K r) ++
                  List.replicate (paddedSize b.K - b.K) (optId st.rmap (padOpt fixed r)))
                (List.map (optId st.lmap) (specRow lfs b.K l) ++
                  List.replicate (paddedSize b.K - b.K) (optId st.lmap (padOpt fixed l))) := by
            rw [htrie, hlw]; unfold rawWs; simp only [hK]
          rw [hsc, hws]
          apply accumulate_rows oc b.trie hOK (paddedSize b.K / SIMD_SIZE)
          · exact hRL _ (List.mem_of_getElem? hmR)
          · exact hLL _ (List.mem_of_getElem? hmL)
          · rw [← hws]; exact hsum

/-! ### The defining sum, indexed by template position -/

/-- The feature string of connection id `r` at template position `pos`: id 0 (BOS/EOS) has the
empty feature at every position; a real id has the `pos`-th csv cell of its line (`none` beyond
the end of a ragged row). -/
def featAt (fss : List (List Str)) : Nat → Nat → Option Str
  | 0, _ => some []
  | i + 1, pos => (fss[i]?).bind (·[pos]?)

/-- Number of templates: the longest row of either file. -/
def templateCount (rfs lfs : List (List Str)) : Nat := max (maxLen rfs) (maxLen lfs)

/-- The defining feature-pair sum of property C07. -/
def defSum (es : List (Str × Str × Int)) (rfs lfs : List (List Str)) (r l : Nat) : Int :=
  ((List.range (templateCount rfs lfs)).map fun pos =>
    pairCost es (featAt rfs r pos) (featAt lfs l pos)).sum

theorem specRow_getElem? (fss : List (List Str)) (K : Nat) (hK : maxLen fss ≤ K) (r : Nat)
    (hr : r ≤ fss.length) (pos : Nat) (hpos : pos < K) :
    (specRow fss K r)[pos]? = some (featAt fss r pos) := by
  cases r with
  | zero => simp [specRow, featAt, hpos]
  | succ i =>
    have hi : i < fss.length := by omega
    have hlen : fss[i].length ≤ K := Nat.le_trans (length_le_maxLen (List.getElem_mem hi)) hK
    simp only [specRow, featAt, List.getElem?_eq_getElem hi, Option.bind_some,
      List.getElem?_append, List.length_map, List.getElem?_map, List.getElem?_replicate]
    by_cases hp : pos < fss[i].length
    · simp [hp]
    · rw [if_neg hp, if_pos (by omega), List.getElem?_eq_none (by omega)]

theorem zipWith_eq_map_range {α β γ : Type} (f : α → β → γ) (K : Nat) (l1 : List α) (l2 : List β)
    (g1 : Nat → α) (g2 : Nat → β) (h1 : l1.length = K) (h2 : l2.length = K)
    (e1 : ∀ pos, pos < K → l1[pos]? = some (g1 pos)) (e2 : ∀ pos, pos < K → l2[pos]? = some (g2 pos)) :
    List.zipWith f l1 l2 = (List.range K).map fun pos => f (g1 pos) (g2 pos) := by
  apply List.ext_getElem?
  intro i
  rw [List.getElem?_zipWith, List.getElem?_map]
  by_cases hi : i < K
  · rw [e1 i hi, e2 i hi, List.getElem?_range hi]; rfl
  · rw [List.getElem?_eq_none (by omega), List.getElem?_eq_none (l := List.range K) (by simp; omega)]
    rfl

theorem sum_replicate_int (n : Nat) (x : Int) : (List.replicate n x).sum = n * x := by
  induction n with
  | zero => simp
  | succ n ih => rw [List.replicate_succ, List.sum_cons, ih]; rw [Int.natCast_succ, Int.add_mul]; omega

/-- The padding-lane term of `rawWs`: `table("","")` in every padding lane, for the pair `(0,0)`
of the pinned code only. -/
def rawPadTerm (fixed : Bool) (es : List (Str × Str × Int)) (r l : Nat) : Int :=
  if r = 0 ∧ l = 0 ∧ fixed = false then table es [] [] else 0

theorem pairCost_padOpt (fixed : Bool) (es : List (Str × Str × Int)) (r l : Nat) :
    pairCost es (padOpt fixed r) (padOpt fixed l) = rawPadTerm fixed es r l := by
  unfold padOpt rawPadTerm
  by_cases hr : r = 0 <;> by_cases hl : l = 0 <;> cases fixed <;>
    simp [hr, hl, pairCost, pairOpt, table]

theorem rawWs_sum (fixed : Bool) (es : List (Str × Str × Int)) (rfs lfs : List (List Str)) (r l : Nat)
    (hr : r ≤ rfs.length) (hl : l ≤ lfs.length) :
    (rawWs fixed es rfs lfs r l).sum =
      defSum es rfs lfs r l +
        ((paddedSize (templateCount rfs lfs) - templateCount rfs lfs : Nat) : Int) *
          rawPadTerm fixed es r l := by
  unfold rawWs defSum templateCount
  simp only
  have hKr : maxLen rfs ≤ max (maxLen rfs) (maxLen lfs) := by omega
  have hKl : maxLen lfs ≤ max (maxLen rfs) (maxLen lfs) := by omega
  rw [List.sum_append, sum_replicate_int, pairCost_padOpt,
    zipWith_eq_map_range (pairCost es) _ _ _ (featAt rfs r) (featAt lfs l)
      (specRow_length rfs _ hKr r hr) (specRow_length lfs _ hKl l hl)
      (specRow_getElem? rfs _ hKr r hr) (specRow_getElem? lfs _ hKl l hl)]

end Vibrato.RawConnector
