/-
Relabelling of a lattice (helper lemmas for C06 `lattice_relabel` and for C08).

A `Ren` renames connection ids (`idL`, `idR`) and word identities (`word`: `(lexType, wordId)`).
If the candidates of `E'` are those of `E` renamed and the connection cost between renamed
ids equals the original cost for all ids in use (BOS right id 0 and EOS left id 0 included),
then `search_min_node` sees the same sequence of costs at every insertion, so the lattice of
`E'` is the lattice of `E` renamed node by node, with identical `min_cost` and back pointers.
-/
import Vibrato.Proofs.LatticeBasic

namespace Vibrato

/-- A renaming of connection ids and of word identities. -/
structure Ren where
  idL : Nat → Nat
  idR : Nat → Nat
  /-- `lexType wordId ↦ (lexType', wordId')` -/
  word : Nat → Nat → Nat × Nat

/-- the renaming that only relabels connection ids -/
def Ren.ofIds (σL σR : Nat → Nat) : Ren := ⟨σL, σR, fun t i => (t, i)⟩

/-- the renaming that only renames word identities -/
def Ren.ofWord (w : Nat → Nat → Nat × Nat) : Ren := ⟨id, id, w⟩

def Ren.cand (ρ : Ren) (c : Cand) : Cand :=
  { c with leftId := ρ.idL c.leftId, rightId := ρ.idR c.rightId,
           lexType := (ρ.word c.lexType c.wordId).1, wordId := (ρ.word c.lexType c.wordId).2 }

/-- Nodes are renamed like candidates; the BOS node (right id 0, placeholder left id 65535) is
left alone. -/
def Ren.node (ρ : Ren) (n : Node) : Node :=
  if n.isBos then n
  else { n with leftId := ρ.idL n.leftId, rightId := ρ.idR n.rightId,
                lexType := (ρ.word n.lexType n.wordId).1, wordId := (ρ.word n.lexType n.wordId).2 }

def Ren.ends (ρ : Ren) (L : Ends) : Ends := L.map (List.map ρ.node)

def Ren.tok (ρ : Ren) (t : Tok) : Tok := { t with node := ρ.node t.node }

/-- right ids in use: 0 (BOS) and the right ids of the candidates offered inside the sentence -/
def UsedR (E : LatEnv) (r : Nat) : Prop :=
  r = 0 ∨ ∃ sw, sw < E.len ∧ ∃ c ∈ E.cands sw, c.rightId = r

/-- left ids in use: 0 (EOS) and the left ids of the candidates offered inside the sentence -/
def UsedL (E : LatEnv) (l : Nat) : Prop :=
  l = 0 ∨ ∃ sw, sw < E.len ∧ ∃ c ∈ E.cands sw, c.leftId = l

/-- `E'` is `E` renamed by `ρ`. -/
structure RenOK (ρ : Ren) (E E' : LatEnv) : Prop where
  len : E'.len = E.len
  skip : ∀ p, p < E.len → E'.skip p = E.skip p
  cands : ∀ sw, sw < E.len → E'.cands sw = (E.cands sw).map ρ.cand
  zeroL : ρ.idL 0 = 0
  zeroR : ρ.idR 0 = 0
  conn : ∀ r l, UsedR E r → UsedL E l → E'.conn (ρ.idR r) (ρ.idL l) = E.conn r l

@[simp] theorem Ren.node_minCost (ρ : Ren) (n : Node) : (ρ.node n).minCost = n.minCost := by
  unfold Ren.node; split <;> rfl
@[simp] theorem Ren.node_minIdx (ρ : Ren) (n : Node) : (ρ.node n).minIdx = n.minIdx := by
  unfold Ren.node; split <;> rfl
@[simp] theorem Ren.node_startNode (ρ : Ren) (n : Node) : (ρ.node n).startNode = n.startNode := by
  unfold Ren.node; split <;> rfl
@[simp] theorem Ren.node_startWord (ρ : Ren) (n : Node) : (ρ.node n).startWord = n.startWord := by
  unfold Ren.node; split <;> rfl
@[simp] theorem Ren.node_wordCost (ρ : Ren) (n : Node) : (ρ.node n).wordCost = n.wordCost := by
  unfold Ren.node; split <;> rfl
@[simp] theorem Ren.node_isBos (ρ : Ren) (n : Node) : (ρ.node n).isBos = n.isBos := by
  unfold Ren.node; split <;> simp_all

theorem Ren.node_bos (ρ : Ren) : ρ.node bosNode = bosNode := by
  simp [Ren.node, bosNode]

theorem Ren.node_ids (ρ : Ren) (n : Node) (h : n.isBos = false) :
    (ρ.node n).leftId = ρ.idL n.leftId ∧ (ρ.node n).rightId = ρ.idR n.rightId ∧
    (ρ.node n).lexType = (ρ.word n.lexType n.wordId).1 ∧
    (ρ.node n).wordId = (ρ.word n.lexType n.wordId).2 := by
  simp [Ren.node, h]

theorem Ren.endsAt (ρ : Ren) (L : Ends) (j : Nat) :
    endsAt (ρ.ends L) j = (endsAt L j).map ρ.node := by
  unfold Vibrato.endsAt Ren.ends
  simp only [List.getD_eq_getElem?_getD, List.getElem?_map]
  cases L[j]? <;> simp

theorem Ren.pushAt (ρ : Ren) (L : Ends) (i : Nat) (n : Node) :
    pushAt (ρ.ends L) i (ρ.node n) = ρ.ends (pushAt L i n) := by
  unfold Vibrato.pushAt Ren.ends
  induction L generalizing i with
  | nil => simp
  | cons x xs ih =>
    cases i with
    | zero => simp
    | succ i => simp only [List.map_cons, List.modify_succ_cons]; rw [ih]

/-- What the proof needs to know about the right id of a stored node. -/
def RightOK (E : LatEnv) (n : Node) : Prop :=
  (n.isBos = true → n.rightId = 0) ∧ (n.isBos = false → UsedR E n.rightId)

def RightsOK (E : LatEnv) (L : Ends) : Prop := ∀ j, ∀ n ∈ endsAt L j, RightOK E n

theorem node_conn {ρ : Ren} {E E' : LatEnv} (h : RenOK ρ E E') (n : Node) (hn : RightOK E n)
    (l : Nat) (hl : UsedL E l) : E'.conn (ρ.node n).rightId (ρ.idL l) = E.conn n.rightId l := by
  cases hb : n.isBos with
  | true =>
    have h0 := hn.1 hb
    have : (ρ.node n).rightId = 0 := by simp [Ren.node, hb, h0]
    rw [this, h0]
    have := h.conn 0 l (Or.inl rfl) hl
    rwa [h.zeroR] at this
  | false =>
    rw [(ρ.node_ids n hb).2.1]
    exact h.conn _ _ (hn.2 hb) hl

theorem searchMinGo_ren (ρ : Ren) (conn conn' : Nat → Nat → Int) (l l' : Nat) :
    ∀ (ns : List Node) (i : Nat) (acc : Nat × Int),
      (∀ n ∈ ns, conn' (ρ.node n).rightId l' = conn n.rightId l) →
      searchMinGo conn' l' (ns.map ρ.node) i acc = searchMinGo conn l ns i acc := by
  intro ns
  induction ns with
  | nil => intro i acc _; rfl
  | cons n ns ih =>
    intro i acc h
    simp only [List.map_cons, searchMinGo, Ren.node_minCost, h n (by simp)]
    split
    · exact ih _ _ (fun m hm => h m (by simp [hm]))
    · exact ih _ _ (fun m hm => h m (by simp [hm]))

theorem searchMin_ren {ρ : Ren} {E E' : LatEnv} (h : RenOK ρ E E') (ns : List Node)
    (hns : ∀ n ∈ ns, RightOK E n) (l : Nat) (hl : UsedL E l) :
    searchMin E'.conn (ns.map ρ.node) (ρ.idL l) = searchMin E.conn ns l := by
  unfold searchMin
  exact searchMinGo_ren ρ E.conn E'.conn l (ρ.idL l) ns 0 _
    (fun n hn => node_conn h n (hns n hn) l hl)

theorem rightsOK_pushAt {E : LatEnv} {L : Ends} (h : RightsOK E L) (i : Nat) (n : Node)
    (hn : RightOK E n) : RightsOK E (pushAt L i n) := by
  intro j m hm
  rw [endsAt_pushAt] at hm
  split at hm
  · simp only [List.mem_append, List.mem_singleton] at hm
    rcases hm with hm | rfl
    · exact h i m hm
    · exact hn
  · exact h j m hm

theorem insertNode_ren {ρ : Ren} {E E' : LatEnv} (h : RenOK ρ E E') (L : Ends) (p sw : Nat)
    (c : Cand) (hsw : sw < E.len) (hc : c ∈ E.cands sw) (hL : RightsOK E L) :
    insertNode E' (ρ.ends L) p sw (ρ.cand c) = ρ.ends (insertNode E L p sw c) ∧
      RightsOK E (insertNode E L p sw c) := by
  constructor
  · unfold insertNode
    rw [ρ.endsAt]
    have hl : UsedL E c.leftId := Or.inr ⟨sw, hsw, c, hc, rfl⟩
    have : (ρ.cand c).leftId = ρ.idL c.leftId := rfl
    rw [this, searchMin_ren h _ (hL p) _ hl, ← ρ.pushAt]
    congr 1
  · unfold insertNode
    apply rightsOK_pushAt hL
    exact ⟨fun hb => (by cases hb), fun _ => Or.inr ⟨sw, hsw, c, hc, rfl⟩⟩

theorem foldl_insert_ren {ρ : Ren} {E E' : LatEnv} (h : RenOK ρ E E') (p sw : Nat)
    (hsw : sw < E.len) :
    ∀ (cs : List Cand) (L : Ends), (∀ c ∈ cs, c ∈ E.cands sw) → RightsOK E L →
      (cs.map ρ.cand).foldl (fun L c => insertNode E' L p sw c) (ρ.ends L) =
        ρ.ends (cs.foldl (fun L c => insertNode E L p sw c) L) ∧
      RightsOK E (cs.foldl (fun L c => insertNode E L p sw c) L) := by
  intro cs
  induction cs with
  | nil => intro L _ hL; exact ⟨rfl, hL⟩
  | cons c cs ih =>
    intro L hcs hL
    obtain ⟨h1, h2⟩ := insertNode_ren h L p sw c hsw (hcs c (by simp)) hL
    simp only [List.map_cons, List.foldl_cons]
    rw [h1]
    exact ih _ (fun c' hc' => hcs c' (by simp [hc'])) h2

theorem addEdges_ren {ρ : Ren} {E E' : LatEnv} (h : RenOK ρ E E') (L : Ends) (p sw : Nat)
    (hsw : sw < E.len) (hL : RightsOK E L) :
    addEdges E' (ρ.ends L) p sw = ρ.ends (addEdges E L p sw) ∧ RightsOK E (addEdges E L p sw) := by
  unfold addEdges
  rw [h.cands sw hsw]
  exact foldl_insert_ren h p sw hsw _ L (fun c hc => hc) hL

theorem buildLoop_ren {ρ : Ren} {E E' : LatEnv} (h : RenOK ρ E E') (L : Ends) (p : Nat)
    (hL : RightsOK E L) :
    buildLoop E' (ρ.ends L) p = (ρ.ends (buildLoop E L p).1, (buildLoop E L p).2) ∧
      RightsOK E (buildLoop E L p).1 := by
  fun_induction buildLoop E L p with
  | case1 L p hlt hemp ih =>
    rw [buildLoop.eq_1 E' _ p]
    have : (endsAt (ρ.ends L) p).isEmpty = true := by rw [ρ.endsAt]; simpa using hemp
    simp only [h.len, hlt, if_true, this]
    exact ih hL
  | case2 L p hlt hemp sw hbreak =>
    rw [buildLoop.eq_1 E' _ p]
    have : ¬ (endsAt (ρ.ends L) p).isEmpty = true := by rw [ρ.endsAt]; simpa using hemp
    have hb : E.len ≤ p + E.skip p := hbreak
    simp only [h.len, hlt, if_true, this, h.skip p hlt, hb]
    exact ⟨rfl, hL⟩
  | case3 L p hlt hemp sw hcont ih =>
    rw [buildLoop.eq_1 E' _ p]
    have : ¬ (endsAt (ρ.ends L) p).isEmpty = true := by rw [ρ.endsAt]; simpa using hemp
    have hb : ¬ E.len ≤ p + E.skip p := hcont
    simp only [h.len, hlt, if_true, this, if_false, h.skip p hlt, hb]
    obtain ⟨h1, h2⟩ := addEdges_ren h L p (p + E.skip p) (by omega) hL
    rw [h1]
    exact ih h2
  | case4 L p hge =>
    rw [buildLoop.eq_1 E' _ p]
    simp only [h.len, hge, if_false]
    exact ⟨trivial, hL⟩

theorem ren_resetEnds (ρ : Ren) (b len : Nat) : ρ.ends (resetEnds b len) = resetEnds b len := by
  unfold resetEnds
  rw [← ρ.pushAt, ρ.node_bos]
  congr 1
  simp [Ren.ends]

theorem rightsOK_resetEnds (E : LatEnv) (b len : Nat) : RightsOK E (resetEnds b len) := by
  intro j n hn
  cases j with
  | zero =>
    rw [endsAt_resetEnds_zero] at hn
    simp only [List.mem_singleton] at hn
    subst hn
    exact ⟨fun _ => rfl, fun hb => by simp [bosNode] at hb⟩
  | succ j => rw [endsAt_resetEnds_succ] at hn; cases hn

/-- The lattice of the renamed environment is the renamed lattice; the EOS nodes are equal
(EOS keeps left id 0 and the placeholder right id 65535). -/
theorem buildLattice_ren {ρ : Ren} {E E' : LatEnv} (h : RenOK ρ E E') (b : Nat) :
    (buildLattice E' b).ends = ρ.ends (buildLattice E b).ends ∧
      (buildLattice E' b).eos = (buildLattice E b).eos := by
  obtain ⟨h1, h2⟩ := buildLoop_ren h (resetEnds b E.len) 0 (rightsOK_resetEnds E b E.len)
  rw [ren_resetEnds] at h1
  unfold buildLattice
  simp only [h.len, h1, true_and]
  unfold eosNode
  simp only [h.len, ρ.endsAt]
  have := searchMin_ren h (endsAt (buildLoop E (resetEnds b E.len) 0).1
    (buildLoop E (resetEnds b E.len) 0).2) (h2 _) 0 (Or.inl rfl)
  rw [h.zeroL] at this
  rw [this]

theorem walkBack_ren (ρ : Ren) (L : Ends) (e i : Nat) :
    walkBack (ρ.ends L) e i = (walkBack L e i).map (·.map fun x => (x.1, ρ.node x.2)) := by
  induction e using Nat.strongRecOn generalizing i with
  | _ e ih =>
    rw [walkBack, walkBack.eq_1 L]
    split
    · rfl
    · rw [ρ.endsAt, List.getElem?_map]
      cases hget : (endsAt L e)[i]? with
      | none => rfl
      | some n =>
        simp only [Option.map_some, Ren.node_startNode, Ren.node_minIdx]
        split
        · rename_i hlt
          rw [ih n.startNode hlt]
          cases walkBack L n.startNode n.minIdx <;> simp
        · rfl

theorem tokensOf_ren (ρ : Ren) (Lt Lt' : Lattice) (h1 : Lt'.ends = ρ.ends Lt.ends)
    (h2 : Lt'.eos = Lt.eos) : tokensOf Lt' = (tokensOf Lt).map (·.map ρ.tok) := by
  unfold tokensOf topNodes
  rw [h1, h2, walkBack_ren]
  cases walkBack Lt.ends Lt.eos.startNode Lt.eos.minIdx with
  | none => rfl
  | some r =>
    simp only [Option.map_some, Option.some.injEq, List.map_map, List.map_reverse]
    congr 1
    apply List.map_congr_left
    intro x _
    simp [Ren.tok]

end Vibrato
