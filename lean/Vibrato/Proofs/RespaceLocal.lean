/-
Re-spacing (property C12), part 1: space-free segments of a sentence and the *locality*
lemmas: under `SpacePre` the candidate words offered at a position depend only on the rest
of the space-free segment the position lies in, no candidate crosses or touches a space,
and the number of characters skipped at a boundary is the length of the space run there.
-/
import Vibrato.Proofs.TokenizerEnv

namespace Vibrato

/-! ### Generic list facts -/

theorem mem_takeWhile_imp' {α} (p : α → Bool) (l : List α) (x : α) (h : x ∈ l.takeWhile p) :
    p x = true := by
  induction l with
  | nil => simp at h
  | cons a l ih =>
    rw [List.takeWhile_cons] at h
    split at h
    · rename_i ha
      simp only [List.mem_cons] at h
      rcases h with rfl | h
      · exact ha
      · exact ih h
    · simp at h

theorem dropWhile_eq_nil_iff' {α} (p : α → Bool) (l : List α) :
    l.dropWhile p = [] ↔ ∀ x ∈ l, p x = true := by
  induction l with
  | nil => simp
  | cons a l ih =>
    rw [List.dropWhile_cons]
    split
    · rename_i ha; rw [ih]; simp [ha]
    · rename_i ha; simp [ha]

theorem flatMap_congr' {α β} (l : List α) (f g : α → List β) (h : ∀ x ∈ l, f x = g x) :
    l.flatMap f = l.flatMap g := by
  rw [List.flatMap_def, List.flatMap_def, List.map_congr_left h]

/-! ### Generic list facts about a character predicate `P` ("is a space") -/

/-- the list starts with a non-space character -/
def startsNS (P : Nat → Bool) : List Nat → Bool
  | [] => false
  | d :: _ => !P d

/-- Maximal space-free runs of a sentence, in order (never empty lists). -/
def segments (P : Nat → Bool) : List Nat → List (List Nat)
  | [] => []
  | c :: t =>
    if P c then segments P t
    else if startsNS P t then
      match segments P t with
      | g :: gs => (c :: g) :: gs
      | [] => [[c]]
    else [c] :: segments P t

#guard segments (· == 32) [32, 32, 97, 98, 32, 99, 32, 32, 32, 100, 101, 32] == [[97, 98], [99], [100, 101]]
#guard segments (· == 32) [97, 98, 32, 99, 32, 100, 101] == [[97, 98], [99], [100, 101]]
#guard segments (· == 32) [32, 32] == []

/-- leading space run -/
abbrev spHead (P : Nat → Bool) (t : List Nat) : List Nat := t.takeWhile P
abbrev spTail (P : Nat → Bool) (t : List Nat) : List Nat := t.dropWhile P
/-- leading space-free run -/
abbrev nsHead (P : Nat → Bool) (t : List Nat) : List Nat := t.takeWhile (fun c => !P c)
abbrev nsTail (P : Nat → Bool) (t : List Nat) : List Nat := t.dropWhile (fun c => !P c)

theorem segments_spaces_append (P : Nat → Bool) (a t : List Nat) (ha : ∀ c ∈ a, P c = true) :
    segments P (a ++ t) = segments P t := by
  induction a with
  | nil => rfl
  | cons c a ih =>
    have hc : P c = true := ha c (by simp)
    simp only [List.cons_append, segments, hc, if_true]
    exact ih (fun d hd => ha d (by simp [hd]))

theorem segments_seg_append (P : Nat → Bool) (seg rest : List Nat) (hne : seg ≠ [])
    (hseg : ∀ c ∈ seg, P c = false) (hrest : startsNS P rest = false) :
    segments P (seg ++ rest) = seg :: segments P rest := by
  induction seg with
  | nil => exact absurd rfl hne
  | cons c seg ih =>
    have hc : P c = false := hseg c (by simp)
    cases seg with
    | nil => simp [segments, hc, hrest]
    | cons d seg' =>
      have hd : P d = false := hseg d (by simp)
      have ih' := ih (by simp) (fun x hx => hseg x (by simp at hx ⊢; right; exact hx))
      have hs : startsNS P ((d :: seg') ++ rest) = true := by simp [startsNS, hd]
      rw [List.cons_append, segments]
      simp only [hc, Bool.false_eq_true, if_false, hs, if_true, ih']

theorem startsNS_nsTail (P : Nat → Bool) (t : List Nat) : startsNS P (nsTail P t) = false := by
  induction t with
  | nil => rfl
  | cons c t ih =>
    simp only [nsTail, List.dropWhile_cons]
    split
    · exact ih
    · rename_i h; simp only [startsNS]; simpa using h

theorem spTail_nil_or_startsNS (P : Nat → Bool) (t : List Nat) :
    spTail P t = [] ∨ startsNS P (spTail P t) = true := by
  induction t with
  | nil => left; rfl
  | cons c t ih =>
    simp only [spTail, List.dropWhile_cons]
    split
    · exact ih
    · rename_i h; right; simp only [startsNS]; simpa using h

theorem nsHead_ne_nil (P : Nat → Bool) (t : List Nat) (h : startsNS P t = true) : nsHead P t ≠ [] := by
  cases t with
  | nil => simp [startsNS] at h
  | cons c t =>
    simp only [startsNS] at h
    simp [nsHead, h]

theorem nsHead_all (P : Nat → Bool) (t : List Nat) : ∀ c ∈ nsHead P t, P c = false := by
  intro c hc
  have := mem_takeWhile_imp' _ _ _ hc
  simpa using this

theorem spHead_all (P : Nat → Bool) (t : List Nat) : ∀ c ∈ spHead P t, P c = true :=
  fun c hc => mem_takeWhile_imp' _ _ c hc

theorem segments_spTail (P : Nat → Bool) (t : List Nat) : segments P (spTail P t) = segments P t := by
  have h := segments_spaces_append P (spHead P t) (spTail P t) (spHead_all P t)
  rw [List.takeWhile_append_dropWhile] at h
  exact h.symm

/-- a list that starts with a non-space: its first segment is `nsHead`, the rest follows -/
theorem segments_startsNS (P : Nat → Bool) (t : List Nat) (h : startsNS P t = true) :
    segments P t = nsHead P t :: segments P (nsTail P t) := by
  have := segments_seg_append P (nsHead P t) (nsTail P t) (nsHead_ne_nil P t h) (nsHead_all P t)
    (startsNS_nsTail P t)
  rw [List.takeWhile_append_dropWhile] at this
  exact this

theorem segments_eq_nil_iff (P : Nat → Bool) (t : List Nat) : segments P t = [] ↔ spTail P t = [] := by
  rw [← segments_spTail]
  rcases spTail_nil_or_startsNS P t with h | h
  · rw [h]; simp [segments]
  · rw [segments_startsNS P _ h]
    constructor
    · intro h'; cases h'
    · intro h'; rw [h'] at h; simp [startsNS] at h

theorem spTail_eq_nil_iff (P : Nat → Bool) (t : List Nat) : spTail P t = [] ↔ ∀ c ∈ t, P c = true := by
  exact dropWhile_eq_nil_iff' P t

/-- Decomposition used everywhere: after the leading spaces either nothing is left, or the
first segment `seg` followed by a rest that does not start with a non-space. -/
theorem spTail_cases (P : Nat → Bool) (t : List Nat) :
    (spTail P t = [] ∧ segments P t = []) ∨
    (∃ seg rest, spTail P t = seg ++ rest ∧ seg ≠ [] ∧ (∀ c ∈ seg, P c = false) ∧
      startsNS P rest = false ∧ segments P t = seg :: segments P rest) := by
  rcases spTail_nil_or_startsNS P t with h | h
  · left; exact ⟨h, (segments_eq_nil_iff P t).mpr h⟩
  · right
    refine ⟨nsHead P (spTail P t), nsTail P (spTail P t), (List.takeWhile_append_dropWhile).symm,
      nsHead_ne_nil P _ h, nsHead_all P _, startsNS_nsTail P _, ?_⟩
    rw [← segments_spTail, segments_startsNS P _ h]

/-! ### The precondition -/

/-- `c` is a SPACE character for the mask `sp` (`space_cateset`). -/
def isSpC (D : TokDict) (sp : Nat) (c : Nat) : Bool := (D.charInfo c).cateSet &&& sp != 0

theorem isSpC_iff (D : TokDict) (sp c : Nat) : isSpC D sp c = true ↔ (D.charInfo c).cateSet &&& sp ≠ 0 := by
  simp [isSpC]

theorem isSpC_false_iff (D : TokDict) (sp c : Nat) :
    isSpC D sp c = false ↔ (D.charInfo c).cateSet &&& sp = 0 := by
  simp [isSpC]

/-- The precondition of C12: a character that has the SPACE bit belongs to SPACE alone
(its category set is exactly the mask), and no system or user lexicon surface contains such
a character. -/
structure SpacePre (D : TokDict) (sp : Nat) : Prop where
  alone : ∀ c, (D.charInfo c).cateSet &&& sp ≠ 0 → (D.charInfo c).cateSet = sp
  sys : ∀ e ∈ D.sys, ∀ c ∈ e.surface, (D.charInfo c).cateSet &&& sp = 0
  user : ∀ u, D.user = some u → ∀ e ∈ u, ∀ c ∈ e.surface, (D.charInfo c).cateSet &&& sp = 0

/-- category set of a character -/
abbrev cateOf (D : TokDict) (c : Nat) : Nat := (D.charInfo c).cateSet

theorem SpacePre.sp_sp {D sp} (h : SpacePre D sp) {c d : Nat} (hc : isSpC D sp c = true)
    (hd : isSpC D sp d = true) : cateOf D c &&& cateOf D d ≠ 0 := by
  rw [isSpC_iff] at hc hd
  have h1 := h.alone c hc
  have h2 := h.alone d hd
  simp only [cateOf]
  rw [h2]; exact hc

theorem SpacePre.sp_ns {D sp} (h : SpacePre D sp) {c d : Nat} (hc : isSpC D sp c = true)
    (hd : isSpC D sp d = false) : cateOf D c &&& cateOf D d = 0 := by
  rw [isSpC_iff] at hc
  rw [isSpC_false_iff] at hd
  simp only [cateOf]
  rw [h.alone c hc, Nat.and_comm]; exact hd

theorem SpacePre.ns_sp {D sp} (h : SpacePre D sp) {c d : Nat} (hc : isSpC D sp c = false)
    (hd : isSpC D sp d = true) : cateOf D c &&& cateOf D d = 0 := by
  rw [Nat.and_comm]; exact h.sp_ns hd hc

/-! ### (a) `compute_groupable` is local -/

theorem groupables_tail (c : Nat) (t : List Nat) : (groupables (c :: t)).tail = groupables t := by
  cases t with
  | nil => rfl
  | cons d r => simp [groupables]

theorem groupables_drop (cs : List Nat) (i : Nat) : (groupables cs).drop i = groupables (cs.drop i) := by
  induction i generalizing cs with
  | zero => rfl
  | succ i ih =>
    cases cs with
    | nil => simp [groupables]
    | cons c t =>
      rw [List.drop_succ_cons, ← ih t, ← groupables_tail c t, List.drop_tail]

theorem groupables_getD (cs : List Nat) (i : Nat) :
    (groupables cs).getD i 0 = (groupables (cs.drop i)).headD 0 := by
  rw [← groupables_drop]
  simp [List.getD_eq_getElem?_getD, List.headD_eq_head?_getD, List.head?_drop]

/-- **(a), spaces.** Under `SpacePre` the groupable run of a space character is exactly the
run of space characters it starts. -/
theorem groupables_space_run {D sp} (h : SpacePre D sp) (t : List Nat) (hs : startsNS (isSpC D sp) t = false)
    (hne : t ≠ []) :
    (groupables (t.map (cateOf D))).headD 0 = (spHead (isSpC D sp) t).length := by
  induction t with
  | nil => exact absurd rfl hne
  | cons c t ih =>
    have hc : isSpC D sp c = true := by simpa [startsNS] using hs
    cases t with
    | nil => simp [groupables, spHead, hc]
    | cons d r =>
      simp only [List.map_cons, groupables]
      by_cases hd : isSpC D sp d = true
      · have := ih (by simp [startsNS, hd]) (by simp)
        simp only [List.map_cons] at this
        simp only [h.sp_sp hc hd, ne_eq, not_false_eq_true, if_true, List.headD_cons, this]
        simp [spHead, hc, hd]
      · have hd' : isSpC D sp d = false := by simpa using hd
        simp only [h.sp_ns hc hd', ne_eq, not_true_eq_false, if_false, List.headD_cons]
        simp [spHead, hc, hd']

/-- **(a), non-spaces.** The groupable run of a character inside a space-free segment is
computed from the segment alone: it never extends into the following space. -/
theorem groupables_seg_local {D sp} (h : SpacePre D sp) (seg rest : List Nat) (hne : seg ≠ [])
    (hseg : ∀ c ∈ seg, isSpC D sp c = false) (hrest : startsNS (isSpC D sp) rest = false) :
    (groupables ((seg ++ rest).map (cateOf D))).headD 0 = (groupables (seg.map (cateOf D))).headD 0 := by
  induction seg with
  | nil => exact absurd rfl hne
  | cons c seg ih =>
    have hc : isSpC D sp c = false := hseg c (by simp)
    cases seg with
    | nil =>
      cases rest with
      | nil => rfl
      | cons d r =>
        have hd : isSpC D sp d = true := by simpa [startsNS] using hrest
        simp [groupables, h.ns_sp hc hd]
    | cons c2 seg' =>
      have := ih (by simp) (fun x hx => hseg x (by simp at hx ⊢; right; exact hx))
      simp only [List.cons_append, List.map_cons, groupables, List.headD_cons] at this ⊢
      rw [this]

/-! ### (b) lexicon matches are local -/

/-- move a candidate's end by `k` -/
def addEnd (k : Nat) (c : Cand) : Cand := { c with endWord := k + c.endWord }

theorem lexMatches_shift (es : List LexEntry) (lt : Nat) (suf : List Nat) (sw : Nat) :
    lexMatches es lt suf sw = (lexMatches es lt suf 0).map (addEnd sw) := by
  unfold lexMatches
  simp only [List.map_flatMap, List.map_map]
  apply flatMap_congr'
  intro l _
  apply List.map_congr_left
  intro x _
  simp [addEnd]

/-- **(b).** If no surface contains a space, the matches at the first character of a
space-free run followed by a space (or by the end of the text) are those of the run alone. -/
theorem lexMatches_local (P : Nat → Bool) (es : List LexEntry) (lt : Nat) (seg rest : List Nat) (sw : Nat)
    (hes : ∀ e ∈ es, ∀ c ∈ e.surface, P c = false)
    (hrest : startsNS P rest = false) :
    lexMatches es lt (seg ++ rest) sw = lexMatches es lt seg sw := by
  unfold lexMatches
  rw [List.length_append, ← List.range'_append (s := 1) (m := seg.length) (n := rest.length),
    List.flatMap_append]
  have h2 : ((List.range' (1 + 1 * seg.length) rest.length).flatMap fun l =>
      (es.zipIdx.filter fun x => x.1.surface == (seg ++ rest).take l).map fun x =>
        ({ endWord := sw + l, wordId := x.2, lexType := lt, leftId := x.1.param.leftId,
           rightId := x.1.param.rightId, wordCost := x.1.param.wordCost } : Cand)) = [] := by
    rw [List.flatMap_eq_nil_iff]
    intro l hl
    rw [List.mem_range'_1] at hl
    rw [List.map_eq_nil_iff, List.filter_eq_nil_iff]
    rintro ⟨e, i⟩ hmem
    simp only [beq_iff_eq]
    intro heq
    have he : e ∈ es := (List.mem_zipIdx hmem) |> fun h => by
      simp only [Nat.zero_add, Nat.sub_zero, Nat.zero_le, true_and] at h
      rw [h.2]; exact List.getElem_mem _
    cases rest with
    | nil => simp at hl; omega
    | cons d r =>
      have hd : P d = true := by simpa [startsNS] using hrest
      have hmemd : d ∈ (seg ++ d :: r).take l := by
        rw [List.take_append]
        apply List.mem_append_right
        have : l - seg.length = (l - seg.length - 1) + 1 := by omega
        rw [this, List.take_succ_cons]; simp
      rw [← heq] at hmemd
      have := hes e he d hmemd
      rw [hd] at this; cases this
  rw [h2, List.append_nil]
  apply flatMap_congr'
  intro l hl
  rw [List.mem_range'_1] at hl
  have : (seg ++ rest).take l = seg.take l := by
    rw [List.take_append]
    have : l - seg.length = 0 := by omega
    rw [this]; simp
  rw [this]

/-! ### (c) candidates as a function of the segment -/

theorem scanEntries_shift (unk : List (Nat × WordParam)) (sw l : Nat) :
    scanEntries unk (sw + l) = (scanEntries unk l).map (addEnd sw) := by
  simp [scanEntries, addEnd, Function.comp_def]

/-- The candidates of a position, with ends counted from the position: those of the sentence
that starts there. -/
def relCands (D : TokDict) (mg : Option Nat) (u : List Nat) : List Cand :=
  candsAt D (compileSent D u) ⟨none, mg⟩ 0

theorem cinfo_getD (D : TokDict) (s : List Nat) (i : Nat) (hi : i < s.length) :
    (compileSent D s).cinfos.getD i default = D.charInfo s[i] := by
  simp [compileSent, List.getD_eq_getElem?_getD, List.getElem?_map, List.getElem?_eq_getElem hi]

theorem groupable_getD_drop (D : TokDict) (s : List Nat) (i : Nat) :
    (compileSent D s).groupable.getD i 0 = (compileSent D (s.drop i)).groupable.getD 0 0 := by
  simp only [compileSent, List.map_map]
  rw [groupables_getD, groupables_getD, List.map_drop, List.drop_zero]

/-- Candidates at `sw` of a sentence are the candidates at 0 of the sentence that starts at
`sw`, moved by `sw`. -/
theorem candsAt_drop (D : TokDict) (o : TokOpts) (s : List Nat) (sw : Nat) (hsw : sw < s.length) :
    candsAt D (compileSent D s) o sw = (relCands D o.maxGroup (s.drop sw)).map (addEnd sw) := by
  have hdl : 0 < (s.drop sw).length := by simp; omega
  have hg1 := compileSent_groupable D s sw hsw
  have hg2 := compileSent_groupable D (s.drop sw) 0 hdl
  have hci : (compileSent D s).cinfos.getD sw default = (compileSent D (s.drop sw)).cinfos.getD 0 default := by
    rw [cinfo_getD D s sw hsw, cinfo_getD D _ 0 hdl]; simp
  have hgr := groupable_getD_drop D s sw
  unfold relCands candsAt
  have hch1 : (compileSent D s).chars = s := rfl
  have hch2 : (compileSent D (s.drop sw)).chars = s.drop sw := rfl
  simp only [hch1, hch2, List.drop_zero]
  rw [genUnk_eq _ _ _ _ _ _ _ hg1.2, genUnk_eq _ _ _ _ _ _ _ (by simpa using hg2.2)]
  rw [hci, hgr]
  have hfin : ∀ (u0 : List Cand),
      u0.map (addEnd sw) ++ (lexMatches D.sys 0 (s.drop sw) 0).map (addEnd sw) ++
        (unkLengths ((compileSent D (s.drop sw)).cinfos.getD 0 default)
          ((compileSent D (s.drop sw)).groupable.getD 0 0)
          (!((u0.map (addEnd sw)).isEmpty && ((lexMatches D.sys 0 (s.drop sw) 0).map (addEnd sw)).isEmpty))
          o.maxGroup).flatMap (fun l =>
            scanEntries (D.unkOf ((compileSent D (s.drop sw)).cinfos.getD 0 default).baseId) (sw + l)) =
      (u0 ++ lexMatches D.sys 0 (s.drop sw) 0 ++
        (unkLengths ((compileSent D (s.drop sw)).cinfos.getD 0 default)
          ((compileSent D (s.drop sw)).groupable.getD 0 0)
          (!(u0.isEmpty && (lexMatches D.sys 0 (s.drop sw) 0).isEmpty))
          o.maxGroup).flatMap (fun l =>
            scanEntries (D.unkOf ((compileSent D (s.drop sw)).cinfos.getD 0 default).baseId) (0 + l))).map
        (addEnd sw) := by
    intro u0
    simp only [List.map_append, List.isEmpty_map, List.map_flatMap, Nat.zero_add]
    congr 1
    apply flatMap_congr'
    intro l _
    exact scanEntries_shift _ sw l
  rw [lexMatches_shift D.sys 0 _ sw]
  cases hU : D.user with
  | none => exact hfin []
  | some ue =>
    simp only
    rw [lexMatches_shift ue 1 _ sw]
    exact hfin _

/-- **(b)+(c): the candidate list is a function of the segment.**  At the first character of
a space-free run `seg` that is followed by a space or the end of the text, the candidates
(user matches, system matches, unknown words — in insertion order) are those computed from
`seg` alone. -/
theorem relCands_local {D sp} (h : SpacePre D sp) (mg : Option Nat) (seg rest : List Nat) (hne : seg ≠ [])
    (hseg : ∀ c ∈ seg, isSpC D sp c = false) (hrest : startsNS (isSpC D sp) rest = false) :
    relCands D mg (seg ++ rest) = relCands D mg seg := by
  have hl1 : 0 < seg.length := List.length_pos_iff.mpr hne
  have hl2 : 0 < (seg ++ rest).length := by simp; omega
  have hg1 := compileSent_groupable D (seg ++ rest) 0 hl2
  have hg2 := compileSent_groupable D seg 0 hl1
  have hci : (compileSent D (seg ++ rest)).cinfos.getD 0 default = (compileSent D seg).cinfos.getD 0 default := by
    rw [cinfo_getD D _ 0 hl2, cinfo_getD D _ 0 hl1]
    simp [List.getElem_append_left hl1]
  have hgr : (compileSent D (seg ++ rest)).groupable.getD 0 0 = (compileSent D seg).groupable.getD 0 0 := by
    simp only [compileSent, List.map_map]
    rw [groupables_getD, groupables_getD, List.drop_zero, List.drop_zero]
    exact groupables_seg_local h seg rest hne hseg hrest
  unfold relCands candsAt
  have hch1 : (compileSent D (seg ++ rest)).chars = seg ++ rest := rfl
  have hch2 : (compileSent D seg).chars = seg := rfl
  simp only [hch1, hch2, List.drop_zero]
  rw [genUnk_eq _ _ _ _ _ _ _ (by simpa using hg1.2), genUnk_eq _ _ _ _ _ _ _ (by simpa using hg2.2)]
  rw [hci, hgr]
  have hsys : lexMatches D.sys 0 (seg ++ rest) 0 = lexMatches D.sys 0 seg 0 :=
    lexMatches_local (isSpC D sp) D.sys 0 seg rest 0
      (fun e he c hc => (isSpC_false_iff D sp c).mpr (h.sys e he c hc)) hrest
  rw [hsys]
  cases hU : D.user with
  | none => rfl
  | some ue =>
    simp only
    rw [lexMatches_local (isSpC D sp) ue 1 seg rest 0
        (fun e he c hc => (isSpC_false_iff D sp c).mpr (h.user ue hU e he c hc)) hrest]

/-- every candidate computed from a segment ends inside it -/
theorem relCands_bounds (D : TokDict) (mg : Option Nat) (seg : List Nat) (hne : seg ≠ []) (c : Cand)
    (hc : c ∈ relCands D mg seg) : 1 ≤ c.endWord ∧ c.endWord ≤ seg.length := by
  have := candsAt_spec D seg ⟨none, mg⟩ 0 (List.length_pos_iff.mpr hne) c hc
  omega

/-! ### the skip at a boundary is the space run there -/

theorem skipAt_eq {D sp} (h : SpacePre D sp) (mg : Option Nat) (s : List Nat) (p : Nat) :
    skipAt (compileSent D s) ⟨some sp, mg⟩ p = (spHead (isSpC D sp) (s.drop p)).length := by
  unfold skipAt
  simp only
  rcases Nat.lt_or_ge p s.length with hp | hp
  · rw [cinfo_getD D s p hp]
    obtain ⟨r, hdrop⟩ : ∃ r, s.drop p = s[p] :: r := ⟨s.drop (p + 1), by simp⟩
    generalize s[p] = c at hdrop ⊢
    by_cases hbit : (D.charInfo c).cateSet &&& sp ≠ 0
    · rw [if_pos hbit]
      have hc : isSpC D sp c = true := (isSpC_iff D sp _).mpr hbit
      simp only [compileSent]
      rw [groupables_getD, List.map_map, ← List.map_drop]
      exact groupables_space_run h (s.drop p) (by rw [hdrop]; simp [startsNS, hc]) (by rw [hdrop]; simp)
    · rw [if_neg hbit]
      have hc : isSpC D sp c = false := by
        rw [isSpC_false_iff]; simpa using hbit
      rw [hdrop]; simp [spHead, hc]
  · have h1 : (compileSent D s).cinfos.getD p default = default := by
      simp [compileSent, List.getD_eq_getElem?_getD, hp]
    rw [h1, List.drop_eq_nil_of_le hp]
    simp [spHead, show (default : CharInfo).cateSet = 0 from rfl]

end Vibrato
