/-
The trie built with the repaired policy, flattened in depth-first order, is the list of
registered rules (`FlatA`).  Used to show that the pinned policy builds the same trie when no two
rules share a pattern prefix with a different rule registered in between.
-/
import Vibrato.Model.Rewriter
import Vibrato.Proofs.RewriterTrie
import Vibrato.Proofs.RewriterMain

namespace Vibrato.Rewriter

/-! ### `Pattern.same` is an equivalence -/

theorem subset_refl (a : List Str) : subset a a = true := by
  unfold subset
  rw [List.all_eq_true]
  intro x hx
  simpa using hx

theorem subset_trans {a b c : List Str} (h1 : subset a b = true) (h2 : subset b c = true) :
    subset a c = true := by
  unfold subset at h1 ⊢
  rw [List.all_eq_true] at h1 ⊢
  intro x hx
  exact subset_contains h2 (h1 x hx)

theorem same_refl (p : Pattern) : p.same p = true := by
  cases p <;> simp [Pattern.same, subset_refl]

theorem same_symm {p q : Pattern} (h : p.same q = true) : q.same p = true := by
  cases p <;> cases q <;> simp [Pattern.same] at h ⊢
  · exact h.symm
  · exact ⟨h.2, h.1⟩

theorem same_trans {p q r : Pattern} (h1 : p.same q = true) (h2 : q.same r = true) :
    p.same r = true := by
  cases p <;> cases q <;> simp [Pattern.same] at h1 <;> cases r <;> simp [Pattern.same] at h2 ⊢
  · exact h1.trans h2
  · exact ⟨subset_trans h1.1 h2.1, subset_trans h2.2 h1.2⟩

/-! ### flattening -/

/-- A parsed rule: pattern and rewrite. -/
abbrev PRule := List Pattern × List Rewrite

def headSame (p : Pattern) : List Pattern → Bool
  | [] => false
  | h :: _ => h.same p

def tl (r : PRule) : PRule := (r.1.tail, r.2)

/-- `FlatA nodes acts R`: `R` is the list of rules stored below the action list `acts`, in
depth-first order (the block of an edge consists of rules whose first cell equals the edge's
pattern in the sense of `Pattern.same`). -/
inductive FlatA (nodes : Trie) : List Action → List PRule → Prop where
  | nil : FlatA nodes [] []
  | rw {r : List Rewrite} {as : List Action} {R : List PRule} :
      FlatA nodes as R → FlatA nodes (.rw r :: as) (([], r) :: R)
  | edge {p : Pattern} {t : Nat} {tacts as : List Action} {B R : List PRule} :
      nodes[t]? = some tacts → B ≠ [] → (∀ b ∈ B, headSame p b.1 = true) →
      FlatA nodes tacts (B.map tl) → FlatA nodes as R →
      FlatA nodes (.trans p t :: as) (B ++ R)

theorem FlatA.append {nodes : Trie} {as bs : List Action} {R1 R2 : List PRule}
    (h1 : FlatA nodes as R1) (h2 : FlatA nodes bs R2) : FlatA nodes (as ++ bs) (R1 ++ R2) := by
  induction h1 with
  | nil => exact h2
  | rw _ ih => exact .rw ih
  | edge a b c d _ _ ih2 =>
    rw [List.cons_append, List.append_assoc]
    exact .edge a b c d ih2

theorem FlatA.split {nodes : Trie} {as bs : List Action} {R : List PRule}
    (h : FlatA nodes (as ++ bs) R) :
    ∃ R1 R2, R = R1 ++ R2 ∧ FlatA nodes as R1 ∧ FlatA nodes bs R2 := by
  induction as generalizing R with
  | nil => exact ⟨[], R, rfl, .nil, h⟩
  | cons a as ih =>
    cases h with
    | rw h' =>
      obtain ⟨R1, R2, rfl, h1, h2⟩ := ih h'
      exact ⟨_ :: R1, R2, rfl, .rw h1, h2⟩
    | edge a b c d e =>
      obtain ⟨R1, R2, rfl, h1, h2⟩ := ih e
      exact ⟨_ ++ R1, R2, by rw [List.append_assoc], .edge a b c d h1, h2⟩

theorem FlatA.frame {nodes nodes' : Trie} {acts : List Action} {lo hi : Nat}
    (hs : SubA nodes acts lo hi) :
    ∀ {R : List PRule}, FlatA nodes acts R →
      (∀ i, lo ≤ i → i < hi → nodes'[i]? = nodes[i]?) → FlatA nodes' acts R := by
  induction hs with
  | nil _ => intro R h _; cases h; exact .nil
  | rw _ ih => intro R h hag; cases h with | rw h' => exact .rw (ih h' hag)
  | @edge p t tacts as lo mid hi h1 h2 h3 h4 ih3 ih4 =>
    intro R h hag
    have l3 := h3.le
    have l4 := h4.le
    cases h with
    | edge a b c d e =>
      rw [h2] at a
      cases a
      refine .edge ?_ b c (ih3 d ?_) (ih4 e ?_)
      · rw [hag t h1 (by omega)]; exact h2
      · intro i hi1 hi2; exact hag i (by omega) (by omega)
      · intro i hi1 hi2; exact hag i (by omega) hi2

/-- The insertion lemma for the flattened list: the new rule is appended. -/
theorem insert_true_flat (rs : List Rewrite) :
    ∀ (ps : List Str) (nodes : Trie) (c : Nat) (acts : List Action) (Rc : List PRule),
      nodes[c]? = some acts → SubA nodes acts (c + 1) nodes.length → FlatA nodes acts Rc →
      ∀ nodes' cur, addPattern true ps nodes c = .ok (nodes', cur) →
      ∃ acts'', (finish nodes' cur rs)[c]? = some acts'' ∧
        FlatA (finish nodes' cur rs) acts'' (Rc ++ [(ps.map parsePattern, rs)]) := by
  intro ps
  induction ps with
  | nil =>
    intro nodes c acts Rc hc hsub hflat nodes' cur hadd
    simp only [addPattern, Outcome.ok.injEq, Prod.mk.injEq] at hadd
    obtain ⟨rfl, rfl⟩ := hadd
    have hag : ∀ i, i ≠ c → (finish nodes c rs)[i]? = nodes[i]? := by
      intro i hi
      simp only [finish, List.getElem?_modify]
      simp [Ne.symm hi]
    refine ⟨acts ++ [.rw rs], by simp [finish, hc], ?_⟩
    exact (FlatA.frame hsub hflat (fun i h1 _ => hag i (by omega))).append (.rw .nil)
  | cons p ps ih =>
    intro nodes c acts Rc hc hsub hflat nodes' cur hadd
    have hclt := lt_length_of_getElem? hc
    simp only [addPattern, hc] at hadd
    cases hfe : findEdge true acts (parsePattern p) with
    | some t =>
      rw [hfe] at hadd
      simp only at hadd
      obtain ⟨q, ys, hsame, hacts⟩ := findEdge_true_some hfe
      subst hacts
      obtain ⟨mid, hs1, hs2⟩ := hsub.split
      obtain ⟨R1, R2, rfl, hf1, hf2⟩ := hflat.split
      cases hs2 with
      | edge hmt htn hst hnil =>
        rename_i tacts mid2
        cases hf2 with
        | edge a b cc d e =>
          rename_i tacts' B R
          cases e
          rw [htn] at a
          cases a
          have hle1 := hs1.le
          have hle2 := hst.le
          have hle3 := hnil.le
          obtain ⟨nodes2, cur2, cacts, hadd2, _, _, hag, tacts2, htn2, _, _⟩ :=
            insert_true [] rs ps nodes t tacts htn (hst.mono hle3)
          rw [hadd2] at hadd
          simp only [Outcome.ok.injEq, Prod.mk.injEq] at hadd
          obtain ⟨rfl, rfl⟩ := hadd
          obtain ⟨tacts'', htn'', hflat''⟩ :=
            ih nodes t tacts (B.map tl) htn (hst.mono hle3) d nodes2 cur2 hadd2
          refine ⟨ys ++ [.trans q t], ?_, ?_⟩
          · rw [hag c (by omega)]; exact hc
          · have hB : FlatA (finish nodes2 cur2 rs) [.trans q t]
                ((B ++ [(parsePattern p :: ps.map parsePattern, rs)]) ++ []) := by
              refine .edge htn'' (by simp) ?_ ?_ .nil
              · intro b' hb'
                rcases List.mem_append.mp hb' with hb' | hb'
                · exact cc b' hb'
                · simp only [List.mem_singleton] at hb'
                  subst hb'
                  exact hsame
              · simpa [tl] using hflat''
            have := (FlatA.frame hs1 hf1 (fun i h1 h2 => hag i (by omega))).append hB
            simpa [List.append_assoc] using this
    | none =>
      rw [hfe] at hadd
      simp only at hadd
      have hnew := getElem?_grow_new nodes c
        (fun a => a ++ [Action.trans (parsePattern p) nodes.length])
      have hlen1 : (nodes.modify c (fun a => a ++ [Action.trans (parsePattern p) nodes.length])
          ++ [[]]).length = nodes.length + 1 := by simp
      obtain ⟨nodes2, cur2, cacts, hadd2, _, _, hag, nacts2, hn2, _, _⟩ :=
        insert_true [] rs ps _ nodes.length [] hnew (by rw [hlen1]; exact .nil (Nat.le_refl _))
      rw [hadd2] at hadd
      simp only [Outcome.ok.injEq, Prod.mk.injEq] at hadd
      obtain ⟨rfl, rfl⟩ := hadd
      obtain ⟨nacts'', hn'', hflat''⟩ :=
        ih _ nodes.length [] [] hnew (by rw [hlen1]; exact .nil (Nat.le_refl _)) .nil
          nodes2 cur2 hadd2
      have hag' : ∀ i, i < nodes.length → i ≠ c → (finish nodes2 cur2 rs)[i]? = nodes[i]? := by
        intro i h1 h2
        rw [hag i h1, getElem?_grow_ne nodes c _ i h1 h2]
      refine ⟨acts ++ [.trans (parsePattern p) nodes.length], ?_, ?_⟩
      · rw [hag c hclt, getElem?_grow_eq nodes c _ acts hc]
      · have hB : FlatA (finish nodes2 cur2 rs) [.trans (parsePattern p) nodes.length]
            ([(parsePattern p :: ps.map parsePattern, rs)] ++ []) := by
          refine .edge hn'' (by simp) ?_ ?_ .nil
          · intro b' hb'
            simp only [List.mem_singleton] at hb'
            subst hb'
            exact same_refl _
          · simpa [tl] using hflat''
        have := (FlatA.frame hsub hflat (fun i h1 h2 => hag' i h2 (by omega))).append hB
        simpa using this

end Vibrato.Rewriter
