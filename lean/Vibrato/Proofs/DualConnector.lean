import Vibrato.Model.DualConnector
import Vibrato.Proofs.RawConnector
/-! Helper lemmas for C07 (dual connector part). -/
namespace Vibrato.DualConnector
open Vibrato.Scorer Vibrato.RawConnector

/-! ### General chunking with padding -/

/-- Number of padding lanes needed to reach the next multiple of 8. -/
def padCount (n : Nat) : Nat := (8 - n % 8) % 8

theorem paddedSize_eq_add (n : Nat) : paddedSize n = n + padCount n := by
  unfold paddedSize padCount SIMD_SIZE
  split <;> omega

theorem toSimdVecPad_general (pad : Nat) : ∀ (n : Nat) (v : List Nat), v.length < 8 * (n + 1) →
    (∀ c ∈ toSimdVecPad pad v.length v, c.length = 8) ∧
    (toSimdVecPad pad v.length v).flatten = v ++ List.replicate (padCount v.length) pad := by
  intro n
  induction n with
  | zero =>
    intro v h
    cases v with
    | nil => simp [toSimdVecPad, padCount]
    | cons x xs =>
      simp only [List.length_cons] at h
      have ht : (x :: xs).take 8 = x :: xs := List.take_of_length_le (by simp; omega)
      have hd : (x :: xs).drop 8 = [] := List.drop_of_length_le (by simp; omega)
      simp only [List.length_cons, toSimdVecPad, List.isEmpty_cons, Bool.false_eq_true, if_false]
      rw [ht, hd, toSimdVecPad_nil]
      have hp : 8 - (x :: xs).length = padCount (xs.length + 1) := by
        simp only [List.length_cons, padCount]; omega
      rw [hp]
      refine ⟨?_, by simp⟩
      intro c hc
      simp only [List.mem_singleton] at hc
      subst hc
      simp only [List.length_append, List.length_cons, List.length_replicate, padCount]
      omega
  | succ n ih =>
    intro v h
    by_cases hv : v.length < 8
    · -- same as the base case
      cases v with
      | nil => simp [toSimdVecPad, padCount]
      | cons x xs =>
        simp only [List.length_cons] at hv
        have ht : (x :: xs).take 8 = x :: xs := List.take_of_length_le (by simp; omega)
        have hd : (x :: xs).drop 8 = [] := List.drop_of_length_le (by simp; omega)
        simp only [List.length_cons, toSimdVecPad, List.isEmpty_cons, Bool.false_eq_true, if_false]
        rw [ht, hd, toSimdVecPad_nil]
        have hp : 8 - (x :: xs).length = padCount (xs.length + 1) := by
          simp only [List.length_cons, padCount]; omega
        rw [hp]
        refine ⟨?_, by simp⟩
        intro c hc
        simp only [List.mem_singleton] at hc
        subst hc
        simp only [List.length_append, List.length_cons, List.length_replicate, padCount]
        omega
    · have hsplit : v = v.take 8 ++ v.drop 8 := (List.take_append_drop 8 v).symm
      have h8 : (v.take 8).length = 8 := by simp; omega
      have hr : (v.drop 8).length < 8 * (n + 1) := by simp; omega
      obtain ⟨i1, i2⟩ := ih (v.drop 8) hr
      have e := toSimdVecPad_append8 pad (v.take 8) (v.drop 8) h8 v.length
        (by rw [← hsplit]; exact Nat.le_refl _)
      rw [← hsplit] at e
      rw [e]
      have hpc : padCount (v.drop 8).length = padCount v.length := by
        simp only [List.length_drop, padCount]; omega
      refine ⟨?_, ?_⟩
      · intro c hc
        rcases List.mem_cons.1 hc with rfl | hc
        · exact h8
        · exact i1 c hc
      · rw [List.flatten_cons, i2, hpc, ← List.append_assoc, ← hsplit]

theorem toSimdVecPad_spec (pad : Nat) (v : List Nat) :
    (∀ c ∈ toSimdVecPad pad v.length v, c.length = 8) ∧
    (toSimdVecPad pad v.length v).flatten = v ++ List.replicate (padCount v.length) pad ∧
    (toSimdVecPad pad v.length v).length * 8 = v.length + padCount v.length := by
  obtain ⟨h1, h2⟩ := toSimdVecPad_general pad v.length v (by omega)
  refine ⟨h1, h2, ?_⟩
  have := length_flatten_uniform 8 _ h1
  rw [h2] at this
  simp only [List.length_append, List.length_replicate] at this
  omega

/-- `accumulate_cost` on two chunk lists (8 lanes each, same number of chunks). -/
theorem accumulate_chunks (oc : Bool) (t : Trie) (ht : TrieOK t) (c1s c2s : List U31x8)
    (hlen : c1s.length = c2s.length) (h1 : ∀ c ∈ c1s, c.length = 8) (h2 : ∀ c ∈ c2s, c.length = 8)
    (hsum : absSum (laneWs t c1s.flatten c2s.flatten) ≤ 2147483647) :
    accumulate oc (build t) c1s c2s = .ok (laneWs t c1s.flatten c2s.flatten).sum := by
  unfold accumulate
  rw [accChunks_eq_accLanes oc _ _ _ 0 hlen h1 h2,
    accLanes_build oc t ht _ _ 0 (by simpa using hsum)]
  simp

/-- `accumulate_cost(to_simd_vec(a), to_simd_vec(b))` for two vectors of equal length. -/
theorem accumulate_simd (oc : Bool) (t : Trie) (ht : TrieOK t) (pad : Nat) (a b : List Nat)
    (hab : a.length = b.length)
    (hsum : absSum (laneWs t (a ++ List.replicate (padCount a.length) pad)
      (b ++ List.replicate (padCount a.length) pad)) ≤ 2147483647) :
    accumulate oc (build t) (toSimdVecPad pad a.length a) (toSimdVecPad pad b.length b) =
      .ok (laneWs t (a ++ List.replicate (padCount a.length) pad)
        (b ++ List.replicate (padCount a.length) pad)).sum := by
  obtain ⟨a1, a2, a3⟩ := toSimdVecPad_spec pad a
  obtain ⟨b1, b2, b3⟩ := toSimdVecPad_spec pad b
  have hpc : padCount b.length = padCount a.length := by rw [hab]
  rw [hpc] at b2 b3
  have := accumulate_chunks oc t ht _ _ (by omega) a1 b1 (by rw [a2, b2]; exact hsum)
  rw [a2, b2] at this
  exact this

/-! ### `mapO`, `internVec`, `featureMapLoop` -/

theorem mapO_spec {α β : Type} (f : α → Outcome β) : ∀ (xs : List α) (ys : List β),
    mapO f xs = .ok ys → ys.length = xs.length ∧
      ∀ (i : Nat) (x : α), xs[i]? = some x → ∃ y, ys[i]? = some y ∧ f x = .ok y := by
  intro xs
  induction xs with
  | nil => intro ys h; simp [mapO] at h; subst h; simp
  | cons x xs ih =>
    intro ys h
    simp only [mapO] at h
    cases hf : f x with
    | err => rw [hf] at h; cases h
    | panic => rw [hf] at h; cases h
    | ok y =>
      rw [hf] at h
      simp only at h
      cases hm : mapO f xs with
      | err => rw [hm] at h; cases h
      | panic => rw [hm] at h; cases h
      | ok ys' =>
        rw [hm] at h
        simp only [Outcome.ok.injEq] at h
        subst h
        obtain ⟨l1, l2⟩ := ih ys' hm
        refine ⟨by simp [l1], ?_⟩
        intro i x' hx'
        cases i with
        | zero => simp at hx'; subst hx'; exact ⟨y, by simp, hf⟩
        | succ i => simp at hx'; simpa using l2 i x' hx'

theorem lookupVec_getElem {v : List Nat} : ∀ {m : List (List Nat)} {i : Nat},
    lookupVec v m = some i → m[i]? = some v := by
  intro m
  induction m with
  | nil => intro i h; simp [lookupVec] at h
  | cons x xs ih =>
    intro i h
    simp only [lookupVec] at h
    split at h
    · cases h; subst_vars; simp
    · cases hl : lookupVec v xs with
      | none => rw [hl] at h; simp at h
      | some j =>
        rw [hl] at h; simp at h; subst h
        simpa using ih hl

theorem internVec_spec {m m' : List (List Nat)} {v : List Nat} {id : Nat}
    (h : internVec m v = (m', id)) :
    m'[id]? = some v ∧ (∀ (i : Nat) (w : List Nat), m[i]? = some w → m'[i]? = some w) := by
  unfold internVec at h
  cases hl : lookupVec v m with
  | some j =>
    rw [hl] at h
    simp only [Prod.mk.injEq] at h
    obtain ⟨rfl, rfl⟩ := h
    exact ⟨lookupVec_getElem hl, fun _ _ h => h⟩
  | none =>
    rw [hl] at h
    simp only [Prod.mk.injEq] at h
    obtain ⟨rfl, rfl⟩ := h
    refine ⟨by simp, ?_⟩
    intro i w hi
    have := (List.getElem?_eq_some_iff.1 hi).1
    rw [List.getElem?_append_left this]; exact hi

theorem featureMapLoop_spec (idxs : List Nat) : ∀ (rows : List (List Nat)) (cm0 : List Nat)
    (f0 : List (List Nat)) (cm : List Nat) (feats : List (List Nat)),
    featureMapLoop idxs rows cm0 f0 = .ok (cm, feats) →
    cm.length = cm0.length + rows.length ∧
    (∀ (j : Nat) (c : Nat), cm0[j]? = some c → cm[j]? = some c) ∧
    (∀ (i : Nat) (w : List Nat), f0[i]? = some w → feats[i]? = some w) ∧
    (∀ (j : Nat) (row : List Nat), rows[j]? = some row →
      ∃ id, cm[cm0.length + j]? = some id ∧ feats[id]? = some (project idxs row)) := by
  intro rows
  induction rows with
  | nil =>
    intro cm0 f0 cm feats h
    simp only [featureMapLoop, Outcome.ok.injEq, Prod.mk.injEq] at h
    obtain ⟨rfl, rfl⟩ := h
    exact ⟨by simp, fun _ _ h => h, fun _ _ h => h, by simp⟩
  | cons row rest ih =>
    intro cm0 f0 cm feats h
    simp only [featureMapLoop] at h
    cases hi : internVec f0 (project idxs row) with
    | mk f1 id =>
      rw [hi] at h
      simp only at h
      split at h
      · obtain ⟨s1, s2⟩ := internVec_spec hi
        obtain ⟨i1, i2, i3, i4⟩ := ih _ _ _ _ h
        refine ⟨by simp at i1 ⊢; omega, ?_, ?_, ?_⟩
        · intro j c hj
          apply i2
          have := (List.getElem?_eq_some_iff.1 hj).1
          rw [List.getElem?_append_left this]; exact hj
        · intro i w hw; exact i3 i w (s2 i w hw)
        · intro j row' hj
          cases j with
          | zero =>
            simp only [List.getElem?_cons_zero, Option.some.injEq] at hj
            subst hj
            refine ⟨id, ?_, i3 id _ s1⟩
            apply i2
            simp
          | succ j =>
            simp only [List.getElem?_cons_succ] at hj
            obtain ⟨id', a, b⟩ := i4 j row' hj
            refine ⟨id', ?_, b⟩
            simp only [List.length_append, List.length_singleton] at a
            rw [← a]; congr 1; omega
      · cases h

/-! ### The pruned scorer -/

theorem rowLookup_filter (q : Nat → Bool) (k : Nat) : ∀ (row : Row),
    rowLookup k (row.filter (fun e => q e.1)) = if q k = true then rowLookup k row else none := by
  intro row
  induction row with
  | nil => simp [rowLookup]
  | cons x rest ih =>
    obtain ⟨k', c⟩ := x
    simp only [List.filter_cons]
    by_cases hq : q k' = true
    · simp only [hq, if_true, rowLookup]
      by_cases hk : k' = k
      · subst hk; simp [hq]
      · simp only [hk, if_false]; exact ih
    · have hq' : q k' = false := by simpa using hq
      simp only [hq', Bool.false_eq_true, if_false, rowLookup]
      by_cases hk : k' = k
      · subst hk; rw [ih]; simp [hq']
      · simp only [hk, if_false]; exact ih

theorem getElem?_pruneTrie (t : Trie) (ru lu : List Nat) (k : Nat) :
    (pruneTrie t ru lu)[k]? =
      t[k]?.map (fun row => if ru.contains k then row.filter (fun e => lu.contains e.1) else []) := by
  unfold pruneTrie
  rw [List.getElem?_zipWith]
  by_cases hk : k < t.length
  · rw [List.getElem?_range hk, List.getElem?_eq_getElem hk]; rfl
  · rw [List.getElem?_eq_none (l := t) (by omega)]
    cases (List.range t.length)[k]? <;> rfl

theorem get2_pruneTrie (t : Trie) (ru lu : List Nat) (k1 k2 : Nat) :
    get2 (pruneTrie t ru lu) k1 k2 =
      if ru.contains k1 = true ∧ lu.contains k2 = true then get2 t k1 k2 else none := by
  unfold get2
  rw [getElem?_pruneTrie]
  cases t[k1]? with
  | none => simp
  | some row =>
    simp only [Option.map_some, Option.bind_some]
    by_cases h1 : ru.contains k1 = true
    · simp only [h1, if_true, true_and]
      exact rowLookup_filter (fun k => lu.contains k) k2 row
    · have h1' : ru.contains k1 = false := by simpa using h1
      simp only [h1', Bool.false_eq_true, if_false, false_and]
      rfl

theorem trieOK_pruneTrie {t : Trie} (ht : TrieOK t) (ru lu : List Nat) : TrieOK (pruneTrie t ru lu) := by
  refine ⟨?_, ?_⟩
  · have : (pruneTrie t ru lu).length = t.length := by simp [pruneTrie]
    rw [this]; exact ht.len
  · intro row hrow
    obtain ⟨i, hi⟩ := List.getElem?_of_mem hrow
    rw [getElem?_pruneTrie] at hi
    cases ht' : t[i]? with
    | none => rw [ht'] at hi; cases hi
    | some row0 =>
      rw [ht'] at hi
      simp only [Option.map_some, Option.some.injEq] at hi
      subst hi
      split
      · exact List.Nodup.sublist (List.Sublist.map _ List.filter_sublist)
          (ht.nodup row0 (List.mem_of_getElem? ht'))
      · simp

theorem wgt_pruneTrie (t : Trie) (ru lu : List Nat) (k1 k2 : Nat) (h1 : k1 ∈ ru) (h2 : k2 ∈ lu) :
    wgt (pruneTrie t ru lu) k1 k2 = wgt t k1 k2 := by
  unfold wgt
  rw [get2_pruneTrie, if_pos ⟨by simpa using h1, by simpa using h2⟩]

theorem laneWs_pruneTrie (t : Trie) (ru lu : List Nat) : ∀ (a b : List Nat),
    (∀ x ∈ a, x ∈ ru) → (∀ y ∈ b, y ∈ lu) → laneWs (pruneTrie t ru lu) a b = laneWs t a b := by
  intro a
  induction a with
  | nil => intro b _ _; simp [laneWs]
  | cons x xs ih =>
    intro b ha hb
    cases b with
    | nil => simp [laneWs]
    | cons y ys =>
      simp only [laneWs, List.zipWith_cons_cons]
      rw [wgt_pruneTrie t ru lu x y (ha x List.mem_cons_self) (hb y List.mem_cons_self)]
      congr 1
      exact ih ys (fun x hx => ha x (List.mem_cons_of_mem _ hx)) (fun y hy => hb y (List.mem_cons_of_mem _ hy))

/-! ### Projections of model rows are ids of spec features -/

theorem project_featRow (m : List Str) (idxs : List Nat) (fs : List Str) :
    project idxs (fs.map (featId m)) = idxs.map (fun pos => optId m (fs[pos]?)) := by
  unfold project
  apply List.map_congr_left
  intro pos _
  rw [List.getElem?_map]
  cases fs[pos]? <;> simp [optId]

/-- Sum over a filtered index list and its complement. -/
theorem sum_filter_add_sum_filter_not (g : Nat → Int) (p : Nat → Bool) : ∀ (l : List Nat),
    ((l.filter (fun i => !p i)).map g).sum + ((l.filter p).map g).sum = (l.map g).sum := by
  intro l
  induction l with
  | nil => simp
  | cons x xs ih =>
    simp only [List.filter_cons, List.map_cons, List.sum_cons]
    cases hp : p x
    · simp only [Bool.not_false, if_true, Bool.false_eq_true, if_false, List.map_cons, List.sum_cons]
      omega
    · simp only [Bool.not_true, Bool.false_eq_true, if_false, if_true, List.map_cons, List.sum_cons]
      omega

theorem getElem?_flatten_uniform {α : Type} (m : Nat) (L : List (List α)) (i : Nat) (row : List α)
    (hL : ∀ y ∈ L, y.length = m) (hi : L[i]? = some row) (j : Nat) (hj : j < m) :
    L.flatten[i * m + j]? = row[j]? := by
  have := drop_take_flatten_uniform m L i row hL hi
  rw [← this, List.getElem?_take, if_pos hj, List.getElem?_drop]

/-! ### Rows of the two parts in terms of spec features -/

theorem featAt_succ (fss : List (List Str)) (j : Nat) (fs : List Str) (h : fss[j]? = some fs) (pos : Nat) :
    featAt fss (j + 1) pos = fs[pos]? := by
  simp [featAt, h]

/-- The projected vector of connection id `r` on the index list `idxs`. -/
def projVec (m : List Str) (fss : List (List Str)) (idxs : List Nat) (r : Nat) : List Nat :=
  idxs.map (fun pos => optId m (featAt fss r pos))

theorem projVec_zero (m : List Str) (h0 : lookupId [] m = some 0) (fss : List (List Str)) (idxs : List Nat) :
    projVec m fss idxs 0 = List.replicate idxs.length 0 := by
  unfold projVec
  simp only [featAt, optId, featId_of_some h0]
  exact List.map_const' ..

theorem projVec_succ (m : List Str) (fss : List (List Str)) (idxs : List Nat) (j : Nat) (fs : List Str)
    (h : fss[j]? = some fs) : projVec m fss idxs (j + 1) = project idxs (fs.map (featId m)) := by
  rw [project_featRow]
  unfold projVec
  apply List.map_congr_left
  intro pos _
  rw [featAt_succ fss j fs h]

theorem featureMap_rows (m : List Str) (h0 : lookupId [] m = some 0) (fss : List (List Str))
    (idxs : List Nat) (cm : List Nat) (feats : List (List Nat))
    (h : featureMapLoop idxs (fss.map fun fs => fs.map (featId m)) [0]
      [List.replicate idxs.length 0] = .ok (cm, feats)) :
    cm.length = fss.length + 1 ∧
    ∀ r, r ≤ fss.length → ∃ c, cm[r]? = some c ∧ feats[c]? = some (projVec m fss idxs r) := by
  obtain ⟨s1, s2, s3, s4⟩ := featureMapLoop_spec idxs _ _ _ _ _ h
  refine ⟨by simp at s1; omega, ?_⟩
  intro r hr
  cases r with
  | zero =>
    refine ⟨0, s2 0 0 (by simp), ?_⟩
    rw [projVec_zero m h0]
    exact s3 0 _ (by simp)
  | succ j =>
    have hj : j < fss.length := by omega
    obtain ⟨id, a, b⟩ := s4 j ((fss[j]).map (featId m)) (by simp [List.getElem?_eq_getElem hj])
    refine ⟨id, ?_, ?_⟩
    · simp only [List.length_singleton] at a; rw [← a]; congr 1; omega
    · rw [projVec_succ m fss idxs j fss[j] (List.getElem?_eq_getElem hj)]; exact b

theorem toSimdVecPad_rows8 (pad : Nat) : ∀ (L : List (List Nat)), (∀ row ∈ L, row.length = 8) →
    toSimdVecPad pad L.flatten.length L.flatten = L := by
  intro L
  induction L with
  | nil => intro _; simp [toSimdVecPad]
  | cons row rest ih =>
    intro h
    simp only [List.flatten_cons]
    rw [toSimdVecPad_append8 pad row rest.flatten (h row List.mem_cons_self) _ (Nat.le_refl _),
      ih (fun r hr => h r (List.mem_cons_of_mem _ hr))]

theorem natAbs_clampI16_le (x : Int) : (clampI16 x).natAbs ≤ x.natAbs := by
  unfold clampI16
  split
  · omega
  · split <;> omega

theorem length_filter_add (p : Nat → Bool) : ∀ (l : List Nat),
    (l.filter (fun i => !p i)).length + (l.filter p).length = l.length := by
  intro l
  induction l with
  | nil => simp
  | cons x xs ih =>
    simp only [List.filter_cons, List.length_cons]
    cases hp : p x <;> simp <;> omega

theorem indices_length (K : Nat) (split : List Nat) :
    (matrixIndices K split).length + (rawIndices K split).length = K := by
  have := length_filter_add (fun i => split.contains i) (List.range K)
  simpa [matrixIndices, rawIndices] using this

/-! ### Spec-level lane weights of the two parts -/

/-- Cost at one template position. -/
def posCost (es : List (Str × Str × Int)) (rfs lfs : List (List Str)) (r l pos : Nat) : Int :=
  pairCost es (featAt rfs r pos) (featAt lfs l pos)

/-- What a padding lane of the matrix part contributes: `table("","")` on the pinned tree. -/
def dualPadTerm (fixed : Bool) (es : List (Str × Str × Int)) : Int :=
  if fixed then 0 else table es [] []

/-- Lanes of the pre-summed (matrix) part for `(r, l)`. -/
def matrixWs (fixed : Bool) (es : List (Str × Str × Int)) (rfs lfs : List (List Str))
    (split : List Nat) (r l : Nat) : List Int :=
  let M := matrixIndices (templateCount rfs lfs) split
  M.map (posCost es rfs lfs r l) ++ List.replicate (padCount M.length) (dualPadTerm fixed es)

/-- Lanes of the raw part for `(r, l)`. -/
def rawLaneWs (fixed : Bool) (es : List (Str × Str × Int)) (rfs lfs : List (List Str))
    (split : List Nat) (r l : Nat) : List Int :=
  let R := rawIndices (templateCount rfs lfs) split
  R.map (posCost es rfs lfs r l) ++ List.replicate (if fixed then SIMD_SIZE - R.length else 0) 0

/-- Padding feature of `to_simd_vec`: the empty feature (id 0) on the pinned tree. -/
def simdPadOpt (fixed : Bool) : Option Str := if fixed then none else some []

theorem laneWs_projVec {st : CostState} {es : List (Str × Str × Int)} (hinv : CInv st es)
    (hr : st.rmap.length ≤ INVALID) (hl : st.lmap.length ≤ INVALID)
    (rfs lfs : List (List Str)) (idxs : List Nat) (r l p : Nat) (x : Option Str) :
    laneWs st.trie (projVec st.rmap rfs idxs r ++ List.replicate p (optId st.rmap x))
        (projVec st.lmap lfs idxs l ++ List.replicate p (optId st.lmap x)) =
      idxs.map (posCost es rfs lfs r l) ++ List.replicate p (pairCost es x x) := by
  have := laneWs_rows hinv hr hl (idxs.map (featAt rfs r)) (idxs.map (featAt lfs l)) (by simp) p x x
  simp only [List.map_map] at this
  unfold projVec
  rw [show (fun pos => optId st.rmap (featAt rfs r pos)) = optId st.rmap ∘ featAt rfs r from rfl,
    show (fun pos => optId st.lmap (featAt lfs l pos)) = optId st.lmap ∘ featAt lfs l from rfl, this,
    List.zipWith_map, List.zipWith_self]
  rfl

/-! ### The matrix part -/

theorem optId_simdPadOpt (fixed : Bool) (m : List Str) (h0 : lookupId [] m = some 0) :
    optId m (simdPadOpt fixed) = if fixed then INVALID else 0 := by
  cases fixed <;> simp [simdPadOpt, optId, featId_of_some h0]

theorem pairCost_simdPadOpt (fixed : Bool) (es : List (Str × Str × Int)) :
    pairCost es (simdPadOpt fixed) (simdPadOpt fixed) = dualPadTerm fixed es := by
  cases fixed <;> simp [simdPadOpt, dualPadTerm, pairCost, pairOpt, table]

theorem createMatrix_spec (fixed oc : Bool) {st : CostState} {es : List (Str × Str × Int)}
    (hinv : CInv st es) (hr : st.rmap.length ≤ INVALID) (hl : st.lmap.length ≤ INVALID)
    (rfs lfs : List (List Str)) (M : List Nat) (K : Nat)
    (hKM : fixed = false → K - SIMD_SIZE = M.length)
    (matrix : Matrix) (rmap lmap : List Nat)
    (h : createMatrix fixed oc (rfs.map fun fs => fs.map (featId st.rmap))
      (lfs.map fun fs => fs.map (featId st.lmap)) M K (build st.trie) = .ok (matrix, rmap, lmap)) :
    rmap.length = rfs.length + 1 ∧ lmap.length = lfs.length + 1 ∧
    ∀ r l, r ≤ rfs.length → l ≤ lfs.length →
      absSum (M.map (posCost es rfs lfs r l) ++
        List.replicate (padCount M.length) (dualPadTerm fixed es)) ≤ 2147483647 →
      ∃ rc lc, rmap[r]? = some rc ∧ lmap[l]? = some lc ∧
        matrixCost matrix rc lc = .ok (clampI16 (M.map (posCost es rfs lfs r l) ++
          List.replicate (padCount M.length) (dualPadTerm fixed es)).sum) := by
  have hOK : TrieOK st.trie := trieOK_of_cinv hinv hr
  unfold createMatrix at h
  split at h
  · cases h
  · have hzero : (if fixed = true then M.length else K - SIMD_SIZE) = M.length := by
      cases fixed with
      | true => rfl
      | false => simp [hKM rfl]
    simp only [hzero] at h
    cases hfr : featureMapLoop M (rfs.map fun fs => fs.map (featId st.rmap)) [0]
        [List.replicate M.length 0] with
    | err => rw [hfr] at h; cases h
    | panic => rw [hfr] at h; cases h
    | ok pr =>
      obtain ⟨rm, rfeats⟩ := pr
      rw [hfr] at h
      simp only at h
      cases hfl : featureMapLoop M (lfs.map fun fs => fs.map (featId st.lmap)) [0]
          [List.replicate M.length 0] with
      | err => rw [hfl] at h; cases h
      | panic => rw [hfl] at h; cases h
      | ok pl =>
        obtain ⟨lm, lfeats⟩ := pl
        rw [hfl] at h
        simp only at h
        split at h
        · rename_i rowsM hmap
          simp only [Outcome.ok.injEq, Prod.mk.injEq] at h
          obtain ⟨hm, rfl, rfl⟩ := h
          obtain ⟨r1, r2⟩ := featureMap_rows st.rmap hinv.r0 rfs M rm rfeats hfr
          obtain ⟨l1, l2⟩ := featureMap_rows st.lmap hinv.l0 lfs M lm lfeats hfl
          refine ⟨r1, l1, ?_⟩
          intro r l hrr hll hsum
          obtain ⟨rc, hrc, hrv⟩ := r2 r hrr
          obtain ⟨lc, hlc, hlv⟩ := l2 l hll
          refine ⟨rc, lc, hrc, hlc, ?_⟩
          obtain ⟨o1, o2⟩ := mapO_spec _ _ _ hmap
          obtain ⟨rowL, hrowL, hfL⟩ := o2 lc _ hlv
          obtain ⟨i1, i2⟩ := mapO_spec _ _ _ hfL
          obtain ⟨y, hy, hfy⟩ := i2 rc _ hrv
          -- the value
          have hlen : (projVec st.rmap rfs M r).length = (projVec st.lmap lfs M l).length := by
            simp [projVec]
          have hplen : (projVec st.rmap rfs M r).length = M.length := by simp [projVec]
          have hlw := laneWs_projVec hinv hr hl rfs lfs M r l (padCount M.length) (simdPadOpt fixed)
          rw [optId_simdPadOpt fixed _ hinv.r0, optId_simdPadOpt fixed _ hinv.l0,
            pairCost_simdPadOpt] at hlw
          have hpc : padCount (projVec st.rmap rfs M r).length = padCount M.length := by rw [hplen]
          have hacc := accumulate_simd oc st.trie hOK (if fixed then INVALID else 0)
            (projVec st.rmap rfs M r) (projVec st.lmap lfs M l) hlen
            (by rw [hpc, hlw]; exact hsum)
          rw [hpc, hlw] at hacc
          rw [hacc] at hfy
          simp only [Outcome.ok.injEq] at hfy
          -- the index
          have hrows : ∀ row ∈ rowsM, row.length = rfeats.length := by
            intro row hrow
            obtain ⟨i, hi⟩ := List.getElem?_of_mem hrow
            have hilt : i < lfeats.length := by rw [← o1]; exact (List.getElem?_eq_some_iff.1 hi).1
            obtain ⟨row', hrow', hf'⟩ := o2 i _ (List.getElem?_eq_getElem hilt)
            rw [hi] at hrow'
            cases hrow'
            exact (mapO_spec _ _ _ hf').1
          have hrclt : rc < rfeats.length := (List.getElem?_eq_some_iff.1 hrv).1
          unfold matrixCost
          rw [← hm]
          simp only
          rw [getElem?_flatten_uniform rfeats.length rowsM lc rowL hrows hrowL rc hrclt, hy, ← hfy]
        · cases h
        · cases h

/-! ### The raw part -/

/-- The 8 raw lanes of connection id `r`. -/
def rawVec (fixed : Bool) (m : List Str) (fss : List (List Str)) (R : List Nat) (r : Nat) : List Nat :=
  projVec m fss R r ++ List.replicate (if fixed then SIMD_SIZE - R.length else 0) INVALID

theorem rawLanes_spec (fixed : Bool) (m : List Str) (h0 : lookupId [] m = some 0)
    (fss : List (List Str)) (R : List Nat)
    (hR : if fixed then R.length ≤ SIMD_SIZE else R.length = SIMD_SIZE) (pad : Nat) :
    let lanes := rawLanes fixed R (fss.map fun fs => fs.map (featId m))
    ∀ r, r ≤ fss.length →
      (toSimdVecPad pad lanes.length lanes)[r]? = some (rawVec fixed m fss R r) ∧
      (rawVec fixed m fss R r).length = 8 ∧
      ∀ x ∈ rawVec fixed m fss R r, x ∈ lanes := by
  intro lanes r hr
  let padF := if fixed then List.replicate (SIMD_SIZE - R.length) INVALID else []
  have hpadF : List.replicate (if fixed then SIMD_SIZE - R.length else 0) INVALID = padF := by
    cases fixed <;> simp [padF]
  let L : List (List Nat) := (List.replicate R.length 0 ++ padF) ::
    (fss.map fun fs => fs.map (featId m)).map (fun row => project R row ++ padF)
  have hlanes : lanes = L.flatten := by
    simp only [lanes, rawLanes, L, List.flatten_cons]
    cases fixed <;> rfl
  have hpadlen : R.length + padF.length = 8 := by
    cases fixed with
    | true => simp only [padF, if_true, List.length_replicate]; simp at hR; simp [SIMD_SIZE] at *; omega
    | false => simp only [padF]; simp at hR; simp [hR, SIMD_SIZE]
  have hL8 : ∀ row ∈ L, row.length = 8 := by
    intro row hrow
    rcases List.mem_cons.1 hrow with rfl | hrow
    · simp only [List.length_append, List.length_replicate]; exact hpadlen
    · obtain ⟨row0, _, rfl⟩ := List.mem_map.1 hrow
      simp only [List.length_append, project, List.length_map]; exact hpadlen
  have hLr : L[r]? = some (rawVec fixed m fss R r) := by
    unfold rawVec
    rw [hpadF]
    cases r with
    | zero => simp only [L, List.getElem?_cons_zero]; rw [projVec_zero m h0]
    | succ j =>
      have hj : j < fss.length := by omega
      simp only [L, List.getElem?_cons_succ, List.getElem?_map, List.getElem?_eq_getElem hj,
        Option.map_some]
      rw [projVec_succ m fss R j fss[j] (List.getElem?_eq_getElem hj)]
  refine ⟨?_, hL8 _ (List.mem_of_getElem? hLr), ?_⟩
  · rw [hlanes, toSimdVecPad_rows8 pad L hL8]; exact hLr
  · intro x hx
    rw [hlanes]
    exact List.mem_flatten.2 ⟨_, List.mem_of_getElem? hLr, hx⟩

theorem laneWs_rawVec (fixed : Bool) {st : CostState} {es : List (Str × Str × Int)} (hinv : CInv st es)
    (hr : st.rmap.length ≤ INVALID) (hl : st.lmap.length ≤ INVALID)
    (rfs lfs : List (List Str)) (R : List Nat) (r l : Nat) :
    laneWs st.trie (rawVec fixed st.rmap rfs R r) (rawVec fixed st.lmap lfs R l) =
      R.map (posCost es rfs lfs r l) ++
        List.replicate (if fixed then SIMD_SIZE - R.length else 0) 0 := by
  have := laneWs_projVec hinv hr hl rfs lfs R r l (if fixed then SIMD_SIZE - R.length else 0) none
  simp only [optId] at this
  unfold rawVec
  rw [this]
  simp [pairCost, pairOpt]

/-! ### Assembly -/

theorem dualCost_spec (fixed oc : Bool) (csv : Str → Outcome (List Str)) (split : List Nat)
    (right left cost : List (Option Str)) (dconn : Conn)
    (hn : cost.length + 1 ≤ INVALID)
    (h : fromReaders fixed oc csv split right left cost = .ok dconn) :
    ∃ es rfs lfs, costEntries cost = some es ∧ featLines csv right 0 = some rfs ∧
      featLines csv left 0 = some lfs ∧
      (ValidSplit (templateCount rfs lfs) split →
        (fixed = false → SIMD_SIZE ≤ templateCount rfs lfs) ∧
        numRight dconn = rfs.length + 1 ∧ numLeft dconn = lfs.length + 1 ∧
        ∀ r l, r ≤ rfs.length → l ≤ lfs.length →
          absSum (matrixWs fixed es rfs lfs split r l ++ rawLaneWs fixed es rfs lfs split r l)
            ≤ 2147483647 →
          dualCost oc dconn r l = .ok (clampI16 (matrixWs fixed es rfs lfs split r l).sum +
            (rawLaneWs fixed es rfs lfs split r l).sum)) := by
  unfold fromReaders at h
  cases hb : builderFromReaders csv right left cost with
  | err => rw [hb] at h; cases h
  | panic => rw [hb] at h; cases h
  | ok b =>
    rw [hb] at h
    simp only at h
    split at h
    · cases h
    cases hs : buildChecked b.trie with
    | err => rw [hs] at h; cases h
    | panic => rw [hs] at h; cases h
    | ok scorer =>
      rw [hs] at h
      simp only at h
      have hsc := buildChecked_ok hs
      cases hcm : createMatrix fixed oc b.rightRows b.leftRows (matrixIndices b.K split) b.K scorer with
      | err => rw [hcm] at h; cases h
      | panic => rw [hcm] at h; cases h
      | ok pm =>
        obtain ⟨matrix, rmap, lmap⟩ := pm
        rw [hcm] at h
        simp only at h
        cases hrs : buildChecked (pruneTrie b.trie (rawLanes fixed (rawIndices b.K split) b.rightRows)
            (rawLanes fixed (rawIndices b.K split) b.leftRows)) with
        | err => rw [hrs] at h; cases h
        | panic => rw [hrs] at h; cases h
        | ok rawScorer =>
          rw [hrs] at h
          simp only [Outcome.ok.injEq] at h
          subst h
          have hrsc := buildChecked_ok hrs
          obtain ⟨st, es, rfs, lfs, hinv, he, hrf, hlf, hrr, hlr, hK, htrie⟩ := builder_spec hb
          have hesl := costEntries_length _ _ he
          have hrl : st.rmap.length ≤ INVALID := by have := hinv.rlen; omega
          have hll : st.lmap.length ≤ INVALID := by have := hinv.llen; omega
          have hOK : TrieOK b.trie := by rw [htrie]; exact trieOK_of_cinv hinv hrl
          refine ⟨es, rfs, lfs, he, hrf, hlf, ?_⟩
          intro hvalid
          have hKt : b.K = templateCount rfs lfs := hK
          rw [← hKt] at hvalid
          unfold ValidSplit at hvalid
          have hidx := indices_length b.K split
          -- pinned code: success implies K ≥ 8
          have hK8 : fixed = false → SIMD_SIZE ≤ b.K := by
            intro hf
            subst hf
            unfold createMatrix at hcm
            split at hcm
            · cases hcm
            · rename_i hc
              simp at hc
              exact hc
          have hKM : fixed = false → b.K - SIMD_SIZE = (matrixIndices b.K split).length := by
            intro hf
            have := hK8 hf
            simp only [SIMD_SIZE] at *
            omega
          have hRlen : if fixed then (rawIndices b.K split).length ≤ SIMD_SIZE
              else (rawIndices b.K split).length = SIMD_SIZE := by
            cases fixed with
            | true => simp only [if_true]; rw [hvalid]; exact Nat.min_le_left _ _
            | false =>
              have := hK8 rfl
              simp only [Bool.false_eq_true, if_false]; rw [hvalid]; exact Nat.min_eq_left this
          rw [hsc, hrr, hlr, htrie] at hcm
          obtain ⟨m1, m2, m3⟩ := createMatrix_spec fixed oc hinv hrl hll rfs lfs _ b.K hKM _ _ _ hcm
          refine ⟨by rw [← hKt]; exact hK8, by simpa [numRight] using m1, by simpa [numLeft] using m2, ?_⟩
          intro r l hr hl hsum
          rw [absSum_append] at hsum
          have hmw : matrixWs fixed es rfs lfs split r l =
              (matrixIndices b.K split).map (posCost es rfs lfs r l) ++
                List.replicate (padCount (matrixIndices b.K split).length) (dualPadTerm fixed es) := by
            simp only [matrixWs, hKt]
          have hrw : rawLaneWs fixed es rfs lfs split r l =
              (rawIndices b.K split).map (posCost es rfs lfs r l) ++
                List.replicate (if fixed then SIMD_SIZE - (rawIndices b.K split).length else 0) 0 := by
            simp only [rawLaneWs, hKt]
          obtain ⟨rc, lc, hrc, hlc, hmc⟩ := m3 r l hr hl (by rw [← hmw]; omega)
          rw [← hmw] at hmc
          -- raw lanes
          have hRr := rawLanes_spec fixed st.rmap hinv.r0 rfs _ hRlen (if fixed then INVALID else 0) r hr
          have hRl := rawLanes_spec fixed st.lmap hinv.l0 lfs _ hRlen (if fixed then INVALID else 0) l hl
          rw [← hrr] at hRr
          rw [← hlr] at hRl
          obtain ⟨a1, a2, a3⟩ := hRr
          obtain ⟨b1, b2, b3⟩ := hRl
          have hlw := laneWs_rawVec fixed hinv hrl hll rfs lfs (rawIndices b.K split) r l
          rw [← htrie, ← hrw] at hlw
          have hprune := laneWs_pruneTrie b.trie _ _ _ _ a3 b3
          have hacc := accumulate_chunks oc _ (trieOK_pruneTrie hOK _ _)
            [rawVec fixed st.rmap rfs (rawIndices b.K split) r]
            [rawVec fixed st.lmap lfs (rawIndices b.K split) l] rfl
            (by intro c hc; simp only [List.mem_singleton] at hc; subst hc; exact a2)
            (by intro c hc; simp only [List.mem_singleton] at hc; subst hc; exact b2)
            (by simp only [List.flatten_cons, List.flatten_nil, List.append_nil]
                rw [hprune, hlw]; omega)
          simp only [List.flatten_cons, List.flatten_nil, List.append_nil] at hacc
          rw [hprune, hlw, ← hrsc] at hacc
          unfold dualCost
          simp only [hrc, hlc, hmc, a1, b1, hacc]
          apply addI32_ok
          have h1 := natAbs_clampI16_le (matrixWs fixed es rfs lfs split r l).sum
          have h2 := natAbs_sum_le (matrixWs fixed es rfs lfs split r l)
          have h3 := natAbs_sum_le (rawLaneWs fixed es rfs lfs split r l)
          omega

/-! ### Sum of the two parts -/

theorem dualWs_sum (fixed : Bool) (es : List (Str × Str × Int)) (rfs lfs : List (List Str))
    (split : List Nat) (r l : Nat) :
    (matrixWs fixed es rfs lfs split r l).sum + (rawLaneWs fixed es rfs lfs split r l).sum =
      defSum es rfs lfs r l +
        ((padCount (matrixIndices (templateCount rfs lfs) split).length : Nat) : Int) *
          dualPadTerm fixed es := by
  unfold matrixWs rawLaneWs defSum
  simp only [List.sum_append, sum_replicate_int]
  have := sum_filter_add_sum_filter_not (posCost es rfs lfs r l) (fun i => split.contains i)
    (List.range (templateCount rfs lfs))
  unfold matrixIndices rawIndices
  unfold posCost at this ⊢
  omega

/-- For `K ≥ 8` templates and a valid split the matrix part has `K - 8` templates and
`⌈K/8⌉·8 - K` padding lanes. -/
theorem padCount_matrix (K : Nat) (split : List Nat) (hv : ValidSplit K split) (hK : SIMD_SIZE ≤ K) :
    padCount (matrixIndices K split).length = paddedSize K - K := by
  have := indices_length K split
  unfold ValidSplit at hv
  rw [hv, Nat.min_eq_left hK] at this
  rw [paddedSize_eq_add]
  unfold padCount
  simp only [SIMD_SIZE] at *
  omega

end Vibrato.DualConnector
