/-
Order-independence lemmas for `Vibrato/Model/Trainer.lean` (used by C15):
lookups in a flattened hash map do not depend on the stored order when the keys are distinct;
`merge`, `write_dictionary` and the `bigram.left/right` files only use such lookups;
the `bigram.cost` lines of permuted maps are permutations of each other.
-/
import Vibrato.Model.Trainer

namespace Vibrato.Trainer
open Vibrato.Bincode Vibrato.Image Vibrato.ModelImage WeightOps

/-! ## Lookups in flattened maps -/

section lookup
variable {α κ β : Type} [DecidableEq κ]

theorem foldl_lookup_miss (key : α → κ) (val : α → β) (k : κ) :
    ∀ (l : List α) (acc : Option β), k ∉ l.map key →
      l.foldl (fun acc p => if key p = k then some (val p) else acc) acc = acc := by
  intro l
  induction l with
  | nil => intro acc _; rfl
  | cons p l ih =>
    intro acc h
    simp only [List.map_cons, List.mem_cons, not_or] at h
    have hk : ¬ key p = k := fun hc => h.1 hc.symm
    rw [List.foldl_cons, if_neg hk]
    exact ih acc h.2

theorem foldl_lookup_hit (key : α → κ) (val : α → β) (k : κ) :
    ∀ (l : List α) (acc : Option β), (l.map key).Nodup → ∀ p ∈ l, key p = k →
      l.foldl (fun acc p => if key p = k then some (val p) else acc) acc = some (val p) := by
  intro l
  induction l with
  | nil => intro acc _ p hp; cases hp
  | cons q l ih =>
    intro acc nd p hp hk
    simp only [List.map_cons, List.nodup_cons] at nd
    rw [List.foldl_cons]
    rcases List.mem_cons.mp hp with rfl | hp
    · rw [if_pos hk]
      apply foldl_lookup_miss
      rw [← hk]; exact nd.1
    · exact ih _ nd.2 p hp hk

theorem foldl_lookup_perm (key : α → κ) (val : α → β) (k : κ) {l l' : List α}
    (h : l.Perm l') (nd : (l.map key).Nodup) :
    l.foldl (fun acc p => if key p = k then some (val p) else acc) none =
      l'.foldl (fun acc p => if key p = k then some (val p) else acc) none := by
  have nd' : (l'.map key).Nodup := ((h.map key).nodup_iff).mp nd
  by_cases hex : ∃ p ∈ l, key p = k
  · obtain ⟨p, hp, hk⟩ := hex
    rw [foldl_lookup_hit key val k l none nd p hp hk,
      foldl_lookup_hit key val k l' none nd' p (h.mem_iff.mp hp) hk]
  · have hm : k ∉ l.map key := by
      intro hc
      obtain ⟨p, hp, hk⟩ := List.mem_map.mp hc
      exact hex ⟨p, hp, hk⟩
    have hm' : k ∉ l'.map key := fun hc => hm ((h.map key).mem_iff.mpr hc)
    rw [foldl_lookup_miss key val k l none hm, foldl_lookup_miss key val k l' none hm']

end lookup

theorem lookupLast_perm {l l' : List (Nat × Nat)} (h : l.Perm l') (nd : (l.map Prod.fst).Nodup)
    (k : Nat) : lookupLast l k = lookupLast l' k :=
  foldl_lookup_perm Prod.fst Prod.snd k h nd

theorem lookupId_perm {l l' : IdMap} (h : l.Perm l') (nd : (l.map Prod.snd).Nodup)
    (id : Nat) : lookupId l id = lookupId l' id :=
  foldl_lookup_perm Prod.snd Prod.fst id h nd

theorem lookupStr_perm {l l' : IdMap} (h : l.Perm l') (nd : (l.map Prod.fst).Nodup)
    (k : Str) : lookupStr l k = lookupStr l' k :=
  foldl_lookup_perm Prod.fst Prod.snd k h nd

/-- With distinct keys nothing is dropped by the hash map. -/
theorem dedupLast_nodup : ∀ (l : List (Nat × Nat)), (l.map Prod.fst).Nodup → dedupLast l = l := by
  intro l
  induction l with
  | nil => intro _; rfl
  | cons p l ih =>
    intro nd
    simp only [List.map_cons, List.nodup_cons] at nd
    have : l.any (fun q => decide (q.1 = p.1)) = false := by
      rw [List.any_eq_false]
      intro q hq
      simp only [decide_eq_true_eq]
      intro hc
      exact nd.1 (List.mem_map.mpr ⟨q, hq, hc⟩)
    simp only [dedupLast, this, Bool.false_eq_true, if_false, ih nd.2]

/-! ## `merge` only looks things up -/

/-- Two index tables answer every lookup alike. -/
def LookupEq (b b' : List (List (Nat × Nat))) : Prop :=
  (b[0]? = none ↔ b'[0]? = none) ∧
  ∀ r k : Nat, (b[r]?).bind (fun hm => lookupLast hm k) = (b'[r]?).bind (fun hm => lookupLast hm k)

section
variable {W S : Type} [WeightOps W S]

theorem sumBos_congr (wt : List W) {b b' : List (List (Nat × Nat))} (h : LookupEq b b') :
    ∀ (l : List (Option Nat)) (acc : W), sumBos wt b[0]? l acc = sumBos wt b'[0]? l acc := by
  intro l
  induction l with
  | nil => intro acc; simp [sumBos]
  | cons x l ih =>
    intro acc
    cases x with
    | none => simp only [sumBos]; exact ih acc
    | some fid =>
      have hk := h.2 0 fid
      cases h0 : b[0]? with
      | none =>
        have : b'[0]? = none := h.1.mp h0
        simp [sumBos, this]
      | some hm =>
        cases h0' : b'[0]? with
        | none => exact absurd (h.1.mpr h0') (by simp [h0])
        | some hm' =>
          rw [h0, h0'] at hk
          simp only [Option.bind_some] at hk
          have ih' := ih
          rw [h0, h0'] at ih'
          simp only [sumBos, hk, ih']

theorem sumEos_congr (wt : List W) {b b' : List (List (Nat × Nat))} (h : LookupEq b b') :
    ∀ (l : List (Option Nat)) (acc : W), sumEos wt b l acc = sumEos wt b' l acc := by
  intro l
  induction l with
  | nil => intro acc; simp [sumEos]
  | cons x l ih =>
    intro acc
    cases x with
    | none => simp only [sumEos]; exact ih acc
    | some fid =>
      simp only [sumEos, h.2 fid 0, ih]

theorem sumPair_congr (wt : List W) {b b' : List (List (Nat × Nat))} (h : LookupEq b b') :
    ∀ (rs ls : List (Option Nat)) (acc : W), sumPair wt b rs ls acc = sumPair wt b' rs ls acc := by
  intro rs
  induction rs with
  | nil => intro ls acc; simp [sumPair]
  | cons r rs ih =>
    intro ls acc
    cases ls with
    | nil => simp [sumPair]
    | cons l ls =>
      cases r with
      | none => simp only [sumPair]; exact ih ls acc
      | some r =>
        cases l with
        | none => simp only [sumPair]; exact ih ls acc
        | some l =>
          simp only [sumPair, h.2 r l, ih]

theorem matrixRows_congr (wt : List W) {b b' : List (List (Nat × Nat))} (h : LookupEq b b')
    (L : List (List (Option Nat))) :
    ∀ (R : List (List (Option Nat))) (acc : List (List (Nat × W))),
      matrixRows wt b L R acc = matrixRows wt b' L R acc := by
  intro R
  induction R with
  | nil => intro acc; simp [matrixRows]
  | cons rf R ih =>
    intro acc
    have hf : (fun lf => sumPair wt b rf lf (zero : W)) = (fun lf => sumPair wt b' rf lf zero) :=
      funext fun lf => sumPair_congr wt h rf lf zero
    simp only [matrixRows, sumEos_congr wt h rf zero, hf]
    cases sumEos wt b' rf (zero : W) with
    | err => rfl
    | panic => rfl
    | ok we =>
      simp only
      cases rowEntries (fun lf => sumPair wt b' rf lf (zero : W)) L 0
          (if geEps we = true then [(0, we)] else []).reverse with
      | err => rfl
      | panic => rfl
      | ok row => exact ih _

/-- `merge` gives the same result on raw models that differ only in the stored order of the
bigram index maps (or in any other way that leaves all lookups unchanged). -/
theorem merge_congr (wt : List W) {m m' : RawModel} (hu : m'.unigramIdx = m.unigramIdx)
    (hf : m'.featureSets = m.featureSets) (h : LookupEq m.bigramIdx m'.bigramIdx) :
    merge wt m = merge wt m' := by
  have hb : (fun lf => sumBos wt m.bigramIdx[0]? lf (zero : W)) =
      (fun lf => sumBos wt m'.bigramIdx[0]? lf zero) :=
    funext fun lf => sumBos_congr wt h lf zero
  simp only [merge, hu, hf, hb]
  cases mergeSets wt m.unigramIdx m.featureSets [] [] [] with
  | err => rfl
  | panic => rfl
  | ok r =>
    obtain ⟨sets, L, R⟩ := r
    simp only
    cases rowEntries (fun lf => sumBos wt m'.bigramIdx[0]? lf (zero : W)) L 0 [] with
    | err => rfl
    | panic => rfl
    | ok bos =>
      simp only [matrixRows_congr wt h L R []]

/-- Tables of equal length whose rows are permutations of each other with distinct keys answer
every lookup alike. -/
theorem lookupEq_of_perm {b b' : List (List (Nat × Nat))} (hlen : b.length = b'.length)
    (hp : ∀ r (h : r < b.length), (b[r]).Perm (b'[r]'(hlen ▸ h)))
    (nd : ∀ row ∈ b, (row.map Prod.fst).Nodup) : LookupEq b b' := by
  constructor
  · rw [List.getElem?_eq_none_iff, List.getElem?_eq_none_iff, hlen]
  · intro r k
    by_cases hr : r < b.length
    · have hr' : r < b'.length := hlen ▸ hr
      rw [List.getElem?_eq_getElem hr, List.getElem?_eq_getElem hr']
      simp only [Option.bind_some]
      exact lookupLast_perm (hp r hr) (nd _ (List.getElem_mem hr)) k
    · have hr' : ¬ r < b'.length := hlen ▸ hr
      rw [List.getElem?_eq_none (Nat.le_of_not_lt hr), List.getElem?_eq_none (Nat.le_of_not_lt hr')]

/-! ## `bigram.left` / `bigram.right` only look names up -/

theorem featCells_congr {n n' : IdMap} (h : ∀ id, lookupId n id = lookupId n' id) :
    ∀ (l : List (Option Nat)) (first : Bool) (acc : List UInt8),
      featCells n l first acc = featCells n' l first acc := by
  intro l
  induction l with
  | nil => intro first acc; simp [featCells]
  | cons c l ih =>
    intro first acc
    cases c with
    | none => simp only [featCells]; exact ih _ _
    | some id =>
      simp only [featCells, h id]
      cases lookupId n' id with
      | none => rfl
      | some str =>
        simp only
        cases ofLex (LexCsv.quoteCsvCell str) with
        | err => rfl
        | panic => rfl
        | ok cell => exact ih _ _

theorem connLines_congr {n n' : IdMap} (h : ∀ id, lookupId n id = lookupId n' id) :
    ∀ (l : List (List (Option Nat))) (i : Nat) (acc : List UInt8),
      connLines n l i acc = connLines n' l i acc := by
  intro l
  induction l with
  | nil => intro i acc; simp [connLines]
  | cons f l ih =>
    intro i acc
    simp only [connLines, featCells_congr h f true []]
    cases featCells n' f true [] with
    | err => rfl
    | panic => rfl
    | ok cells => exact ih _ _

/-! ## `bigram.cost` lines -/

/-- The line for one `(right feature id, weight index)` entry; `none` = the index panic. -/
def costLine (wt : List W) (s : S) (rightIds : IdMap) (leftStr : Str) (e : Nat × Nat) :
    Option (List UInt8) :=
  (wt[e.2]?).map fun w =>
    leftStr ++ slash :: ((lookupId rightIds e.1).getD [] ++ tab :: intDec (cost32 w s))

theorem costLinesRow_eq (wt : List W) (s : S) (ex : Extractor) (leftStr : Str) :
    ∀ (l : List (Nat × Nat)) (acc : List (List UInt8)),
      costLinesRow wt s ex leftStr l acc =
        match l.mapM (costLine wt s ex.rightIds leftStr) with
        | some ls => .ok (acc.reverse ++ ls)
        | none => .panic := by
  intro l
  induction l with
  | nil => intro acc; simp [costLinesRow]
  | cons e l ih =>
    intro acc
    obtain ⟨rid, widx⟩ := e
    simp only [costLinesRow, List.mapM_cons, costLine]
    cases wt[widx]? with
    | none => simp
    | some w =>
      simp only [Option.map_some, Option.bind_eq_bind, Option.bind_some, ih]
      cases l.mapM (costLine wt s ex.rightIds leftStr) with
      | none => simp
      | some ls => simp

end
end Vibrato.Trainer
