/-
Helper lemmas for property C19 (corpus text format).  Core Lean only.
-/
import Vibrato.Model.Corpus

namespace Vibrato.Corpus

/-! ### Byte constants -/

theorem TAB_ne_LF : TAB ≠ LF := by decide
theorem CR_ne_LF : CR ≠ LF := by decide
theorem TAB_ne_CR : TAB ≠ CR := by decide
theorem TAB_ascii : TAB.toNat < 128 := by decide
theorem LF_ascii : LF.toNat < 128 := by decide
theorem CR_ascii : CR.toNat < 128 := by decide

/-! ### UTF-8 automaton -/

theorem utf8Step_ascii {b : UInt8} (h : b.toNat < 128) (q : Utf8State) :
    utf8Step q b = if q = .start then some .start else none := by
  cases q <;> simp [utf8Step] <;> omega

theorem utf8Run_nil (q : Utf8State) : utf8Run q [] = decide (q = .start) := by
  cases q <;> simp [utf8Run]

/-- An ASCII byte can only stand between two complete scalar values. -/
theorem utf8Run_append_ascii {c : UInt8} (hc : c.toNat < 128) (a b : List UInt8)
    (q : Utf8State) :
    utf8Run q (a ++ c :: b) = (utf8Run q a && utf8Run .start b) := by
  induction a generalizing q with
  | nil =>
    simp only [List.nil_append, utf8Run, utf8Step_ascii hc, utf8Run_nil]
    by_cases hq : q = .start <;> simp [hq]
  | cons x xs ih =>
    simp only [List.cons_append, utf8Run]
    cases utf8Step q x with
    | none => simp
    | some q' => simpa using ih q'

theorem utf8Run_append {a : List UInt8} (b : List UInt8) {q : Utf8State}
    (h : utf8Run q a = true) : utf8Run q (a ++ b) = utf8Run .start b := by
  induction a generalizing q with
  | nil =>
    rw [utf8Run_nil] at h
    simp at h
    simp [h]
  | cons x xs ih =>
    simp only [List.cons_append, utf8Run] at h ⊢
    cases hs : utf8Step q x with
    | none => simp [hs] at h
    | some q' =>
      simp only [hs] at h ⊢
      exact ih h

theorem validUtf8_append_ascii {c : UInt8} (hc : c.toNat < 128) (a b : List UInt8) :
    validUtf8 (a ++ c :: b) = (validUtf8 a && validUtf8 b) :=
  utf8Run_append_ascii hc a b .start

theorem validUtf8_append {a b : List UInt8} (ha : validUtf8 a = true) :
    validUtf8 (a ++ b) = validUtf8 b :=
  utf8Run_append b ha

theorem validUtf8_nil : validUtf8 [] = true := rfl

/-! ### `rawLines` -/

theorem rawLines_append_lf {l : List UInt8} (h : LF ∉ l) (rest : List UInt8) :
    rawLines (l ++ LF :: rest) = (l ++ [LF]) :: rawLines rest := by
  induction l with
  | nil => simp [rawLines]
  | cons x xs ih =>
    have hx : x ≠ LF := fun e => h (by simp [e])
    have hxs : LF ∉ xs := fun e => h (by simp [e])
    simp only [List.cons_append, rawLines, hx, if_false, ih hxs]

theorem rawLines_no_lf {l : List UInt8} (h : LF ∉ l) (hne : l ≠ []) : rawLines l = [l] := by
  induction l with
  | nil => exact absurd rfl hne
  | cons x xs ih =>
    have hx : x ≠ LF := fun e => h (by simp [e])
    have hxs : LF ∉ xs := fun e => h (by simp [e])
    cases xs with
    | nil => simp [rawLines, hx]
    | cons y ys =>
      have := ih hxs (by simp)
      simp only [rawLines, hx, if_false] at this ⊢
      simp only [this]

/-- Shape of the items of `lines()` before stripping. -/
def RawLine (raw : List UInt8) : Prop :=
  ∃ body, LF ∉ body ∧ (raw = body ++ [LF] ∨ (raw = body ∧ body ≠ []))

theorem rawLines_shape (b : List UInt8) : ∀ raw ∈ rawLines b, RawLine raw := by
  induction b with
  | nil => simp [rawLines]
  | cons x xs ih =>
    by_cases hx : x = LF
    · simp only [rawLines, hx, if_true, List.mem_cons]
      rintro raw (rfl | hr)
      · exact ⟨[], by simp, Or.inl rfl⟩
      · exact ih raw hr
    · simp only [rawLines, hx, if_false]
      cases hr : rawLines xs with
      | nil =>
        simp only [List.mem_singleton]
        rintro raw rfl
        exact ⟨[x], by simpa using Ne.symm hx, Or.inr ⟨rfl, by simp⟩⟩
      | cons l ls =>
        simp only [List.mem_cons]
        rintro raw (rfl | hm)
        · obtain ⟨body, hb, hcase⟩ := ih l (by simp [hr])
          refine ⟨x :: body, ?_, ?_⟩
          · simp only [List.mem_cons, not_or]; exact ⟨Ne.symm hx, hb⟩
          · rcases hcase with rfl | ⟨rfl, _⟩
            · exact Or.inl rfl
            · exact Or.inr ⟨rfl, by simp⟩
        · exact ih raw (by simp [hr, hm])

theorem rawLines_flatten (b : List UInt8) : (rawLines b).flatten = b := by
  induction b with
  | nil => simp [rawLines]
  | cons x xs ih =>
    by_cases hx : x = LF
    · simp [rawLines, hx, ih]
    · simp only [rawLines, hx, if_false]
      cases hr : rawLines xs with
      | nil => simp [hr] at ih; simp [ih]
      | cons l ls => simp [hr] at ih; simp [ih]

/-! ### `stripEol` -/

theorem stripEol_lf (x : List UInt8) :
    stripEol (x ++ [LF]) = if x.getLast? = some CR then x.dropLast else x := by
  simp [stripEol]

theorem stripEol_no_lf {l : List UInt8} (h : LF ∉ l) : stripEol l = l := by
  unfold stripEol
  have : l.getLast? ≠ some LF := fun e => h (List.mem_of_getLast? e)
  simp [this]

/-- `raw = stripEol raw ++ terminator`, where the terminator is `""`, `"\n"` or `"\r\n"`. -/
theorem stripEol_suffix (raw : List UInt8) :
    raw = stripEol raw ∨ raw = stripEol raw ++ [LF] ∨ raw = stripEol raw ++ [CR, LF] := by
  unfold stripEol
  by_cases h : raw.getLast? = some LF
  · obtain ⟨ys, rfl⟩ := List.getLast?_eq_some_iff.mp h
    simp only [h, if_true, List.dropLast_concat]
    by_cases h2 : ys.getLast? = some CR
    · obtain ⟨zs, rfl⟩ := List.getLast?_eq_some_iff.mp h2
      simp only [h2, if_true, List.dropLast_concat]
      right; right; simp
    · simp only [h2, if_false]
      right; left; trivial
  · simp [h]

theorem stripEol_valid {raw : List UInt8} (h : validUtf8 raw = true) :
    validUtf8 (stripEol raw) = true := by
  rcases stripEol_suffix raw with e | e | e
  · rw [← e]; exact h
  · rw [e, validUtf8_append_ascii LF_ascii] at h
    simp at h; exact h.1
  · rw [e, validUtf8_append_ascii CR_ascii] at h
    simp at h; exact h.1

theorem stripEol_no_lf_of_rawLine {raw : List UInt8} (h : RawLine raw) :
    LF ∉ stripEol raw := by
  obtain ⟨body, hb, rfl | ⟨rfl, _⟩⟩ := h
  · rw [stripEol_lf]
    split
    · exact fun hm => hb (List.dropLast_subset _ hm)
    · exact hb
  · rw [stripEol_no_lf hb]; exact hb

/-! ### `splitTab` -/

theorem splitTab_no_tab {l : List UInt8} (h : TAB ∉ l) : splitTab l = (l, []) := by
  induction l with
  | nil => rfl
  | cons x xs ih =>
    have hx : x ≠ TAB := fun e => h (by simp [e])
    have hxs : TAB ∉ xs := fun e => h (by simp [e])
    simp [splitTab, hx, ih hxs]

theorem splitTab_append {s : List UInt8} (h : TAB ∉ s) (r : List UInt8) :
    splitTab (s ++ TAB :: r) = (s, (splitTab r).1 :: (splitTab r).2) := by
  induction s with
  | nil => simp [splitTab]
  | cons x xs ih =>
    have hx : x ≠ TAB := fun e => h (by simp [e])
    have hxs : TAB ∉ xs := fun e => h (by simp [e])
    simp [splitTab, hx, ih hxs]

theorem splitTab_fst_no_tab (l : List UInt8) : TAB ∉ (splitTab l).1 := by
  induction l with
  | nil => simp [splitTab]
  | cons x xs ih =>
    by_cases hx : x = TAB
    · simp [splitTab, hx]
    · simp only [splitTab, hx, if_false, List.mem_cons, not_or]
      exact ⟨Ne.symm hx, ih⟩

theorem splitTab_snd_length (l : List UInt8) : (splitTab l).2.length = l.count TAB := by
  induction l with
  | nil => simp [splitTab]
  | cons x xs ih =>
    by_cases hx : x = TAB
    · simp [splitTab, hx, ih]
    ·      simp [splitTab, hx, ih]

/-- Decomposition of a line at its first tab. -/
theorem splitTab_cons_inv {l f : List UInt8} {fs : List (List UInt8)}
    (h : (splitTab l).2 = f :: fs) :
    ∃ r, l = (splitTab l).1 ++ TAB :: r ∧ splitTab r = (f, fs) := by
  induction l with
  | nil => simp [splitTab] at h
  | cons x xs ih =>
    by_cases hx : x = TAB
    · simp only [splitTab, hx, if_true] at h ⊢
      refine ⟨xs, by simp, ?_⟩
      simp only [List.cons.injEq] at h
      exact Prod.ext h.1 h.2
    · simp only [splitTab, hx, if_false] at h ⊢
      obtain ⟨r, hr1, hr2⟩ := ih h
      exact ⟨r, by rw [List.cons_append, ← hr1], hr2⟩

theorem splitTab_nil_inv {l : List UInt8} (h : (splitTab l).2 = []) :
    (splitTab l).1 = l ∧ TAB ∉ l := by
  have hc : l.count TAB = 0 := by rw [← splitTab_snd_length, h]; rfl
  have hn : TAB ∉ l := by
    intro hm
    have := List.count_pos_iff.mpr hm
    omega
  rw [splitTab_no_tab hn]
  exact ⟨rfl, hn⟩

/-! ### `classify` -/

theorem classify_token {s f : List UInt8} (fixed : Bool) (hs : TAB ∉ s) (hf : TAB ∉ f)
    (hcr : f.getLast? ≠ some CR) :
    classify fixed (s ++ TAB :: f) = .token ⟨s, f⟩ := by
  simp [classify, splitTab_append hs, splitTab_no_tab hf, hcr]

theorem classify_eos (fixed : Bool) : classify fixed EOS = .eos := by
  cases fixed <;> decide

theorem classify_token_inv {fixed : Bool} {l : List UInt8} {w : Word}
    (h : classify fixed l = .token w) :
    l = w.surface ++ TAB :: w.feature ∧ TAB ∉ w.surface ∧ TAB ∉ w.feature ∧
      (fixed = true → w.feature.getLast? ≠ some CR) := by
  unfold classify at h
  split at h
  · rename_i s f hsp
    split at h
    · cases h
    · rename_i hfx
      cases h
      have h2 : (splitTab l).2 = [f] := by rw [hsp]
      have h1 : (splitTab l).1 = s := by rw [hsp]
      obtain ⟨r, hr1, hr2⟩ := splitTab_cons_inv h2
      have hr3 := splitTab_nil_inv (l := r) (by rw [hr2])
      rw [hr2] at hr3
      simp only at hr3
      refine ⟨?_, ?_, ?_, ?_⟩
      · rw [h1, ← hr3.1] at hr1; exact hr1
      · rw [← h1]; exact splitTab_fst_no_tab l
      · rw [hr3.1]; exact hr3.2
      · intro hfix
        simpa [hfix] using hfx
  · split at h <;> cases h
  · cases h

theorem classify_eos_iff {fixed : Bool} {l : List UInt8} :
    classify fixed l = .eos ↔ l = EOS := by
  constructor
  · intro h
    unfold classify at h
    split at h
    · split at h <;> cases h
    · rename_i s hsp
      split at h
      · rename_i hs
        have := splitTab_nil_inv (l := l) (by rw [hsp])
        rw [hsp] at this
        rw [← this.1]; exact hs
      · cases h
    · cases h
  · rintro rfl; exact classify_eos fixed

/-- Which lines the pinned reader rejects: no tab and not `EOS` (this includes the empty
line), or two or more tabs. -/
theorem classify_bad_iff {l : List UInt8} :
    classify false l = .bad ↔ (l.count TAB = 0 ∧ l ≠ EOS) ∨ 2 ≤ l.count TAB := by
  have hlen := splitTab_snd_length l
  unfold classify
  split
  · rename_i s f hsp
    rw [hsp] at hlen
    simp at hlen
    simp; omega
  · rename_i s hsp
    rw [hsp] at hlen
    have := splitTab_nil_inv (l := l) (by rw [hsp])
    rw [hsp] at this
    simp at hlen
    have hs : s = l := this.1
    subst hs
    by_cases he : s = EOS
    · simp [he]; decide
    · simp [he]; omega
  · rename_i s f g fs hsp
    rw [hsp] at hlen
    simp at hlen
    simp; omega

/-- The repaired reader additionally rejects a single-tab line ending in `\r`. -/
theorem classify_fixed_bad_iff {l : List UInt8} :
    classify true l = .bad ↔
      classify false l = .bad ∨ (l.count TAB = 1 ∧ l.getLast? = some CR) := by
  have hlen := splitTab_snd_length l
  unfold classify
  split
  · rename_i s f hsp
    rw [hsp] at hlen
    simp at hlen
    obtain ⟨r, hr1, hr2⟩ := splitTab_cons_inv (l := l) (f := f) (fs := []) (by rw [hsp])
    have hr3 := splitTab_nil_inv (l := r) (by rw [hr2])
    rw [hr2] at hr3
    simp only at hr3
    have : l.getLast? = some CR ↔ f.getLast? = some CR := by
      rw [hr1, hr3.1]
      cases r with
      | nil => simp [List.getLast?_append]; exact TAB_ne_CR
      | cons y ys => simp [List.getLast?_append, List.getLast?_cons_cons]
    simp [← hlen, this]
  · rename_i s hsp
    rw [hsp] at hlen
    simp at hlen
    simp; omega
  · simp

/-! ### `parseLoop` on written text -/

theorem getLast?_surface_tab_feature (s f : List UInt8) :
    (s ++ TAB :: f).getLast? = if f = [] then some TAB else f.getLast? := by
  cases f with
  | nil => simp [List.getLast?_append]
  | cons y ys =>
    have h1 : (TAB :: y :: ys).getLast? = (y :: ys).getLast? := List.getLast?_cons_cons
    have h2 : (y :: ys).getLast? = some ((y :: ys).getLast (by simp)) :=
      List.getLast?_eq_some_getLast _
    rw [List.getLast?_append, h1, if_neg (by simp), h2]
    rfl

theorem parseLoop_word (fixed : Bool) (exs : List Example) (toks : List Word) {w : Word}
    (hw : WordWF w) (rest : List UInt8) :
    parseLoop fixed exs toks (rawLines (writeWord w ++ rest)) =
      parseLoop fixed exs (toks ++ [w]) (rawLines rest) := by
  obtain ⟨⟨hvs, hvf, hts, hls, htf, hlf⟩, hcr⟩ := hw
  have hbody : LF ∉ w.surface ++ TAB :: w.feature := by
    simp only [List.mem_append, List.mem_cons, not_or]
    exact ⟨hls, Ne.symm TAB_ne_LF, hlf⟩
  have e : writeWord w ++ rest = (w.surface ++ TAB :: w.feature) ++ LF :: rest := by
    simp [writeWord]
  have hvalid : validUtf8 ((w.surface ++ TAB :: w.feature) ++ [LF]) = true := by
    rw [validUtf8_append_ascii LF_ascii, validUtf8_append_ascii TAB_ascii]
    simp [hvs, hvf, validUtf8_nil]
  have hlast : (w.surface ++ TAB :: w.feature).getLast? ≠ some CR := by
    rw [getLast?_surface_tab_feature]
    split
    · simpa using TAB_ne_CR
    · exact hcr
  have hstrip : stripEol ((w.surface ++ TAB :: w.feature) ++ [LF]) =
      w.surface ++ TAB :: w.feature := by
    rw [stripEol_lf, if_neg hlast]
  rw [e, rawLines_append_lf hbody]
  simp only [parseLoop, hvalid, hstrip, classify_token fixed hts htf hcr]
  simp

theorem parseLoop_words (fixed : Bool) (exs : List Example) (ws : List Word)
    (hws : ∀ w ∈ ws, WordWF w) (toks : List Word) (rest : List UInt8) :
    parseLoop fixed exs toks (rawLines (ws.flatMap writeWord ++ rest)) =
      parseLoop fixed exs (toks ++ ws) (rawLines rest) := by
  induction ws generalizing toks with
  | nil => simp
  | cons w ws ih =>
    have hw : WordWF w := hws w (by simp)
    have hws' : ∀ w ∈ ws, WordWF w := fun x hx => hws x (by simp [hx])
    rw [List.flatMap_cons, List.append_assoc, parseLoop_word fixed exs toks hw, ih hws']
    simp

theorem parseLoop_eosLine (fixed : Bool) (exs : List Example) (toks : List Word)
    (rest : List UInt8) :
    parseLoop fixed exs toks (rawLines (eosLine ++ rest)) =
      if sentenceOf toks ≠ [] then parseLoop fixed (exs ++ [⟨toks⟩]) [] (rawLines rest)
      else parseLoop fixed exs [] (rawLines rest) := by
  have e : eosLine ++ rest = EOS ++ LF :: rest := by simp [eosLine]
  have hE : LF ∉ EOS := by decide
  have hvalid : validUtf8 (EOS ++ [LF]) = true := by decide
  have hstrip : stripEol (EOS ++ [LF]) = EOS := by decide
  rw [e, rawLines_append_lf hE]
  simp only [parseLoop, hvalid, hstrip, classify_eos]
  simp

/-- The examples kept by the reader: those with a non-empty sentence. -/
def keepNonEmpty (es : List Example) : List Example :=
  es.filter (fun e => decide e.NonEmpty)

theorem parseLoop_examples (fixed : Bool) (es : List Example)
    (hes : ∀ e ∈ es, ExampleWF e) (exs : List Example) (rest : List UInt8) :
    parseLoop fixed exs [] (rawLines (writeCorpus es ++ rest)) =
      parseLoop fixed (exs ++ keepNonEmpty es) [] (rawLines rest) := by
  induction es generalizing exs with
  | nil => simp [writeCorpus, keepNonEmpty]
  | cons e es ih =>
    have he : ExampleWF e := hes e (by simp)
    have hes' : ∀ e ∈ es, ExampleWF e := fun x hx => hes x (by simp [hx])
    have e1 : writeCorpus (e :: es) ++ rest =
        e.tokens.flatMap writeWord ++ (eosLine ++ (writeCorpus es ++ rest)) := by
      simp [writeCorpus, writeExample]
    rw [e1, parseLoop_words fixed exs e.tokens he, parseLoop_eosLine]
    simp only [List.nil_append]
    by_cases hne : sentenceOf e.tokens ≠ []
    · have hk : keepNonEmpty (e :: es) = e :: keepNonEmpty es := by
        simp [keepNonEmpty, Example.NonEmpty, Example.sentence, hne]
      rw [if_pos hne, ih hes', hk]
      simp
    · have hk : keepNonEmpty (e :: es) = keepNonEmpty es := by
        simp [keepNonEmpty, Example.NonEmpty, Example.sentence, hne]
      rw [if_neg hne, ih hes', hk]

/-! ### What `from_reader` can return -/

/-- Words as stored by the reader. -/
def GoodWord (fixed : Bool) (w : Word) : Prop :=
  WordRepr w ∧ (fixed = true → NoTrailingCR w)

def GoodExample (fixed : Bool) (e : Example) : Prop :=
  (∀ w ∈ e.tokens, GoodWord fixed w) ∧ e.NonEmpty

theorem parseLoop_inv (fixed : Bool) (lines : List (List UInt8)) :
    ∀ (exs : List Example) (toks : List Word) (r : List Example),
      (∀ raw ∈ lines, RawLine raw) →
      (∀ e ∈ exs, GoodExample fixed e) → (∀ w ∈ toks, GoodWord fixed w) →
      parseLoop fixed exs toks lines = .ok r → ∀ e ∈ r, GoodExample fixed e := by
  induction lines with
  | nil =>
    intro exs toks r _ hexs _ h
    simp only [parseLoop] at h
    cases h
    exact hexs
  | cons raw rest ih =>
    intro exs toks r hl hexs htoks h
    have hraw : RawLine raw := hl raw (by simp)
    have hrest : ∀ x ∈ rest, RawLine x := fun x hx => hl x (by simp [hx])
    simp only [parseLoop] at h
    by_cases hv : validUtf8 raw = true
    · simp only [hv, Bool.not_true, Bool.false_eq_true, if_false] at h
      split at h
      · rename_i w hc
        obtain ⟨hl1, hts, htf, hcr⟩ := classify_token_inv hc
        have hvl := stripEol_valid hv
        have hnl := stripEol_no_lf_of_rawLine hraw
        rw [hl1] at hvl hnl
        rw [validUtf8_append_ascii TAB_ascii] at hvl
        simp only [Bool.and_eq_true] at hvl
        simp only [List.mem_append, List.mem_cons, not_or] at hnl
        have hw : GoodWord fixed w :=
          ⟨⟨hvl.1, hvl.2, hts, hnl.1, htf, hnl.2.2⟩, hcr⟩
        refine ih exs (toks ++ [w]) r hrest hexs ?_ h
        intro x hx
        simp only [List.mem_append, List.mem_singleton] at hx
        rcases hx with hx | rfl
        · exact htoks x hx
        · exact hw
      · split at h
        · rename_i hne
          refine ih (exs ++ [⟨toks⟩]) [] r hrest ?_ (by simp) h
          intro x hx
          simp only [List.mem_append, List.mem_singleton] at hx
          rcases hx with hx | rfl
          · exact hexs x hx
          · exact ⟨htoks, hne⟩
        · exact ih exs [] r hrest hexs (by simp) h
      · cases h
    · simp [hv] at h

/-- A successful parse implies that the whole input is valid UTF-8. -/
theorem parseLoop_ok_valid (fixed : Bool) (lines : List (List UInt8)) :
    ∀ (exs : List Example) (toks : List Word) (r : List Example),
      parseLoop fixed exs toks lines = .ok r → validUtf8 lines.flatten = true := by
  induction lines with
  | nil => intros; rfl
  | cons raw rest ih =>
    intro exs toks r h
    simp only [parseLoop] at h
    by_cases hv : validUtf8 raw = true
    · simp only [hv, Bool.not_true, Bool.false_eq_true, if_false] at h
      rw [List.flatten_cons, validUtf8_append hv]
      split at h
      · exact ih _ _ _ h
      · split at h <;> exact ih _ _ _ h
      · cases h
    · simp [hv] at h

/-! ### Lines before a malformed line do not matter -/

theorem parseLoop_prefix (fixed : Bool) (pre rest : List (List UInt8)) :
    ∀ (exs : List Example) (toks : List Word),
      parseLoop fixed exs toks (pre ++ rest) = .err ∨
      ∃ exs' toks', parseLoop fixed exs toks (pre ++ rest) = parseLoop fixed exs' toks' rest := by
  induction pre with
  | nil => intro exs toks; exact Or.inr ⟨exs, toks, rfl⟩
  | cons raw pre ih =>
    intro exs toks
    simp only [List.cons_append, parseLoop]
    split
    · exact Or.inl rfl
    · split
      · exact ih _ _
      · split <;> exact ih _ _
      · exact Or.inl rfl

theorem parseLoop_bad_line (fixed : Bool) (pre : List (List UInt8)) (raw : List UInt8)
    (rest : List (List UInt8))
    (hbad : validUtf8 raw = false ∨ classify fixed (stripEol raw) = .bad)
    (exs : List Example) (toks : List Word) :
    parseLoop fixed exs toks (pre ++ raw :: rest) = .err := by
  rcases parseLoop_prefix fixed pre (raw :: rest) exs toks with h | ⟨exs', toks', h⟩
  · exact h
  · rw [h]
    simp only [parseLoop]
    rcases hbad with hb | hb
    · simp [hb]
    · split
      · rfl
      · rw [hb]

theorem rawLines_ne_nil {b : List UInt8} (h : b ≠ []) : rawLines b ≠ [] := by
  cases b with
  | nil => exact absurd rfl h
  | cons x xs =>
    simp only [rawLines]
    split
    · simp
    · split <;> simp

/-- `pre` consists of complete lines: it is empty or ends in a line feed. -/
def LineComplete (pre : List UInt8) : Prop := pre = [] ∨ pre.getLast? = some LF

instance (pre : List UInt8) : Decidable (LineComplete pre) := by
  unfold LineComplete; infer_instance

theorem rawLines_append_lf_any (ys x : List UInt8) :
    rawLines (ys ++ LF :: x) = rawLines (ys ++ [LF]) ++ rawLines x := by
  induction ys with
  | nil => simp [rawLines]
  | cons y ys ih =>
    by_cases hy : y = LF
    · simp only [List.cons_append, rawLines, hy, if_true, ih]
    · simp only [List.cons_append, rawLines, hy, if_false, ih]
      have hne : rawLines (ys ++ [LF]) ≠ [] := rawLines_ne_nil (by simp)
      cases hr : rawLines (ys ++ [LF]) with
      | nil => exact absurd hr hne
      | cons l ls => simp

theorem rawLines_append_complete {pre : List UInt8} (h : LineComplete pre) (x : List UInt8) :
    rawLines (pre ++ x) = rawLines pre ++ rawLines x := by
  rcases h with rfl | h
  · simp [rawLines]
  · obtain ⟨ys, rfl⟩ := List.getLast?_eq_some_iff.mp h
    rw [List.append_assoc]
    exact rawLines_append_lf_any ys x

/-! ### Provenance of parsed words, and where a trailing `\r` can come from -/

theorem parseLoop_words_of_lines (fixed : Bool) (Q : Word → Prop)
    (lines : List (List UInt8)) :
    ∀ (exs : List Example) (toks : List Word) (r : List Example),
      (∀ raw ∈ lines, ∀ w, classify fixed (stripEol raw) = .token w → Q w) →
      (∀ e ∈ exs, ∀ w ∈ e.tokens, Q w) → (∀ w ∈ toks, Q w) →
      parseLoop fixed exs toks lines = .ok r → ∀ e ∈ r, ∀ w ∈ e.tokens, Q w := by
  induction lines with
  | nil =>
    intro exs toks r _ hexs _ h
    simp only [parseLoop] at h
    cases h
    exact hexs
  | cons raw rest ih =>
    intro exs toks r hl hexs htoks h
    have hrest : ∀ x ∈ rest, ∀ w, classify fixed (stripEol x) = .token w → Q w :=
      fun x hx => hl x (by simp [hx])
    simp only [parseLoop] at h
    split at h
    · cases h
    · split at h
      · rename_i w hc
        refine ih exs (toks ++ [w]) r hrest hexs ?_ h
        intro x hx
        simp only [List.mem_append, List.mem_singleton] at hx
        rcases hx with hx | rfl
        · exact htoks x hx
        · exact hl raw (by simp) x hc
      · split at h
        · refine ih (exs ++ [⟨toks⟩]) [] r hrest ?_ (by simp) h
          intro x hx
          simp only [List.mem_append, List.mem_singleton] at hx
          rcases hx with hx | rfl
          · exact hexs x hx
          · exact htoks
        · exact ih exs [] r hrest hexs (by simp) h
      · cases h

theorem rawLines_end_lf {b : List UInt8} (h : LineComplete b) :
    ∀ raw ∈ rawLines b, raw.getLast? = some LF := by
  rcases h with rfl | h
  · simp [rawLines]
  · obtain ⟨ys, rfl⟩ := List.getLast?_eq_some_iff.mp h
    clear h
    induction ys with
    | nil => simp [rawLines]
    | cons y ys ih =>
      by_cases hy : y = LF
      · simp only [List.cons_append, rawLines, hy, if_true, List.mem_cons]
        rintro raw (rfl | hr)
        · rfl
        · exact ih raw hr
      · simp only [List.cons_append, rawLines, hy, if_false]
        have hne : rawLines (ys ++ [LF]) ≠ [] := rawLines_ne_nil (by simp)
        cases hr : rawLines (ys ++ [LF]) with
        | nil => exact absurd hr hne
        | cons l ls =>
          simp only [List.mem_cons]
          rintro raw (rfl | hm)
          · have hl : l.getLast? = some LF := ih l (by simp [hr])
            cases l with
            | nil => simp at hl
            | cons z zs => rw [List.getLast?_cons_cons]; exact hl
          · exact ih raw (by simp [hr, hm])

/-- A terminated line yields a feature ending in `\r` only if it ends in `\r\r\n`. -/
theorem trailing_cr_of_token {fixed : Bool} {raw : List UInt8} {w : Word}
    (hlf : raw.getLast? = some LF)
    (hc : classify fixed (stripEol raw) = .token w)
    (hcr : w.feature.getLast? = some CR) : [CR, CR, LF] <:+ raw := by
  obtain ⟨x, rfl⟩ := List.getLast?_eq_some_iff.mp hlf
  obtain ⟨hl, _, _, _⟩ := classify_token_inv hc
  have hlast : (stripEol (x ++ [LF])).getLast? = some CR := by
    rw [hl, getLast?_surface_tab_feature]
    split
    · rename_i hf; simp [hf] at hcr
    · exact hcr
  rw [stripEol_lf] at hlast
  split at hlast
  · rename_i hx
    obtain ⟨z, rfl⟩ := List.getLast?_eq_some_iff.mp hx
    rw [List.dropLast_concat] at hlast
    obtain ⟨u, rfl⟩ := List.getLast?_eq_some_iff.mp hlast
    exact ⟨u, by simp⟩
  · rename_i hx; exact absurd hlast hx

theorem no_trailing_cr_of_no_crcrlf {b : List UInt8} {exs : List Example}
    (hb : LineComplete b) (hno : ¬ [CR, CR, LF] <:+: b)
    (h : parseCorpusWith false b = .ok exs) :
    ∀ e ∈ exs, ∀ w ∈ e.tokens, NoTrailingCR w := by
  refine parseLoop_words_of_lines false NoTrailingCR (rawLines b) [] [] exs ?_
    (by simp) (by simp) h
  intro raw hraw w hc hcr
  have hsuf := trailing_cr_of_token (rawLines_end_lf hb raw hraw) hc hcr
  have hinf : raw <:+: b := by
    have := List.infix_of_mem_flatten hraw
    rwa [rawLines_flatten] at this
  exact hno (hsuf.isInfix.trans hinf)

/-! ### Top-level consequences -/

theorem parseCorpusWith_write (fixed : Bool) (es : List Example)
    (hes : ∀ e ∈ es, ExampleWF e) :
    parseCorpusWith fixed (writeCorpus es) = .ok (keepNonEmpty es) := by
  have := parseLoop_examples fixed es hes [] []
  simp only [List.append_nil, List.nil_append] at this
  rw [parseCorpusWith, this]
  simp [rawLines, parseLoop]

theorem keepNonEmpty_of_all {es : List Example} (h : ∀ e ∈ es, e.NonEmpty) :
    keepNonEmpty es = es := by
  unfold keepNonEmpty
  rw [List.filter_eq_self]
  intro e he
  simpa using h e he

theorem parseCorpusWith_write_trailing (fixed : Bool) (es : List Example) (ws : List Word)
    (hes : ∀ e ∈ es, ExampleWF e) (hws : ∀ w ∈ ws, WordWF w) :
    parseCorpusWith fixed (writeCorpus es ++ ws.flatMap writeWord) = .ok (keepNonEmpty es) := by
  have h1 := parseLoop_examples fixed es hes [] (ws.flatMap writeWord)
  have h2 := parseLoop_words fixed (keepNonEmpty es) ws hws [] []
  simp only [List.append_nil, List.nil_append] at h1 h2
  rw [parseCorpusWith, h1, h2]
  simp [rawLines, parseLoop]

theorem parseCorpusWith_good {fixed : Bool} {b : List UInt8} {exs : List Example}
    (h : parseCorpusWith fixed b = .ok exs) : ∀ e ∈ exs, GoodExample fixed e :=
  parseLoop_inv fixed (rawLines b) [] [] exs (rawLines_shape b) (by simp) (by simp) h

theorem parseCorpusWith_ok_valid {fixed : Bool} {b : List UInt8} {exs : List Example}
    (h : parseCorpusWith fixed b = .ok exs) : validUtf8 b = true := by
  have := parseLoop_ok_valid fixed (rawLines b) [] [] exs h
  rwa [rawLines_flatten] at this

theorem parseCorpusWith_ne_panic (fixed : Bool) (b : List UInt8) :
    parseCorpusWith fixed b ≠ .panic := by
  unfold parseCorpusWith
  generalize rawLines b = lines
  suffices ∀ exs toks, parseLoop fixed exs toks lines ≠ .panic from this [] []
  induction lines with
  | nil => intro exs toks; simp [parseLoop]
  | cons raw rest ih =>
    intro exs toks
    simp only [parseLoop]
    split
    · simp
    · split
      · exact ih _ _
      · split <;> exact ih _ _
      · simp

theorem parseCorpusWith_bad_line (fixed : Bool) {pre body : List UInt8} (post : List UInt8)
    (hpre : LineComplete pre) (hbody : LF ∉ body)
    (hbad : validUtf8 (body ++ [LF]) = false ∨
      classify fixed (stripEol (body ++ [LF])) = .bad) :
    parseCorpusWith fixed (pre ++ body ++ LF :: post) = .err := by
  rw [parseCorpusWith, List.append_assoc, rawLines_append_complete hpre,
    rawLines_append_lf hbody]
  exact parseLoop_bad_line fixed _ _ _ hbad [] []

theorem parseCorpusWith_bad_last_line (fixed : Bool) {pre body : List UInt8}
    (hpre : LineComplete pre) (hbody : LF ∉ body) (hne : body ≠ [])
    (hbad : validUtf8 body = false ∨ classify fixed body = .bad) :
    parseCorpusWith fixed (pre ++ body) = .err := by
  rw [parseCorpusWith, rawLines_append_complete hpre, rawLines_no_lf hbody hne]
  refine parseLoop_bad_line fixed _ _ _ ?_ [] []
  rwa [stripEol_no_lf hbody]

theorem mecabOutput_eq_writeExample (toks : List Word) :
    mecabOutput toks = writeExample ⟨toks⟩ := by
  have : (fun t : Word => t.surface ++ [TAB] ++ t.feature ++ [LF]) = writeWord := by
    funext t; simp [writeWord]
  unfold mecabOutput writeExample eosLine
  rw [this, List.append_assoc]

end Vibrato.Corpus
