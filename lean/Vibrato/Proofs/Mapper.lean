/-
Helper lemmas for the id-mapping model (`Vibrato/Model/Mapper.lean`), used by
`Props/C06map.lean` and `Props/C13probs.lean`.  Core Lean only.
-/
import Vibrato.Model.Mapper

namespace Vibrato.Mapper
open Outcome

/-! ### `Outcome` -/

@[simp] theorem andThen_ok {α β : Type} (a : α) (f : α → Outcome β) :
    (Outcome.ok a).andThen f = f a := rfl
@[simp] theorem andThen_err {α β : Type} (f : α → Outcome β) :
    (Outcome.err : Outcome α).andThen f = .err := rfl
@[simp] theorem andThen_panic {α β : Type} (f : α → Outcome β) :
    (Outcome.panic : Outcome α).andThen f = .panic := rfl

theorem andThen_eq_ok {α β : Type} {x : Outcome α} {f : α → Outcome β} {b : β} :
    x.andThen f = .ok b ↔ ∃ a, x = .ok a ∧ f a = .ok b := by
  cases x <;> simp

/-! ### Permutation tables -/

/-- A list that, read as the table `i ↦ t[i]`, is a bijection of `0..t.length`. -/
def PermTable (t : List Nat) : Prop := t.Nodup ∧ ∀ x ∈ t, x < t.length

instance (t : List Nat) : Decidable (PermTable t) := by unfold PermTable; infer_instance

/-- `m` is a permutation of `[1, …, m.length]`. -/
def IsPerm1 (m : List Nat) : Prop := m.Perm (List.range' 1 m.length)

instance (m : List Nat) : Decidable (IsPerm1 m) := by unfold IsPerm1; infer_instance

theorem nodup_bounded_perm_range' {m : List Nat} (hnd : m.Nodup)
    (hb : ∀ x ∈ m, 1 ≤ x ∧ x ≤ m.length) : m.Perm (List.range' 1 m.length) := by
  have hnd' : (List.range' 1 m.length).Nodup := List.nodup_range'
  rw [List.perm_ext_iff_of_nodup hnd hnd']
  intro a
  constructor
  · intro ha
    have := hb a ha
    rw [List.mem_range'_1]
    omega
  · intro ha
    -- pigeonhole: `range' 1 n ⊆ m` because `m ⊆ range' 1 n`, both nodup, same length
    apply Classical.byContradiction
    intro hna
    have hsub : m ⊆ (List.range' 1 m.length).erase a := by
      intro x hx
      have hxa : x ≠ a := fun h => hna (h ▸ hx)
      rw [List.mem_erase_of_ne hxa]
      have := hb x hx
      rw [List.mem_range'_1]
      omega
    have hle := hnd.length_le_of_subset hsub
    rw [List.length_erase] at hle
    simp [ha] at hle
    have : 1 ≤ m.length := by
      rw [List.mem_range'_1] at ha
      omega
    omega

theorem isPerm1_iff {m : List Nat} :
    IsPerm1 m ↔ m.Nodup ∧ ∀ x ∈ m, 1 ≤ x ∧ x ≤ m.length := by
  constructor
  · intro h
    refine ⟨(List.Perm.nodup_iff h).2 List.nodup_range', ?_⟩
    intro x hx
    have := (List.Perm.mem_iff h).1 hx
    rw [List.mem_range'_1] at this
    omega
  · intro ⟨h1, h2⟩
    exact nodup_bounded_perm_range' h1 h2

/-! ### `parseMap` -/

theorem pushIds_eq (acc m : List Nat) :
    pushIds acc m = if 0 ∈ m then .err else .ok (acc ++ m) := by
  induction m generalizing acc with
  | nil => simp [pushIds]
  | cons x xs ih =>
    simp only [pushIds]
    by_cases hx : x = 0
    · simp [hx]
    · simp only [hx, if_false, ih]
      have : (0 ∈ x :: xs) ↔ 0 ∈ xs := by
        simp [List.mem_cons]; omega
      simp [this]

/-- Characterisation of the second loop of `parse`. -/
theorem assignIds_ok_iff (newIds : List Nat) (k : Nat) (os : List Nat) (σ : List Nat) :
    assignIds newIds k os = .ok σ ↔
      os.Nodup ∧ (∀ o ∈ os, newIds[o]? = some u16max) ∧ (os ≠ [] → k + os.length ≤ 65536) ∧
      σ.length = newIds.length ∧
      (∀ i (h : i < os.length), σ[os[i]]? = some (k + i)) ∧
      (∀ j, j ∉ os → σ[j]? = newIds[j]?) := by
  induction os generalizing newIds k with
  | nil =>
    simp only [assignIds, Outcome.ok.injEq]
    constructor
    · intro h; subst h; simp
    · intro ⟨_, _, _, hl, _, hj⟩
      apply List.ext_getElem?
      intro j
      exact (hj j (by simp)).symm
  | cons o os ih =>
    simp only [assignIds]
    cases hno : newIds[o]? with
    | none =>
      simp only [reduceCtorEq, false_iff]
      intro ⟨_, h2, _⟩
      have := h2 o (by simp)
      rw [hno] at this
      cases this
    | some e =>
      simp only
      by_cases he : e = u16max
      · subst he
        simp only [ne_eq, not_true_eq_false, if_false]
        by_cases hk : k > u16max
        · simp only [hk, if_true, reduceCtorEq, false_iff]
          intro ⟨_, _, h3, _⟩
          have := h3 (by simp)
          simp [u16max] at hk this
          omega
        · simp only [hk, if_false]
          rw [ih]
          have ho : o < newIds.length := by
            rcases List.getElem?_eq_some_iff.1 hno with ⟨h, _⟩
            exact h
          constructor
          · intro ⟨hnd, hall, hlen, hl, hidx, hfr⟩
            have hnotin : o ∉ os := by
              intro hmem
              have h1 := hall o hmem
              rw [List.getElem?_set_self ho] at h1
              have hne : os ≠ [] := by
                intro h; subst h; cases hmem
              have h2 := hlen hne
              have h3 : 0 < os.length := List.length_pos_iff.2 hne
              simp [u16max] at h1
              omega
            refine ⟨List.nodup_cons.2 ⟨hnotin, hnd⟩, ?_, ?_, ?_, ?_, ?_⟩
            · intro o' ho'
              rcases List.mem_cons.1 ho' with h | h
              · subst h; exact hno
              · have hne : o ≠ o' := fun hh => hnotin (hh ▸ h)
                have := hall o' h
                rwa [List.getElem?_set_ne hne] at this
            · intro _
              simp only [List.length_cons]
              by_cases hne : os = []
              · subst hne
                simp [u16max] at hk ⊢
                omega
              · have := hlen hne
                omega
            · simpa using hl
            · intro i hi
              cases i with
              | zero =>
                simp only [List.getElem_cons_zero, Nat.add_zero]
                rw [hfr o hnotin, List.getElem?_set_self ho]
              | succ i =>
                simp only [List.getElem_cons_succ]
                have := hidx i (by simpa using hi)
                rw [this]
                congr 1
                omega
            · intro j hj
              have hj1 : j ∉ os := fun h => hj (List.mem_cons_of_mem _ h)
              have hj2 : o ≠ j := fun h => hj (h ▸ List.mem_cons_self)
              rw [hfr j hj1, List.getElem?_set_ne hj2]
          · intro ⟨hnd, hall, hlen, hl, hidx, hfr⟩
            have hnd' := List.nodup_cons.1 hnd
            refine ⟨hnd'.2, ?_, ?_, ?_, ?_, ?_⟩
            · intro o' ho'
              have hne : o ≠ o' := fun hh => hnd'.1 (hh ▸ ho')
              rw [List.getElem?_set_ne hne]
              exact hall o' (List.mem_cons_of_mem _ ho')
            · intro _
              have := hlen (by simp)
              simp only [List.length_cons] at this
              omega
            · simpa using hl
            · intro i hi
              have := hidx (i + 1) (by simpa using hi)
              simp only [List.getElem_cons_succ] at this
              rw [this]
              congr 1
              omega
            · intro j hj
              by_cases hjo : o = j
              · subst hjo
                have := hidx 0 (by simp)
                simp only [List.getElem_cons_zero, Nat.add_zero] at this
                rw [this, List.getElem?_set_self ho]
              · rw [List.getElem?_set_ne hjo]
                apply hfr
                intro h
                rcases List.mem_cons.1 h with h | h
                · exact hjo h.symm
                · exact hj h
      · simp only [ne_eq, he, not_false_eq_true, if_true, reduceCtorEq, false_iff]
        intro ⟨_, h2, _⟩
        have := h2 o (by simp)
        rw [hno] at this
        exact he (Option.some.inj this)

/-- The specification of the table returned by `parse`: the inverse placement of `m`. -/
def IsInvTable (m σ : List Nat) : Prop :=
  σ.length = m.length + 1 ∧ σ[0]? = some 0 ∧ ∀ i (h : i < m.length), σ[m[i]]? = some (i + 1)

theorem parseMap_ok_iff (m σ : List Nat) :
    parseMap m = .ok σ ↔ IsPerm1 m ∧ m.length ≤ 65535 ∧ IsInvTable m σ := by
  unfold parseMap
  rw [pushIds_eq]
  by_cases h0 : 0 ∈ m
  · simp only [h0, if_true, andThen_err, reduceCtorEq, false_iff]
    intro ⟨hp, _⟩
    have := (isPerm1_iff.1 hp).2 0 h0
    omega
  · simp only [h0, if_false, andThen_ok, List.cons_append, List.nil_append, List.length_cons,
      List.drop_succ_cons, List.drop_zero]
    rw [assignIds_ok_iff]
    have hget : ∀ o, ((List.replicate (m.length + 1) u16max).set 0 0)[o]? = some u16max ↔
        1 ≤ o ∧ o ≤ m.length := by
      intro o
      cases o with
      | zero => simp [u16max]
      | succ o =>
        rw [List.getElem?_set_ne (by omega)]
        simp [List.getElem?_replicate]
        omega
    constructor
    · intro ⟨hnd, hall, hlen, hl, hidx, hfr⟩
      refine ⟨isPerm1_iff.2 ⟨hnd, fun x hx => (hget x).1 (hall x hx)⟩, ?_, ?_, ?_, ?_⟩
      · by_cases hm : m = []
        · subst hm; simp
        · have := hlen hm; omega
      · simpa using hl
      · rw [hfr 0 h0]; simp
      · intro i hi
        rw [hidx i hi]
        congr 1
        omega
    · intro ⟨hp, hlen, hl, h0', hidx⟩
      have hp' := isPerm1_iff.1 hp
      refine ⟨hp'.1, fun o ho => (hget o).2 (hp'.2 o ho), fun _ => by omega, by simpa using hl,
        ?_, ?_⟩
      · intro i hi
        rw [hidx i hi]
        congr 1
        omega
      · intro j hj
        -- every index `1..m.length` occurs in `m`, so `j = 0` or `j` is out of range
        have hmem : ∀ a, a ∈ m ↔ a ∈ List.range' 1 m.length := fun a => List.Perm.mem_iff hp
        have hj' : ¬ (1 ≤ j ∧ j ≤ m.length) := by
          intro hh
          apply hj
          rw [hmem, List.mem_range'_1]
          omega
        by_cases hj0 : j = 0
        · subst hj0; rw [h0']; simp
        · have hbig : m.length + 1 ≤ j := by omega
          rw [List.getElem?_eq_none (by omega), List.getElem?_eq_none (by simp; omega)]

/-! ### Tables as functions -/

theorem permTable_iff (t : List Nat) :
    PermTable t ↔
      (∀ i j (hi : i < t.length) (hj : j < t.length), t[i] = t[j] → i = j) ∧
      (∀ i (hi : i < t.length), t[i] < t.length) := by
  unfold PermTable
  constructor
  · intro ⟨hnd, hb⟩
    refine ⟨?_, fun i hi => hb _ (List.getElem_mem hi)⟩
    intro i j hi hj heq
    have hp := List.pairwise_iff_getElem.1 hnd
    apply Classical.byContradiction
    intro hne
    rcases Nat.lt_or_gt_of_ne hne with h | h
    · exact hp i j hi hj h heq
    · exact hp j i hj hi h heq.symm
  · intro ⟨hinj, hb⟩
    refine ⟨List.pairwise_iff_getElem.2 ?_, ?_⟩
    · intro i j hi hj hlt heq
      have := hinj i j hi hj heq
      omega
    · intro x hx
      rcases List.mem_iff_getElem.1 hx with ⟨i, hi, rfl⟩
      exact hb i hi

theorem PermTable.inj {t : List Nat} (h : PermTable t) {i j a : Nat}
    (hi : t[i]? = some a) (hj : t[j]? = some a) : i = j := by
  rcases List.getElem?_eq_some_iff.1 hi with ⟨hi', e1⟩
  rcases List.getElem?_eq_some_iff.1 hj with ⟨hj', e2⟩
  exact ((permTable_iff t).1 h).1 i j hi' hj' (e1.trans e2.symm)

theorem PermTable.bound {t : List Nat} (h : PermTable t) {i a : Nat}
    (hi : t[i]? = some a) : a < t.length := by
  rcases List.getElem?_eq_some_iff.1 hi with ⟨hi', e1⟩
  exact e1 ▸ ((permTable_iff t).1 h).2 i hi'

/-- The table returned by `parse` is a bijection of `0..m.length` fixing 0. -/
theorem invTable_permTable {m σ : List Nat} (hp : IsPerm1 m) (hσ : IsInvTable m σ) :
    PermTable σ := by
  obtain ⟨hl, h0, hidx⟩ := hσ
  -- every index is 0 or some `m[i]`
  have hcases : ∀ j, j < σ.length → (j = 0 ∧ σ[j]? = some 0) ∨
      ∃ i, i < m.length ∧ σ[j]? = some (i + 1) := by
    intro j hj
    by_cases hj0 : j = 0
    · subst hj0; exact Or.inl ⟨rfl, h0⟩
    · right
      have hmem : j ∈ m := by
        rw [List.Perm.mem_iff hp, List.mem_range'_1]; omega
      rcases List.mem_iff_getElem.1 hmem with ⟨i, hi, e⟩
      exact ⟨i, hi, e ▸ hidx i hi⟩
  rw [permTable_iff]
  constructor
  · intro i j hi hj heq
    have e1 : σ[i]? = some σ[i] := List.getElem?_eq_getElem hi
    have e2 : σ[j]? = some σ[j] := List.getElem?_eq_getElem hj
    rcases hcases i hi with ⟨hi0, hv⟩ | ⟨a, ha, hv⟩ <;>
    rcases hcases j hj with ⟨hj0, hw⟩ | ⟨b, hb, hw⟩
    · omega
    · rw [e1] at hv; rw [e2] at hw
      have := Option.some.inj hv; have := Option.some.inj hw; omega
    · rw [e1] at hv; rw [e2] at hw
      have := Option.some.inj hv; have := Option.some.inj hw; omega
    · rw [e1] at hv; rw [e2] at hw
      have h1 := Option.some.inj hv; have h2 := Option.some.inj hw
      have hab : a = b := by omega
      subst hab
      -- both `i` and `j` are the index whose entry is `a+1`; they are `m[a]`
      have hia : i = m[a] := by
        apply Classical.byContradiction
        intro hne
        rcases hcases i hi with ⟨hi0, hv'⟩ | ⟨a', ha', hv'⟩
        · rw [e1] at hv'; have := Option.some.inj hv'; omega
        · have hmem : i ∈ m := by
            by_cases hi0 : i = 0
            · subst hi0; rw [h0] at e1; have := Option.some.inj e1; omega
            · rw [List.Perm.mem_iff hp, List.mem_range'_1]; omega
          rcases List.mem_iff_getElem.1 hmem with ⟨c, hc, e⟩
          have := hidx c hc
          rw [e, e1] at this
          have := Option.some.inj this
          have hca : c = a := by omega
          subst hca
          exact hne e.symm
      have hja : j = m[a] := by
        apply Classical.byContradiction
        intro hne
        have hmem : j ∈ m := by
          by_cases hj0 : j = 0
          · subst hj0; rw [h0] at e2; have := Option.some.inj e2; omega
          · rw [List.Perm.mem_iff hp, List.mem_range'_1]; omega
        rcases List.mem_iff_getElem.1 hmem with ⟨c, hc, e⟩
        have := hidx c hc
        rw [e, e2] at this
        have := Option.some.inj this
        have hca : c = a := by omega
        subst hca
        exact hne e.symm
      omega
  · intro i hi
    have e1 : σ[i]? = some σ[i] := List.getElem?_eq_getElem hi
    rcases hcases i hi with ⟨_, hv⟩ | ⟨a, ha, hv⟩
    · rw [e1] at hv; have := Option.some.inj hv; omega
    · rw [e1] at hv; have := Option.some.inj hv; omega

/-! ### Loops that write every target once -/

theorem forEach_writes {ι α : Type} (step : ι → List α → Outcome (List α))
    (T : ι → Nat → Prop) (Post : ι → List α → Prop) (n : Nat) (xs : List ι)
    (hstab : ∀ x ∈ xs, ∀ a a', Post x a → (∀ j, T x j → a'[j]? = a[j]?) → Post x a')
    (hstep : ∀ x ∈ xs, ∀ a, a.length = n →
      ∃ a', step x a = .ok a' ∧ a'.length = n ∧ Post x a' ∧ ∀ j, ¬ T x j → a'[j]? = a[j]?)
    (hdisj : xs.Pairwise (fun x y => ∀ j, T x j → ¬ T y j))
    (acc : List α) (hacc : acc.length = n) :
    ∃ out, forEach step xs acc = .ok out ∧ out.length = n ∧ (∀ x ∈ xs, Post x out) ∧
      ∀ j, (∀ x ∈ xs, ¬ T x j) → out[j]? = acc[j]? := by
  induction xs generalizing acc with
  | nil => exact ⟨acc, rfl, hacc, by simp, by simp⟩
  | cons x xs ih =>
    obtain ⟨a', hs, hl, hpost, hframe⟩ := hstep x List.mem_cons_self acc hacc
    have hd := List.pairwise_cons.1 hdisj
    obtain ⟨out, ho, hol, hop, hof⟩ := ih
      (fun y hy => hstab y (List.mem_cons_of_mem _ hy))
      (fun y hy => hstep y (List.mem_cons_of_mem _ hy)) hd.2 a' hl
    refine ⟨out, by simp [forEach, hs, ho], hol, ?_, ?_⟩
    · intro y hy
      rcases List.mem_cons.1 hy with h | h
      · subst h
        apply hstab y List.mem_cons_self a' out hpost
        intro j hj
        exact hof j (fun z hz => hd.1 z hz j hj)
      · exact hop y h
    · intro j hj
      rw [hof j (fun z hz => hj z (List.mem_cons_of_mem _ hz)),
        hframe j (hj x List.mem_cons_self)]

/-! ### `permuteBy` -/

theorem permuteBy_spec {α : Type} (tbl : List Nat) (src : List α) (dflt : α) (n : Nat)
    (hn : tbl.length = n) (hs : src.length = n) (hp : PermTable tbl) (h16 : n ≤ 65536) :
    ∃ out, permuteBy tbl n src dflt = .ok out ∧ out.length = n ∧
      ∀ (i t : Nat), tbl[i]? = some t → out[t]? = src[i]? := by
  unfold permuteBy
  obtain ⟨out, ho, hol, hop, _⟩ := forEach_writes (permuteStep tbl src)
    (fun (i j : Nat) => tbl[i]? = some j)
    (fun (i : Nat) out => ∀ t : Nat, tbl[i]? = some t → out[t]? = src[i]?)
    n (List.range n)
    (by
      intro x _ a a' hpost hsame t ht
      rw [hsame t ht]; exact hpost t ht)
    (by
      intro x hx a ha
      have hx' : x < n := List.mem_range.1 hx
      have hxt : x < tbl.length := by omega
      have hxs : x < src.length := by omega
      have hb : tbl[x] < n := hn ▸ ((permTable_iff tbl).1 hp).2 x hxt
      refine ⟨a.set tbl[x] src[x], ?_, by simp [ha], ?_, ?_⟩
      · have hgt : ¬ x > u16max := by simp [u16max]; omega
        have hlt : tbl[x] < a.length := by omega
        simp [permuteStep, hgt, List.getElem?_eq_getElem hxt, List.getElem?_eq_getElem hxs, hlt]
      · intro t ht
        rw [List.getElem?_eq_getElem hxt] at ht
        cases ht
        rw [List.getElem?_set_self (by omega), List.getElem?_eq_getElem hxs]
      · intro j hj
        rw [List.getElem?_eq_getElem hxt] at hj
        rw [List.getElem?_set_ne (fun h => hj (by rw [h]))])
    (by
      apply List.Pairwise.imp_of_mem (R := fun a b => a ≠ b)
      · intro a b _ _ hab j hja hjb
        exact hab (hp.inj hja hjb)
      · exact List.nodup_range)
    (List.replicate src.length dflt) (by simp [hs])
  exact ⟨out, ho, hol, fun i t ht => by
    have hi : i < n := by
      rcases List.getElem?_eq_some_iff.1 ht with ⟨h, _⟩; omega
    exact hop i (List.mem_range.2 hi) t ht⟩

/-! ### Matrix connector -/

/-- The table of a matrix connector has `num_right * num_left` cells. -/
def Matrix.WF (C : Matrix) : Prop := C.data.length = C.numRight * C.numLeft

instance (C : Matrix) : Decidable C.WF := by unfold Matrix.WF; infer_instance

theorem idx_lt {r l nR nL : Nat} (hr : r < nR) (hl : l < nL) : l * nR + r < nR * nL := by
  have h1 : (l + 1) * nR ≤ nL * nR := Nat.mul_le_mul_right nR hl
  rw [Nat.add_mul, Nat.one_mul, Nat.mul_comm nL nR] at h1
  omega

theorem idx_inj {r r' l l' nR : Nat} (hr : r < nR) (hr' : r' < nR)
    (h : l * nR + r = l' * nR + r') : r = r' ∧ l = l' := by
  have h1 : (l * nR + r) % nR = r := by
    rw [Nat.add_comm, Nat.add_mul_mod_self_right, Nat.mod_eq_of_lt hr]
  have h2 : (l' * nR + r') % nR = r' := by
    rw [Nat.add_comm, Nat.add_mul_mod_self_right, Nat.mod_eq_of_lt hr']
  have hrr : r = r' := by rw [← h1, ← h2, h]
  subst hrr
  refine ⟨rfl, ?_⟩
  have : l * nR = l' * nR := by omega
  exact Nat.eq_of_mul_eq_mul_right (by omega) this

theorem Matrix.cost_eq (C : Matrix) (hwf : C.WF) {r l : Nat} (hr : r < C.numRight)
    (hl : l < C.numLeft) :
    C.cost r l = match C.data[l * C.numRight + r]? with
      | some v => .ok v
      | none => .panic := by
  have := idx_lt hr hl
  unfold Matrix.cost Matrix.index
  rw [if_pos ⟨hr, hl, by rw [hwf]; exact this⟩]
  rfl

theorem Matrix.map_spec (C : Matrix) (m : Mapper) (hwf : C.WF)
    (hl : m.left.length = C.numLeft) (hr : m.right.length = C.numRight)
    (hpl : PermTable m.left) (hpr : PermTable m.right)
    (h16l : C.numLeft ≤ 65536) (h16r : C.numRight ≤ 65536) :
    ∃ C', C.map m = .ok C' ∧ C'.numRight = C.numRight ∧ C'.numLeft = C.numLeft ∧ C'.WF ∧
      ∀ (r l nr nl : Nat), m.right[r]? = some nr → m.left[l]? = some nl →
        C'.cost nr nl = C.cost r l := by
  -- inner loop
  have inner : ∀ (r nr : Nat), r < C.numRight → m.right[r]? = some nr →
      ∀ acc : List Int, acc.length = C.data.length →
      ∃ out, forEach (Matrix.mapCell m C r nr) (List.range C.numLeft) acc = .ok out ∧
        out.length = C.data.length ∧
        (∀ (l nl : Nat), m.left[l]? = some nl →
          out[nl * C.numRight + nr]? = C.data[l * C.numRight + r]?) ∧
        ∀ j : Nat, (∀ (l nl : Nat), m.left[l]? = some nl → j ≠ nl * C.numRight + nr) →
          out[j]? = acc[j]? := by
    intro r nr hr' hnr acc hacc
    have hnrb : nr < C.numRight := hr ▸ hpr.bound hnr
    obtain ⟨out, ho, hol, hop, hof⟩ := forEach_writes (Matrix.mapCell m C r nr)
      (fun (l j : Nat) => ∃ nl : Nat, m.left[l]? = some nl ∧ j = nl * C.numRight + nr)
      (fun (l : Nat) out => ∀ nl : Nat, m.left[l]? = some nl →
          out[nl * C.numRight + nr]? = C.data[l * C.numRight + r]?)
      C.data.length (List.range C.numLeft)
      (by
        intro x _ a a' hpost hsame nl hnl
        rw [hsame _ ⟨nl, hnl, rfl⟩]; exact hpost nl hnl)
      (by
        intro x hx a ha
        have hx' : x < C.numLeft := List.mem_range.1 hx
        have hxt : x < m.left.length := by omega
        have hnl : m.left[x]? = some m.left[x] := List.getElem?_eq_getElem hxt
        have hb : m.left[x] < C.numLeft := hl ▸ hpl.bound hnl
        have hi1 := idx_lt hr' hx'
        have hi2 := idx_lt hnrb hb
        have hw : C.data.length = C.numRight * C.numLeft := hwf
        have hd : ∀ (l : Nat) (h : l < C.data.length), C.data[l]? = some (C.data[l]'h) :=
          fun l h => List.getElem?_eq_getElem h
        have hi1' : x * C.numRight + r < C.data.length := by omega
        refine ⟨a.set (m.left[x] * C.numRight + nr) C.data[x * C.numRight + r], ?_,
          by simp [ha], ?_, ?_⟩
        · have hmod : x % 65536 = x := Nat.mod_eq_of_lt (by omega)
          simp only [Matrix.mapCell, hmod, Mapper.leftAt, hnl, andThen_ok, Matrix.index]
          rw [if_pos ⟨hr', hx', by omega⟩, andThen_ok, if_pos ⟨hnrb, hb, by omega⟩, andThen_ok,
            hd _ hi1']
          simp only
          rw [if_pos (by omega)]
        · intro nl hnl'
          rw [hnl] at hnl'
          cases hnl'
          rw [List.getElem?_set_self (by omega), hd _ hi1']
        · intro j hj
          rw [List.getElem?_set_ne]
          intro h
          exact hj ⟨_, hnl, h.symm⟩)
      (by
        apply List.Pairwise.imp_of_mem (R := fun a b => a ≠ b)
        · intro a b _ _ hab j ⟨nl, h1, e1⟩ ⟨nl', h2, e2⟩
          have := (idx_inj hnrb hnrb (e1.symm.trans e2)).2
          subst this
          exact hab (hpl.inj h1 h2)
        · exact List.nodup_range)
      acc hacc
    refine ⟨out, ho, hol, ?_, ?_⟩
    · intro l nl hnl
      have hlt : l < C.numLeft := by
        rcases List.getElem?_eq_some_iff.1 hnl with ⟨h, _⟩; omega
      exact hop l (List.mem_range.2 hlt) nl hnl
    · intro j hj
      apply hof
      intro l _ ⟨nl, h1, e1⟩
      exact hj l nl h1 e1
  -- outer loop
  obtain ⟨out, ho, hol, hop, _⟩ := forEach_writes (Matrix.mapRow m C)
    (fun (r j : Nat) => ∃ nr l nl : Nat, m.right[r]? = some nr ∧ m.left[l]? = some nl ∧
        j = nl * C.numRight + nr)
    (fun (r : Nat) out => ∀ nr l nl : Nat, m.right[r]? = some nr → m.left[l]? = some nl →
        out[nl * C.numRight + nr]? = C.data[l * C.numRight + r]?)
    C.data.length (List.range C.numRight)
    (by
      intro x _ a a' hpost hsame nr l nl h1 h2
      rw [hsame _ ⟨nr, l, nl, h1, h2, rfl⟩]; exact hpost nr l nl h1 h2)
    (by
      intro x hx a ha
      have hx' : x < C.numRight := List.mem_range.1 hx
      have hxt : x < m.right.length := by omega
      have hnr : m.right[x]? = some m.right[x] := List.getElem?_eq_getElem hxt
      obtain ⟨o, ho, hol, hop, hof⟩ := inner x m.right[x] hx' hnr a ha
      refine ⟨o, ?_, hol, ?_, ?_⟩
      · have hmod : x % 65536 = x := Nat.mod_eq_of_lt (by omega)
        simp only [Matrix.mapRow, hmod, Mapper.rightAt, hnr, andThen_ok, ho]
      · intro nr l nl h1 h2
        rw [hnr] at h1
        cases h1
        exact hop l nl h2
      · intro j hj
        apply hof
        intro l nl h2 e
        exact hj ⟨_, l, nl, hnr, h2, e⟩)
    (by
      apply List.Pairwise.imp_of_mem (R := fun a b => a ≠ b)
      · intro a b _ _ hab j ⟨nr, l, nl, h1, h2, e1⟩ ⟨nr', l', nl', h1', h2', e2⟩
        have hb1 : nr < C.numRight := hr ▸ hpr.bound h1
        have hb2 : nr' < C.numRight := hr ▸ hpr.bound h1'
        have := (idx_inj hb1 hb2 (e1.symm.trans e2)).1
        subst this
        exact hab (hpr.inj h1 h1')
      · exact List.nodup_range)
    (List.replicate C.data.length 0) (by simp)
  have hwf' : Matrix.WF { C with data := out } := by
    unfold Matrix.WF; simp only; rw [hol]; exact hwf
  refine ⟨{ C with data := out }, ?_, rfl, rfl, hwf', ?_⟩
  · unfold Matrix.map
    rw [if_neg (by omega), if_neg (by omega), ho]
    rfl
  · intro r l nr nl h1 h2
    have hrl : r < C.numRight := by
      rcases List.getElem?_eq_some_iff.1 h1 with ⟨h, _⟩; omega
    have hll : l < C.numLeft := by
      rcases List.getElem?_eq_some_iff.1 h2 with ⟨h, _⟩; omega
    have hb1 : nr < C.numRight := hr ▸ hpr.bound h1
    have hb2 : nl < C.numLeft := hl ▸ hpl.bound h2
    rw [Matrix.cost_eq _ hwf' (r := nr) (l := nl) hb1 hb2, Matrix.cost_eq _ hwf hrl hll]
    simp only
    rw [hop r (List.mem_range.2 hrl) nr l nl h1 h2]

/-! ### Raw connector -/

theorem Raw.map_spec (score : List Nat → List Nat → Int) (C : Raw) (m : Mapper)
    (hl : m.left.length = C.numLeft) (hr : m.right.length = C.numRight)
    (hpl : PermTable m.left) (hpr : PermTable m.right)
    (h16l : C.numLeft ≤ 65535) (h16r : C.numRight ≤ 65535) :
    ∃ C', C.map m = .ok C' ∧ C'.numRight = C.numRight ∧ C'.numLeft = C.numLeft ∧
      ∀ (r l nr nl : Nat), m.right[r]? = some nr → m.left[l]? = some nl →
        C'.cost score nr nl = C.cost score r l := by
  obtain ⟨rr, hrr, hrl, hrs⟩ := permuteBy_spec m.right C.rightRows (List.replicate C.width 0)
    C.numRight hr rfl hpr (by omega)
  obtain ⟨lr, hlr, hll, hls⟩ := permuteBy_spec m.left C.leftRows (List.replicate C.width 0)
    C.numLeft hl rfl hpl (by omega)
  refine ⟨{ C with rightRows := rr, leftRows := lr }, ?_, hrl, hll, ?_⟩
  · unfold Raw.map
    rw [if_neg (by omega), if_neg (by omega), hrr, andThen_ok, hlr, andThen_ok]
  · intro r l nr nl h1 h2
    have hrlt : r < C.numRight := by
      rcases List.getElem?_eq_some_iff.1 h1 with ⟨h, _⟩; omega
    have hllt : l < C.numLeft := by
      rcases List.getElem?_eq_some_iff.1 h2 with ⟨h, _⟩; omega
    have hb1 : nr < C.numRight := hr ▸ hpr.bound h1
    have hb2 : nl < C.numLeft := hl ▸ hpl.bound h2
    have c1 : ¬ r ≥ u16max := by simp [u16max]; omega
    have c2 : ¬ l ≥ u16max := by simp [u16max]; omega
    have c3 : ¬ nr ≥ u16max := by simp [u16max]; omega
    have c4 : ¬ nl ≥ u16max := by simp [u16max]; omega
    simp only [Raw.cost, c1, c2, c3, c4, if_false, hrs r nr h1, hls l nl h2]

/-! ### Dual connector -/

/-- Invariant of the first-appearance renumbering table. -/
def TInv (table : List Nat) (cnt : Nat) : Prop :=
  cnt = table.countP (fun v => v != u16max) ∧
  (∀ (j v : Nat), table[j]? = some v → v ≠ u16max → v < cnt) ∧
  (∀ (j j' v : Nat), table[j]? = some v → table[j']? = some v → v ≠ u16max → j = j')

theorem TInv.init (n : Nat) : TInv (List.replicate n u16max) 0 := by
  refine ⟨?_, ?_, ?_⟩
  · simp [List.countP_replicate]
  · intro j v h hv
    simp only [List.getElem?_replicate] at h
    split at h
    · exact absurd (Option.some.inj h).symm hv
    · cases h
  · intro j j' v h _ hv
    simp only [List.getElem?_replicate] at h
    split at h
    · exact absurd (Option.some.inj h).symm hv
    · cases h

theorem renumber_spec (table : List Nat) (cnt : Nat) (ids : List Nat) (hinv : TInv table cnt)
    (hids : ∀ i ∈ ids, i < table.length) (hcnt : cnt + ids.length ≤ 65535) :
    ∃ out table' cnt', renumber table cnt ids = .ok (out, table') ∧ TInv table' cnt' ∧
      table'.length = table.length ∧ out.length = ids.length ∧
      (∀ (j v : Nat), table[j]? = some v → v ≠ u16max → table'[j]? = some v) ∧
      (∀ (k i : Nat), ids[k]? = some i →
        ∃ v, table'[i]? = some v ∧ v ≠ u16max ∧ out[k]? = some v) := by
  induction ids generalizing table cnt with
  | nil => exact ⟨[], table, cnt, rfl, hinv, rfl, rfl, fun _ _ h _ => h, by simp⟩
  | cons i is ih =>
    have hi : i < table.length := hids i List.mem_cons_self
    have hget : table[i]? = some table[i] := List.getElem?_eq_getElem hi
    simp only [List.length_cons] at hcnt
    by_cases hmp : table[i] = u16max
    · -- fresh inner id
      have hc : cnt ≠ u16max := by simp [u16max]; omega
      have hinv' : TInv (table.set i cnt) (cnt + 1) := by
        obtain ⟨h1, h2, h3⟩ := hinv
        refine ⟨?_, ?_, ?_⟩
        · rw [List.countP_set hi, hmp, ← h1]
          simp [hc]
        · intro j v hj hv
          by_cases hji : i = j
          · subst hji
            rw [List.getElem?_set_self hi] at hj
            cases hj; omega
          · rw [List.getElem?_set_ne hji] at hj
            have := h2 j v hj hv; omega
        · intro j j' v hj hj' hv
          by_cases hji : i = j <;> by_cases hji' : i = j'
          · omega
          · subst hji
            rw [List.getElem?_set_self hi] at hj
            rw [List.getElem?_set_ne hji'] at hj'
            cases hj
            have := h2 j' _ hj' hv; omega
          · subst hji'
            rw [List.getElem?_set_self hi] at hj'
            rw [List.getElem?_set_ne hji] at hj
            cases hj'
            have := h2 j _ hj hv; omega
          · rw [List.getElem?_set_ne hji] at hj
            rw [List.getElem?_set_ne hji'] at hj'
            exact h3 j j' v hj hj' hv
      obtain ⟨out, t', c', hr, hti, htl, hol, hkeep, hout⟩ := ih (table.set i cnt) (cnt + 1) hinv'
        (fun x hx => by simpa using hids x (List.mem_cons_of_mem _ hx)) (by omega)
      refine ⟨cnt :: out, t', c', ?_, hti, by simpa using htl, by simp [hol], ?_, ?_⟩
      · simp only [renumber, hget, hmp, ne_eq, not_true_eq_false, if_false, hc, hr, andThen_ok]
      · intro j v hj hv
        apply hkeep j v _ hv
        have hji : i ≠ j := by
          intro h; subst h
          rw [hget] at hj; cases hj; exact hv hmp
        rwa [List.getElem?_set_ne hji]
      · intro k x hk
        cases k with
        | zero =>
          simp only [List.getElem?_cons_zero, Option.some.injEq] at hk
          subst hk
          exact ⟨cnt, hkeep i cnt (List.getElem?_set_self hi) hc, hc, rfl⟩
        | succ k =>
          simp only [List.getElem?_cons_succ] at hk ⊢
          exact hout k x hk
    · -- already numbered
      obtain ⟨out, t', c', hr, hti, htl, hol, hkeep, hout⟩ := ih table cnt hinv
        (fun x hx => hids x (List.mem_cons_of_mem _ hx)) (by omega)
      refine ⟨table[i] :: out, t', c', ?_, hti, htl, by simp [hol], hkeep, ?_⟩
      · simp only [renumber, hget, ne_eq, hmp, not_false_eq_true, if_true, hr, andThen_ok]
      · intro k x hk
        cases k with
        | zero =>
          simp only [List.getElem?_cons_zero, Option.some.injEq] at hk
          subst hk
          exact ⟨table[i], hkeep i _ hget hmp, hmp, rfl⟩
        | succ k =>
          simp only [List.getElem?_cons_succ] at hk ⊢
          exact hout k x hk

/-- A table whose invariant holds and that has no unassigned slot is a permutation table. -/
theorem TInv.permTable {t : List Nat} {cnt : Nat} (h : TInv t cnt)
    (hfull : ∀ j, j < t.length → t[j]? ≠ some u16max) : PermTable t := by
  obtain ⟨h1, h2, h3⟩ := h
  have hcl : cnt ≤ t.length := h1 ▸ List.countP_le_length
  rw [permTable_iff]
  constructor
  · intro i j hi hj heq
    have e1 : t[i]? = some t[i] := List.getElem?_eq_getElem hi
    have e2 : t[j]? = some t[j] := List.getElem?_eq_getElem hj
    exact h3 i j t[i] e1 (heq ▸ e2) (fun hh => hfull i hi (hh ▸ e1))
  · intro i hi
    have e1 : t[i]? = some t[i] := List.getElem?_eq_getElem hi
    have := h2 i t[i] e1 (fun hh => hfull i hi (hh ▸ e1))
    omega

/-- Well-formedness of a dual connector as produced by `DualConnector::from_readers`. -/
structure Dual.WF (C : Dual) : Prop where
  matrix : C.matrix.WF
  rightLanes : C.rightLanes.length = C.rightMap.length
  leftLanes : C.leftLanes.length = C.leftMap.length
  rightIn : ∀ x ∈ C.rightMap, x < C.matrix.numRight
  leftIn : ∀ x ∈ C.leftMap, x < C.matrix.numLeft
  rightOnto : ∀ j, j < C.matrix.numRight → j ∈ C.rightMap
  leftOnto : ∀ j, j < C.matrix.numLeft → j ∈ C.leftMap

/-- Permuting by a permutation table keeps the set of elements. -/
theorem permuted_mem {α : Type} {tbl : List Nat} {src out : List α} (hp : PermTable tbl)
    (hs : src.length = tbl.length) (ho : out.length = tbl.length)
    (h : ∀ (i t : Nat), tbl[i]? = some t → out[t]? = src[i]?) :
    (∀ x, x ∈ src → x ∈ out) ∧ (∀ x, x ∈ out → x ∈ src) := by
  constructor
  · intro x hx
    rcases List.mem_iff_getElem.1 hx with ⟨i, hi, rfl⟩
    have hit : i < tbl.length := by omega
    have := h i tbl[i] (List.getElem?_eq_getElem hit)
    rw [List.getElem?_eq_getElem hi] at this
    exact List.mem_of_getElem? this
  · intro x hx
    rcases List.mem_iff_getElem.1 hx with ⟨t, ht, rfl⟩
    -- `t` is hit by some `i` (pigeonhole via nodup + length)
    have hmem : t ∈ tbl := by
      have hperm : tbl.Perm (List.range tbl.length) := by
        rw [List.perm_ext_iff_of_nodup hp.1 List.nodup_range]
        intro a
        constructor
        · intro ha; exact List.mem_range.2 (hp.2 a ha)
        · intro ha
          apply Classical.byContradiction
          intro hna
          have hsub : tbl ⊆ (List.range tbl.length).erase a := by
            intro y hy
            have hya : y ≠ a := fun hh => hna (hh ▸ hy)
            rw [List.mem_erase_of_ne hya]
            exact List.mem_range.2 (hp.2 y hy)
          have hle := hp.1.length_le_of_subset hsub
          rw [List.length_erase] at hle
          simp [ha] at hle
          have := List.mem_range.1 ha
          omega
      exact (List.Perm.mem_iff hperm).2 (List.mem_range.2 (by omega))
    rcases List.mem_iff_getElem.1 hmem with ⟨i, hi, e⟩
    have := h i t (e ▸ List.getElem?_eq_getElem hi)
    rw [List.getElem?_eq_getElem ht] at this
    exact List.mem_of_getElem? this.symm

theorem PermTable.surj {t : List Nat} (hp : PermTable t) {j : Nat} (hj : j < t.length) :
    ∃ i : Nat, t[i]? = some j := by
  have hmem : j ∈ t := by
    apply Classical.byContradiction
    intro hna
    have hsub : t ⊆ (List.range t.length).erase j := by
      intro y hy
      have hya : y ≠ j := fun hh => hna (hh ▸ hy)
      rw [List.mem_erase_of_ne hya]
      exact List.mem_range.2 (hp.2 y hy)
    have hle := hp.1.length_le_of_subset hsub
    rw [List.length_erase] at hle
    simp [List.mem_range.2 hj] at hle
    omega
  rcases List.mem_iff_getElem.1 hmem with ⟨i, hi, e⟩
  exact ⟨i, e ▸ List.getElem?_eq_getElem hi⟩

theorem onto_length_le {n : Nat} {l : List Nat} (h : ∀ j, j < n → j ∈ l) : n ≤ l.length := by
  have := (List.nodup_range (n := n)).length_le_of_subset (l₂ := l)
    (fun x hx => h x (List.mem_range.1 hx))
  simpa using this

theorem Dual.map_spec (score : List Nat → List Nat → Int) (C : Dual) (m : Mapper) (hwf : C.WF)
    (hl : m.left.length = C.numLeft) (hr : m.right.length = C.numRight)
    (hpl : PermTable m.left) (hpr : PermTable m.right)
    (h16l : C.numLeft ≤ 65535) (h16r : C.numRight ≤ 65535) :
    ∃ C', C.map m = .ok C' ∧ C'.numRight = C.numRight ∧ C'.numLeft = C.numLeft ∧ C'.WF ∧
      ∀ (r l nr nl : Nat), m.right[r]? = some nr → m.left[l]? = some nl →
        C'.cost score nr nl = C.cost score r l := by
  have hnl : C.leftMap.length = C.numLeft := rfl
  have hnr : C.rightMap.length = C.numRight := rfl
  obtain ⟨rl, hrl, hrll, hrls⟩ := permuteBy_spec m.right C.rightLanes (List.replicate 8 0)
    C.numRight hr (by rw [hwf.rightLanes]; rfl) hpr (by omega)
  obtain ⟨rm, hrm, hrml, hrms⟩ := permuteBy_spec m.right C.rightMap 0
    C.numRight hr rfl hpr (by omega)
  obtain ⟨ll, hll, hlll, hlls⟩ := permuteBy_spec m.left C.leftLanes (List.replicate 8 0)
    C.numLeft hl (by rw [hwf.leftLanes]; rfl) hpl (by omega)
  obtain ⟨lm, hlm, hlml, hlms⟩ := permuteBy_spec m.left C.leftMap 0
    C.numLeft hl rfl hpl (by omega)
  have hrmem := permuted_mem hpr (by omega) (by omega) hrms
  have hlmem := permuted_mem hpl (by omega) (by omega) hlms
  -- renumbering of the left side
  obtain ⟨lm', tl, cl, hren_l, hinv_l, htl_len, hlm'_len, _, hout_l⟩ :=
    renumber_spec (List.replicate C.matrix.numLeft u16max) 0 lm (TInv.init _)
      (fun i hi => by simpa using hwf.leftIn i (hlmem.2 i hi)) (by omega)
  obtain ⟨rm', tr, cr, hren_r, hinv_r, htr_len, hrm'_len, _, hout_r⟩ :=
    renumber_spec (List.replicate C.matrix.numRight u16max) 0 rm (TInv.init _)
      (fun i hi => by simpa using hwf.rightIn i (hrmem.2 i hi)) (by omega)
  simp only [List.length_replicate] at htl_len htr_len
  have hfull_l : ∀ j, j < tl.length → tl[j]? ≠ some u16max := by
    intro j hj hcontra
    have hmem : j ∈ lm := hlmem.1 j (hwf.leftOnto j (by omega))
    rcases List.getElem?_of_mem hmem with ⟨k, hk⟩
    obtain ⟨v, hv1, hv2, _⟩ := hout_l k j hk
    rw [hcontra] at hv1
    exact hv2 (Option.some.inj hv1).symm
  have hfull_r : ∀ j, j < tr.length → tr[j]? ≠ some u16max := by
    intro j hj hcontra
    have hmem : j ∈ rm := hrmem.1 j (hwf.rightOnto j (by omega))
    rcases List.getElem?_of_mem hmem with ⟨k, hk⟩
    obtain ⟨v, hv1, hv2, _⟩ := hout_r k j hk
    rw [hcontra] at hv1
    exact hv2 (Option.some.inj hv1).symm
  have hptl : PermTable tl := hinv_l.permTable hfull_l
  have hptr : PermTable tr := hinv_r.permTable hfull_r
  have hml16 : C.matrix.numLeft ≤ 65536 := by
    have := onto_length_le hwf.leftOnto; omega
  have hmr16 : C.matrix.numRight ≤ 65536 := by
    have := onto_length_le hwf.rightOnto; omega
  obtain ⟨mx, hmx, hmxr, hmxl, hmxwf, hmxcost⟩ := Matrix.map_spec C.matrix ⟨tl, tr⟩ hwf.matrix
    htl_len htr_len hptl hptr hml16 hmr16
  refine ⟨{ matrix := mx, rightMap := rm', leftMap := lm', rightLanes := rl, leftLanes := ll },
    ?_, ?_, ?_, ?_, ?_⟩
  · unfold Dual.map
    rw [if_neg (by omega), if_neg (by omega), hrl, andThen_ok, hrm, andThen_ok, hll, andThen_ok,
      hlm, andThen_ok, hren_l, andThen_ok]
    simp only
    rw [hren_r, andThen_ok]
    simp only
    rw [hmx, andThen_ok]
  · show rm'.length = C.rightMap.length
    omega
  · show lm'.length = C.leftMap.length
    omega
  · refine ⟨hmxwf, ?_, ?_, ?_, ?_, ?_, ?_⟩
    · show rl.length = rm'.length; omega
    · show ll.length = lm'.length; omega
    · intro x hx
      show x < mx.numRight
      replace hx : x ∈ rm' := hx
      rcases List.getElem?_of_mem hx with ⟨k, hk⟩
      have hk' : k < rm.length := by
        rcases List.getElem?_eq_some_iff.1 hk with ⟨h, _⟩; omega
      obtain ⟨v, hv1, _, hv3⟩ := hout_r k rm[k] (List.getElem?_eq_getElem hk')
      rw [hk] at hv3
      cases hv3
      have := hptr.bound hv1
      omega
    · intro x hx
      show x < mx.numLeft
      replace hx : x ∈ lm' := hx
      rcases List.getElem?_of_mem hx with ⟨k, hk⟩
      have hk' : k < lm.length := by
        rcases List.getElem?_eq_some_iff.1 hk with ⟨h, _⟩; omega
      obtain ⟨v, hv1, _, hv3⟩ := hout_l k lm[k] (List.getElem?_eq_getElem hk')
      rw [hk] at hv3
      cases hv3
      have := hptl.bound hv1
      omega
    · intro j hj
      show j ∈ rm'
      obtain ⟨i, hi⟩ := hptr.surj (j := j) (by rw [htr_len]; rw [hmxr] at hj; exact hj)
      have hi' : i < C.matrix.numRight := by
        rcases List.getElem?_eq_some_iff.1 hi with ⟨h, _⟩; omega
      have hmem : i ∈ rm := hrmem.1 i (hwf.rightOnto i hi')
      rcases List.getElem?_of_mem hmem with ⟨k, hk⟩
      obtain ⟨v, hv1, _, hv3⟩ := hout_r k i hk
      rw [hi] at hv1
      cases hv1
      exact List.mem_of_getElem? hv3
    · intro j hj
      show j ∈ lm'
      obtain ⟨i, hi⟩ := hptl.surj (j := j) (by rw [htl_len]; rw [hmxl] at hj; exact hj)
      have hi' : i < C.matrix.numLeft := by
        rcases List.getElem?_eq_some_iff.1 hi with ⟨h, _⟩; omega
      have hmem : i ∈ lm := hlmem.1 i (hwf.leftOnto i hi')
      rcases List.getElem?_of_mem hmem with ⟨k, hk⟩
      obtain ⟨v, hv1, _, hv3⟩ := hout_l k i hk
      rw [hi] at hv1
      cases hv1
      exact List.mem_of_getElem? hv3
  · intro r l nr nl h1 h2
    have hrlt : r < C.rightMap.length := by
      rcases List.getElem?_eq_some_iff.1 h1 with ⟨h, _⟩; omega
    have hllt : l < C.leftMap.length := by
      rcases List.getElem?_eq_some_iff.1 h2 with ⟨h, _⟩; omega
    have e1 : rm[nr]? = some C.rightMap[r] := by
      rw [hrms r nr h1]; exact List.getElem?_eq_getElem hrlt
    have e2 : lm[nl]? = some C.leftMap[l] := by
      rw [hlms l nl h2]; exact List.getElem?_eq_getElem hllt
    obtain ⟨vr, hvr1, _, hvr3⟩ := hout_r nr _ e1
    obtain ⟨vl, hvl1, _, hvl3⟩ := hout_l nl _ e2
    have hc := hmxcost C.rightMap[r] C.leftMap[l] vr vl hvr1 hvl1
    simp only [Dual.cost, hvr3, hvl3, hc, hrls r nr h1, hlls l nl h2,
      List.getElem?_eq_getElem hrlt, List.getElem?_eq_getElem hllt]

/-! ### `ConnectorWrapper` -/

/-- Well-formedness of a connector (what the builders establish; `u16` id range). -/
def Conn.WF : Conn → Prop
  | .matrix c => c.WF ∧ c.numLeft ≤ 65536 ∧ c.numRight ≤ 65536
  | .raw c => c.numLeft ≤ 65535 ∧ c.numRight ≤ 65535
  | .dual c => c.WF ∧ c.numLeft ≤ 65535 ∧ c.numRight ≤ 65535

/-- A mapper that fits a connector with `nL` left and `nR` right ids. -/
structure Mapper.Valid (m : Mapper) (nL nR : Nat) : Prop where
  llen : m.left.length = nL
  rlen : m.right.length = nR
  lperm : PermTable m.left
  rperm : PermTable m.right

theorem Conn.map_spec (score : List Nat → List Nat → Int) (C : Conn) (m : Mapper) (hwf : C.WF)
    (hm : m.Valid C.numLeft C.numRight) :
    ∃ C', C.map m = .ok C' ∧ C'.numRight = C.numRight ∧ C'.numLeft = C.numLeft ∧ C'.WF ∧
      ∀ (r l nr nl : Nat), m.right[r]? = some nr → m.left[l]? = some nl →
        C'.cost score nr nl = C.cost score r l := by
  obtain ⟨hl, hr, hpl, hpr⟩ := hm
  cases C with
  | matrix c =>
    obtain ⟨h1, h2, h3⟩ := hwf
    obtain ⟨c', hc, e1, e2, hw, hcost⟩ := Matrix.map_spec c m h1 hl hr hpl hpr h2 h3
    refine ⟨.matrix c', by simp [Conn.map, hc], e1, e2, ⟨hw, ?_, ?_⟩, hcost⟩
    · rw [e2]; exact h2
    · rw [e1]; exact h3
  | raw c =>
    obtain ⟨h2, h3⟩ := hwf
    obtain ⟨c', hc, e1, e2, hcost⟩ := Raw.map_spec score c m hl hr hpl hpr h2 h3
    refine ⟨.raw c', by simp [Conn.map, hc], e1, e2, ⟨?_, ?_⟩, hcost⟩
    · rw [e2]; exact h2
    · rw [e1]; exact h3
  | dual c =>
    obtain ⟨h1, h2, h3⟩ := hwf
    obtain ⟨c', hc, e1, e2, hw, hcost⟩ := Dual.map_spec score c m h1 hl hr hpl hpr h2 h3
    refine ⟨.dual c', by simp [Conn.map, hc], e1, e2, ⟨hw, ?_, ?_⟩, hcost⟩
    · rw [e2]; exact h2
    · rw [e1]; exact h3

/-- The three `assert_eq!` sites: a mapper of the wrong length makes every connector panic. -/
theorem Conn.map_panic_of_length (C : Conn) (m : Mapper)
    (h : m.left.length ≠ C.numLeft ∨ m.right.length ≠ C.numRight) : C.map m = .panic := by
  cases C with
  | matrix c =>
    simp only [Conn.numLeft, Conn.numRight] at h
    simp only [Conn.map, Matrix.map]
    by_cases h1 : m.left.length = c.numLeft
    · have h2 : m.right.length ≠ c.numRight := by rcases h with h | h; exact absurd h1 h; exact h
      simp [h1, h2]
    · simp [h1]
  | raw c =>
    simp only [Conn.numLeft, Conn.numRight] at h
    simp only [Conn.map, Raw.map]
    by_cases h1 : m.left.length = c.numLeft
    · have h2 : m.right.length ≠ c.numRight := by rcases h with h | h; exact absurd h1 h; exact h
      simp [h1, h2]
    · simp [h1]
  | dual c =>
    simp only [Conn.numLeft, Conn.numRight] at h
    simp only [Conn.map, Dual.map]
    by_cases h1 : m.left.length = c.numLeft
    · have h2 : m.right.length ≠ c.numRight := by rcases h with h | h; exact absurd h1 h; exact h
      simp [h1, h2]
    · simp [h1]

/-! ### Parameters -/

theorem mapParams_ok (m : Mapper) (nL nR : Nat) (hl : m.left.length = nL) (hr : m.right.length = nR)
    (hbl : ∀ x ∈ m.left, x < nL) (hbr : ∀ x ∈ m.right, x < nR)
    (ps : List Param) (hv : verifyParams nL nR ps = true) :
    ∃ ps', mapParams m ps = .ok ps' ∧ verifyParams nL nR ps' = true := by
  induction ps with
  | nil => exact ⟨[], rfl, rfl⟩
  | cons p ps ih =>
    simp only [verifyParams] at hv
    split at hv
    · cases hv
    · split at hv
      · cases hv
      · obtain ⟨ps', h1, h2⟩ := ih hv
        have hpl : p.left < m.left.length := by omega
        have hpr : p.right < m.right.length := by omega
        refine ⟨{ p with left := m.left[p.left], right := m.right[p.right] } :: ps', ?_, ?_⟩
        · simp [mapParams, Mapper.leftAt, Mapper.rightAt, List.getElem?_eq_getElem hpl,
            List.getElem?_eq_getElem hpr, h1]
        · have b1 := hbl _ (List.getElem_mem hpl)
          have b2 := hbr _ (List.getElem_mem hpr)
          simp only [verifyParams]
          rw [if_neg (by omega), if_neg (by omega)]
          exact h2

theorem mapParams_panic_of_short (m : Mapper) (p : Param) (ps : List Param)
    (h : m.left.length ≤ p.left) : mapParams m (p :: ps) = .panic := by
  simp [mapParams, Mapper.leftAt, List.getElem?_eq_none h]

theorem composeTable_ok {f s out : List Nat} (h : composeTable f s = .ok out) :
    out.length = f.length ∧ ∀ (i a : Nat), f[i]? = some a → out[i]? = s[a]? ∧ a < s.length := by
  induction f generalizing out with
  | nil =>
    simp only [composeTable, Outcome.ok.injEq] at h
    subst h
    simp
  | cons x xs ih =>
    simp only [composeTable] at h
    cases hx : s[x]? with
    | none => rw [hx] at h; cases h
    | some v =>
      rw [hx] at h
      simp only at h
      rcases andThen_eq_ok.1 h with ⟨o, ho, he⟩
      cases he
      obtain ⟨h1, h2⟩ := ih ho
      refine ⟨by simp [h1], ?_⟩
      intro i a hi
      cases i with
      | zero =>
        simp only [List.getElem?_cons_zero, Option.some.injEq] at hi
        subst hi
        refine ⟨by simp [hx], ?_⟩
        rcases List.getElem?_eq_some_iff.1 hx with ⟨hh, _⟩
        exact hh
      | succ i =>
        simp only [List.getElem?_cons_succ] at hi ⊢
        exact h2 i a hi

theorem composeTable_total (f s : List Nat) (h : ∀ x ∈ f, x < s.length) :
    ∃ out, composeTable f s = .ok out := by
  induction f with
  | nil => exact ⟨[], rfl⟩
  | cons x xs ih =>
    obtain ⟨o, ho⟩ := ih (fun y hy => h y (List.mem_cons_of_mem _ hy))
    have hx : x < s.length := h x List.mem_cons_self
    exact ⟨s[x] :: o, by simp [composeTable, List.getElem?_eq_getElem hx, ho]⟩

theorem composeTable_perm {f s out : List Nat} (h : composeTable f s = .ok out)
    (hf : PermTable f) (hs : PermTable s) (hlen : f.length = s.length) : PermTable out := by
  obtain ⟨hl, hspec⟩ := composeTable_ok h
  rw [permTable_iff]
  have hget : ∀ i (hi : i < out.length), ∃ a, f[i]? = some a ∧ s[a]? = some out[i] := by
    intro i hi
    have hif : i < f.length := by omega
    obtain ⟨h1, h2⟩ := hspec i f[i] (List.getElem?_eq_getElem hif)
    refine ⟨f[i], List.getElem?_eq_getElem hif, ?_⟩
    rw [← h1]; exact List.getElem?_eq_getElem hi
  constructor
  · intro i j hi hj heq
    obtain ⟨a, ha1, ha2⟩ := hget i hi
    obtain ⟨b, hb1, hb2⟩ := hget j hj
    rw [heq] at ha2
    have hab := hs.inj ha2 hb2
    subst hab
    exact hf.inj ha1 hb1
  · intro i hi
    obtain ⟨a, _, ha2⟩ := hget i hi
    have := hs.bound ha2
    omega

theorem Mapper.compose_spec {τ σ : Mapper} {nL nR : Nat} (hτ : τ.Valid nL nR)
    (hσ : σ.Valid nL nR) :
    ∃ ρ, τ.compose σ = .ok ρ ∧ ρ.Valid nL nR ∧
      (∀ (i a : Nat), τ.left[i]? = some a → ρ.left[i]? = σ.left[a]?) ∧
      (∀ (i a : Nat), τ.right[i]? = some a → ρ.right[i]? = σ.right[a]?) := by
  obtain ⟨l, hl⟩ := composeTable_total τ.left σ.left
    (fun x hx => by rw [hσ.llen, ← hτ.llen]; exact hτ.lperm.2 x hx)
  obtain ⟨r, hr⟩ := composeTable_total τ.right σ.right
    (fun x hx => by rw [hσ.rlen, ← hτ.rlen]; exact hτ.rperm.2 x hx)
  refine ⟨⟨l, r⟩, by simp [Mapper.compose, hl, hr], ⟨?_, ?_, ?_, ?_⟩, ?_, ?_⟩
  · rw [(composeTable_ok hl).1]; exact hτ.llen
  · rw [(composeTable_ok hr).1]; exact hτ.rlen
  · exact composeTable_perm hl hτ.lperm hσ.lperm (by rw [hτ.llen, hσ.llen])
  · exact composeTable_perm hr hτ.rperm hσ.rperm (by rw [hτ.rlen, hσ.rlen])
  · intro i a h; exact ((composeTable_ok hl).2 i a h).1
  · intro i a h; exact ((composeTable_ok hr).2 i a h).1

/-- Relabelling twice is relabelling by the composed mapper. -/
theorem mapParams_compose {τ σ ρ : Mapper}
    (hl : ∀ (i a : Nat), τ.left[i]? = some a → ρ.left[i]? = σ.left[a]?)
    (hr : ∀ (i a : Nat), τ.right[i]? = some a → ρ.right[i]? = σ.right[a]?)
    {ps ps1 ps2 : List Param} (h1 : mapParams τ ps = .ok ps1) (h2 : mapParams σ ps1 = .ok ps2) :
    mapParams ρ ps = .ok ps2 := by
  induction ps generalizing ps1 ps2 with
  | nil =>
    simp only [mapParams, Outcome.ok.injEq] at h1
    subst h1
    simpa [mapParams] using h2
  | cons p ps ih =>
    simp only [mapParams, Mapper.leftAt, Mapper.rightAt] at h1
    cases hpl : τ.left[p.left]? with
    | none => rw [hpl] at h1; cases h1
    | some a =>
      cases hpr : τ.right[p.right]? with
      | none => rw [hpl, hpr] at h1; cases h1
      | some b =>
        rw [hpl, hpr] at h1
        simp only [andThen_ok] at h1
        rcases andThen_eq_ok.1 h1 with ⟨rest1, hrest1, e1⟩
        cases e1
        simp only [mapParams, Mapper.leftAt, Mapper.rightAt] at h2
        cases hsl : σ.left[a]? with
        | none => rw [hsl] at h2; cases h2
        | some a' =>
          cases hsr : σ.right[b]? with
          | none => rw [hsl, hsr] at h2; cases h2
          | some b' =>
            rw [hsl, hsr] at h2
            simp only [andThen_ok] at h2
            rcases andThen_eq_ok.1 h2 with ⟨rest2, hrest2, e2⟩
            cases e2
            have := ih hrest1 hrest2
            simp [mapParams, Mapper.leftAt, Mapper.rightAt, hl _ _ hpl, hr _ _ hpr, hsl, hsr,
              this]

/-- The identity mapper. -/
def idMapper (nL nR : Nat) : Mapper := ⟨List.range nL, List.range nR⟩

theorem permTable_range (n : Nat) : PermTable (List.range n) :=
  ⟨List.nodup_range, fun x hx => by simpa using hx⟩

theorem idMapper_valid (nL nR : Nat) : (idMapper nL nR).Valid nL nR :=
  ⟨by simp [idMapper], by simp [idMapper], permTable_range _, permTable_range _⟩

theorem mapParams_id (nL nR : Nat) (ps : List Param) (hv : verifyParams nL nR ps = true) :
    mapParams (idMapper nL nR) ps = .ok ps := by
  induction ps with
  | nil => rfl
  | cons p ps ih =>
    simp only [verifyParams] at hv
    split at hv
    · cases hv
    · split at hv
      · cases hv
      · have h1 : (List.range nL)[p.left]? = some p.left := by
          rw [List.getElem?_range (by omega)]
        have h2 : (List.range nR)[p.right]? = some p.right := by
          rw [List.getElem?_range (by omega)]
        have ih' := ih hv
        simp only [idMapper] at ih'
        simp [mapParams, Mapper.leftAt, Mapper.rightAt, idMapper, h1, h2, ih']

theorem composeTable_range (s : List Nat) : composeTable (List.range s.length) s = .ok s := by
  obtain ⟨out, ho⟩ := composeTable_total (List.range s.length) s (fun x hx => by simpa using hx)
  obtain ⟨hl, hspec⟩ := composeTable_ok ho
  rw [ho]
  congr 1
  apply List.ext_getElem?
  intro i
  by_cases hi : i < s.length
  · exact (hspec i i (by rw [List.getElem?_range hi])).1
  · rw [List.getElem?_eq_none (by simp at hl; omega), List.getElem?_eq_none (by omega)]

theorem idMapper_compose (σ : Mapper) :
    (idMapper σ.left.length σ.right.length).compose σ = .ok σ := by
  simp [Mapper.compose, idMapper, composeTable_range]

/-! ### `parse` never panics -/

theorem assignIds_ne_panic (newIds : List Nat) (k : Nat) (os : List Nat) :
    assignIds newIds k os ≠ .panic := by
  induction os generalizing newIds k with
  | nil => simp [assignIds]
  | cons o os ih =>
    simp only [assignIds]
    split
    · simp
    · split
      · simp
      · split
        · simp
        · exact ih _ _

theorem parseMap_ne_panic (m : List Nat) : parseMap m ≠ .panic := by
  unfold parseMap
  rw [pushIds_eq]
  split
  · simp
  · simp only [andThen_ok]
    exact assignIds_ne_panic _ _ _

theorem fromIter_ne_panic (l r : List Nat) : Mapper.fromIter l r ≠ .panic := by
  unfold Mapper.fromIter
  cases hl : parseMap l with
  | panic => exact absurd hl (parseMap_ne_panic l)
  | err => simp
  | ok a =>
    cases hr : parseMap r with
    | panic => exact absurd hr (parseMap_ne_panic r)
    | err => simp
    | ok b => simp

theorem fromIter_ok_iff (l r : List Nat) (m : Mapper) :
    Mapper.fromIter l r = .ok m ↔
      (IsPerm1 l ∧ l.length ≤ 65535 ∧ IsInvTable l m.left) ∧
      (IsPerm1 r ∧ r.length ≤ 65535 ∧ IsInvTable r m.right) := by
  unfold Mapper.fromIter
  constructor
  · intro h
    rcases andThen_eq_ok.1 h with ⟨a, ha, h'⟩
    rcases andThen_eq_ok.1 h' with ⟨b, hb, h''⟩
    cases h''
    exact ⟨(parseMap_ok_iff l a).1 ha, (parseMap_ok_iff r b).1 hb⟩
  · intro ⟨h1, h2⟩
    rw [(parseMap_ok_iff l m.left).2 h1, andThen_ok, (parseMap_ok_iff r m.right).2 h2, andThen_ok]

/-! ### The dictionary -/

structure Dict.WF (D : Dict) : Prop where
  conn : D.conn.WF
  sys : verifyParams D.conn.numLeft D.conn.numRight D.sysParams = true
  unk : verifyParams D.conn.numLeft D.conn.numRight D.unkParams = true
  user : ∀ u, D.userParams = some u → verifyParams D.conn.numLeft D.conn.numRight u = true
  stored : ∀ s, D.stored = some s → s.Valid D.conn.numLeft D.conn.numRight

/-- The iterators that `map_connection_ids_from_iter` must accept: permutations of
    `1..num_left-1` and `1..num_right-1`. -/
def ValidMaps (lmap rmap : List Nat) (D : Dict) : Prop :=
  IsPerm1 lmap ∧ lmap.length + 1 = D.conn.numLeft ∧
  IsPerm1 rmap ∧ rmap.length + 1 = D.conn.numRight

instance (lmap rmap : List Nat) (D : Dict) : Decidable (ValidMaps lmap rmap D) := by
  unfold ValidMaps; infer_instance

theorem Conn.WF.bounds {C : Conn} (h : C.WF) : C.numLeft ≤ 65536 ∧ C.numRight ≤ 65536 := by
  cases C with
  | matrix c => exact ⟨h.2.1, h.2.2⟩
  | raw c => exact ⟨Nat.le_succ_of_le h.1, Nat.le_succ_of_le h.2⟩
  | dual c => exact ⟨Nat.le_succ_of_le h.2.1, Nat.le_succ_of_le h.2.2⟩

theorem mapUser_ok (m : Mapper) (nL nR : Nat) (hm : m.Valid nL nR)
    (u : Option (List Param)) (hv : ∀ x, u = some x → verifyParams nL nR x = true) :
    ∃ u', mapUser m u = .ok u' ∧ ∀ x, u' = some x → verifyParams nL nR x = true := by
  cases u with
  | none => exact ⟨none, rfl, by simp⟩
  | some x =>
    obtain ⟨x', h1, h2⟩ := mapParams_ok m nL nR hm.llen hm.rlen
      (fun y hy => hm.llen ▸ hm.lperm.2 y hy) (fun y hy => hm.rlen ▸ hm.rperm.2 y hy) x
      (hv x rfl)
    refine ⟨some x', by simp [mapUser, h1], ?_⟩
    intro y hy
    cases hy
    exact h2

/-- What a successful `map_connection_ids_from_iter` establishes (pinned or repaired code). -/
structure MapPost (score : List Nat → List Nat → Int) (fixed : Bool) (D : Dict) (σ : Mapper)
    (D' : Dict) : Prop where
  wf : D'.WF
  numL : D'.conn.numLeft = D.conn.numLeft
  numR : D'.conn.numRight = D.conn.numRight
  sys : mapParams σ D.sysParams = .ok D'.sysParams
  unk : mapParams σ D.unkParams = .ok D'.unkParams
  user : mapUser σ D.userParams = .ok D'.userParams
  cost : ∀ (r l nr nl : Nat), σ.right[r]? = some nr → σ.left[l]? = some nl →
    D'.conn.cost score nr nl = D.conn.cost score r l
  stored : ∃ ρ, D'.stored = some ρ ∧ storeMapper fixed D.stored σ = .ok ρ

theorem assignIds_total (newIds : List Nat) (k : Nat) (os : List Nat) (hnd : os.Nodup)
    (hall : ∀ o ∈ os, newIds[o]? = some u16max) (hlen : os ≠ [] → k + os.length ≤ 65536) :
    ∃ σ, assignIds newIds k os = .ok σ := by
  induction os generalizing newIds k with
  | nil => exact ⟨newIds, rfl⟩
  | cons o os ih =>
    have hnd' := List.nodup_cons.1 hnd
    have ho := hall o List.mem_cons_self
    have hk : ¬ k > u16max := by
      have := hlen (by simp)
      simp only [List.length_cons] at this
      simp [u16max]; omega
    obtain ⟨σ, hσ⟩ := ih (newIds.set o k) (k + 1) hnd'.2
      (fun o' ho' => by
        have hne : o ≠ o' := fun hh => hnd'.1 (hh ▸ ho')
        rw [List.getElem?_set_ne hne]
        exact hall o' (List.mem_cons_of_mem _ ho'))
      (fun _ => by
        have := hlen (by simp)
        simp only [List.length_cons] at this
        omega)
    exact ⟨σ, by simp [assignIds, ho, hk, hσ]⟩

theorem parseMap_ok_of_perm (m : List Nat) (hp : IsPerm1 m) (hlen : m.length ≤ 65535) :
    ∃ σ, parseMap m = .ok σ ∧ IsInvTable m σ := by
  have hp' := isPerm1_iff.1 hp
  have h0 : 0 ∉ m := fun h0 => by have := hp'.2 0 h0; omega
  have : ∃ σ, parseMap m = .ok σ := by
    unfold parseMap
    rw [pushIds_eq]
    simp only [h0, if_false, andThen_ok, List.cons_append, List.nil_append, List.length_cons,
      List.drop_succ_cons, List.drop_zero]
    apply assignIds_total _ _ _ hp'.1
    · intro o ho
      have hb := hp'.2 o ho
      cases o with
      | zero => omega
      | succ o =>
        rw [List.getElem?_set_ne (by omega)]
        simp [List.getElem?_replicate]
        omega
    · intro _; omega
  obtain ⟨σ, hσ⟩ := this
  exact ⟨σ, hσ, ((parseMap_ok_iff m σ).1 hσ).2.2⟩

theorem mapIds_ok (score : List Nat → List Nat → Int) (fixed : Bool) (D : Dict) (hwf : D.WF)
    (lmap rmap : List Nat) (hv : ValidMaps lmap rmap D) :
    ∃ σ D', Mapper.fromIter lmap rmap = .ok σ ∧ σ.Valid D.conn.numLeft D.conn.numRight ∧
      IsInvTable lmap σ.left ∧ IsInvTable rmap σ.right ∧
      D.mapIds fixed lmap rmap = .ok D' ∧ MapPost score fixed D σ D' := by
  obtain ⟨hp1, hl1, hp2, hl2⟩ := hv
  have hb := hwf.conn.bounds
  obtain ⟨a, ha, hia⟩ := parseMap_ok_of_perm lmap hp1 (by omega)
  obtain ⟨b, hb', hib⟩ := parseMap_ok_of_perm rmap hp2 (by omega)
  have hσ : Mapper.fromIter lmap rmap = .ok ⟨a, b⟩ := by
    simp [Mapper.fromIter, ha, hb']
  have hvalid : Mapper.Valid ⟨a, b⟩ D.conn.numLeft D.conn.numRight :=
    ⟨by rw [← hl1]; exact hia.1, by rw [← hl2]; exact hib.1,
      invTable_permTable hp1 hia, invTable_permTable hp2 hib⟩
  have hbl : ∀ x ∈ a, x < D.conn.numLeft := fun y hy => hvalid.llen ▸ hvalid.lperm.2 y hy
  have hbr : ∀ x ∈ b, x < D.conn.numRight := fun y hy => hvalid.rlen ▸ hvalid.rperm.2 y hy
  obtain ⟨sys, hsys, hsysv⟩ := mapParams_ok ⟨a, b⟩ _ _ hvalid.llen hvalid.rlen hbl hbr
    D.sysParams hwf.sys
  obtain ⟨unk, hunk, hunkv⟩ := mapParams_ok ⟨a, b⟩ _ _ hvalid.llen hvalid.rlen hbl hbr
    D.unkParams hwf.unk
  obtain ⟨usr, husr, husrv⟩ := mapUser_ok ⟨a, b⟩ _ _ hvalid D.userParams hwf.user
  obtain ⟨conn, hconn, hnr, hnl, hcwf, hcost⟩ := Conn.map_spec score D.conn ⟨a, b⟩ hwf.conn hvalid
  -- the stored mapper
  have hst : ∃ ρ, storeMapper fixed D.stored ⟨a, b⟩ = .ok ρ ∧
      ρ.Valid D.conn.numLeft D.conn.numRight := by
    cases fixed with
    | false => exact ⟨⟨a, b⟩, by simp [storeMapper], hvalid⟩
    | true =>
      cases hs : D.stored with
      | none => exact ⟨⟨a, b⟩, rfl, hvalid⟩
      | some s =>
        obtain ⟨ρ, h1, h2, _⟩ := Mapper.compose_spec (hwf.stored s hs) hvalid
        exact ⟨ρ, by simpa [storeMapper] using h1, h2⟩
  obtain ⟨ρ, hρ1, hρ2⟩ := hst
  refine ⟨⟨a, b⟩, (⟨sys, usr, conn, unk, some ρ⟩ : Dict), hσ, hvalid, hia, hib, ?_, ?_⟩
  · unfold Dict.mapIds
    rw [hσ, andThen_ok]
    have hc : (fixed && ((⟨a, b⟩ : Mapper).left.length != D.conn.numLeft ||
        (⟨a, b⟩ : Mapper).right.length != D.conn.numRight)) = false := by
      simp [hvalid.llen, hvalid.rlen]
    rw [hc]
    simp only [Bool.false_eq_true, if_false]
    rw [hsys, andThen_ok, husr, andThen_ok, hconn, andThen_ok, hunk, andThen_ok, hρ1, andThen_ok]
  · refine ⟨⟨hcwf, ?_, ?_, ?_, ?_⟩, hnl, hnr, hsys, hunk, husr, hcost, ⟨ρ, rfl, hρ1⟩⟩
    · show verifyParams conn.numLeft conn.numRight sys = true
      rw [hnl, hnr]; exact hsysv
    · show verifyParams conn.numLeft conn.numRight unk = true
      rw [hnl, hnr]; exact hunkv
    · intro u hu
      show verifyParams conn.numLeft conn.numRight u = true
      rw [hnl, hnr]; exact husrv u hu
    · intro s hs
      show s.Valid conn.numLeft conn.numRight
      rw [hnl, hnr]
      cases hs
      exact hρ2

theorem mapIds_fixed_err (D : Dict) (lmap rmap : List Nat) (hv : ¬ ValidMaps lmap rmap D) :
    D.mapIds true lmap rmap = .err := by
  unfold Dict.mapIds
  cases h : Mapper.fromIter lmap rmap with
  | panic => exact absurd h (fromIter_ne_panic _ _)
  | err => rfl
  | ok m =>
    obtain ⟨⟨h1, _, h3⟩, ⟨h4, _, h6⟩⟩ := (fromIter_ok_iff lmap rmap m).1 h
    have hne : m.left.length ≠ D.conn.numLeft ∨ m.right.length ≠ D.conn.numRight := by
      apply Classical.byContradiction
      intro hcontra
      have e1 : m.left.length = D.conn.numLeft := by
        apply Classical.byContradiction; intro hh; exact hcontra (Or.inl hh)
      have e2 : m.right.length = D.conn.numRight := by
        apply Classical.byContradiction; intro hh; exact hcontra (Or.inr hh)
      exact hv ⟨h1, by rw [← e1]; exact h3.1.symm, h4, by rw [← e2]; exact h6.1.symm⟩
    have hc : (true && (m.left.length != D.conn.numLeft || m.right.length != D.conn.numRight))
        = true := by
      rcases hne with h | h <;> simp [h]
    simp only [andThen_ok, hc, if_true]

/-! ### Histories (repaired code) -/

/-- `D` is the original dictionary `D0` relabelled by `τ`, with the user lexicon `uo`
    (given in ORIGINAL ids) relabelled by the same `τ`. -/
structure Rel (score : List Nat → List Nat → Int) (D0 : Dict) (τ : Mapper)
    (uo : Option (List Param)) (D : Dict) : Prop where
  wf : D.WF
  numL : D.conn.numLeft = D0.conn.numLeft
  numR : D.conn.numRight = D0.conn.numRight
  valid : τ.Valid D0.conn.numLeft D0.conn.numRight
  sys : mapParams τ D0.sysParams = .ok D.sysParams
  unk : mapParams τ D0.unkParams = .ok D.unkParams
  user : mapUser τ uo = .ok D.userParams
  cost : ∀ (r l nr nl : Nat), τ.right[r]? = some nr → τ.left[l]? = some nl →
    D.conn.cost score nr nl = D0.conn.cost score r l
  stored : D.stored = some τ ∨
    (D.stored = none ∧ τ = idMapper D0.conn.numLeft D0.conn.numRight)

/-- Specification of a history: the composed relabelling and the current user lexicon in
    original ids. -/
def specStep (st : Mapper × Option (List Param)) : Op → Mapper × Option (List Param)
  | .map l r =>
    match Mapper.fromIter l r with
    | .ok σ =>
      match st.1.compose σ with
      | .ok ρ => (ρ, st.2)
      | _ => st
    | _ => st
  | .loadUser u => (st.1, some u)
  | .clearUser => (st.1, none)

def specRun (st : Mapper × Option (List Param)) (ops : List Op) : Mapper × Option (List Param) :=
  ops.foldl specStep st

theorem Rel.init (score : List Nat → List Nat → Int) (D0 : Dict) (hwf : D0.WF)
    (hs : D0.stored = none) :
    Rel score D0 (idMapper D0.conn.numLeft D0.conn.numRight) D0.userParams D0 := by
  refine ⟨hwf, rfl, rfl, idMapper_valid _ _, mapParams_id _ _ _ hwf.sys, mapParams_id _ _ _ hwf.unk,
    ?_, ?_, Or.inr ⟨hs, rfl⟩⟩
  · cases hu : D0.userParams with
    | none => rfl
    | some u => simp [mapUser, mapParams_id _ _ _ (hwf.user u hu)]
  · intro r l nr nl h1 h2
    simp only [idMapper] at h1 h2
    have e1 : nr = r := by
      rcases List.getElem?_eq_some_iff.1 h1 with ⟨h, e⟩
      simp at e; omega
    have e2 : nl = l := by
      rcases List.getElem?_eq_some_iff.1 h2 with ⟨h, e⟩
      simp at e; omega
    rw [e1, e2]

theorem mapUser_compose {τ σ ρ : Mapper}
    (hl : ∀ (i a : Nat), τ.left[i]? = some a → ρ.left[i]? = σ.left[a]?)
    (hr : ∀ (i a : Nat), τ.right[i]? = some a → ρ.right[i]? = σ.right[a]?)
    {u u1 u2 : Option (List Param)} (h1 : mapUser τ u = .ok u1) (h2 : mapUser σ u1 = .ok u2) :
    mapUser ρ u = .ok u2 := by
  cases u with
  | none =>
    simp only [mapUser, Outcome.ok.injEq] at h1
    subst h1
    simpa [mapUser] using h2
  | some x =>
    simp only [mapUser] at h1
    rcases andThen_eq_ok.1 h1 with ⟨x1, hx1, e1⟩
    cases e1
    simp only [mapUser] at h2
    rcases andThen_eq_ok.1 h2 with ⟨x2, hx2, e2⟩
    cases e2
    simp [mapUser, mapParams_compose hl hr hx1 hx2]

theorem Rel.step (score : List Nat → List Nat → Int) {D0 D D' : Dict} {τ : Mapper}
    {uo : Option (List Param)} (hrel : Rel score D0 τ uo D) (op : Op)
    (hstep : D.step true op = .ok D') :
    Rel score D0 (specStep (τ, uo) op).1 (specStep (τ, uo) op).2 D' := by
  cases op with
  | clearUser =>
    simp only [Dict.step, Outcome.ok.injEq] at hstep
    subst hstep
    exact ⟨⟨hrel.wf.conn, hrel.wf.sys, hrel.wf.unk, (by intro u hu; cases hu), hrel.wf.stored⟩,
      hrel.numL, hrel.numR, hrel.valid, hrel.sys, hrel.unk, rfl, hrel.cost, hrel.stored⟩
  | loadUser u =>
    simp only [Dict.step, Dict.loadUser] at hstep
    rcases andThen_eq_ok.1 hstep with ⟨u', hu', hif⟩
    split at hif
    · rename_i hver
      cases hif
      have huser : mapUser τ (some u) = .ok (some u') := by
        rcases hrel.stored with hs | ⟨hs, hid⟩
        · rw [hs] at hu'
          simp [mapUser, hu']
        · rw [hs] at hu'
          cases hu'
          rw [hid]
          rw [hrel.numL, hrel.numR] at hver
          simp [mapUser, mapParams_id _ _ _ hver]
      exact ⟨⟨hrel.wf.conn, hrel.wf.sys, hrel.wf.unk,
          (by intro x hx; cases hx; exact hver), hrel.wf.stored⟩,
        hrel.numL, hrel.numR, hrel.valid, hrel.sys, hrel.unk, huser, hrel.cost, hrel.stored⟩
    · cases hif
  | map l r =>
    simp only [Dict.step] at hstep
    by_cases hv : ValidMaps l r D
    · obtain ⟨σ, D'', hσ, hσv, _, _, hmap, hpost⟩ := mapIds_ok score true D hrel.wf l r hv
      rw [hmap] at hstep
      cases hstep
      rw [hrel.numL, hrel.numR] at hσv
      obtain ⟨ρ, hρ, hρv, hρl, hρr⟩ := Mapper.compose_spec hrel.valid hσv
      have hspec : specStep (τ, uo) (.map l r) = (ρ, uo) := by
        simp [specStep, hσ, hρ]
      rw [hspec]
      refine ⟨hpost.wf, by rw [hpost.numL, hrel.numL], by rw [hpost.numR, hrel.numR], hρv,
        mapParams_compose hρl hρr hrel.sys hpost.sys,
        mapParams_compose hρl hρr hrel.unk hpost.unk,
        mapUser_compose hρl hρr hrel.user hpost.user, ?_, ?_⟩
      · intro r' l' nr nl h1 h2
        have hr' : r' < τ.right.length := by
          rcases List.getElem?_eq_some_iff.1 h1 with ⟨h, _⟩
          rw [hρv.rlen] at h; rw [hrel.valid.rlen]; exact h
        have hl' : l' < τ.left.length := by
          rcases List.getElem?_eq_some_iff.1 h2 with ⟨h, _⟩
          rw [hρv.llen] at h; rw [hrel.valid.llen]; exact h
        have e1 := hρr r' _ (List.getElem?_eq_getElem hr')
        have e2 := hρl l' _ (List.getElem?_eq_getElem hl')
        rw [h1] at e1
        rw [h2] at e2
        rw [hpost.cost _ _ nr nl e1.symm e2.symm]
        exact hrel.cost r' l' _ _ (List.getElem?_eq_getElem hr') (List.getElem?_eq_getElem hl')
      · left
        obtain ⟨ρ', hst, hcase⟩ := hpost.stored
        rw [hst]
        rcases hrel.stored with hs | ⟨hs, hid⟩
        · rw [hs] at hcase
          simp only [storeMapper] at hcase
          rw [hρ] at hcase
          cases hcase
          rfl
        · rw [hs] at hcase
          simp only [storeMapper, Outcome.ok.injEq] at hcase
          subst hcase
          rw [hid, ← hσv.llen, ← hσv.rlen, idMapper_compose] at hρ
          cases hρ
          rfl
    · rw [mapIds_fixed_err D l r hv] at hstep
      cases hstep

theorem Rel.run (score : List Nat → List Nat → Int) {D0 D D' : Dict} {τ : Mapper}
    {uo : Option (List Param)} (hrel : Rel score D0 τ uo D) (ops : List Op)
    (hrun : D.run true ops = .ok D') :
    Rel score D0 (specRun (τ, uo) ops).1 (specRun (τ, uo) ops).2 D' := by
  induction ops generalizing D τ uo with
  | nil =>
    simp only [Dict.run, Outcome.ok.injEq] at hrun
    subst hrun
    exact hrel
  | cons op ops ih =>
    simp only [Dict.run] at hrun
    rcases andThen_eq_ok.1 hrun with ⟨D1, h1, h2⟩
    have := ih (hrel.step score op h1) h2
    simpa [specRun] using this

/-! ### Tables read as total functions (for the lattice-level argument) -/

/-- `σL` as a total function (0 outside the table; only used inside the range). -/
def Mapper.leftFn (m : Mapper) (i : Nat) : Nat := m.left[i]?.getD 0
/-- `σR` as a total function. -/
def Mapper.rightFn (m : Mapper) (i : Nat) : Nat := m.right[i]?.getD 0

theorem Mapper.Valid.left_get {m : Mapper} {nL nR : Nat} (h : m.Valid nL nR) {l : Nat}
    (hl : l < nL) : m.left[l]? = some (m.leftFn l) := by
  have : l < m.left.length := by rw [h.llen]; exact hl
  simp [Mapper.leftFn, List.getElem?_eq_getElem this]

theorem Mapper.Valid.right_get {m : Mapper} {nL nR : Nat} (h : m.Valid nL nR) {r : Nat}
    (hr : r < nR) : m.right[r]? = some (m.rightFn r) := by
  have : r < m.right.length := by rw [h.rlen]; exact hr
  simp [Mapper.rightFn, List.getElem?_eq_getElem this]

/-- `σL`, `σR` are bijections of the id ranges. -/
theorem Mapper.Valid.fn_bij {m : Mapper} {nL nR : Nat} (h : m.Valid nL nR) :
    (∀ l, l < nL → m.leftFn l < nL) ∧ (∀ r, r < nR → m.rightFn r < nR) ∧
    (∀ l l', l < nL → l' < nL → m.leftFn l = m.leftFn l' → l = l') ∧
    (∀ r r', r < nR → r' < nR → m.rightFn r = m.rightFn r' → r = r') ∧
    (∀ j, j < nL → ∃ l, l < nL ∧ m.leftFn l = j) ∧
    (∀ j, j < nR → ∃ r, r < nR ∧ m.rightFn r = j) := by
  refine ⟨?_, ?_, ?_, ?_, ?_, ?_⟩
  · intro l hl
    have := h.lperm.bound (h.left_get hl); rw [h.llen] at this; exact this
  · intro r hr
    have := h.rperm.bound (h.right_get hr); rw [h.rlen] at this; exact this
  · intro l l' hl hl' e
    exact h.lperm.inj (h.left_get hl) (e ▸ h.left_get hl')
  · intro r r' hr hr' e
    exact h.rperm.inj (h.right_get hr) (e ▸ h.right_get hr')
  · intro j hj
    obtain ⟨i, hi⟩ := h.lperm.surj (j := j) (by rw [h.llen]; exact hj)
    have hil : i < nL := by
      rcases List.getElem?_eq_some_iff.1 hi with ⟨hh, _⟩; rw [h.llen] at hh; exact hh
    refine ⟨i, hil, ?_⟩
    have := h.left_get hil
    rw [hi] at this
    exact (Option.some.inj this).symm
  · intro j hj
    obtain ⟨i, hi⟩ := h.rperm.surj (j := j) (by rw [h.rlen]; exact hj)
    have hir : i < nR := by
      rcases List.getElem?_eq_some_iff.1 hi with ⟨hh, _⟩; rw [h.rlen] at hh; exact hh
    refine ⟨i, hir, ?_⟩
    have := h.right_get hir
    rw [hi] at this
    exact (Option.some.inj this).symm

end Vibrato.Mapper
