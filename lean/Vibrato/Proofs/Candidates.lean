/-
Helper lemmas for property C03 (candidate words): lexicon candidates, unknown
words, `compute_groupable`, `char.def` table, and the lattice-level statement
that every candidate of every visited start node is stored exactly once.
-/
import Vibrato.Proofs.TokenizerEnv
import Vibrato.Model.CharDef
import Vibrato.Model.Dict

namespace Vibrato

/-! ## Lexicon candidates -/

/-- The candidate a lexicon row `e` with row id `i` contributes at start position `sw`. -/
def lexCand (lt sw : Nat) (e : LexEntry) (i : Nat) : Cand :=
  { endWord := sw + e.surface.length, wordId := i, lexType := lt,
    leftId := e.param.leftId, rightId := e.param.rightId, wordCost := e.param.wordCost }

/-- Emission order of lexicon candidates: increasing length, then ascending row id. -/
def candLt (a b : Cand) : Prop :=
  a.endWord < b.endWord ∨ (a.endWord = b.endWord ∧ a.wordId < b.wordId)

/-- The reference list: rows (in row order) whose surface is a non-empty prefix of `suffix`. -/
def lexPrefixRows (es : List LexEntry) (lt : Nat) (suffix : List Nat) (sw : Nat) : List Cand :=
  (es.zipIdx.filter fun p => !p.1.surface.isEmpty && p.1.surface.isPrefixOf suffix).map
    fun p => lexCand lt sw p.1 p.2

theorem zipIdx_pairwise {α} (l : List α) (k : Nat) :
    (l.zipIdx k).Pairwise (fun a b => a.2 < b.2) := by
  induction l generalizing k with
  | nil => simp
  | cons a l ih =>
    rw [List.zipIdx_cons, List.pairwise_cons]
    refine ⟨?_, ih (k + 1)⟩
    intro b hb
    obtain ⟨x, i⟩ := b
    have := List.mem_zipIdx hb
    simp only
    omega

theorem mem_zipIdx_iff {α} (l : List α) (x : α) (i : Nat) :
    (x, i) ∈ l.zipIdx ↔ l[i]? = some x := by
  constructor
  · intro h
    have := List.mem_zipIdx h
    simp only [Nat.zero_add, Nat.sub_zero] at this
    rw [List.getElem?_eq_getElem this.2.1]; exact congrArg some this.2.2.symm
  · intro h
    have hlt : i < l.length := by
      rcases Nat.lt_or_ge i l.length with h' | h'
      · exact h'
      · rw [List.getElem?_eq_none h'] at h; cases h
    rw [List.getElem?_eq_getElem hlt] at h
    rw [List.mem_iff_getElem]
    refine ⟨i, by simpa using hlt, ?_⟩
    simp only [List.getElem_zipIdx, Nat.zero_add, Prod.mk.injEq, and_true]
    simpa using h

theorem take_eq_iff_prefix (s suffix : List Nat) (l : Nat) (hl1 : 1 ≤ l) (hl2 : l ≤ suffix.length) :
    s = suffix.take l ↔ (s ≠ [] ∧ s <+: suffix ∧ s.length = l) := by
  constructor
  · rintro rfl
    refine ⟨?_, List.take_prefix _ _, by simp; omega⟩
    intro h
    have : (suffix.take l).length = l := by simp; omega
    rw [h] at this; simp at this; omega
  · rintro ⟨_, hp, hlen⟩
    rw [← hlen]; exact List.prefix_iff_eq_take.mp hp

/-- membership in `lexMatches`, both directions at once -/
theorem mem_lexMatches (es : List LexEntry) (lt : Nat) (suffix : List Nat) (sw : Nat) (c : Cand) :
    c ∈ lexMatches es lt suffix sw ↔
      ∃ i e, es[i]? = some e ∧ e.surface ≠ [] ∧ e.surface <+: suffix ∧ c = lexCand lt sw e i := by
  unfold lexMatches
  simp only [List.mem_flatMap, List.mem_map, List.mem_filter, List.mem_range'_1]
  constructor
  · rintro ⟨l, ⟨hl1, hl2⟩, ⟨e, i⟩, ⟨hmem, hs⟩, rfl⟩
    have hs' := (take_eq_iff_prefix e.surface suffix l hl1 (by omega)).mp (eq_of_beq hs)
    refine ⟨i, e, (mem_zipIdx_iff es e i).mp hmem, hs'.1, hs'.2.1, ?_⟩
    simp only [lexCand, hs'.2.2]
  · rintro ⟨i, e, hi, hne, hpre, rfl⟩
    have hlen : e.surface.length ≤ suffix.length := hpre.length_le
    have hpos : 0 < e.surface.length := List.length_pos_iff.mpr hne
    refine ⟨e.surface.length, ⟨by omega, by omega⟩, (e, i), ⟨(mem_zipIdx_iff es e i).mpr hi, ?_⟩, rfl⟩
    simp only [beq_iff_eq]
    exact (take_eq_iff_prefix e.surface suffix _ (by omega) hlen).mpr ⟨hne, hpre, rfl⟩

theorem mem_lexPrefixRows (es : List LexEntry) (lt : Nat) (suffix : List Nat) (sw : Nat) (c : Cand) :
    c ∈ lexPrefixRows es lt suffix sw ↔
      ∃ i e, es[i]? = some e ∧ e.surface ≠ [] ∧ e.surface <+: suffix ∧ c = lexCand lt sw e i := by
  unfold lexPrefixRows
  simp only [List.mem_map, List.mem_filter, Bool.and_eq_true, Bool.not_eq_true',
    List.isEmpty_eq_false_iff, List.isPrefixOf_iff_prefix]
  constructor
  · rintro ⟨⟨e, i⟩, ⟨hmem, hne, hp⟩, rfl⟩
    exact ⟨i, e, (mem_zipIdx_iff es e i).mp hmem, hne, hp, rfl⟩
  · rintro ⟨i, e, hi, hne, hp, rfl⟩
    exact ⟨(e, i), ⟨(mem_zipIdx_iff es e i).mpr hi, hne, hp⟩, rfl⟩

/-- the emission order: strictly increasing in (length, row id) -/
theorem lexMatches_sorted (es : List LexEntry) (lt : Nat) (suffix : List Nat) (sw : Nat) :
    (lexMatches es lt suffix sw).Pairwise candLt := by
  unfold lexMatches
  rw [List.pairwise_flatMap]
  constructor
  · intro l _
    rw [List.pairwise_map]
    apply List.Pairwise.filter
    exact (zipIdx_pairwise es 0).imp (fun h => Or.inr ⟨rfl, h⟩)
  · apply (List.pairwise_lt_range' (s := 1) (n := suffix.length)).imp
    intro a b hab x hx y hy
    simp only [List.mem_map] at hx hy
    obtain ⟨_, _, rfl⟩ := hx
    obtain ⟨_, _, rfl⟩ := hy
    exact Or.inl (by simp only; omega)

theorem candLt_ne {a b : Cand} (h : candLt a b) : a ≠ b := by
  rintro rfl
  rcases h with h | ⟨_, h⟩ <;> omega

theorem lexMatches_nodup (es : List LexEntry) (lt : Nat) (suffix : List Nat) (sw : Nat) :
    (lexMatches es lt suffix sw).Nodup :=
  (lexMatches_sorted es lt suffix sw).imp candLt_ne

/-- no row is offered twice (even with different lengths) -/
theorem lexMatches_wordId_nodup (es : List LexEntry) (lt : Nat) (suffix : List Nat) (sw : Nat) :
    ((lexMatches es lt suffix sw).map (·.wordId)).Nodup := by
  unfold List.Nodup
  rw [List.pairwise_map]
  have hs := lexMatches_sorted es lt suffix sw
  have hm := mem_lexMatches es lt suffix sw
  -- two candidates with the same row id are the same candidate
  have key : ∀ a b, a ∈ lexMatches es lt suffix sw → b ∈ lexMatches es lt suffix sw →
      a.wordId = b.wordId → a = b := by
    intro a b ha hb hab
    obtain ⟨i, e, hi, _, _, rfl⟩ := (hm a).mp ha
    obtain ⟨j, f, hj, _, _, rfl⟩ := (hm b).mp hb
    simp only [lexCand] at hab
    subst hab
    rw [hi] at hj; cases hj; rfl
  have : (lexMatches es lt suffix sw).Pairwise
      (fun a b => a ∈ lexMatches es lt suffix sw ∧ b ∈ lexMatches es lt suffix sw ∧ candLt a b) := by
    rw [List.pairwise_iff_getElem]
    intro i j hi hj hij
    exact ⟨List.getElem_mem hi, List.getElem_mem hj, (List.pairwise_iff_getElem.mp hs) i j hi hj hij⟩
  exact this.imp (fun ⟨ha, hb, hlt⟩ heq => candLt_ne hlt (key _ _ ha hb heq))

theorem lexPrefixRows_nodup (es : List LexEntry) (lt : Nat) (suffix : List Nat) (sw : Nat) :
    (lexPrefixRows es lt suffix sw).Nodup := by
  unfold lexPrefixRows List.Nodup
  rw [List.pairwise_map]
  apply List.Pairwise.filter
  apply (zipIdx_pairwise es 0).imp
  intro a b hab heq
  have : a.2 = b.2 := congrArg Cand.wordId heq
  omega

theorem lexMatches_perm (es : List LexEntry) (lt : Nat) (suffix : List Nat) (sw : Nat) :
    (lexMatches es lt suffix sw).Perm (lexPrefixRows es lt suffix sw) := by
  rw [List.perm_ext_iff_of_nodup (lexMatches_nodup es lt suffix sw) (lexPrefixRows_nodup es lt suffix sw)]
  intro c
  rw [mem_lexMatches, mem_lexPrefixRows]

/-! ## Unknown words -/

theorem unkPre_sorted (ci : CharInfo) (g : Nat) : (unkPre ci g).Pairwise (· < ·) := by
  unfold unkPre
  exact (List.pairwise_lt_range' (s := 1) (n := min ci.length g)).filter _

/-- `unkLengths` in emission order: the run length first (if offered), then the prefix
lengths (`unkPre`, increasing by `unkPre_sorted`); or the single fallback length 1. -/
theorem unkLengths_order (ci : CharInfo) (g : Nat) (hm : Bool) (mg : Option Nat) :
    unkLengths ci g hm mg = [] ∨ unkLengths ci g hm mg = [1] ∨
      unkLengths ci g hm mg = (if ci.group && unkFits mg g then [g] else []) ++ unkPre ci g := by
  unfold unkLengths
  generalize unkFits mg g = fits
  generalize unkPre ci g = pre
  cases hm <;> cases ci.invoke <;> cases ci.group <;> cases fits <;> cases pre <;> simp

theorem unkLengths_nodup (ci : CharInfo) (g : Nat) (hm : Bool) (mg : Option Nat) :
    (unkLengths ci g hm mg).Nodup := by
  unfold unkLengths
  have hp : (unkPre ci g).Nodup := (unkPre_sorted ci g).imp (fun h => Nat.ne_of_lt h)
  have hg : ci.group = true → g ∉ unkPre ci g := by
    intro hgr hmem
    rw [mem_unkPre] at hmem
    exact hmem.2.2.2 ⟨hgr, rfl⟩
  generalize unkFits mg g = fits
  generalize unkPre ci g = pre at hp hg
  cases hm <;> cases ci.invoke <;> cases hgr : ci.group <;> cases fits <;> cases pre <;>
    simp_all

theorem scanEntries_proj (unk : List (Nat × WordParam)) (e : Nat) :
    (scanEntries unk e).map (fun c => (c.wordId, (⟨c.leftId, c.rightId, c.wordCost⟩ : WordParam))) = unk ∧
      ∀ c ∈ scanEntries unk e, c.endWord = e ∧ c.lexType = 2 := by
  unfold scanEntries
  constructor
  · rw [List.map_map]
    conv => rhs; rw [← List.map_id unk]
    apply List.map_congr_left
    intro p _
    obtain ⟨i, l, r, w⟩ := p
    rfl
  · intro c hc
    simp only [List.mem_map] at hc
    obtain ⟨p, _, rfl⟩ := hc
    exact ⟨rfl, rfl⟩

/-- no (length, entry) pair is emitted twice, provided the entry ids of the category are
distinct (they are: ids are positions in `unk.def`, see `unkOf_ids_nodup`) -/
theorem genUnk_nodup (ci : CharInfo) (g len start : Nat) (hm : Bool) (mg : Option Nat)
    (unk : List (Nat × WordParam)) (hg : start + g ≤ len) (hids : (unk.map (·.1)).Nodup) :
    (genUnk ci g len start hm mg unk).Nodup := by
  rw [genUnk_eq ci g len start hm mg unk hg]
  unfold List.Nodup
  rw [List.pairwise_flatMap]
  constructor
  · intro l _
    unfold scanEntries
    rw [List.pairwise_map]
    unfold List.Nodup at hids
    rw [List.pairwise_map] at hids
    apply hids.imp
    intro a b hab heq
    exact hab (congrArg Cand.wordId heq)
  · apply (unkLengths_nodup ci g hm mg).imp
    intro a b hab x hx y hy heq
    have h1 := (scanEntries_mem _ _ x hx).1
    have h2 := (scanEntries_mem _ _ y hy).1
    rw [heq] at h1
    omega

theorem unkOf_ids_nodup (D : DictM) (b : Nat) : ((D.unkOf b).map (·.1)).Nodup := by
  unfold DictM.unkOf List.Nodup
  rw [List.map_map, List.pairwise_map]
  apply List.Pairwise.filter
  exact (zipIdx_pairwise D.unk 0).imp (fun h => by simp only [Function.comp]; omega)

/-- the entries of a category are all rows of `unk.def` of that category, in file order
(word id = row position after grouping), each once -/
theorem mem_unkOf (D : DictM) (b i : Nat) (p : WordParam) :
    (i, p) ∈ D.unkOf b ↔ ∃ e, D.unk[i]? = some e ∧ e.cateId = b ∧ e.param = p := by
  unfold DictM.unkOf
  simp only [List.mem_map, List.mem_filter, beq_iff_eq, Prod.mk.injEq]
  constructor
  · rintro ⟨⟨e, j⟩, ⟨hmem, hc⟩, rfl, rfl⟩
    exact ⟨e, (mem_zipIdx_iff _ _ _).mp hmem, hc, rfl⟩
  · rintro ⟨e, he, hc, rfl⟩
    exact ⟨(e, i), ⟨(mem_zipIdx_iff _ _ _).mpr he, hc⟩, rfl, rfl⟩

/-! ## char.def -/

namespace CharDef
open Text

/-- The range a raw line of `char.def` contributes (a line that, after trimming, starts
with `0x`), `none` for blank lines, comments, category lines and unparsable lines. -/
def rangeOfLine (raw : List UInt8) : Option CharRange :=
  match decodeLine raw with
  | none => none
  | some s =>
    let line := trim s.toList
    if line.isEmpty ∨ startsWith ['#'] line then none
    else if ¬ startsWith ['0', 'x'] line then none
    else match parseRange line with
      | .ok r => some r
      | _ => none

/-- The range lines of a `char.def`, in file order. -/
def fileRanges (bytes : List UInt8) : List CharRange := (rawLines bytes).filterMap rangeOfLine

theorem parseCategory_ranges (st st' : CharDefState) (line : List Char)
    (h : parseCategory st line = .ok st') : st'.ranges = st.ranges := by
  unfold parseCategory at h
  dsimp only at h
  repeat' split at h
  all_goals first | (cases h; done) | (cases h; rfl)

theorem stepLine_ranges (st st' : CharDefState) (raw : List UInt8) (h : stepLine st raw = .ok st') :
    st'.ranges = (rangeOfLine raw).toList ++ st.ranges := by
  unfold stepLine at h
  unfold rangeOfLine
  cases hs : decodeLine raw with
  | none => rw [hs] at h; cases h
  | some s =>
    rw [hs] at h
    dsimp only at h ⊢
    by_cases h1 : (trim s.toList).isEmpty = true ∨ startsWith ['#'] (trim s.toList) = true
    · rw [if_pos h1] at h ⊢; cases h; rfl
    · rw [if_neg h1] at h ⊢
      by_cases h2 : ¬ startsWith ['0', 'x'] (trim s.toList) = true
      · rw [if_pos h2] at h ⊢
        simpa using parseCategory_ranges _ _ _ h
      · rw [if_neg h2] at h ⊢
        cases hr : parseRange (trim s.toList) with
        | ok r => rw [hr] at h; cases h; rfl
        | err => rw [hr] at h; cases h
        | panic => rw [hr] at h; cases h

theorem foldLines_ranges : ∀ (ls : List (List UInt8)) (st st' : CharDefState),
    foldLines st ls = .ok st' → st'.ranges.reverse = st.ranges.reverse ++ ls.filterMap rangeOfLine
  | [], st, st', h => by simp only [foldLines] at h; cases h; simp
  | l :: ls, st, st', h => by
    simp only [foldLines] at h
    split at h
    · rename_i st1 h1
      have := foldLines_ranges ls st1 st' h
      rw [this, stepLine_ranges st st1 l h1]
      cases hr : rangeOfLine l <;> simp [hr]
    · cases h
    · cases h

/-- `parse_char_range`: the stored half-open range `[start, stop)` is the inclusive range of
the text: `stop = end + 1` where `end` is the second hexadecimal number (or `start` when the
line names a single code point), both after stripping `0x` prefixes; and both are `≤ 0xFFFF`. -/
theorem parseRange_inclusive (line : List Char) (r : CharRange) (h : parseRange line = .ok r) :
    ∃ c0 rest, splitWhitespace line = c0 :: rest ∧ rest ≠ [] ∧
      parseHexUsize (trimStart0x ((splitDotDot c0).headD [])) = some r.start ∧
      (∃ last, r.stop = last + 1 ∧ r.start ≤ last ∧ last ≤ 0xFFFF ∧
        ((∃ r0 r1 rs, splitDotDot c0 = r0 :: r1 :: rs ∧ parseHexUsize (trimStart0x r1) = some last) ∨
         ((∀ r0 r1 rs, splitDotDot c0 ≠ r0 :: r1 :: rs) ∧ last = r.start))) ∧
      r.cates = rest.takeWhile (fun col => ¬ startsWith ['#'] col) := by
  unfold parseRange at h
  dsimp only at h
  split at h
  · rename_i _ c0 x xs hcols
    refine ⟨c0, x :: xs, hcols, by simp, ?_⟩
    split at h
    · cases h
    · rename_i start hstart
      split at h
      · cases h
      · cases h
      · rename_i stop hstop
        split at h
        · cases h
        · split at h
          · cases h
          · rename_i hge hbig
            cases h
            refine ⟨hstart, ?_, rfl⟩
            show ∃ last, stop = last + 1 ∧ start ≤ last ∧ _
            split at hstop
            · rename_i r0 r1 rs hsplit
              split at hstop
              · cases hstop
              · rename_i e he
                split at hstop
                · cases hstop
                · cases hstop
                  exact ⟨e, rfl, by omega, by omega, Or.inl ⟨r0, r1, rs, hsplit, he⟩⟩
            · rename_i hno
              split at hstop
              · cases hstop
              · cases hstop
                exact ⟨start, rfl, by omega, by omega, Or.inr ⟨fun r0 r1 rs hh => hno r0 r1 rs hh, rfl⟩⟩
  · cases h

/-- One step of the category-set loop of `encode_cate_info`. -/
def cateStep (st : CharDefState) (acc : Option Nat) (t : List Char) : Option Nat := do
  let a ← acc
  let tid ← idOf st.names t
  let _ ← infoOf st.infos tid
  pure (a ||| (1 <<< tid))

theorem cateStep_none (st : CharDefState) : ∀ ts : List (List Char), ts.foldl (cateStep st) none = none
  | [] => rfl
  | t :: ts => by simp only [List.foldl_cons]; exact cateStep_none st ts

theorem testBit_one_shiftLeft (tid k : Nat) : (1 <<< tid).testBit k = decide (tid = k) := by
  rw [Nat.one_shiftLeft, Nat.testBit_two_pow]

theorem cateStep_fold (st : CharDefState) : ∀ (ts : List (List Char)) (a cs : Nat),
    ts.foldl (cateStep st) (some a) = some cs →
      (∀ t ∈ ts, ∃ id d, idOf st.names t = some id ∧ infoOf st.infos id = some d) ∧
      ∀ k, cs.testBit k = true ↔ (a.testBit k = true ∨ ∃ t ∈ ts, idOf st.names t = some k)
  | [], a, cs, h => by
    simp only [List.foldl_nil, Option.some.injEq] at h; subst h; simp
  | t :: ts, a, cs, h => by
    simp only [List.foldl_cons] at h
    cases hid : idOf st.names t with
    | none =>
      have : cateStep st (some a) t = none := by simp [cateStep, hid]
      rw [this, cateStep_none] at h; cases h
    | some tid =>
      cases hinf : infoOf st.infos tid with
      | none =>
        have : cateStep st (some a) t = none := by simp [cateStep, hid, hinf]
        rw [this, cateStep_none] at h; cases h
      | some d =>
        have : cateStep st (some a) t = some (a ||| (1 <<< tid)) := by simp [cateStep, hid, hinf]
        rw [this] at h
        obtain ⟨h1, h2⟩ := cateStep_fold st ts _ cs h
        constructor
        · intro t' ht'
          simp only [List.mem_cons] at ht'
          rcases ht' with rfl | ht'
          · exact ⟨tid, d, hid, hinf⟩
          · exact h1 t' ht'
        · intro k
          rw [h2 k, Nat.testBit_or, testBit_one_shiftLeft]
          simp only [Bool.or_eq_true, decide_eq_true_eq, List.mem_cons, exists_eq_or_imp, hid,
            Option.some.injEq]
          constructor
          · rintro ((h | h) | h)
            · exact Or.inl h
            · exact Or.inr (Or.inl h)
            · exact Or.inr (Or.inr h)
          · rintro (h | h | h)
            · exact Or.inl (Or.inl h)
            · exact Or.inl (Or.inr h)
            · exact Or.inr h

/-- What `encode_cate_info` computes for the category names `targets` of a line: primary
category (`baseId`) and `invoke/group/length` are those of the FIRST name; the category set
has exactly the ids of ALL names on the line; every name is a defined category. -/
structure CateLineSpec (st : CharDefState) (targets : List (List Char)) (ci : CharInfo) : Prop where
  first : ∃ f rest id d, targets = f :: rest ∧ idOf st.names f = some id ∧
    infoOf st.infos id = some d ∧ ci.baseId = id ∧ ci.invoke = d.invoke ∧ ci.group = d.group ∧
    ci.length = d.length
  allDefined : ∀ t ∈ targets, ∃ id d, idOf st.names t = some id ∧ infoOf st.infos id = some d
  cateSet : ∀ k, ci.cateSet.testBit k = true ↔ ∃ t ∈ targets, idOf st.names t = some k

theorem encodeCateInfo_spec (st : CharDefState) (targets : List (List Char)) (ci : CharInfo)
    (h : encodeCateInfo st targets = .ok ci) : CateLineSpec st targets ci := by
  unfold encodeCateInfo at h
  split at h
  · cases h
  · rename_i first rest
    split at h
    · cases h
    · rename_i id d hfd
      simp only at h
      change (match (first :: rest).foldl (cateStep st) (some 0) with
        | none => Outcome.err
        | some cs => Outcome.ok _) = _ at h
      split at h
      · cases h
      · rename_i cs hcs
        cases h
        obtain ⟨h1, h2⟩ := cateStep_fold st _ 0 cs hcs
        have hfd' : idOf st.names first = some id ∧ infoOf st.infos id = some d := by
          cases hi : idOf st.names first with
          | none => simp [hi] at hfd
          | some i =>
            simp only [hi, Option.bind_some, Option.map_eq_some_iff] at hfd
            obtain ⟨d', hd', heq⟩ := hfd
            cases heq
            exact ⟨rfl, hd'⟩
        refine ⟨⟨first, rest, id, d, rfl, hfd'.1, hfd'.2, rfl, rfl, rfl, rfl⟩, h1, ?_⟩
        intro k
        rw [h2 k]
        simp

theorem encodeRanges_spec (st : CharDefState) : ∀ (rs : List CharRange) (out : List (Nat × Nat × CharInfo)),
    encodeRanges st rs = .ok out →
      out.length = rs.length ∧
      ∀ (k : Nat) (r : CharRange), rs[k]? = some r → ∃ ci, out[k]? = some (r.start, r.stop, ci) ∧
        encodeCateInfo st r.cates = .ok ci
  | [], out, h => by simp only [encodeRanges] at h; cases h; simp
  | r :: rs, out, h => by
    simp only [encodeRanges] at h
    split at h
    · rename_i ci hci
      split at h
      · rename_i out' hout'
        cases h
        obtain ⟨h1, h2⟩ := encodeRanges_spec st rs out' hout'
        refine ⟨by simp [h1], ?_⟩
        intro k r' hk
        cases k with
        | zero => simp at hk; subst hk; exact ⟨ci, by simp, hci⟩
        | succ k => simp at hk; simpa using h2 k r' hk
      · cases h
      · cases h
    · cases h
    · cases h

end CharDef

/-- `l.reverse.find? p` is the LAST element of `l` satisfying `p`. -/
theorem find_last {α} (p : α → Bool) : ∀ l : List α,
    (∃ (k : Nat) (x : α), l[k]? = some x ∧ p x = true ∧
        (∀ (k' : Nat) (x' : α), k < k' → l[k']? = some x' → p x' = false) ∧
        l.reverse.find? p = some x) ∨
    ((∀ x ∈ l, p x = false) ∧ l.reverse.find? p = none)
  | [] => Or.inr ⟨by simp, rfl⟩
  | a :: l => by
    rw [List.reverse_cons, List.find?_append]
    rcases find_last p l with ⟨k, x, hk, hpx, hlater, hf⟩ | ⟨hall, hf⟩
    · left
      refine ⟨k + 1, x, by simpa using hk, hpx, ?_, by simp [hf]⟩
      intro k' x' hk' hx'
      cases k' with
      | zero => omega
      | succ k' => exact hlater k' x' (by omega) (by simpa using hx')
    · rw [hf]
      cases hpa : p a with
      | true =>
        left
        refine ⟨0, a, by simp, hpa, ?_, by simp [hpa]⟩
        intro k' x' hk' hx'
        cases k' with
        | zero => omega
        | succ k' =>
          have : x' ∈ l := List.mem_of_getElem? (by simpa using hx')
          exact hall x' this
      | false =>
        right
        refine ⟨?_, by simp [hpa]⟩
        intro x hx
        simp only [List.mem_cons] at hx
        rcases hx with rfl | hx
        · exact hpa
        · exact hall x hx

/-- Table entry for `c`: the info of the last range (file order) containing `c`, else DEFAULT's. -/
theorem entry_cases (P : CharProp) (c : Nat) :
    (∃ (k : Nat) (r : Nat × Nat × CharInfo), P.ranges[k]? = some r ∧ r.1 ≤ c ∧ c < r.2.1 ∧
        (∀ (k' : Nat) (r' : Nat × Nat × CharInfo), k < k' → P.ranges[k']? = some r' →
          ¬ (r'.1 ≤ c ∧ c < r'.2.1)) ∧
        P.entry c = r.2.2) ∨
    ((∀ r ∈ P.ranges, ¬ (r.1 ≤ c ∧ c < r.2.1)) ∧ P.entry c = P.defInfo) := by
  unfold CharProp.entry
  rcases find_last (fun r : Nat × Nat × CharInfo => decide (r.1 ≤ c ∧ c < r.2.1)) P.ranges with
    ⟨k, x, hk, hpx, hlater, hf⟩ | ⟨hall, hf⟩
  · left
    simp only [decide_eq_true_eq] at hpx
    refine ⟨k, x, hk, hpx.1, hpx.2, ?_, by rw [hf]⟩
    intro k' r' hk' hr'
    have := hlater k' r' hk' hr'
    simpa using this
  · right
    refine ⟨?_, by rw [hf]⟩
    intro r hr
    have := hall r hr
    simpa using this

/-- The parser state before the first line: only `DEFAULT` (id 0) is registered. -/
def CharDef.st0 : CharDefState := { names := ["DEFAULT".toList], infos := [], ranges := [] }

/-- What a successful `CharProperty::from_reader` returns, in terms of the final parser state
`st` (category names by id, category definitions with the most recent first) and the range
lines of the file in file order. -/
theorem CharDef.parse_spec (bytes : List UInt8) (P : CharProp) (h : CharDef.parse bytes = .ok P) :
    ∃ st, CharDef.foldLines CharDef.st0 (Text.rawLines bytes) = .ok st ∧
      st.ranges.reverse = CharDef.fileRanges bytes ∧
      P.names = st.names.map String.ofList ∧
      CharDef.encodeCateInfo st ["DEFAULT".toList] = .ok P.defInfo ∧
      CharDef.encodeRanges st (CharDef.fileRanges bytes) = .ok P.ranges := by
  unfold CharDef.parse at h
  dsimp only at h
  rw [show ({ names := ["DEFAULT".toList], infos := [], ranges := [] } : CharDefState) = CharDef.st0
    from rfl] at h
  cases hf : CharDef.foldLines CharDef.st0 (Text.rawLines bytes) with
  | err => rw [hf] at h; cases h
  | panic => rw [hf] at h; cases h
  | ok st =>
    rw [hf] at h
    dsimp only at h
    have hr := CharDef.foldLines_ranges _ _ _ hf
    simp only [CharDef.st0, List.reverse_nil, List.nil_append] at hr
    cases hd : CharDef.encodeCateInfo st ["DEFAULT".toList] with
    | err => rw [hd] at h; cases h
    | panic => rw [hd] at h; cases h
    | ok d =>
      rw [hd] at h
      dsimp only at h
      cases he : CharDef.encodeRanges st st.ranges.reverse with
      | err => rw [he] at h; cases h
      | panic => rw [he] at h; cases h
      | ok rs =>
        rw [he] at h
        cases h
        refine ⟨st, rfl, hr, rfl, hd, ?_⟩
        show CharDef.encodeRanges st (List.filterMap CharDef.rangeOfLine (Text.rawLines bytes)) = _
        rw [← hr]; exact he

/-! ## `compute_groupable` -/

/-- characters `j` and `j+1` share a category -/
def Linked (cs : List Nat) (j : Nat) : Prop := cs.getD j 0 &&& cs.getD (j + 1) 0 ≠ 0

/-- `g` is the length of the maximal run starting at `i` in which every character shares a
category with its right neighbour. -/
structure IsRun (cs : List Nat) (i g : Nat) : Prop where
  pos : 1 ≤ g
  inside : i + g ≤ cs.length
  linked : ∀ j, i ≤ j → j + 1 < i + g → Linked cs j
  maximal : i + g = cs.length ∨ ¬ Linked cs (i + g - 1)

theorem Linked_cons_succ (a : Nat) (l : List Nat) (j : Nat) : Linked (a :: l) (j + 1) ↔ Linked l j := by
  simp [Linked]

theorem IsRun.shift {l : List Nat} {j g : Nat} (a : Nat) (h : IsRun l j g) : IsRun (a :: l) (j + 1) g := by
  refine ⟨h.pos, by have := h.inside; simp only [List.length_cons]; omega, ?_, ?_⟩
  · intro k hk1 hk2
    obtain ⟨k', rfl⟩ : ∃ k', k = k' + 1 := ⟨k - 1, by omega⟩
    rw [Linked_cons_succ]; exact h.linked k' (by omega) (by omega)
  · rcases h.maximal with hm | hm
    · left; simp only [List.length_cons]; omega
    · right
      have hp := h.pos
      have : j + 1 + g - 1 = (j + g - 1) + 1 := by omega
      rw [this, Linked_cons_succ]; exact hm

theorem groupables_isRun : ∀ (cs : List Nat) (i : Nat), i < cs.length →
    IsRun cs i ((groupables cs).getD i 0)
  | [], i, h => by simp at h
  | [_], i, h => by
    have : i = 0 := by simpa using h
    subst this
    exact ⟨by simp [groupables], by simp [groupables], by intro j h1 h2; simp only [groupables, List.getD_cons_zero] at h2; omega,
      Or.inl (by simp [groupables])⟩
  | c :: d :: rest, i, h => by
    cases i with
    | succ j =>
      have := groupables_isRun (d :: rest) j (by simpa using h)
      simp only [groupables, List.getD_cons_succ]
      exact this.shift c
    | zero =>
      have ih := groupables_isRun (d :: rest) 0 (by simp)
      simp only [groupables, List.getD_cons_zero]
      cases hg : groupables (d :: rest) with
      | nil => have := groupables_length (d :: rest); rw [hg] at this; simp at this
      | cons g0 gs =>
        rw [hg] at ih
        simp only [List.getD_cons_zero, List.headD_cons] at ih ⊢
        have hp := ih.pos
        have hin := ih.inside
        simp only [List.length_cons] at hin
        by_cases hcd : c &&& d ≠ 0
        · rw [if_pos hcd]
          refine ⟨by omega, by simp only [List.length_cons]; omega, ?_, ?_⟩
          · intro k _ hk
            cases k with
            | zero => simpa [Linked] using hcd
            | succ k => rw [Linked_cons_succ]; exact ih.linked k (by omega) (by omega)
          · rcases ih.maximal with hm | hm
            · left; simp only [List.length_cons] at hm ⊢; omega
            · right
              have : 0 + (g0 + 1) - 1 = (0 + g0 - 1) + 1 := by omega
              rw [this, Linked_cons_succ]; exact hm
        · rw [if_neg hcd]
          refine ⟨by omega, by simp only [List.length_cons]; omega, by intro k h1 h2; omega, Or.inr ?_⟩
          simpa [Linked] using hcd

theorem IsRun.unique {cs : List Nat} {i g g' : Nat} (h : IsRun cs i g) (h' : IsRun cs i g') : g = g' := by
  have key : ∀ {a b}, IsRun cs i a → IsRun cs i b → ¬ a < b := by
    intro a b ha hb hlt
    rcases ha.maximal with hm | hm
    · have := hb.inside; omega
    · have hp := ha.pos
      exact hm (hb.linked (i + a - 1) (by omega) (by omega))
  have h1 := key h h'
  have h2 := key h' h
  omega

/-! ## Lattice level: every candidate of every visited start node is stored exactly once -/

/-- `VisitedFrom E L p q`: position `q` is a loop head of `build_lattice_inner` when the loop is
at head `p`, judged on the (final) lattice `L`: from a head `b` without a node the loop moves to
`b + 1`; from a head with a node whose start word `b + skip b` is inside the sentence it inserts
the candidates and moves to `b + skip b + 1`; otherwise it stops. -/
inductive VisitedFrom (E : LatEnv) (L : Ends) : Nat → Nat → Prop
  | refl (p : Nat) : VisitedFrom E L p p
  | empty {p q : Nat} : p < E.len → endsAt L p = [] → VisitedFrom E L (p + 1) q → VisitedFrom E L p q
  | step {p q : Nat} : p < E.len → endsAt L p ≠ [] → p + E.skip p < E.len →
      VisitedFrom E L (p + E.skip p + 1) q → VisitedFrom E L p q

/-- The loop heads of the whole run (`start_node` values at the top of the `while`). -/
def Visited (E : LatEnv) (L : Ends) (q : Nat) : Prop := VisitedFrom E L 0 q

theorem VisitedFrom.trans {E : LatEnv} {L : Ends} {a b c : Nat} (h1 : VisitedFrom E L a b)
    (h2 : VisitedFrom E L b c) : VisitedFrom E L a c := by
  induction h1 with
  | refl _ => exact h2
  | empty hlt he _ ih => exact .empty hlt he (ih h2)
  | step hlt hne hsw _ ih => exact .step hlt hne hsw (ih h2)

/-- The candidate a stored node stands for (`e` = the boundary it is stored at). -/
def nodeCand (e : Nat) (n : Node) : Cand :=
  { endWord := e, wordId := n.wordId, lexType := n.lexType, leftId := n.leftId, rightId := n.rightId,
    wordCost := n.wordCost }

/-- The node `insert_node` pushes. -/
def newNode (E : LatEnv) (L : Ends) (startNode startWord : Nat) (c : Cand) : Node :=
  let r := searchMin E.conn (endsAt L startNode) c.leftId
  { wordId := c.wordId, lexType := c.lexType, startNode := startNode, startWord := startWord,
    leftId := c.leftId, rightId := c.rightId, minIdx := r.1, minCost := r.2 + c.wordCost,
    wordCost := c.wordCost, isBos := false }

theorem insertNode_eq (E : LatEnv) (L : Ends) (p sw : Nat) (c : Cand) :
    insertNode E L p sw c = pushAt L c.endWord (newNode E L p sw c) := rfl

theorem endsAt_insertNode (E : LatEnv) (L : Ends) (p sw : Nat) (c : Cand) (e : Nat) :
    endsAt (insertNode E L p sw c) e =
      if c.endWord = e ∧ c.endWord < L.length then endsAt L e ++ [newNode E L p sw c] else endsAt L e := by
  rw [insertNode_eq, endsAt_pushAt]
  by_cases h : c.endWord = e
  · subst h; rfl
  · simp [h]

/-- folding `insert_node` over candidates that all fit the buffer: at every boundary the new
nodes are exactly the candidates ending there, in order; they all start at `(p, sw)`. -/
theorem foldl_insert_nodes (E : LatEnv) (p sw : Nat) : ∀ (cs : List Cand) (L : Ends),
    (∀ c ∈ cs, c.endWord < L.length) →
    ∀ e, ∃ ns, endsAt (cs.foldl (fun L c => insertNode E L p sw c) L) e = endsAt L e ++ ns ∧
      ns.map (nodeCand e) = cs.filter (fun c => c.endWord == e) ∧
      ∀ n ∈ ns, n.startNode = p ∧ n.startWord = sw
  | [], L, _, e => ⟨[], by simp, by simp, by simp⟩
  | c :: cs, L, hlen, e => by
    have hlen' : ∀ c' ∈ cs, c'.endWord < (insertNode E L p sw c).length := by
      intro c' hc'
      rw [insertNode_eq, length_pushAt]
      exact hlen c' (by simp [hc'])
    obtain ⟨ns, h1, h2, h3⟩ := foldl_insert_nodes E p sw cs (insertNode E L p sw c) hlen' e
    simp only [List.foldl_cons]
    rw [h1, endsAt_insertNode]
    by_cases hce : c.endWord = e
    · have : c.endWord = e ∧ c.endWord < L.length := ⟨hce, hlen c (by simp)⟩
      rw [if_pos this]
      refine ⟨newNode E L p sw c :: ns, by simp, ?_, ?_⟩
      · simp only [List.map_cons, h2, List.filter_cons, hce, beq_self_eq_true, if_true]
        congr 1
        subst hce
        rfl
      · intro n hn
        simp only [List.mem_cons] at hn
        rcases hn with rfl | hn
        · exact ⟨rfl, rfl⟩
        · exact h3 n hn
    · have : ¬ (c.endWord = e ∧ c.endWord < L.length) := fun h => hce h.1
      rw [if_neg this]
      refine ⟨ns, rfl, ?_, h3⟩
      rw [h2, List.filter_cons]
      simp [hce]

/-- without any assumption: `insert_node` only ever appends nodes starting at `(p, sw)` -/
theorem foldl_insert_weak (E : LatEnv) (p sw : Nat) : ∀ (cs : List Cand) (L : Ends) (e : Nat),
    ∃ ns, endsAt (cs.foldl (fun L c => insertNode E L p sw c) L) e = endsAt L e ++ ns ∧
      ∀ n ∈ ns, n.startNode = p ∧ n.startWord = sw ∧ ∃ c ∈ cs, c.endWord = e
  | [], L, e => ⟨[], by simp, by simp⟩
  | c :: cs, L, e => by
    obtain ⟨ns, h1, h2⟩ := foldl_insert_weak E p sw cs (insertNode E L p sw c) e
    simp only [List.foldl_cons]
    rw [h1, endsAt_insertNode]
    split
    · rename_i hc
      refine ⟨newNode E L p sw c :: ns, by simp, ?_⟩
      intro n hn
      simp only [List.mem_cons] at hn
      rcases hn with rfl | hn
      · exact ⟨rfl, rfl, c, by simp, hc.1⟩
      · obtain ⟨a, b, c', hc', he⟩ := h2 n hn
        exact ⟨a, b, c', by simp [hc'], he⟩
    · refine ⟨ns, rfl, ?_⟩
      intro n hn
      obtain ⟨a, b, c', hc', he⟩ := h2 n hn
      exact ⟨a, b, c', by simp [hc'], he⟩

/-- the loop standing at head `p` never changes a boundary `≤ p` … -/
theorem buildLoop_stable {E C W} (hE : EnvOK E C W) (L : Ends) (p : Nat) :
    ∀ j, j ≤ p → endsAt (buildLoop E L p).1 j = endsAt L j := by
  fun_induction buildLoop E L p with
  | case1 L p hlt hemp ih => intro j hj; exact ih j (by omega)
  | case2 L p hlt hemp sw hbreak => intro j _; rfl
  | case3 L p hlt hemp sw hcont ih =>
    intro j hj
    rw [ih j (by omega)]
    obtain ⟨ns, h1, h2⟩ := foldl_insert_weak E p sw (E.cands sw) L j
    unfold addEdges
    rw [h1]
    cases ns with
    | nil => simp
    | cons n ns =>
      exfalso
      obtain ⟨_, _, c, hc, he⟩ := h2 n (by simp)
      have := (hE.cands_range sw (by omega) c hc).1
      omega
  | case4 L p hge => intro j _; rfl

/-- … only appends nodes (never removes or reorders) … -/
theorem buildLoop_appends (E : LatEnv) (L : Ends) (p : Nat) :
    ∀ e, ∃ ns, endsAt (buildLoop E L p).1 e = endsAt L e ++ ns ∧ ∀ n ∈ ns, p ≤ n.startNode := by
  fun_induction buildLoop E L p with
  | case1 L p hlt hemp ih =>
    intro e
    obtain ⟨ns, h1, h2⟩ := ih e
    exact ⟨ns, h1, fun n hn => by have := h2 n hn; omega⟩
  | case2 L p hlt hemp sw hbreak => intro e; exact ⟨[], by simp, by simp⟩
  | case3 L p hlt hemp sw hcont ih =>
    intro e
    obtain ⟨ns, h1, h2⟩ := ih e
    obtain ⟨ms, g1, g2⟩ := foldl_insert_weak E p sw (E.cands sw) L e
    unfold addEdges at h1
    rw [g1] at h1
    have h1' : endsAt (buildLoop E (addEdges E L p sw) (sw + 1)).1 e = endsAt L e ++ ms ++ ns := h1
    refine ⟨ms ++ ns, by rw [h1', List.append_assoc], ?_⟩
    intro n hn
    simp only [List.mem_append] at hn
    rcases hn with hn | hn
    · have := (g2 n hn).1; omega
    · have := h2 n hn; omega
  | case4 L p hge => intro e; exact ⟨[], by simp, by simp⟩

/-- … so the nodes starting at a node `q < p` are final. -/
theorem buildLoop_filter_lt (E : LatEnv) (L : Ends) (p q : Nat) (hq : q < p) (e : Nat) :
    (endsAt (buildLoop E L p).1 e).filter (fun n => n.startNode == q) =
      (endsAt L e).filter (fun n => n.startNode == q) := by
  obtain ⟨ns, h1, h2⟩ := buildLoop_appends E L p e
  rw [h1, List.filter_append]
  have : ns.filter (fun n => n.startNode == q) = [] := by
    rw [List.filter_eq_nil_iff]
    intro n hn
    have := h2 n hn
    simp only [beq_iff_eq]
    omega
  rw [this, List.append_nil]

/-- Main loop lemma: for every loop head `q` reached from `p` that has a node and whose start
word lies inside the sentence, the nodes with `start_node = q` stored at boundary `e` are exactly
the candidates of `q + skip q` ending at `e`, each once, in the order offered. -/
theorem buildLoop_stored {E C W} (hE : EnvOK E C W) (L : Ends) (p : Nat)
    (h : LInv E C W L p) (hp : p ≤ E.len) :
    ∀ q, VisitedFrom E (buildLoop E L p).1 p q → q < E.len → endsAt (buildLoop E L p).1 q ≠ [] →
      q + E.skip q < E.len → ∀ e, 0 < e →
        ((endsAt (buildLoop E L p).1 e).filter (fun n => n.startNode == q)).map (nodeCand e) =
          (E.cands (q + E.skip q)).filter (fun c => c.endWord == e) := by
  fun_induction buildLoop E L p with
  | case1 L p hlt hemp ih =>
    have hpe : endsAt (buildLoop E L (p + 1)).1 p = [] := by
      rw [buildLoop_stable hE L (p + 1) p (Nat.le_succ p)]; simpa using hemp
    intro q hv hq hne hsw e he
    cases hv with
    | refl _ => exact absurd hpe hne
    | empty _ _ hv' => exact ih (h.mono (Nat.le_succ p)) (by omega) q hv' hq hne hsw e he
    | step _ hne' _ _ => exact absurd hpe hne'
  | case2 L p hlt hemp sw hbreak =>
    intro q hv hq hne hsw e he
    have hpe : endsAt L p ≠ [] := by simpa using hemp
    cases hv with
    | refl _ => omega
    | empty _ he' _ => exact absurd he' hpe
    | step _ _ hsw' _ => omega
  | case3 L p hlt hemp sw hcont ih =>
    have hpe : endsAt L p ≠ [] := by simpa using hemp
    have hswl : sw < E.len := by omega
    have hadd := addEdges_inv hE p sw rfl hswl (h.mono (Nat.le_succ p)) hpe
    have hpe' : endsAt (buildLoop E (addEdges E L p sw) (sw + 1)).1 p ≠ [] := by
      rw [buildLoop_stable hE _ (sw + 1) p (by omega), hadd.2.1 p (by omega)]; exact hpe
    intro q hv hq hne hsw e he
    cases hv with
    | refl _ =>
      rw [buildLoop_filter_lt E _ (sw + 1) p (by omega) e]
      have hlen : ∀ c ∈ E.cands sw, c.endWord < L.length := by
        intro c hc
        have := (hE.cands_range sw hswl c hc).2
        have := h.len
        omega
      obtain ⟨ns, h1, h2, h3⟩ := foldl_insert_nodes E p sw (E.cands sw) L hlen e
      unfold addEdges
      rw [h1, List.filter_append, List.map_append]
      have hold : (endsAt L e).filter (fun n => n.startNode == p) = [] := by
        rw [List.filter_eq_nil_iff]
        intro n hn
        have := (h.nodes e he n hn).2
        simp only [beq_iff_eq]; omega
      have hnew : ns.filter (fun n => n.startNode == p) = ns := by
        rw [List.filter_eq_self]
        intro n hn
        simp [(h3 n hn).1]
      rw [hold, hnew, List.map_nil, List.nil_append, h2]
    | empty _ he' _ => exact absurd he' hpe'
    | step _ _ _ hv' =>
      exact ih (hadd.1.mono (by omega)) (by omega) q hv' hq hne hsw e he
  | case4 L p hge =>
    intro q hv hq hne hsw e he
    cases hv with
    | refl _ => omega
    | empty hlt' _ _ => omega
    | step hlt' _ _ _ => omega

/-- `q` is a loop head at which `add_lattice_edges` runs: it has a node and its start word is
inside the sentence. -/
def GoodStart (E : LatEnv) (L : Ends) (q : Nat) : Prop :=
  Visited E L q ∧ q < E.len ∧ endsAt L q ≠ [] ∧ q + E.skip q < E.len

/-- Converse loop lemma: every stored word starts at a loop head at which edges were added. -/
theorem buildLoop_visited {E C W} (hE : EnvOK E C W) (L : Ends) (p : Nat)
    (h : LInv E C W L p) (hp : p ≤ E.len) :
    Visited E (buildLoop E L p).1 p →
    (∀ e n, 0 < e → n ∈ endsAt L e → GoodStart E (buildLoop E L p).1 n.startNode) →
    ∀ e n, 0 < e → n ∈ endsAt (buildLoop E L p).1 e → GoodStart E (buildLoop E L p).1 n.startNode := by
  fun_induction buildLoop E L p with
  | case1 L p hlt hemp ih =>
    intro hv hold
    have hpe : endsAt (buildLoop E L (p + 1)).1 p = [] := by
      rw [buildLoop_stable hE L (p + 1) p (Nat.le_succ p)]; simpa using hemp
    exact ih (h.mono (Nat.le_succ p)) (by omega) (hv.trans (.empty hlt hpe (.refl _))) hold
  | case2 L p hlt hemp sw hbreak => intro _ hold; exact hold
  | case3 L p hlt hemp sw hcont ih =>
    intro hv hold
    have hpe : endsAt L p ≠ [] := by simpa using hemp
    have hswl : sw < E.len := by omega
    have hadd := addEdges_inv hE p sw rfl hswl (h.mono (Nat.le_succ p)) hpe
    have hpe' : endsAt (buildLoop E (addEdges E L p sw) (sw + 1)).1 p ≠ [] := by
      rw [buildLoop_stable hE _ (sw + 1) p (by omega), hadd.2.1 p (by omega)]; exact hpe
    apply ih (hadd.1.mono (by omega)) (by omega) (hv.trans (.step hlt hpe' hswl (.refl _)))
    intro e n he hn
    obtain ⟨ns, h1, h2⟩ := foldl_insert_weak E p sw (E.cands sw) L e
    unfold addEdges at hn
    rw [h1, List.mem_append] at hn
    rcases hn with hn | hn
    · exact hold e n he hn
    · rw [(h2 n hn).1]
      exact ⟨hv, hlt, hpe', hswl⟩
  | case4 L p hge => intro _ hold; exact hold

/-! ## `CharInfo` packing -/


theorem or_shiftLeft_eq_add (a b k : Nat) (h : a < 2 ^ k) : a ||| (b <<< k) = a + b * 2 ^ k := by
  rw [Nat.or_comm, ← Nat.shiftLeft_add_eq_or_of_lt h, Nat.shiftLeft_eq]; omega

def b2n (b : Bool) : Nat := if b then 1 else 0

theorem pack_some (cs b : Nat) (iv gr : Bool) (len : Nat) (h1 : cs < 2 ^ 18) (h2 : b < 2 ^ 8) (h3 : len < 2 ^ 4) :
    CharInfo.pack cs b iv gr len =
      some (cs + b * 2 ^ 18 + b2n iv * 2 ^ 26 + b2n gr * 2 ^ 27 + len * 2 ^ 28) := by
  unfold CharInfo.pack
  have e1 : cs >>> CATE_IDSET_BITS = 0 := by rw [Nat.shiftRight_eq_div_pow]; exact Nat.div_eq_of_lt h1
  have e2 : b >>> BASE_ID_BITS = 0 := by rw [Nat.shiftRight_eq_div_pow]; exact Nat.div_eq_of_lt h2
  have e3 : len >>> LENGTH_BITS = 0 := by rw [Nat.shiftRight_eq_div_pow]; exact Nat.div_eq_of_lt h3
  rw [if_neg (by rw [e1]; exact fun h => h rfl), if_neg (by rw [e2]; exact fun h => h rfl),
    if_neg (by rw [e3]; exact fun h => h rfl)]
  have hi : b2n iv < 2 := by unfold b2n; split <;> omega
  have hg : b2n gr < 2 := by unfold b2n; split <;> omega
  change some (cs ||| b <<< 18 ||| b2n iv <<< 26 ||| b2n gr <<< 27 ||| len <<< 28) = _
  generalize b2n iv = i at hi ⊢
  generalize b2n gr = g at hg ⊢
  rw [or_shiftLeft_eq_add cs b 18 h1]
  rw [or_shiftLeft_eq_add _ i 26 (by omega)]
  rw [or_shiftLeft_eq_add _ g 27 (by omega)]
  rw [or_shiftLeft_eq_add _ len 28 (by omega)]

theorem pack_none (cs b : Nat) (iv gr : Bool) (len : Nat) (h : ¬ (cs < 2 ^ 18 ∧ b < 2 ^ 8 ∧ len < 2 ^ 4)) :
    CharInfo.pack cs b iv gr len = none := by
  unfold CharInfo.pack
  by_cases h1 : cs < 2 ^ 18
  · have e1 : cs >>> CATE_IDSET_BITS = 0 := by rw [Nat.shiftRight_eq_div_pow]; exact Nat.div_eq_of_lt h1
    rw [if_neg (by rw [e1]; exact fun h => h rfl)]
    by_cases h2 : b < 2 ^ 8
    · have e2 : b >>> BASE_ID_BITS = 0 := by rw [Nat.shiftRight_eq_div_pow]; exact Nat.div_eq_of_lt h2
      rw [if_neg (by rw [e2]; exact fun h => h rfl)]
      have h3 : ¬ len < 2 ^ 4 := fun h3 => h ⟨h1, h2, h3⟩
      have e3 : len >>> LENGTH_BITS ≠ 0 := by
        rw [Nat.shiftRight_eq_div_pow]; show len / 2 ^ 4 ≠ 0; omega
      rw [if_pos e3]
    · have e2 : b >>> BASE_ID_BITS ≠ 0 := by
        rw [Nat.shiftRight_eq_div_pow]; show b / 2 ^ 8 ≠ 0; omega
      rw [if_pos e2]
  · have e1 : cs >>> CATE_IDSET_BITS ≠ 0 := by
      rw [Nat.shiftRight_eq_div_pow]; show cs / 2 ^ 18 ≠ 0; omega
    rw [if_pos e1]

theorem unpack_sum (cs b i g len : Nat) (h1 : cs < 2 ^ 18) (h2 : b < 2 ^ 8) (hi : i < 2) (hg : g < 2)
    (h3 : len < 2 ^ 4) :
    CharInfo.unpack (cs + b * 2 ^ 18 + i * 2 ^ 26 + g * 2 ^ 27 + len * 2 ^ 28) =
      ⟨cs, b, decide (i ≠ 0), decide (g ≠ 0), len⟩ := by
  unfold CharInfo.unpack
  generalize hw : cs + b * 2 ^ 18 + i * 2 ^ 26 + g * 2 ^ 27 + len * 2 ^ 28 = w
  have a1 : w &&& (2 ^ CATE_IDSET_BITS - 1) = cs := by
    rw [Nat.and_two_pow_sub_one_eq_mod]; show w % 2 ^ 18 = cs; omega
  have a2 : (w >>> CATE_IDSET_BITS) &&& (2 ^ BASE_ID_BITS - 1) = b := by
    rw [Nat.and_two_pow_sub_one_eq_mod, Nat.shiftRight_eq_div_pow]; show w / 2 ^ 18 % 2 ^ 8 = b; omega
  have a3 : (w >>> (CATE_IDSET_BITS + BASE_ID_BITS)) &&& 1 = i := by
    rw [Nat.and_one_is_mod, Nat.shiftRight_eq_div_pow]; show w / 2 ^ 26 % 2 = i; omega
  have a4 : (w >>> (CATE_IDSET_BITS + BASE_ID_BITS + 1)) &&& 1 = g := by
    rw [Nat.and_one_is_mod, Nat.shiftRight_eq_div_pow]; show w / 2 ^ 27 % 2 = g; omega
  have a5 : (w >>> (CATE_IDSET_BITS + BASE_ID_BITS + 2)) % 65536 = len := by
    rw [Nat.shiftRight_eq_div_pow]; show w / 2 ^ 28 % 65536 = len; omega
  rw [a1, a2, a3, a4, a5]

/-- every category definition the parser keeps has an id below 18 and a length below 16 -/
def CharDef.InfosOK (st : CharDefState) : Prop :=
  ∀ p ∈ st.infos, p.1 < CATE_IDSET_BITS ∧ p.2.length < 2 ^ LENGTH_BITS

theorem CharDef.parseCategory_infosOK (st st' : CharDefState) (line : List Char)
    (hst : CharDef.InfosOK st) (h : CharDef.parseCategory st line = .ok st') : CharDef.InfosOK st' := by
  unfold CharDef.parseCategory at h
  dsimp only at h
  split at h
  · split at h
    · cases h
    · split at h
      · cases h
      · split at h
        · cases h
        · rename_i length hlen
          split at h
          all_goals
            split at h
            · cases h
            · rename_i hid
              split at h
              · cases h
              · rename_i hl
                cases h
                intro p hp
                simp only [List.mem_cons] at hp
                rcases hp with rfl | hp
                · refine ⟨by simpa using hid, ?_⟩
                  simp only
                  have : length >>> LENGTH_BITS = 0 := by simpa using hl
                  rw [Nat.shiftRight_eq_div_pow] at this
                  have hpos : 0 < 2 ^ LENGTH_BITS := Nat.two_pow_pos _
                  exact (Nat.div_eq_zero_iff_lt hpos).mp this
                · exact hst p hp
  · cases h

theorem CharDef.stepLine_infosOK (st st' : CharDefState) (raw : List UInt8)
    (hst : CharDef.InfosOK st) (h : CharDef.stepLine st raw = .ok st') : CharDef.InfosOK st' := by
  unfold CharDef.stepLine at h
  cases hs : Text.decodeLine raw with
  | none => rw [hs] at h; cases h
  | some s =>
    rw [hs] at h
    dsimp only at h
    split at h
    · cases h; exact hst
    · split at h
      · exact CharDef.parseCategory_infosOK _ _ _ hst h
      · split at h
        · cases h; exact hst
        · cases h
        · cases h

theorem CharDef.foldLines_infosOK : ∀ (ls : List (List UInt8)) (st st' : CharDefState),
    CharDef.InfosOK st → CharDef.foldLines st ls = .ok st' → CharDef.InfosOK st'
  | [], st, st', hst, h => by simp only [CharDef.foldLines] at h; cases h; exact hst
  | l :: ls, st, st', hst, h => by
    simp only [CharDef.foldLines] at h
    split at h
    · rename_i st1 h1
      exact CharDef.foldLines_infosOK ls st1 st' (CharDef.stepLine_infosOK _ _ _ hst h1) h
    · cases h
    · cases h

theorem CharDef.infoOf_mem (infos : List (Nat × CateDef)) (id : Nat) (d : CateDef)
    (h : CharDef.infoOf infos id = some d) : (id, d) ∈ infos := by
  unfold CharDef.infoOf at h
  simp only [Option.map_eq_some_iff] at h
  obtain ⟨p, hp, rfl⟩ := h
  have h1 := List.find?_some hp
  have h2 := List.mem_of_find?_eq_some hp
  have : p.1 = id := by simpa using h1
  rw [← this]; exact h2

/-- a line's encoded info fits the packed word: 18-bit category set, 8-bit id, 4-bit length -/
theorem CharDef.CateLineSpec.fits {st : CharDefState} {targets : List (List Char)} {ci : CharInfo}
    (hst : CharDef.InfosOK st) (h : CharDef.CateLineSpec st targets ci) :
    ci.cateSet < 2 ^ 18 ∧ ci.baseId < 18 ∧ ci.length < 2 ^ 4 := by
  obtain ⟨f, rest, id, d, _, _, hinfo, hb, _, _, hl⟩ := h.first
  have hm := hst _ (CharDef.infoOf_mem _ _ _ hinfo)
  refine ⟨?_, by rw [hb]; exact hm.1, by rw [hl]; exact hm.2⟩
  apply Nat.lt_pow_two_of_testBit
  intro k hk
  cases hbit : ci.cateSet.testBit k with
  | false => rfl
  | true =>
    exfalso
    obtain ⟨t, ht, hid⟩ := (h.cateSet k).mp hbit
    obtain ⟨id', d', hid', hinfo'⟩ := h.allDefined t ht
    rw [hid] at hid'; cases hid'
    have := (hst _ (CharDef.infoOf_mem _ _ _ hinfo')).1
    simp only [CATE_IDSET_BITS] at this
    omega

/-! ## `unk.def` order -/

theorem filter_filter_key {α} (key : α → Nat) (es : List α) (c b : Nat) :
    (es.filter fun e => key e == c).filter (fun e => key e == b) =
      if c = b then es.filter (fun e => key e == b) else [] := by
  rw [List.filter_filter]
  split
  · rename_i h; subst h
    congr 1; funext e; simp
  · rename_i h
    rw [List.filter_eq_nil_iff]
    intro e _
    simp only [Bool.and_eq_true, beq_iff_eq, not_and]
    intro h1 h2; exact h (h2.symm.trans h1)

theorem flatMap_range_filter {α} (key : α → Nat) (es : List α) (b : Nat) : ∀ n : Nat,
    ((List.range n).flatMap fun c => es.filter (fun e => key e == c)).filter (fun e => key e == b) =
      if b < n then es.filter (fun e => key e == b) else []
  | 0 => by simp
  | n + 1 => by
    rw [List.range_succ, List.flatMap_append, List.filter_append, flatMap_range_filter key es b n]
    simp only [List.flatMap_cons, List.flatMap_nil, List.append_nil, filter_filter_key]
    by_cases h1 : b < n
    · have : ¬ n = b := by omega
      simp [h1, this]; omega
    · by_cases h2 : n = b
      · subst h2; simp
      · have : ¬ b < n + 1 := by omega
        simp [h1, h2, this]

theorem mapM_option_spec {α β} (f : α → Option β) : ∀ (l : List α) (out : List β),
    l.mapM f = some out →
      out.length = l.length ∧ ∀ (i : Nat) (a : α), l[i]? = some a → ∃ b, out[i]? = some b ∧ f a = some b
  | [], out, h => by simp at h; subst h; simp
  | a :: l, out, h => by
    rw [List.mapM_cons] at h
    simp only [bind, Option.bind_eq_some_iff, pure] at h
    obtain ⟨b, hb, bs, hbs, hout⟩ := h
    cases hout
    obtain ⟨h1, h2⟩ := mapM_option_spec f l bs hbs
    refine ⟨by simp [h1], ?_⟩
    intro i a' hi
    cases i with
    | zero => simp at hi; subst hi; exact ⟨b, by simp, hb⟩
    | succ i => simp at hi; simpa using h2 i a' hi


/-! ## category lines -/
section
open Vibrato.Text Vibrato.CharDef

/-- `parse_char_category` + registration, one category line: the name keeps its id if already
known, otherwise gets the next free id; the line's `invoke/group/length` become the current
definition of that id (later lines override earlier ones: `infoOf` reads the most recent). -/
theorem CharDef.parseCategory_spec (st st' : CharDefState) (line : List Char)
    (h : parseCategory st line = .ok st') :
    ∃ c0 c1 c2 c3 tail len id, splitWhitespace line = c0 :: c1 :: c2 :: c3 :: tail ∧
      (c1 = ['1'] ∨ c1 = ['0']) ∧ (c2 = ['1'] ∨ c2 = ['0']) ∧ parseU16 c3 = some len ∧
      ((idOf st.names c0 = some id ∧ st'.names = st.names) ∨
       (idOf st.names c0 = none ∧ id = st.names.length ∧ st'.names = st.names ++ [c0])) ∧
      id < 18 ∧ len < 16 ∧
      st'.infos = (id, ⟨decide (c1 = ['1']), decide (c2 = ['1']), len⟩) :: st.infos ∧
      infoOf st'.infos id = some ⟨decide (c1 = ['1']), decide (c2 = ['1']), len⟩ ∧
      st'.ranges = st.ranges := by
  unfold parseCategory at h
  dsimp only at h
  split at h
  · rename_i _ c0 c1 c2 c3 tail hcols
    split at h
    · cases h
    · rename_i h1
      split at h
      · cases h
      · rename_i h2
        split at h
        · cases h
        · rename_i _ len hlen
          have hlen16 : ∀ {l : Nat}, ¬ (l >>> LENGTH_BITS ≠ 0) → l < 16 := by
            intro l hl
            have : l >>> LENGTH_BITS = 0 := by simpa using hl
            rw [Nat.shiftRight_eq_div_pow] at this
            exact (Nat.div_eq_zero_iff_lt (Nat.two_pow_pos _)).mp this
          split at h
          · rename_i _ i hi
            split at h
            · cases h
            · rename_i hid
              split at h
              · cases h
              · rename_i hl
                cases h
                refine ⟨c0, c1, c2, c3, tail, len, i, hcols, Classical.not_not.mp h1, Classical.not_not.mp h2, hlen,
                  Or.inl ⟨hi, rfl⟩, by simpa [CATE_IDSET_BITS] using hid, hlen16 hl, rfl, ?_, rfl⟩
                simp [infoOf]
          · rename_i _ hi
            split at h
            · cases h
            · rename_i hid
              split at h
              · cases h
              · rename_i hl
                cases h
                refine ⟨c0, c1, c2, c3, tail, len, st.names.length, hcols, Classical.not_not.mp h1,
                  Classical.not_not.mp h2, hlen, Or.inr ⟨hi, rfl, rfl⟩, by simpa [CATE_IDSET_BITS] using hid,
                  hlen16 hl, rfl, ?_, rfl⟩
                simp [infoOf]
  · cases h

end

end Vibrato
