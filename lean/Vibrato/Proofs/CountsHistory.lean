/-
Helper lemmas for C13 (worker side): what one `reset_sentence; tokenize;
update_connid_counts` block does to the connection-id counter, whatever the worker did before.
Core Lean only.
-/
import Vibrato.Props.C04
import Vibrato.Proofs.Counts

namespace Vibrato

/-- the lattice environment of sentence `s` under tokenizer `T` -/
def sentEnv (T : TokenizerM) (s : List Nat) : LatEnv :=
  latEnvOf T.dict.tokDict (compileSent T.dict.tokDict s) T.opts

/-- the `(left id, right id)` pairs `add_connid_counts` visits for sentence `s` on a fresh
lattice buffer (`f5` selects where the EOS connections are read) -/
def sentPairs (f5 : Bool) (T : TokenizerM) (s : List Nat) : List (Nat × Nat) :=
  connidPairs (sentEnv T s) (buildLattice (sentEnv T s) 0) f5

theorem connidPairs_congr (E E' : LatEnv) (Lt Lt' : Lattice) (f : Bool) (hlen : E.len = E'.len)
    (hr : EqReads Lt.ends Lt'.ends) (he : Lt.eos = Lt'.eos) :
    connidPairs E Lt f = connidPairs E' Lt' f := by
  have hr' : ∀ j, endsAt Lt.ends j = endsAt Lt'.ends j := hr
  unfold connidPairs
  simp only [hlen, he, hr']

/-- **Per-sentence increment**, defined from a fresh worker: the counter after
`init_connid_counter; reset_sentence(s); tokenize; update_connid_counts` (`none` = panic). -/
def incr (fx : Fixes) (T : TokenizerM) (s : List Nat) : Option (List Nat × List Nat) :=
  (WorkerM.run fx T WorkerM.fresh [.initCounter, .reset s, .tokenize, .updateCounts]).bind (·.counter)

theorem run_cons (fx : Fixes) (T : TokenizerM) (w : WorkerM) (op : WOp) (ops : List WOp) :
    WorkerM.run fx T w (op :: ops) = (w.step fx T op).bind fun p => WorkerM.run fx T p.1 ops := rfl

theorem run_append (fx : Fixes) (T : TokenizerM) :
    ∀ (a b : List WOp) (w : WorkerM),
      WorkerM.run fx T w (a ++ b) = (WorkerM.run fx T w a).bind fun w' => WorkerM.run fx T w' b := by
  intro a
  induction a with
  | nil => intro b w; rfl
  | cons op a ih =>
    intro b w
    simp only [List.cons_append, run_cons]
    cases w.step fx T op with
    | none => rfl
    | some p => simp only [Option.bind_some]; exact ih b p.1

theorem sentEnv_candsInRange (T : TokenizerM) (s : List Nat) : CandsInRange (sentEnv T s) :=
  latEnv_candsInRange T.dict.tokDict s T.opts

/-- `tokenize` on a non-empty sentence, with the buffer history factored out of the result of
`append_top_nodes` -/
theorem step_tokenize_nonempty (fx : Fixes) (T : TokenizerM) (w : WorkerM)
    (hs : w.sent.isEmpty = false) :
    w.step fx T .tokenize =
      (topNodes (buildLattice (sentEnv T w.sent) 0)).map fun r =>
        ({ w with top := (if fx.f1 then [] else w.top) ++ r,
                  lat := some (buildLattice (sentEnv T w.sent) w.bufLen, (sentEnv T w.sent).len),
                  bufLen := max w.bufLen ((sentEnv T w.sent).len + 1) }, WOut.unit) := by
  have hb := (buildLattice_buffer_indep _ (sentEnv_candsInRange T w.sent) w.bufLen).2.2
  simp only [WorkerM.step, hs, Bool.false_eq_true, if_false]
  show (match topNodes (buildLattice (sentEnv T w.sent) w.bufLen) with
    | none => none
    | some r => _) = _
  rw [hb]
  cases topNodes (buildLattice (sentEnv T w.sent) 0) <;> rfl

theorem step_tokenize_empty (fx : Fixes) (T : TokenizerM) (w : WorkerM)
    (hs : w.sent.isEmpty = true) :
    w.step fx T .tokenize = some ({ w with top := if fx.f1 then [] else w.top }, WOut.unit) := by
  simp only [WorkerM.step, hs, if_true]

theorem step_update (fx : Fixes) (T : TokenizerM) (w : WorkerM) (c : List Nat × List Nat)
    (hc : w.counter = some c) (Lt : Lattice) (len : Nat) (hl : w.lat = some (Lt, len))
    (h : ¬ (fx.f4 = true ∧ w.sent.isEmpty = true)) :
    w.step fx T .updateCounts =
      (addCounts c (connidPairs ⟨len, fun _ _ => 0, fun _ => 0, fun _ => []⟩ Lt fx.f5)).map
        fun c' => ({ w with counter := some c' }, WOut.unit) := by
  simp only [WorkerM.step, h, if_false, hc, hl]

theorem step_update_skip (fx : Fixes) (T : TokenizerM) (w : WorkerM)
    (h : fx.f4 = true ∧ w.sent.isEmpty = true) :
    w.step fx T .updateCounts = some (w, WOut.unit) := by
  simp only [WorkerM.step, h, and_self, if_true]

/-- the increment of a non-empty sentence in closed form -/
theorem incr_eq (fx : Fixes) (T : TokenizerM) (s : List Nat) (hs : s.isEmpty = false) :
    incr fx T s =
      if (topNodes (buildLattice (sentEnv T s) 0)).isSome then
        addCounts (zeroC T.dict.numLeft T.dict.numRight) (sentPairs fx.f5 T s)
      else none := by
  unfold incr
  rw [run_cons]
  simp only [WorkerM.step, Option.bind_some]
  rw [run_cons]
  simp only [WorkerM.step, Option.bind_some]
  rw [run_cons, step_tokenize_nonempty fx T _ hs]
  simp only
  cases htop : topNodes (buildLattice (sentEnv T s) 0) with
  | none => simp
  | some r =>
    simp only [Option.map_some, Option.bind_some, Option.isSome_some, if_true]
    rw [run_cons, step_update fx T _ _ rfl _ _ rfl (by simp [hs])]
    have hbi := buildLattice_buffer_indep _ (sentEnv_candsInRange T s) WorkerM.fresh.bufLen
    rw [connidPairs_congr ⟨(sentEnv T s).len, fun _ _ => 0, fun _ => 0, fun _ => []⟩ (sentEnv T s) _
      (buildLattice (sentEnv T s) 0) fx.f5 rfl hbi.1 hbi.2.1]
    show ((addCounts (zeroC T.dict.numLeft T.dict.numRight) (sentPairs fx.f5 T s)).map _).bind _ >>= _ = _
    cases addCounts (zeroC T.dict.numLeft T.dict.numRight) (sentPairs fx.f5 T s) <;> rfl

/-! ### Histories of blocks -/

/-- the read-only operations -/
inductive RdOp where
  | query
  | lattice
  | probs
  | counts
  deriving Repr, DecidableEq

def RdOp.op : RdOp → WOp
  | .query => .query
  | .lattice => .lattice
  | .probs => .probs
  | .counts => .counts

/-- One block `reset_sentence(s); tokenize(); update_connid_counts()` with arbitrary reads
after each of the three calls. -/
structure Block where
  s : List Nat
  r1 : List RdOp := []
  r2 : List RdOp := []
  r3 : List RdOp := []
  deriving Repr

def Block.ops (b : Block) : List WOp :=
  .reset b.s :: (b.r1.map RdOp.op ++ .tokenize :: (b.r2.map RdOp.op ++ .updateCounts :: b.r3.map RdOp.op))

/-- the worker has a counter `c` of the connector's dimensions -/
structure CtrOK (T : TokenizerM) (w : WorkerM) (c : List Nat × List Nat) : Prop where
  ctr : w.counter = some c
  l1 : c.1.length = T.dict.numLeft
  l2 : c.2.length = T.dict.numRight

theorem step_read (fx : Fixes) (T : TokenizerM) (w : WorkerM) (c : List Nat × List Nat)
    (h : CtrOK T w c) (hl : 0 < T.dict.numLeft) (hr : 0 < T.dict.numRight) (r : RdOp) :
    ∃ o, w.step fx T r.op = some (w, o) := by
  cases r with
  | query => exact ⟨_, rfl⟩
  | lattice =>
    simp only [RdOp.op, WorkerM.step]
    cases w.lat with
    | none => exact ⟨_, rfl⟩
    | some p => exact ⟨_, rfl⟩
  | probs =>
    obtain ⟨pl, hpl, _⟩ := probsOf_spec c.1 (by
      intro h0; have := h.l1; rw [h0] at this; simp at this; omega)
    obtain ⟨pr, hpr, _⟩ := probsOf_spec c.2 (by
      intro h0; have := h.l2; rw [h0] at this; simp at this; omega)
    refine ⟨.probs pl pr, ?_⟩
    simp only [RdOp.op, WorkerM.step, h.ctr, hpl, hpr]
    rfl
  | counts => exact ⟨_, rfl⟩

theorem run_reads (fx : Fixes) (T : TokenizerM) (w : WorkerM) (c : List Nat × List Nat)
    (h : CtrOK T w c) (hl : 0 < T.dict.numLeft) (hr : 0 < T.dict.numRight) (rs : List RdOp) :
    WorkerM.run fx T w (rs.map RdOp.op) = some w := by
  induction rs with
  | nil => rfl
  | cons r rs ih =>
    obtain ⟨o, ho⟩ := step_read fx T w c h hl hr r
    simp only [List.map_cons, run_cons, ho, Option.bind_some]
    exact ih

theorem run_reads_ctr (fx : Fixes) (T : TokenizerM) (w : WorkerM) (c : List Nat × List Nat)
    (h : CtrOK T w c) (hl : 0 < T.dict.numLeft) (hr : 0 < T.dict.numRight) (rs : List RdOp) :
    ∃ w', WorkerM.run fx T w (rs.map RdOp.op) = some w' ∧ CtrOK T w' c ∧ w'.lat = w.lat :=
  ⟨w, run_reads fx T w c h hl hr rs, h, rfl⟩

theorem run_reads_then (fx : Fixes) (T : TokenizerM) (w : WorkerM) (c : List Nat × List Nat)
    (h : CtrOK T w c) (hl : 0 < T.dict.numLeft) (hr : 0 < T.dict.numRight) (rs : List RdOp)
    (ops : List WOp) :
    WorkerM.run fx T w (rs.map RdOp.op ++ ops) = WorkerM.run fx T w ops := by
  rw [run_append, run_reads fx T w c h hl hr rs]
  rfl

/-- **One block.**  On a worker holding a counter `c` of the connector's dimensions (any
sentence, result, lattice and buffer left by earlier operations): with the F4 repair
an empty sentence leaves the counter alone; a non-empty sentence (F4 or not) panics exactly when it panics
on a fresh worker and otherwise adds that fresh worker's increment. -/
theorem run_block (fx : Fixes) (T : TokenizerM)
    (hl : 0 < T.dict.numLeft) (hr : 0 < T.dict.numRight)
    (w : WorkerM) (c : List Nat × List Nat) (h : CtrOK T w c) (b : Block) :
    (b.s.isEmpty = true → fx.f4 = true → ∃ w', WorkerM.run fx T w b.ops = some w' ∧ CtrOK T w' c) ∧
    (b.s.isEmpty = false →
      (incr fx T b.s = none ∧ WorkerM.run fx T w b.ops = none) ∨
      ∃ i w', incr fx T b.s = some i ∧ WorkerM.run fx T w b.ops = some w' ∧
        CtrOK T w' (addC c i) ∧
        w'.lat = some (buildLattice (sentEnv T b.s) w.bufLen, (sentEnv T b.s).len)) := by
  have h1 : CtrOK T { w with sent := b.s, top := [] } c := ⟨h.ctr, h.l1, h.l2⟩
  have hstart : WorkerM.run fx T w b.ops =
      WorkerM.run fx T { w with sent := b.s, top := [] }
        (.tokenize :: (b.r2.map RdOp.op ++ .updateCounts :: b.r3.map RdOp.op)) := by
    unfold Block.ops
    rw [run_cons]
    simp only [WorkerM.step, Option.bind_some]
    exact run_reads_then fx T _ c h1 hl hr b.r1 _
  rw [hstart]
  constructor
  · intro hs hf4
    rw [run_cons, step_tokenize_empty fx T _ hs]
    simp only [Option.bind_some]
    have h2 : CtrOK T { w with sent := b.s, top := if fx.f1 then [] else [] } c := ⟨h.ctr, h.l1, h.l2⟩
    rw [run_reads_then fx T _ c h2 hl hr b.r2, run_cons, step_update_skip fx T _ ⟨hf4, hs⟩]
    simp only [Option.bind_some]
    exact ⟨_, run_reads fx T _ c h2 hl hr b.r3, h2⟩
  · intro hs
    rw [incr_eq fx T b.s hs, run_cons, step_tokenize_nonempty fx T _ hs]
    simp only
    cases htop : topNodes (buildLattice (sentEnv T b.s) 0) with
    | none => left; simp
    | some r =>
      simp only [Option.map_some, Option.bind_some, Option.isSome_some, if_true]
      have h2 : CtrOK T { w with sent := b.s, top := (if fx.f1 then [] else []) ++ r, lat := some (buildLattice (sentEnv T b.s) w.bufLen, (sentEnv T b.s).len), bufLen := max w.bufLen ((sentEnv T b.s).len + 1) } c := ⟨h.ctr, h.l1, h.l2⟩
      rw [run_reads_then fx T _ c h2 hl hr b.r2, run_cons,
        step_update fx T _ c h2.ctr _ _ rfl (by simp [hs])]
      have hbi := buildLattice_buffer_indep _ (sentEnv_candsInRange T b.s) w.bufLen
      rw [connidPairs_congr ⟨(sentEnv T b.s).len, fun _ _ => 0, fun _ => 0, fun _ => []⟩
        (sentEnv T b.s) _ (buildLattice (sentEnv T b.s) 0) fx.f5 rfl hbi.1 hbi.2.1]
      have hsp : connidPairs (sentEnv T b.s) (buildLattice (sentEnv T b.s) 0) fx.f5 =
          sentPairs fx.f5 T b.s := rfl
      rw [hsp]
      have hadd : addCounts c (sentPairs fx.f5 T b.s) =
          (addCounts (zeroC T.dict.numLeft T.dict.numRight) (sentPairs fx.f5 T b.s)).map (addC c) := by
        have := addCounts_addC c (sentPairs fx.f5 T b.s) (zeroC T.dict.numLeft T.dict.numRight)
          (by simp [zeroC, h.l1]) (by simp [zeroC, h.l2])
        rw [← this, ← h.l1, ← h.l2, addC_zeroC]
      rw [hadd]
      cases hz : addCounts (zeroC T.dict.numLeft T.dict.numRight) (sentPairs fx.f5 T b.s) with
      | none => left; simp
      | some i =>
        right
        obtain ⟨z1, z2, _, _⟩ := addCounts_spec _ _ _ hz
        have hlen := addC_length c i (by rw [z1, h.l1]; simp [zeroC]) (by rw [z2, h.l2]; simp [zeroC])
        have hl1 : (addC c i).1.length = T.dict.numLeft := by rw [hlen.1, h.l1]
        have hl2 : (addC c i).2.length = T.dict.numRight := by rw [hlen.2, h.l2]
        refine ⟨i, ?_⟩
        simp only [Option.map_some, Option.bind_some, true_and]
        exact run_reads_ctr fx T _ (addC c i) ⟨rfl, hl1, hl2⟩ hl hr b.r3

end Vibrato
