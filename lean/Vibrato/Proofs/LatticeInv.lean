import Vibrato.Proofs.SearchMin

namespace Vibrato

/-- Hypotheses on the environment: candidates end after their start and inside
the sentence; connection and word costs are bounded above so that no accumulated
cost exceeds `i32::MAX` (the property's "costs stay within 32-bit range"). -/
structure EnvOK (E : LatEnv) (C W : Int) : Prop where
  cands_range : ∀ sw, sw < E.len → ∀ c, c ∈ E.cands sw → sw < c.endWord ∧ c.endWord ≤ E.len
  conn_le : ∀ r l, E.conn r l ≤ C
  word_le : ∀ sw, sw < E.len → ∀ c, c ∈ E.cands sw → c.wordCost ≤ W
  C_nonneg : 0 ≤ C
  W_nonneg : 0 ≤ W
  bound : ((E.len : Int) + 1) * (C + W) ≤ MAX_COST

/-- What is true of every non-BOS node `n` stored at boundary `e`. -/
structure NodeOK (E : LatEnv) (C W : Int) (L : Ends) (e : Nat) (n : Node) : Prop where
  notBos : n.isBos = false
  sn_le_sw : n.startNode ≤ n.startWord
  sw_lt : n.startWord < e
  e_le : e ≤ E.len
  back : ∃ m, (endsAt L n.startNode)[n.minIdx]? = some m ∧
    n.minCost = stepCost E.conn n.leftId m + n.wordCost
  locMin : ∀ m ∈ endsAt L n.startNode, n.minCost ≤ stepCost E.conn n.leftId m + n.wordCost
  costLe : n.minCost ≤ (e : Int) * (C + W)
  sw_eq : n.startWord = n.startNode + E.skip n.startNode
  fromCand : ∃ c ∈ E.cands n.startWord, c.endWord = e ∧ c.wordId = n.wordId ∧
    c.lexType = n.lexType ∧ c.leftId = n.leftId ∧ c.rightId = n.rightId ∧ c.wordCost = n.wordCost

/-- Lattice invariant with frontier `q`: every stored word starts at a node `< q`. -/
structure LInv (E : LatEnv) (C W : Int) (L : Ends) (q : Nat) : Prop where
  len : E.len < L.length
  bos : endsAt L 0 = [bosNode]
  nodes : ∀ e, 0 < e → ∀ n ∈ endsAt L e, NodeOK E C W L e n ∧ n.startNode < q

theorem LInv.mono {E C W L q q'} (h : LInv E C W L q) (hq : q ≤ q') : LInv E C W L q' :=
  ⟨h.len, h.bos, fun e he n hn => ⟨(h.nodes e he n hn).1, Nat.lt_of_lt_of_le (h.nodes e he n hn).2 hq⟩⟩

theorem LInv.costLe {E C W L q} (h : LInv E C W L q) (hE : EnvOK E C W) (e : Nat) (n : Node)
    (hn : n ∈ endsAt L e) : n.minCost ≤ (e : Int) * (C + W) := by
  rcases Nat.eq_zero_or_pos e with rfl | he
  · rw [h.bos] at hn; simp at hn; subst hn; simp [bosNode]
  · exact (h.nodes e he n hn).1.costLe

theorem NodeOK.congr {E C W L L' e n} (h : NodeOK E C W L e n)
    (heq : endsAt L' n.startNode = endsAt L n.startNode) : NodeOK E C W L' e n :=
  ⟨h.notBos, h.sn_le_sw, h.sw_lt, h.e_le, by rw [heq]; exact h.back, by rw [heq]; exact h.locMin,
    h.costLe, h.sw_eq, h.fromCand⟩

theorem reset_inv (E : LatEnv) (C W : Int) (b : Nat) : LInv E C W (resetEnds b E.len) 0 := by
  refine ⟨?_, endsAt_resetEnds_zero _ _, ?_⟩
  · rw [length_resetEnds]; omega
  · intro e he n hn
    obtain ⟨j, rfl⟩ : ∃ j, e = j + 1 := ⟨e - 1, by omega⟩
    rw [endsAt_resetEnds_succ] at hn; cases hn

theorem stepCost_le {E C W L q} (h : LInv E C W L q) (hE : EnvOK E C W) (p : Nat)
    (l : Nat) (m : Node) (hm : m ∈ endsAt L p) :
    stepCost E.conn l m ≤ ((p : Int) + 1) * (C + W) - W := by
  have h1 := h.costLe hE p m hm
  have h2 := hE.conn_le m.rightId l
  unfold stepCost
  have : ((p : Int) + 1) * (C + W) - W = (p : Int) * (C + W) + C := by
    rw [Int.add_mul]; omega
  omega

theorem bound_mono {E C W} (hE : EnvOK E C W) (p : Nat) (hp : p ≤ E.len) :
    ((p : Int) + 1) * (C + W) ≤ MAX_COST := by
  have h0 : (0 : Int) ≤ C + W := Int.add_nonneg hE.C_nonneg hE.W_nonneg
  have : ((p : Int) + 1) * (C + W) ≤ ((E.len : Int) + 1) * (C + W) :=
    Int.mul_le_mul_of_nonneg_right (by omega) h0
  exact Int.le_trans this hE.bound

/-- `insert_node` keeps the invariant when the word starts at the frontier node
`p` (which has a node) and ends beyond it. -/
theorem insert_inv {E C W L} (hE : EnvOK E C W) (p sw : Nat) (c : Cand)
    (h : LInv E C W L (p + 1)) (hne : endsAt L p ≠ []) (hpsw : sw = p + E.skip p)
    (hswl : sw < E.len) (hc : c ∈ E.cands sw) :
    LInv E C W (insertNode E L p sw c) (p + 1) := by
  have hsw : sw < c.endWord := (hE.cands_range sw hswl c hc).1
  have hend : c.endWord ≤ E.len := (hE.cands_range sw hswl c hc).2
  have hw : c.wordCost ≤ W := hE.word_le sw hswl c hc
  have hplen : p < E.len := by omega
  have hpe : c.endWord ≠ p := by omega
  have hmax : ∀ m ∈ endsAt L p, stepCost E.conn c.leftId m ≤ MAX_COST := by
    intro m hm
    have h1 := stepCost_le h hE p c.leftId m hm
    have h2 := bound_mono hE p (by omega)
    have := hE.W_nonneg
    omega
  obtain ⟨m, hget, hcost, hmin⟩ := searchMin_spec E.conn c.leftId (endsAt L p) hne hmax
  have hlenL : c.endWord < L.length := by have := h.len; omega
  have hstable : ∀ j, j ≠ c.endWord → endsAt (insertNode E L p sw c) j = endsAt L j := by
    intro j hj
    unfold insertNode
    exact endsAt_pushAt_ne _ _ _ _ (Ne.symm hj)
  refine ⟨by unfold insertNode; simpa using h.len, ?_, ?_⟩
  · rw [hstable 0 (by omega)]; exact h.bos
  · intro e he n hn
    by_cases hee : e = c.endWord
    · subst hee
      unfold insertNode at hn
      rw [endsAt_pushAt_same _ _ _ hlenL] at hn
      simp only [List.mem_append, List.mem_singleton] at hn
      rcases hn with hn | rfl
      · obtain ⟨hok, hfr⟩ := h.nodes _ he n hn
        exact ⟨hok.congr (hstable _ (by omega)), hfr⟩
      · refine ⟨⟨rfl, by simp only; omega, hsw, hend, ?_, ?_, ?_, hpsw,
          ⟨c, hc, rfl, rfl, rfl, rfl, rfl, rfl⟩⟩, Nat.lt_succ_self p⟩
        · rw [hstable p (Ne.symm hpe)]
          exact ⟨m, hget, by simp [hcost]⟩
        · rw [hstable p (Ne.symm hpe)]
          intro m' hm'
          have := hmin m' hm'
          simp only
          omega
        · have hm_mem : m ∈ endsAt L p := List.mem_of_getElem? hget
          have h1 := stepCost_le h hE p c.leftId m hm_mem
          have h0 : (0 : Int) ≤ C + W := Int.add_nonneg hE.C_nonneg hE.W_nonneg
          have h2 : ((p : Int) + 1) * (C + W) ≤ (c.endWord : Int) * (C + W) :=
            Int.mul_le_mul_of_nonneg_right (by omega) h0
          simp only
          omega
    · rw [hstable e hee] at hn
      obtain ⟨hok, hfr⟩ := h.nodes e he n hn
      exact ⟨hok.congr (hstable _ (by omega)), hfr⟩

theorem insert_endsAt_le {E : LatEnv} {L : Ends} (p sw : Nat) (c : Cand) (j : Nat)
    (hj : j ≠ c.endWord) : endsAt (insertNode E L p sw c) j = endsAt L j := by
  unfold insertNode
  exact endsAt_pushAt_ne _ _ _ _ (Ne.symm hj)

theorem insert_endsAt_end {E : LatEnv} {L : Ends} (p sw : Nat) (c : Cand)
    (h : c.endWord < L.length) : endsAt (insertNode E L p sw c) c.endWord ≠ [] := by
  unfold insertNode
  rw [endsAt_pushAt_same _ _ _ h]; simp

/-- Folding `insert_node` over a candidate list keeps the invariant, leaves every
boundary `≤ sw` untouched and never empties a boundary. -/
theorem foldl_insert_inv {E C W} (hE : EnvOK E C W) (p sw : Nat) (hpsw : sw = p + E.skip p)
    (hswl : sw < E.len) :
    ∀ (cs : List Cand) (L : Ends),
      (∀ c ∈ cs, c ∈ E.cands sw) →
      LInv E C W L (p + 1) → endsAt L p ≠ [] →
      let L' := cs.foldl (fun L c => insertNode E L p sw c) L
      LInv E C W L' (p + 1) ∧ (∀ j, j ≤ sw → endsAt L' j = endsAt L j) ∧
        (∀ j, endsAt L j ≠ [] → endsAt L' j ≠ []) ∧
        (∀ c ∈ cs, endsAt L' c.endWord ≠ []) := by
  intro cs
  induction cs with
  | nil => intro L _ h _; exact ⟨h, fun _ _ => rfl, fun _ h => h, by simp⟩
  | cons c cs ih =>
    intro L hcs h hne
    have hc0 := hcs c (by simp)
    have hc1 : sw < c.endWord := (hE.cands_range sw hswl c hc0).1
    have hc2 : c.endWord ≤ E.len := (hE.cands_range sw hswl c hc0).2
    have h1 := insert_inv hE p sw c h hne hpsw hswl hc0
    have hp' : endsAt (insertNode E L p sw c) p ≠ [] := by
      rw [insert_endsAt_le p sw c p (by omega)]; exact hne
    obtain ⟨i1, i2, i3, i4⟩ := ih (insertNode E L p sw c) (fun c' hc' => hcs c' (by simp [hc'])) h1 hp'
    have hlen : c.endWord < L.length := by have := h.len; omega
    simp only [List.foldl_cons]
    refine ⟨i1, ?_, ?_, ?_⟩
    · intro j hj; rw [i2 j hj, insert_endsAt_le p sw c j (by omega)]
    · intro j hj
      apply i3
      by_cases hje : j = c.endWord
      · subst hje; exact insert_endsAt_end p sw c hlen
      · rw [insert_endsAt_le p sw c j hje]; exact hj
    · intro c' hc'
      simp only [List.mem_cons] at hc'
      rcases hc' with rfl | hc'
      · exact i3 _ (insert_endsAt_end p sw _ hlen)
      · exact i4 c' hc'

theorem addEdges_inv {E C W L} (hE : EnvOK E C W) (p sw : Nat) (hpsw : sw = p + E.skip p)
    (hswl : sw < E.len)
    (h : LInv E C W L (p + 1)) (hne : endsAt L p ≠ []) :
    LInv E C W (addEdges E L p sw) (p + 1) ∧
      (∀ j, j ≤ sw → endsAt (addEdges E L p sw) j = endsAt L j) ∧
      (∀ j, endsAt L j ≠ [] → endsAt (addEdges E L p sw) j ≠ []) ∧
      (∀ c ∈ E.cands sw, endsAt (addEdges E L p sw) c.endWord ≠ []) := by
  unfold addEdges
  exact foldl_insert_inv hE p sw hpsw hswl (E.cands sw) L (fun c hc => hc) h hne

/-- The main loop keeps the invariant; the boundary handed to `insert_eos` is at
most `len`; and when every start position offers at least one candidate
(`Covered`), that boundary has a node. -/
theorem buildLoop_inv {E C W} (hE : EnvOK E C W) (L : Ends) (p : Nat)
    (h : LInv E C W L p) (hp : p ≤ E.len) :
    LInv E C W (buildLoop E L p).1 ((buildLoop E L p).2 + 1) ∧ (buildLoop E L p).2 ≤ E.len ∧
      ((buildLoop E L p).2 = E.len ∨ E.len ≤ (buildLoop E L p).2 + E.skip (buildLoop E L p).2) := by
  fun_induction buildLoop E L p with
  | case1 L p hlt hemp ih => exact ih (h.mono (Nat.le_succ p)) (by omega)
  | case2 L p hlt hemp sw hbreak => exact ⟨h.mono (by omega), by omega, Or.inr hbreak⟩
  | case3 L p hlt hemp sw hcont ih =>
    have hne : endsAt L p ≠ [] := by simpa using hemp
    have := addEdges_inv hE p sw rfl (by omega) (h.mono (Nat.le_succ p)) hne
    exact ih (this.1.mono (by omega)) (by omega)
  | case4 L p hge => exact ⟨h.mono (by omega), by omega, Or.inl (by omega)⟩

/-- Every start position inside the sentence offers at least one candidate. -/
def Covered (E : LatEnv) : Prop := ∀ sw, sw < E.len → E.cands sw ≠ []

theorem buildLoop_reach {E C W} (hE : EnvOK E C W) (hcov : Covered E) (L : Ends) (p : Nat)
    (h : LInv E C W L p) (hp : p ≤ E.len) (hreach : ∃ e, p ≤ e ∧ endsAt L e ≠ []) :
    endsAt (buildLoop E L p).1 (buildLoop E L p).2 ≠ [] := by
  fun_induction buildLoop E L p with
  | case1 L p hlt hemp ih =>
    apply ih (h.mono (Nat.le_succ p)) (by omega)
    obtain ⟨e, he, hne⟩ := hreach
    refine ⟨e, ?_, hne⟩
    rcases Nat.lt_or_ge p e with h1 | h1
    · exact h1
    · have : e = p := by omega
      subst this; simp at hemp; exact absurd hemp hne
  | case2 L p hlt hemp sw hbreak => simpa using hemp
  | case3 L p hlt hemp sw hcont ih =>
    have hne : endsAt L p ≠ [] := by simpa using hemp
    have hadd := addEdges_inv hE p sw rfl (by omega) (h.mono (Nat.le_succ p)) hne
    apply ih (hadd.1.mono (by omega)) (by omega)
    have hsw : sw < E.len := by omega
    obtain ⟨c, hc⟩ := List.exists_mem_of_ne_nil _ (hcov sw hsw)
    exact ⟨c.endWord, (hE.cands_range sw hsw c hc).1, hadd.2.2.2 c hc⟩
  | case4 L p hge =>
    obtain ⟨e, he, hne⟩ := hreach
    rcases Nat.lt_or_ge p e with h1 | h1
    · -- a node beyond `len` is impossible
      exfalso
      have := (h.nodes e (by omega) _ (List.getLast_mem hne)).1.e_le
      omega
    · have : e = p := by omega
      subst this; exact hne

end Vibrato
