/-
Helper lemmas about `Vibrato/Model/Trainer.lean`:

* closed forms of the row loops of `write_dictionary` (`lexRows_eq`, `unkRows_eq`,
  `userRows_eq`): the emitted file is the concatenation of one row per entry, in order;
* invariants of `merge` (`MergedOK`): every connection id of a merged feature set is a valid
  1-based index into the class table and that table entry is the feature set's bigram key,
  the matrix has one row per right class plus the BOS row, every matrix entry's left index is
  within the left class table, keys of a row strictly increase.
-/
import Vibrato.Model.Trainer
import Vibrato.Proofs.CsvQuote

namespace Vibrato.Trainer
open Vibrato.Bincode Vibrato.Image Vibrato.ModelImage WeightOps

theorem ofLex_quote (x : List UInt8) :
    ofLex (LexCsv.quoteCsvCell x) = .ok (LexCsv.quoteCell x) := by
  rw [LexCsv.quoteCsvCell_eq]; rfl

section
variable {W S : Type} [WeightOps W S]

/-! ## Closed forms of the row loops -/

/-- One `lex.csv` / `user.csv` row carrying model parameters. -/
def lexRow (s : S) (surf : Str) (fs : MergedFS W) (feature : Str) : List UInt8 :=
  LexCsv.quoteCell surf ++ rowTail fs.leftId fs.rightId (cost16 fs.weight s) feature

/-- The rows for parallel lists of surfaces, merged feature sets and feature strings. -/
def lexRowsSpec (s : S) : List Str → List (MergedFS W) → List Str → List UInt8
  | surf :: ss, fs :: fss, f :: ff => lexRow s surf fs f ++ lexRowsSpec s ss fss ff
  | _, _, _ => []

theorem lexRows_eq (mm : Merged W) (s : S) (features : List Str) :
    ∀ (surfaces : List Str) (i : Nat) (acc : List UInt8),
      i + surfaces.length ≤ mm.featureSets.length → i + surfaces.length ≤ features.length →
      lexRows mm s features surfaces i acc =
        .ok (acc ++ lexRowsSpec s surfaces (mm.featureSets.drop i) (features.drop i)) := by
  intro surfaces
  induction surfaces with
  | nil => intro i acc _ _; simp [lexRows, lexRowsSpec]
  | cons surf rest ih =>
    intro i acc h1 h2
    simp only [List.length_cons] at h1 h2
    have hi1 : i < mm.featureSets.length := by omega
    have hi2 : i < features.length := by omega
    rw [List.drop_eq_getElem_cons hi1, List.drop_eq_getElem_cons hi2]
    simp only [lexRows, List.getElem?_eq_getElem hi1, List.getElem?_eq_getElem hi2, ofLex_quote,
      lexRowsSpec]
    rw [ih (i + 1) _ (by omega) (by omega)]
    simp [lexRow, List.append_assoc]

/-- When a table is too short the loop panics (index out of range); it never returns `Err`. -/
theorem lexRows_panic (mm : Merged W) (s : S) (features : List Str) :
    ∀ (surfaces : List Str) (i : Nat) (acc : List UInt8),
      i ≤ mm.featureSets.length → i ≤ features.length →
      ¬ (i + surfaces.length ≤ mm.featureSets.length ∧ i + surfaces.length ≤ features.length) →
      lexRows mm s features surfaces i acc = .panic := by
  intro surfaces
  induction surfaces with
  | nil => intro i acc h1 h2 h; simp only [List.length_nil] at h; omega
  | cons surf rest ih =>
    intro i acc h1 h2 h
    simp only [List.length_cons] at h
    by_cases hi1 : i < mm.featureSets.length
    · by_cases hi2 : i < features.length
      · simp only [lexRows, List.getElem?_eq_getElem hi1, List.getElem?_eq_getElem hi2,
          ofLex_quote]
        exact ih (i + 1) _ (by omega) (by omega) (by omega)
      · simp only [lexRows, List.getElem?_eq_getElem hi1,
          List.getElem?_eq_none (Nat.le_of_not_lt hi2)]
    · simp only [lexRows, List.getElem?_eq_none (Nat.le_of_not_lt hi1)]

/-- One `unk.def` row. -/
def unkRow (s : S) (cate : Str) (fs : MergedFS W) (e : UnkEntry) : List UInt8 :=
  cate ++ rowTail fs.leftId fs.rightId (cost16 fs.weight s) e.feature

def unkRowsSpec (s : S) (cats : List Str) : List UnkEntry → List (MergedFS W) → List UInt8
  | e :: es, fs :: fss => unkRow s ((cats[e.cateId]?).getD []) fs e ++ unkRowsSpec s cats es fss
  | _, _ => []

theorem unkRows_eq (mm : Merged W) (s : S) (cats : List Str) (off : Nat) :
    ∀ (entries : List UnkEntry) (i : Nat) (acc : List UInt8),
      (∀ e ∈ entries, e.cateId < cats.length) →
      off + i + entries.length ≤ mm.featureSets.length →
      unkRows mm s cats off entries i acc =
        .ok (acc ++ unkRowsSpec s cats entries (mm.featureSets.drop (off + i))) := by
  intro entries
  induction entries with
  | nil => intro i acc _ _; simp [unkRows, unkRowsSpec]
  | cons e rest ih =>
    intro i acc hc h1
    simp only [List.length_cons] at h1
    have hi1 : off + i < mm.featureSets.length := by omega
    have hce : e.cateId < cats.length := hc e (by simp)
    rw [List.drop_eq_getElem_cons hi1]
    simp only [unkRows, List.getElem?_eq_getElem hi1, List.getElem?_eq_getElem hce, unkRowsSpec,
      Option.getD_some]
    rw [ih (i + 1) _ (fun x hx => hc x (by simp [hx])) (by omega)]
    simp [unkRow, List.append_assoc, Nat.add_assoc]

/-- One `user.csv` row: model parameters iff the given parameters are `0,0,0`. -/
def userRow (s : S) (e : UserEntry) (fs : MergedFS W) : List UInt8 :=
  LexCsv.quoteCell e.surface ++
    (if isDefaultParam e.param then rowTail fs.leftId fs.rightId (cost16 fs.weight s) e.feature
     else rowTail e.param.leftId e.param.rightId e.param.wordCost e.feature)

def userRowsSpec (mm : Merged W) (s : S) (user : List UserEntry) : List UInt8 :=
  user.flatMap fun e =>
    match mm.featureSets[e.label - 1]? with
    | some fs => userRow s e fs
    | none => []

theorem userRows_eq (mm : Merged W) (s : S) :
    ∀ (user : List UserEntry) (acc : List UInt8),
      (∀ e ∈ user, e.label - 1 < mm.featureSets.length) →
      userRows mm s user acc = .ok (acc ++ userRowsSpec mm s user) := by
  intro user
  induction user with
  | nil => intro acc _; simp [userRows, userRowsSpec]
  | cons e rest ih =>
    intro acc h
    have he : e.label - 1 < mm.featureSets.length := h e (by simp)
    simp only [userRows, List.getElem?_eq_getElem he, ofLex_quote]
    rw [ih _ (fun x hx => h x (by simp [hx]))]
    simp [userRowsSpec, userRow, List.getElem?_eq_getElem he, List.append_assoc]

/-! ## Invariants of `merge` -/

theorem prefix_getElem?_some {α : Type} {l1 l2 : List α} (h : l1 <+: l2) {i : Nat} {x : α}
    (hx : l1[i]? = some x) : l2[i]? = some x := by
  obtain ⟨t, rfl⟩ := h
  have hi : i < l1.length := by
    rcases Nat.lt_or_ge i l1.length with h | h
    · exact h
    · rw [List.getElem?_eq_none h] at hx; cases hx
  rw [List.getElem?_append_left hi]; exact hx

theorem connId_spec {tbl tbl' : List (List (Option Nat))} {key : List (Option Nat)} {id : Nat}
    (h : connId tbl key = .ok (tbl', id)) :
    tbl <+: tbl' ∧ 1 ≤ id ∧ tbl'[id - 1]? = some key ∧ (tbl.Nodup → tbl'.Nodup) ∧
      tbl'.length < u32Lim := by
  unfold connId at h
  split at h
  · cases h
  · rename_i hlim
    simp only at h
    split at h
    · rename_i hlt
      cases h
      refine ⟨List.prefix_refl _, by omega, ?_, id, by omega⟩
      simp only [Nat.add_sub_cancel]
      rw [List.getElem?_eq_getElem hlt, List.getElem_idxOf hlt]
    · rename_i hnl
      cases h
      have hnot : key ∉ tbl := by
        intro hm
        exact hnl (List.idxOf_lt_length_iff.mpr hm)
      refine ⟨List.prefix_append _ _, by omega, ?_, ?_, by simp; omega⟩
      · simp
      · intro hnd
        rw [List.nodup_append]
        refine ⟨hnd, by simp, ?_⟩
        intro a ha b hb
        simp only [List.mem_singleton] at hb
        subst hb
        intro hab; subst hab; exact hnot ha

/-- What `mergeSets` establishes for one (raw feature set, merged feature set) pair with
respect to the final class tables. -/
def SetOK (wt : List W) (uidx : List (Option Nat)) (L R : List (List (Option Nat)))
    (fs : FeatureSet) (m : MergedFS W) : Prop :=
  1 ≤ m.leftId ∧ L[m.leftId - 1]? = some fs.bigramRight ∧
  1 ≤ m.rightId ∧ R[m.rightId - 1]? = some fs.bigramLeft ∧
  sumUnigram wt uidx fs.unigram zero = .ok m.weight

theorem SetOK.mono {wt : List W} {uidx : List (Option Nat)}
    {L R L' R' : List (List (Option Nat))} {fs : FeatureSet} {m : MergedFS W}
    (h : SetOK wt uidx L R fs m) (hL : L <+: L') (hR : R <+: R') : SetOK wt uidx L' R' fs m :=
  ⟨h.1, prefix_getElem?_some hL h.2.1, h.2.2.1, prefix_getElem?_some hR h.2.2.2.1, h.2.2.2.2⟩

theorem mergeSets_spec (wt : List W) (uidx : List (Option Nat)) :
    ∀ (fsl : List FeatureSet) (L R : List (List (Option Nat))) (acc : List (MergedFS W))
      (sets : List (MergedFS W)) (L' R' : List (List (Option Nat))),
      mergeSets wt uidx fsl L R acc = .ok (sets, L', R') →
      L <+: L' ∧ R <+: R' ∧ (L.Nodup → L'.Nodup) ∧ (R.Nodup → R'.Nodup) ∧
      (fsl ≠ [] → L'.length < u32Lim ∧ R'.length < u32Lim) ∧
      ∃ news, sets = acc.reverse ++ news ∧ news.length = fsl.length ∧
        ∀ p ∈ fsl.zip news, SetOK wt uidx L' R' p.1 p.2 := by
  intro fsl
  induction fsl with
  | nil =>
    intro L R acc sets L' R' h
    simp only [mergeSets] at h
    cases h
    exact ⟨List.prefix_refl _, List.prefix_refl _, id, id, by simp, [], by simp, rfl, by simp⟩
  | cons fs rest ih =>
    intro L R acc sets L' R' h
    simp only [mergeSets] at h
    split at h
    · cases h
    · cases h
    · rename_i w hw
      split at h
      · cases h
      · cases h
      · rename_i L1 lid hl
        split at h
        · cases h
        · cases h
        · rename_i R1 rid hr
          obtain ⟨pl, l1, lget, lnd, llim⟩ := connId_spec hl
          obtain ⟨pr, r1, rget, rnd, rlim⟩ := connId_spec hr
          obtain ⟨pL, pR, ndL, ndR, lim, news, hs, hlen, hall⟩ := ih L1 R1 _ sets L' R' h
          refine ⟨pl.trans pL, pr.trans pR, fun h => ndL (lnd h), fun h => ndR (rnd h), ?_,
            ⟨w, lid, rid⟩ :: news, ?_, by simp [hlen], ?_⟩
          · intro _
            by_cases hr : rest = []
            · subst hr
              simp only [mergeSets] at h
              cases h
              exact ⟨llim, rlim⟩
            · exact lim hr
          · rw [hs]; simp
          · intro p hp
            simp only [List.zip_cons_cons, List.mem_cons] at hp
            rcases hp with rfl | hp
            · exact (show SetOK wt uidx L1 R1 fs ⟨w, lid, rid⟩ from
                ⟨l1, lget, r1, rget, hw⟩).mono pL pR
            · exact hall p hp

/-- Entries produced by `rowEntries`: keys in `(i, i + |L|]`, strictly increasing after `acc`. -/
theorem rowEntries_spec (sumF : List (Option Nat) → Outcome W) :
    ∀ (L : List (List (Option Nat))) (i : Nat) (acc row : List (Nat × W)),
      rowEntries sumF L i acc = .ok row →
      (∀ e ∈ acc, e.1 ≤ i) → acc.reverse.Pairwise (fun a b => a.1 < b.1) →
      (∀ e ∈ row, e.1 ≤ i + L.length) ∧ row.Pairwise (fun a b => a.1 < b.1) ∧
        acc.reverse <+: row := by
  intro L
  induction L with
  | nil =>
    intro i acc row h hacc hp
    simp only [rowEntries] at h
    cases h
    refine ⟨?_, hp, List.prefix_refl _⟩
    intro e he
    have := hacc e (by simpa using he)
    simp; omega
  | cons lf rest ih =>
    intro i acc row h hacc hp
    simp only [rowEntries] at h
    split at h
    · cases h
    · cases h
    · rename_i w hw
      split at h
      · split at h
        · cases h
        · have hacc' : ∀ e ∈ ((i + 1, w) :: acc), e.1 ≤ i + 1 := by
            intro e he
            simp only [List.mem_cons] at he
            rcases he with rfl | he
            · exact Nat.le_refl _
            · have := hacc e he; omega
          have hp' : ((i + 1, w) :: acc).reverse.Pairwise (fun a b => a.1 < b.1) := by
            rw [List.reverse_cons, List.pairwise_append]
            refine ⟨hp, by simp, ?_⟩
            intro a ha b hb
            simp only [List.mem_singleton] at hb
            subst hb
            have := hacc a (by simpa using ha)
            show a.1 < i + 1
            omega
          obtain ⟨h1, h2, h3⟩ := ih (i + 1) _ row h hacc' hp'
          refine ⟨?_, h2, ?_⟩
          · intro e he; have := h1 e he; simp only [List.length_cons]; omega
          · rw [List.reverse_cons] at h3
            exact (List.prefix_append _ _).trans h3
      · have hacc' : ∀ e ∈ acc, e.1 ≤ i + 1 := fun e he => by have := hacc e he; omega
        obtain ⟨h1, h2, h3⟩ := ih (i + 1) _ row h hacc' hp
        refine ⟨?_, h2, h3⟩
        intro e he; have := h1 e he; simp only [List.length_cons]; omega

theorem matrixRows_spec (wt : List W) (bidx : List (List (Nat × Nat)))
    (L : List (List (Option Nat))) :
    ∀ (Rs : List (List (Option Nat))) (acc rows : List (List (Nat × W))),
      matrixRows wt bidx L Rs acc = .ok rows →
      rows.length = acc.length + Rs.length ∧
      ∀ row ∈ rows, row ∈ acc ∨
        ((∀ e ∈ row, e.1 ≤ L.length) ∧ row.Pairwise (fun a b => a.1 < b.1)) := by
  intro Rs
  induction Rs with
  | nil =>
    intro acc rows h
    simp only [matrixRows] at h
    cases h
    exact ⟨by simp, fun row hr => .inl (by simpa using hr)⟩
  | cons rf rest ih =>
    intro acc rows h
    simp only [matrixRows] at h
    split at h
    · cases h
    · cases h
    · rename_i we hwe
      split at h
      · cases h
      · cases h
      · rename_i row hrow
        obtain ⟨hlen, hall⟩ := ih _ rows h
        refine ⟨by simp only [List.length_cons] at hlen ⊢; omega, ?_⟩
        intro r hr
        rcases hall r hr with hm | hok
        · simp only [List.mem_cons] at hm
          rcases hm with rfl | hm
          · right
            have hspec := rowEntries_spec _ L 0 _ _ hrow
            by_cases hge : geEps we = true
            · simp only [hge, if_true] at hspec
              obtain ⟨h1, h2, _⟩ := hspec (by simp) (by simp)
              exact ⟨fun e he => by have := h1 e he; omega, h2⟩
            · simp only [hge] at hspec
              obtain ⟨h1, h2, _⟩ := hspec (by simp) (by simp)
              exact ⟨fun e he => by have := h1 e he; omega, h2⟩
          · exact .inl hm
        · exact .inr hok

/-- The invariants of a merged model with respect to the raw model it was merged from. -/
structure MergedOK (wt : List W) (m : RawModel) (mm : Merged W) : Prop where
  len : mm.featureSets.length = m.featureSets.length
  sets : ∀ p ∈ m.featureSets.zip mm.featureSets,
    SetOK wt m.unigramIdx mm.leftConn mm.rightConn p.1 p.2
  nodupL : mm.leftConn.Nodup
  nodupR : mm.rightConn.Nodup
  rows : mm.matrix.length = mm.rightConn.length + 1
  cols : ∀ row ∈ mm.matrix,
    (∀ e ∈ row, e.1 ≤ mm.leftConn.length) ∧ row.Pairwise (fun a b => a.1 < b.1)

theorem merge_ok {wt : List W} {m : RawModel} {mm : Merged W} (h : merge wt m = .ok mm) :
    MergedOK wt m mm := by
  unfold merge at h
  split at h
  · cases h
  · cases h
  · rename_i sets L R hs
    split at h
    · cases h
    · cases h
    · rename_i bos hb
      split at h
      · cases h
      · cases h
      · rename_i rows hr
        cases h
        obtain ⟨_, _, ndL, ndR, _, news, hsets, hlen, hall⟩ := mergeSets_spec wt _ _ _ _ _ _ _ _ hs
        simp only [List.reverse_nil, List.nil_append] at hsets
        subst hsets
        obtain ⟨hrl, hrows⟩ := matrixRows_spec wt _ L R [] rows hr
        obtain ⟨hb1, hb2, _⟩ := rowEntries_spec _ L 0 [] bos hb (by simp) (by simp)
        refine ⟨hlen, hall, ndL (by simp), ndR (by simp), by simp [hrl], ?_⟩
        intro row hrow
        simp only [List.mem_cons] at hrow
        rcases hrow with rfl | hrow
        · exact ⟨fun e he => by have := hb1 e he; simp only at this ⊢; omega, hb2⟩
        · rcases hrows row hrow with hm | hok
          · cases hm
          · exact hok

end
end Vibrato.Trainer
