/-
Re-spacing (property C12), part 2: a simulation theorem at the level of the lattice.

Two environments `E` (sentence `s`) and `E'` (sentence `s'`) are related by a map `φ` of the
*good* boundaries `G` of `E` (the boundaries that can carry nodes) to boundaries of `E'`
when `φ` is strictly monotone, start words correspond (`p + skip p ↦ φ p + skip' (φ p)`),
the candidate lists at corresponding start words are equal up to `φ` on the ends, and no
candidate crosses a *barrier* (a boundary where characters are skipped).  Then the two
lattices have the same nodes in the same order with the same `min_idx`/`min_cost` at
corresponding boundaries, the EOS nodes agree and the back-pointer walks correspond; when
one side panics (boundary without a node reached by EOS), so does the other.
-/
import Vibrato.Proofs.LatticeBasic

namespace Vibrato

/-- no start word is left at boundary `p` (`len ≤ start_word`) -/
def doneAt (E : LatEnv) (p : Nat) : Prop := E.len ≤ p + E.skip p
/-- `p` is a barrier: the end of the sentence, or a boundary where characters are skipped -/
def barAt (E : LatEnv) (p : Nat) : Prop := E.len ≤ p ∨ 0 < E.skip p

/-- a candidate with its end moved by `φ` -/
def reEnd (φ : Nat → Nat) (c : Cand) : Cand := { c with endWord := φ c.endWord }

/-- a node with its start node moved by `φ` (and the start word recomputed in `E'`);
everything else, in particular `min_idx` and `min_cost`, unchanged -/
def shiftNode (E' : LatEnv) (φ : Nat → Nat) (n : Node) : Node :=
  if n.isBos then n
  else { n with startNode := φ n.startNode, startWord := φ n.startNode + E'.skip (φ n.startNode) }

/-- The simulation hypotheses (see the header). -/
structure RSim (E E' : LatEnv) (G : Nat → Prop) (φ : Nat → Nat) : Prop where
  conn : E'.conn = E.conn
  g0 : G 0
  phi0 : φ 0 = 0
  gle : ∀ p, G p → p ≤ E.len
  gle' : ∀ p, G p → φ p ≤ E'.len
  mono : ∀ p q, G p → G q → p < q → φ p < φ q
  done_iff : ∀ p, G p → (doneAt E p ↔ doneAt E' (φ p))
  bar_iff : ∀ p, G p → 0 < p → (barAt E p ↔ barAt E' (φ p))
  cands : ∀ p, G p → ¬ doneAt E p →
    E'.cands (φ p + E'.skip (φ p)) = (E.cands (p + E.skip p)).map (reEnd φ)
  cands_G : ∀ p, G p → ¬ doneAt E p → ∀ c ∈ E.cands (p + E.skip p), G c.endWord ∧ p + E.skip p < c.endWord
  next : ∀ p, G p → ¬ doneAt E p →
    G (p + E.skip p + 1) ∧ φ (p + E.skip p + 1) = φ p + E'.skip (φ p) + 1
  bar : ∀ q b, G q → G b → q < b → barAt E b → ¬ doneAt E q →
    ∀ c ∈ E.cands (q + E.skip q), c.endWord ≤ b

theorem RSim.inj {E E' G φ} (h : RSim E E' G φ) {p q : Nat} (hp : G p) (hq : G q) (hpq : φ p = φ q) :
    p = q := by
  rcases Nat.lt_trichotomy p q with h1 | h1 | h1
  · have := h.mono p q hp hq h1; omega
  · exact h1
  · have := h.mono q p hq hp h1; omega

theorem RSim.pos {E E' G φ} (h : RSim E E' G φ) {p : Nat} (hp : G p) (h0 : 0 < p) : 0 < φ p := by
  have := h.mono 0 p h.g0 hp h0; omega

/-! ### one-step unfoldings of the loop -/

theorem buildLoop_dead (E : LatEnv) (L : Ends) (p : Nat) (h : ∀ e, p ≤ e → endsAt L e = []) :
    buildLoop E L p = (L, max p E.len) := by
  fun_induction buildLoop E L p with
  | case1 L p hlt hemp ih =>
    rw [ih (fun e he => h e (by omega))]
    congr 1; omega
  | case2 L p hlt hemp sw hbreak => simp [h p (Nat.le_refl p)] at hemp
  | case3 L p hlt hemp sw hcont ih => simp [h p (Nat.le_refl p)] at hemp
  | case4 L p hge => congr 1; omega

theorem buildLoop_empty (E : LatEnv) (L : Ends) (p : Nat) (hp : p < E.len) (h : endsAt L p = []) :
    buildLoop E L p = buildLoop E L (p + 1) := by
  rw [buildLoop]; simp [hp, h]

theorem buildLoop_done (E : LatEnv) (L : Ends) (p : Nat) (hd : doneAt E p) (h : endsAt L p ≠ []) :
    buildLoop E L p = (L, p) := by
  rw [buildLoop]
  have : (endsAt L p).isEmpty = false := by simpa using h
  unfold doneAt at hd
  simp only [this, Bool.false_eq_true, if_false, hd, if_true]
  split <;> rfl

theorem buildLoop_step (E : LatEnv) (L : Ends) (p : Nat) (hd : ¬ doneAt E p) (h : endsAt L p ≠ []) :
    buildLoop E L p =
      buildLoop E (addEdges E L p (p + E.skip p)) (p + E.skip p + 1) := by
  rw [buildLoop]
  have : (endsAt L p).isEmpty = false := by simpa using h
  unfold doneAt at hd
  have hp : p < E.len := by omega
  simp only [this, Bool.false_eq_true, if_false, hd, hp, if_true]

/-! ### `search_min_node` only reads `min_cost` and `right_id` -/

theorem shiftNode_minCost (E' : LatEnv) (φ : Nat → Nat) (n : Node) :
    (shiftNode E' φ n).minCost = n.minCost ∧ (shiftNode E' φ n).rightId = n.rightId ∧
      (shiftNode E' φ n).minIdx = n.minIdx := by
  unfold shiftNode; split <;> simp

theorem shiftNode_start (E' : LatEnv) (φ : Nat → Nat) (n : Node) (h : n.isBos = false) :
    (shiftNode E' φ n).startNode = φ n.startNode ∧
      (shiftNode E' φ n).startWord = φ n.startNode + E'.skip (φ n.startNode) := by
  unfold shiftNode; simp [h]

theorem searchMinGo_shift (E' : LatEnv) (φ : Nat → Nat) (conn : Nat → Nat → Int) (l : Nat) :
    ∀ (ns : List Node) (i : Nat) (acc : Nat × Int),
      searchMinGo conn l (ns.map (shiftNode E' φ)) i acc = searchMinGo conn l ns i acc := by
  intro ns
  induction ns with
  | nil => intro i acc; rfl
  | cons n ns ih =>
    intro i acc
    obtain ⟨h1, h2, _⟩ := shiftNode_minCost E' φ n
    simp only [List.map_cons, searchMinGo, h1, h2, ih]

theorem searchMin_shift (E' : LatEnv) (φ : Nat → Nat) (conn : Nat → Nat → Int) (l : Nat) (ns : List Node) :
    searchMin conn (ns.map (shiftNode E' φ)) l = searchMin conn ns l :=
  searchMinGo_shift E' φ conn l ns 0 _

/-! ### the simulation invariant -/

/-- what is recorded about a node stored at boundary `e > 0` of the `E` lattice -/
structure SNode (E : LatEnv) (G : Nat → Prop) (q e : Nat) (n : Node) : Prop where
  ge : G e
  notBos : n.isBos = false
  gsn : G n.startNode
  sn_lt_q : n.startNode < q
  sn_lt : n.startNode < e
  notDone : ¬ doneAt E n.startNode
  sw_eq : n.startWord = n.startNode + E.skip n.startNode
  fromCand : ∃ c ∈ E.cands n.startWord, c.endWord = e ∧ c.wordId = n.wordId ∧
    c.lexType = n.lexType ∧ c.leftId = n.leftId ∧ c.rightId = n.rightId ∧ c.wordCost = n.wordCost

/-- The relation between the two `ends` buffers while both loops run (`q` bounds the start
nodes used so far). -/
structure SRel (E E' : LatEnv) (G : Nat → Prop) (φ : Nat → Nat) (L L' : Ends) (q : Nat) : Prop where
  len : E.len < L.length
  len' : E'.len < L'.length
  bos : endsAt L 0 = [bosNode]
  img : ∀ e, G e → endsAt L' (φ e) = (endsAt L e).map (shiftNode E' φ)
  only' : ∀ e', endsAt L' e' ≠ [] → ∃ e, G e ∧ e' = φ e
  nodes : ∀ e, 0 < e → ∀ n ∈ endsAt L e, SNode E G q e n

theorem SRel.mono {E E' G φ L L' q q'} (h : SRel E E' G φ L L' q) (hq : q ≤ q') :
    SRel E E' G φ L L' q' :=
  ⟨h.len, h.len', h.bos, h.img, h.only', fun e he n hn =>
    let k := h.nodes e he n hn
    ⟨k.ge, k.notBos, k.gsn, Nat.lt_of_lt_of_le k.sn_lt_q hq, k.sn_lt, k.notDone, k.sw_eq, k.fromCand⟩⟩

theorem SRel.init {E E' G φ} (h : RSim E E' G φ) :
    SRel E E' G φ (resetEnds 0 E.len) (resetEnds 0 E'.len) 0 := by
  refine ⟨by rw [length_resetEnds]; omega, by rw [length_resetEnds]; omega,
    endsAt_resetEnds_zero _ _, ?_, ?_, ?_⟩
  · intro e he
    rcases Nat.eq_zero_or_pos e with rfl | hpos
    · rw [h.phi0, endsAt_resetEnds_zero, endsAt_resetEnds_zero]; rfl
    · have := h.pos he hpos
      obtain ⟨j, hj⟩ : ∃ j, φ e = j + 1 := ⟨φ e - 1, by omega⟩
      obtain ⟨k, rfl⟩ : ∃ k, e = k + 1 := ⟨e - 1, by omega⟩
      rw [hj, endsAt_resetEnds_succ, endsAt_resetEnds_succ]; rfl
  · intro e' hne
    rcases Nat.eq_zero_or_pos e' with rfl | hpos
    · exact ⟨0, h.g0, h.phi0.symm⟩
    · obtain ⟨j, rfl⟩ : ∃ j, e' = j + 1 := ⟨e' - 1, by omega⟩
      rw [endsAt_resetEnds_succ] at hne; exact absurd rfl hne
  · intro e he n hn
    obtain ⟨j, rfl⟩ : ∃ j, e = j + 1 := ⟨e - 1, by omega⟩
    rw [endsAt_resetEnds_succ] at hn; cases hn

/-- every non-empty boundary lies at or before every barrier not yet passed -/
theorem SRel.bnd {E E' G φ L L' q} (h : RSim E E' G φ) (hR : SRel E E' G φ L L' q)
    (e : Nat) (hne : endsAt L e ≠ []) (b : Nat) (hb : G b) (hqb : q ≤ b) (hbar : barAt E b) : e ≤ b := by
  rcases Nat.eq_zero_or_pos e with rfl | hpos
  · omega
  · obtain ⟨n, hn⟩ := List.exists_mem_of_ne_nil _ hne
    have k := hR.nodes e hpos n hn
    obtain ⟨c, hc, hce, _⟩ := k.fromCand
    rw [k.sw_eq] at hc
    have := h.bar n.startNode b k.gsn hb (Nat.lt_of_lt_of_le k.sn_lt_q hqb) hbar k.notDone c hc
    omega

/-- one `insert_node` on both sides -/
theorem SRel.insert {E E' G φ L L'} (h : RSim E E' G φ) (p : Nat) (hp : G p) (hd : ¬ doneAt E p)
    (hR : SRel E E' G φ L L' (p + 1)) (c : Cand) (hc : c ∈ E.cands (p + E.skip p)) :
    SRel E E' G φ (insertNode E L p (p + E.skip p) c)
      (insertNode E' L' (φ p) (φ p + E'.skip (φ p)) (reEnd φ c)) (p + 1) := by
  obtain ⟨hge, hlt⟩ := h.cands_G p hp hd c hc
  have hle := h.gle _ hge
  have hle' := h.gle' _ hge
  have hlenL : c.endWord < L.length := by have := hR.len; omega
  have hlenL' : φ c.endWord < L'.length := by have := hR.len'; omega
  have hsm : searchMin E'.conn (endsAt L' (φ p)) c.leftId = searchMin E.conn (endsAt L p) c.leftId := by
    rw [hR.img p hp, h.conn, searchMin_shift]
  unfold insertNode
  simp only [reEnd, hsm]
  refine ⟨by simpa using hR.len, by simpa using hR.len', ?_, ?_, ?_, ?_⟩
  · rw [endsAt_pushAt_ne _ _ _ _ (by omega)]; exact hR.bos
  · intro e he
    by_cases hee : e = c.endWord
    · subst hee
      rw [endsAt_pushAt_same _ _ _ hlenL, endsAt_pushAt_same _ _ _ hlenL', hR.img _ he]
      simp [shiftNode]
    · have : φ c.endWord ≠ φ e := fun hh => hee (h.inj he hge hh.symm)
      rw [endsAt_pushAt_ne _ _ _ _ (Ne.symm hee), endsAt_pushAt_ne _ _ _ _ this]
      exact hR.img e he
  · intro e' hne
    by_cases hee : e' = φ c.endWord
    · exact ⟨c.endWord, hge, hee⟩
    · rw [endsAt_pushAt_ne _ _ _ _ (Ne.symm hee)] at hne
      exact hR.only' e' hne
  · intro e he n hn
    by_cases hee : e = c.endWord
    · subst hee
      rw [endsAt_pushAt_same _ _ _ hlenL] at hn
      simp only [List.mem_append, List.mem_singleton] at hn
      rcases hn with hn | rfl
      · exact hR.nodes _ he n hn
      · exact ⟨hge, rfl, hp, Nat.lt_succ_self p, by simp only; omega, hd, rfl,
          c, hc, rfl, rfl, rfl, rfl, rfl, rfl⟩
    · rw [endsAt_pushAt_ne _ _ _ _ (Ne.symm hee)] at hn
      exact hR.nodes e he n hn

theorem SRel.foldl {E E' G φ} (h : RSim E E' G φ) (p : Nat) (hp : G p) (hd : ¬ doneAt E p) :
    ∀ (cs : List Cand) (L L' : Ends), (∀ c ∈ cs, c ∈ E.cands (p + E.skip p)) →
      SRel E E' G φ L L' (p + 1) →
      SRel E E' G φ (cs.foldl (fun L c => insertNode E L p (p + E.skip p) c) L)
        ((cs.map (reEnd φ)).foldl (fun L c => insertNode E' L (φ p) (φ p + E'.skip (φ p)) c) L') (p + 1) := by
  intro cs
  induction cs with
  | nil => intro L L' _ hR; exact hR
  | cons c cs ih =>
    intro L L' hcs hR
    simp only [List.map_cons, List.foldl_cons]
    exact ih _ _ (fun c' hc' => hcs c' (by simp [hc'])) (hR.insert h p hp hd c (hcs c (by simp)))

theorem SRel.addEdges {E E' G φ L L'} (h : RSim E E' G φ) (p : Nat) (hp : G p) (hd : ¬ doneAt E p)
    (hR : SRel E E' G φ L L' (p + 1)) :
    SRel E E' G φ (addEdges E L p (p + E.skip p))
      (Vibrato.addEdges E' L' (φ p) (φ p + E'.skip (φ p))) (p + 1) := by
  unfold Vibrato.addEdges
  rw [h.cands p hp hd]
  exact SRel.foldl h p hp hd _ L L' (fun _ hc => hc) hR

/-! ### the two loops -/

/-- Outcome of the two loops started at corresponding boundaries: either they stop at
corresponding boundaries that carry nodes, with related buffers; or both stop at boundaries
without a node (EOS cannot connect: the walk panics on both sides). -/
def LoopOut (E E' : LatEnv) (G : Nat → Prop) (φ : Nat → Nat) (r r' : Ends × Nat) : Prop :=
  (∃ q, SRel E E' G φ r.1 r'.1 q) ∧
  ((G r.2 ∧ r'.2 = φ r.2 ∧ endsAt r.1 r.2 ≠ []) ∨
   (endsAt r.1 r.2 = [] ∧ endsAt r'.1 r'.2 = [] ∧ 0 < r.2 ∧ 0 < r'.2))

theorem sim_loop {E E' G φ} (h : RSim E E' G φ) :
    ∀ (n : Nat) (L L' : Ends) (p : Nat), E.len - p ≤ n → G p → SRel E E' G φ L L' p →
      LoopOut E E' G φ (buildLoop E L p) (buildLoop E' L' (φ p)) := by
  intro n
  induction n with
  | zero =>
    intro L L' p hn hp hR
    have hple := h.gle p hp
    have hpl : p = E.len := by omega
    have hdone : doneAt E p := by unfold doneAt; omega
    by_cases hemp : endsAt L p = []
    · -- dead on both sides
      have hp0 : 0 < p := by
        rcases Nat.eq_zero_or_pos p with rfl | h0
        · rw [hR.bos] at hemp; cases hemp
        · exact h0
      have hbar : barAt E p := Or.inl (by omega)
      have hbar' := (h.bar_iff p hp hp0).mp hbar
      have hall : ∀ e, p ≤ e → endsAt L e = [] := by
        intro e he
        apply Classical.byContradiction
        intro hne
        have := hR.bnd h e hne p hp (Nat.le_refl p) hbar
        have : e = p := by omega
        subst this; exact hne hemp
      have hall' : ∀ e', φ p ≤ e' → endsAt L' e' = [] := by
        intro e' he'
        apply Classical.byContradiction
        intro hne
        obtain ⟨e, hge, rfl⟩ := hR.only' e' hne
        rw [hR.img e hge] at hne
        have hne2 : endsAt L e ≠ [] := by intro h0; rw [h0] at hne; exact hne rfl
        have hle := hR.bnd h e hne2 p hp (Nat.le_refl p) hbar
        rcases Nat.lt_or_ge e p with h1 | h1
        · have := h.mono e p hge hp h1; omega
        · have : e = p := by omega
          subst this; exact hne2 hemp
      rw [buildLoop_dead E L p hall, buildLoop_dead E' L' (φ p) hall']
      refine ⟨⟨p, hR⟩, Or.inr ?_⟩
      have hpos' := h.pos hp hp0
      refine ⟨hall _ (by omega), hall' _ (by omega), by omega, by omega⟩
    · rw [buildLoop_done E L p hdone hemp]
      have hemp' : endsAt L' (φ p) ≠ [] := by
        rw [hR.img p hp]; intro h0; exact hemp (List.map_eq_nil_iff.mp h0)
      rw [buildLoop_done E' L' (φ p) ((h.done_iff p hp).mp hdone) hemp']
      exact ⟨⟨p, hR⟩, Or.inl ⟨hp, rfl, hemp⟩⟩
  | succ n ih =>
    intro L L' p hn hp hR
    by_cases hemp : endsAt L p = []
    · have hp0 : 0 < p := by
        rcases Nat.eq_zero_or_pos p with rfl | h0
        · rw [hR.bos] at hemp; cases hemp
        · exact h0
      have hemp' : endsAt L' (φ p) = [] := by rw [hR.img p hp, hemp]; rfl
      by_cases hbar : barAt E p
      · have hbar' := (h.bar_iff p hp hp0).mp hbar
        have hall : ∀ e, p ≤ e → endsAt L e = [] := by
          intro e he
          apply Classical.byContradiction
          intro hne
          have := hR.bnd h e hne p hp (Nat.le_refl p) hbar
          have : e = p := by omega
          subst this; exact hne hemp
        have hall' : ∀ e', φ p ≤ e' → endsAt L' e' = [] := by
          intro e' he'
          apply Classical.byContradiction
          intro hne
          obtain ⟨e, hge, rfl⟩ := hR.only' e' hne
          rw [hR.img e hge] at hne
          have hne2 : endsAt L e ≠ [] := by intro h0; rw [h0] at hne; exact hne rfl
          have hle := hR.bnd h e hne2 p hp (Nat.le_refl p) hbar
          rcases Nat.lt_or_ge e p with h1 | h1
          · have := h.mono e p hge hp h1; omega
          · have : e = p := by omega
            subst this; exact hne2 hemp
        rw [buildLoop_dead E L p hall, buildLoop_dead E' L' (φ p) hall']
        refine ⟨⟨p, hR⟩, Or.inr ?_⟩
        have hpos' := h.pos hp hp0
        exact ⟨hall _ (by omega), hall' _ (by omega), by omega, by omega⟩
      · -- an ordinary boundary without a node: both loops move on by one
        have hbar' : ¬ barAt E' (φ p) := fun hb => hbar ((h.bar_iff p hp hp0).mpr hb)
        unfold barAt at hbar hbar'
        have hpl : p < E.len := by omega
        have hsk : E.skip p = 0 := by omega
        have hpl' : φ p < E'.len := by omega
        have hsk' : E'.skip (φ p) = 0 := by omega
        have hnd : ¬ doneAt E p := by unfold doneAt; omega
        obtain ⟨hg1, hφ1⟩ := h.next p hp hnd
        rw [hsk, hsk'] at *
        simp only [Nat.add_zero] at hg1 hφ1
        rw [buildLoop_empty E L p hpl hemp, buildLoop_empty E' L' (φ p) hpl' hemp', ← hφ1]
        exact ih L L' (p + 1) (by omega) hg1 (hR.mono (Nat.le_succ p))
    · have hemp' : endsAt L' (φ p) ≠ [] := by
        rw [hR.img p hp]; intro h0; exact hemp (List.map_eq_nil_iff.mp h0)
      by_cases hdone : doneAt E p
      · rw [buildLoop_done E L p hdone hemp,
          buildLoop_done E' L' (φ p) ((h.done_iff p hp).mp hdone) hemp']
        exact ⟨⟨p, hR⟩, Or.inl ⟨hp, rfl, hemp⟩⟩
      · have hdone' : ¬ doneAt E' (φ p) := fun hd => hdone ((h.done_iff p hp).mpr hd)
        obtain ⟨hg1, hφ1⟩ := h.next p hp hdone
        rw [buildLoop_step E L p hdone hemp, buildLoop_step E' L' (φ p) hdone' hemp', ← hφ1]
        have hlt : p + E.skip p < E.len := by unfold doneAt at hdone; omega
        exact ih _ _ _ (by omega) hg1
          ((SRel.addEdges h p hp hdone (hR.mono (Nat.le_succ p))).mono (by omega))

/-! ### the back-pointer walk -/

theorem sim_walk {E E' G φ L L' q} (h : RSim E E' G φ) (hR : SRel E E' G φ L L' q) :
    ∀ (e : Nat), G e → ∀ i, walkBack L' (φ e) i =
      (walkBack L e i).map (List.map fun x => (φ x.1, shiftNode E' φ x.2)) := by
  intro e
  induction e using Nat.strongRecOn with
  | _ e ih =>
    intro he i
    rw [walkBack, walkBack.eq_1 L]
    rcases Nat.eq_zero_or_pos e with rfl | hpos
    · simp [h.phi0]
    · have hpos' := h.pos he hpos
      simp only [Nat.ne_of_gt hpos, Nat.ne_of_gt hpos', if_false]
      rw [hR.img e he, List.getElem?_map]
      cases hget : (endsAt L e)[i]? with
      | none => rfl
      | some n =>
        have k := hR.nodes e hpos n (List.mem_of_getElem? hget)
        have hs := (shiftNode_start E' φ n k.notBos).1
        simp only [Option.map_some]
        have hlt' : (shiftNode E' φ n).startNode < φ e := by
          rw [hs]; exact h.mono _ _ k.gsn he k.sn_lt
        simp only [k.sn_lt, hlt', if_true]
        rw [hs, (shiftNode_minCost E' φ n).2.2, ih n.startNode k.sn_lt k.gsn n.minIdx]
        cases walkBack L n.startNode n.minIdx <;> simp

theorem walkBack_mem (L : Ends) : ∀ (e i : Nat) (r : List (Nat × Node)), walkBack L e i = some r →
    ∀ x ∈ r, 0 < x.1 ∧ x.2 ∈ endsAt L x.1 := by
  intro e
  induction e using Nat.strongRecOn with
  | _ e ih =>
    intro i r hw x hx
    rw [walkBack] at hw
    split at hw
    · cases hw; cases hx
    · rename_i hne
      split at hw
      · cases hw
      · rename_i n hget
        split at hw
        · rename_i hlt
          cases hrec : walkBack L n.startNode n.minIdx with
          | none => rw [hrec] at hw; cases hw
          | some r' =>
            rw [hrec] at hw
            simp only [Option.map_some, Option.some.injEq] at hw
            subst hw
            simp only [List.mem_cons] at hx
            rcases hx with rfl | hx
            · exact ⟨by omega, List.mem_of_getElem? hget⟩
            · exact ih n.startNode hlt _ _ hrec x hx
        · cases hw

/-- every node stored in the finished lattice of `E` is recorded by `SNode` -/
theorem rsim_nodes {E E' G φ} (h : RSim E E' G φ) :
    ∀ e, 0 < e → ∀ n ∈ endsAt (buildLattice E).ends e, ∃ q, SNode E G q e n := by
  have hout := sim_loop h (E.len - 0) (resetEnds 0 E.len) (resetEnds 0 E'.len) 0 (Nat.le_refl _) h.g0
    (SRel.init h)
  obtain ⟨⟨q, hR⟩, _⟩ := hout
  intro e he n hn
  exact ⟨q, hR.nodes e he n hn⟩

/-! ### tokens -/

/-- a token of `E` moved to `E'` -/
def mapTok (E' : LatEnv) (φ : Nat → Nat) (t : Tok) : Tok :=
  { startWord := (shiftNode E' φ t.node).startWord, endWord := φ t.endWord,
    node := shiftNode E' φ t.node }

/-- **Lattice-level re-spacing theorem.**  Under `RSim` the token list of `E'` is the token
list of `E` with boundaries moved by `φ` (in particular: same length, same dictionary
entries, same word costs, same accumulated costs), and `E'` panics iff `E` does; moreover
every token of `E` starts at a good start node and is one of the candidates offered at its
start word. -/
theorem rsim_tokens {E E' G φ} (h : RSim E E' G φ) :
    tokensOf (buildLattice E') = (tokensOf (buildLattice E)).map (List.map (mapTok E' φ)) ∧
    ∀ ts, tokensOf (buildLattice E) = some ts → ∀ t ∈ ts,
      0 < t.endWord ∧ ∃ q, SNode E G q t.endWord t.node ∧ t.startWord = t.node.startWord := by
  have hout := sim_loop h (E.len - 0) (resetEnds 0 E.len) (resetEnds 0 E'.len) 0 (Nat.le_refl _) h.g0
    (SRel.init h)
  rw [h.phi0] at hout
  unfold tokensOf topNodes buildLattice
  generalize buildLoop E (resetEnds 0 E.len) 0 = r at hout
  generalize buildLoop E' (resetEnds 0 E'.len) 0 = r' at hout
  obtain ⟨L, sn⟩ := r
  obtain ⟨L', sn'⟩ := r'
  simp only [eosNode]
  obtain ⟨⟨q, hR⟩, hout⟩ := hout
  rcases hout with ⟨hg, hsn', hne⟩ | ⟨h1, h2, h3, h4⟩
  · simp only at hR hg hsn' hne
    subst hsn'
    have hsm : searchMin E'.conn (endsAt L' (φ sn)) 0 = searchMin E.conn (endsAt L sn) 0 := by
      rw [hR.img sn hg, h.conn, searchMin_shift]
    rw [hsm, sim_walk h hR sn hg]
    constructor
    · cases walkBack L sn (searchMin E.conn (endsAt L sn) 0).1 with
      | none => rfl
      | some r =>
        simp only [Option.map_some, List.map_map, List.map_reverse]
        rfl
    · intro ts hts t ht
      cases hw : walkBack L sn (searchMin E.conn (endsAt L sn) 0).1 with
      | none => rw [hw] at hts; cases hts
      | some r =>
        rw [hw] at hts
        simp only [Option.map_some, Option.some.injEq] at hts
        subst hts
        simp only [List.mem_reverse, List.mem_map] at ht
        obtain ⟨x, hx, rfl⟩ := ht
        obtain ⟨hpos, hmem⟩ := walkBack_mem L _ _ _ hw x hx
        exact ⟨hpos, q, hR.nodes x.1 hpos x.2 hmem, rfl⟩
  · simp only at h1 h2 h3 h4
    have hw : ∀ (L : Ends) (sn : Nat) (i : Nat), 0 < sn → endsAt L sn = [] → walkBack L sn i = none := by
      intro L sn i hpos hemp
      rw [walkBack]; simp [Nat.ne_of_gt hpos, hemp]
    rw [hw L sn _ h3 h1, hw L' sn' _ h4 h2]
    exact ⟨rfl, fun ts hts => by cases hts⟩

end Vibrato
