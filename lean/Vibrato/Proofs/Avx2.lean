import Vibrato.Proofs.DualConnector
/-! Helper lemmas for C07: the AVX2 code path of the scorer agrees with the portable one. -/
namespace Vibrato.Scorer
open Vibrato.RawConnector Vibrato.DualConnector

/-- What the AVX2 code silently assumes about a scorer (`i32::try_from(len).unwrap()` checks the
two lengths at build/decode time; non-negative `base`s are only claimed in a comment). -/
structure AvxOK (s : Scorer) : Prop where
  blen : s.bases.length < 2147483648
  clen : s.checks.length < 2147483648
  bases : ∀ b ∈ s.bases, b < 2147483648

theorem sgn32_of_lt {n : Nat} (h : n < 2147483648) : sgn32 n = (n : Int) := by
  unfold sgn32; rw [if_pos h]

/-- One AVX2 lane computes the same as the portable `retrieve_cost` (`None` ↦ `0`). -/
theorem retrieveAvx2Lane_eq (s : Scorer) (hs : AvxOK s) (k1 k2 : Nat)
    (h1 : k1 < 2147483648) (h2 : k2 < 2147483648) :
    retrieveAvx2Lane s k1 k2 =
      match retrieve s k1 k2 with
      | .ok (some c) => .ok c
      | .ok none => .ok 0
      | .err => .err
      | .panic => .panic := by
  unfold retrieveAvx2Lane retrieve
  simp only [sgn32_of_lt h1]
  by_cases hk : k1 < s.bases.length
  · have hk' : ((k1 : Int) < (s.bases.length : Int)) := by omega
    have hb := List.getElem?_eq_getElem hk
    have hblt : s.bases[k1] < 2147483648 := hs.bases _ (List.getElem_mem hk)
    have hpos : s.bases[k1] ^^^ k2 < 2147483648 :=
      Nat.xor_lt_two_pow (n := 31) hblt h2
    simp only [hk', decide_true, if_true, hb, show ¬ ((k1 : Int) < 0) by omega, if_false,
      sgn32_of_lt hpos, Bool.and_true]
    by_cases hp : s.bases[k1] ^^^ k2 < s.checks.length
    · have hp' : ((s.bases[k1] ^^^ k2 : Nat) : Int) < (s.checks.length : Int) := by omega
      have hc := List.getElem?_eq_getElem hp
      simp only [hp', decide_true, if_true, hc,
        show ¬ (((s.bases[k1] ^^^ k2 : Nat) : Int) < 0) by omega, if_false]
      by_cases hck : s.checks[s.bases[k1] ^^^ k2] = k1
      · simp only [hck, decide_true, Bool.and_self, if_true]
        cases s.costs[s.bases[k1] ^^^ k2]? <;> rfl
      · simp [hck]
    · have hp' : ¬ (((s.bases[k1] ^^^ k2 : Nat) : Int) < (s.checks.length : Int)) := by omega
      have hc : s.checks[s.bases[k1] ^^^ k2]? = none := List.getElem?_eq_none (by omega)
      simp [hp', hc]
  · have hk' : ¬ ((k1 : Int) < (s.bases.length : Int)) := by omega
    have hb : s.bases[k1]? = none := List.getElem?_eq_none (by omega)
    simp [hk', hb]

theorem retrieveAvx2Lane_build (t : Trie) (ht : TrieOK t) (hs : AvxOK (build t)) (k1 k2 : Nat)
    (h1 : k1 < 2147483648) (h2 : k2 < 2147483648) :
    retrieveAvx2Lane (build t) k1 k2 = .ok (wgt t k1 k2) := by
  rw [retrieveAvx2Lane_eq _ hs k1 k2 h1 h2, retrieve_build_aux t ht]
  unfold wgt get2
  cases t[k1]?.bind (rowLookup k2) <;> rfl

theorem wrapI32_of_natAbs {x : Int} (h : x.natAbs ≤ 2147483647) : wrapI32 x = x := by
  unfold wrapI32; omega

theorem absSum_zipWith_add_le : ∀ (a b : List Int),
    absSum (List.zipWith (· + ·) a b) ≤ absSum a + absSum b := by
  intro a
  induction a with
  | nil => intro b; simp [absSum]
  | cons x xs ih =>
    intro b
    cases b with
    | nil => simp [absSum]
    | cons y ys =>
      simp only [List.zipWith_cons_cons, absSum]
      have := ih ys
      omega

theorem sum_zipWith_add : ∀ (a b : List Int), a.length = b.length →
    (List.zipWith (· + ·) a b).sum = a.sum + b.sum := by
  intro a
  induction a with
  | nil => intro b h; cases b <;> simp_all
  | cons x xs ih =>
    intro b h
    cases b with
    | nil => simp at h
    | cons y ys =>
      simp only [List.length_cons, Nat.add_right_cancel_iff] at h
      simp only [List.zipWith_cons_cons, List.sum_cons, ih ys h]
      omega

/-- `_mm256_add_epi32(sums, retrieve_cost(key1, key2))` without wrap-around. -/
theorem avx2AddLanes_build (t : Trie) (ht : TrieOK t) (hs : AvxOK (build t)) :
    ∀ (sums : List Int) (c1 c2 : List Nat), sums.length = c1.length → c1.length = c2.length →
    (∀ k ∈ c1, k < 2147483648) → (∀ k ∈ c2, k < 2147483648) →
    absSum sums + absSum (laneWs t c1 c2) ≤ 2147483647 →
    avx2AddLanes (build t) sums c1 c2 = .ok (List.zipWith (· + ·) sums (laneWs t c1 c2)) := by
  intro sums
  induction sums with
  | nil =>
    intro c1 c2 h1 h2 _ _ _
    have : c1 = [] := List.length_eq_zero_iff.1 (by simpa using h1.symm)
    subst this
    simp [avx2AddLanes]
  | cons sum rest ih =>
    intro c1 c2 h1 h2 hk1 hk2 hb
    cases c1 with
    | nil => simp at h1
    | cons k1 r1 =>
      cases c2 with
      | nil => simp at h2
      | cons k2 r2 =>
        simp only [List.length_cons, Nat.add_right_cancel_iff] at h1 h2
        simp only [laneWs, List.zipWith_cons_cons, absSum] at hb ⊢
        simp only [avx2AddLanes]
        rw [retrieveAvx2Lane_build t ht hs k1 k2 (hk1 k1 List.mem_cons_self) (hk2 k2 List.mem_cons_self)]
        simp only
        rw [ih r1 r2 h1 h2 (fun k hk => hk1 k (List.mem_cons_of_mem _ hk))
          (fun k hk => hk2 k (List.mem_cons_of_mem _ hk)) (by simp only [laneWs]; omega)]
        simp only
        rw [wrapI32_of_natAbs (by omega)]
        rfl

theorem avx2Chunks_build (t : Trie) (ht : TrieOK t) (hs : AvxOK (build t)) :
    ∀ (c1s c2s : List U31x8) (sums : List Int), c1s.length = c2s.length → sums.length = 8 →
    (∀ c ∈ c1s, c.length = 8 ∧ ∀ k ∈ c, k < 2147483648) →
    (∀ c ∈ c2s, c.length = 8 ∧ ∀ k ∈ c, k < 2147483648) →
    absSum sums + absSum (laneWs t c1s.flatten c2s.flatten) ≤ 2147483647 →
    ∃ sums', avx2Chunks (build t) c1s c2s sums = .ok sums' ∧ sums'.length = 8 ∧
      sums'.sum = sums.sum + (laneWs t c1s.flatten c2s.flatten).sum ∧
      absSum sums' ≤ absSum sums + absSum (laneWs t c1s.flatten c2s.flatten) := by
  intro c1s
  induction c1s with
  | nil =>
    intro c2s sums h _ _ _ _
    have : c2s = [] := List.length_eq_zero_iff.1 (by simpa using h.symm)
    subst this
    exact ⟨sums, by simp [avx2Chunks], by assumption, by simp [laneWs], by simp [laneWs, absSum]⟩
  | cons c1 r1 ih =>
    intro c2s sums h hs8 h1 h2 hb
    cases c2s with
    | nil => simp at h
    | cons c2 r2 =>
      simp only [List.length_cons, Nat.add_right_cancel_iff] at h
      obtain ⟨l1, k1⟩ := h1 c1 List.mem_cons_self
      obtain ⟨l2, k2⟩ := h2 c2 List.mem_cons_self
      have hsplit : laneWs t (c1 :: r1).flatten (c2 :: r2).flatten =
          laneWs t c1 c2 ++ laneWs t r1.flatten r2.flatten := by
        simp only [List.flatten_cons, laneWs]
        exact List.zipWith_append (by rw [l1, l2])
      rw [hsplit, absSum_append] at hb
      simp only [avx2Chunks]
      rw [avx2AddLanes_build t ht hs sums c1 c2 (by rw [hs8, l1]) (by rw [l1, l2]) k1 k2 (by omega)]
      simp only
      have hle := absSum_zipWith_add_le sums (laneWs t c1 c2)
      have hwl : (laneWs t c1 c2).length = 8 := by simp [laneWs, l1, l2]
      obtain ⟨sums', e1, e2, e3, e4⟩ := ih r2 (List.zipWith (· + ·) sums (laneWs t c1 c2)) h
        (by simp [hs8, hwl])
        (fun c hc => h1 c (List.mem_cons_of_mem _ hc)) (fun c hc => h2 c (List.mem_cons_of_mem _ hc))
        (by omega)
      refine ⟨sums', e1, e2, ?_, ?_⟩
      · rw [e3, sum_zipWith_add _ _ (by rw [hs8, hwl]), hsplit, List.sum_append]; omega
      · rw [hsplit, absSum_append]; omega

theorem hsum_ok (oc : Bool) : ∀ (rest : List Int) (acc : Int),
    acc.natAbs + absSum rest ≤ 2147483647 → hsum oc rest acc = .ok (acc + rest.sum) := by
  intro rest
  induction rest with
  | nil => intro acc _; simp [hsum]
  | cons x xs ih =>
    intro acc h
    simp only [absSum] at h
    simp only [hsum]
    rw [addI32_ok oc (by omega)]
    simp only
    rw [ih (acc + x) (by omega), List.sum_cons]
    congr 1; omega

/-- The AVX2 `accumulate_cost` on a built scorer, without overflow. -/
theorem accumulateAvx2_build (oc : Bool) (t : Trie) (ht : TrieOK t) (hs : AvxOK (build t))
    (c1s c2s : List U31x8) (hlen : c1s.length = c2s.length)
    (h1 : ∀ c ∈ c1s, c.length = 8 ∧ ∀ k ∈ c, k < 2147483648)
    (h2 : ∀ c ∈ c2s, c.length = 8 ∧ ∀ k ∈ c, k < 2147483648)
    (hsum : absSum (laneWs t c1s.flatten c2s.flatten) ≤ 2147483647) :
    accumulateAvx2 oc (build t) c1s c2s = .ok (laneWs t c1s.flatten c2s.flatten).sum := by
  have h0 : absSum (List.replicate 8 (0 : Int)) = 0 := by decide
  obtain ⟨sums', e1, e2, e3, e4⟩ := avx2Chunks_build t ht hs c1s c2s (List.replicate 8 0) hlen
    (by simp) h1 h2 (by rw [h0]; omega)
  unfold accumulateAvx2
  rw [e1]
  cases sums' with
  | nil => simp at e2
  | cons x rest =>
    simp only
    rw [h0] at e4
    simp only [absSum] at e4
    rw [hsum_ok oc rest x (by omega)]
    rw [List.sum_cons] at e3
    rw [e3]
    simp

end Vibrato.Scorer
