/-
Framed decoders (DESIGN §C09) and round-trip combinators (DESIGN §C05) for the bincode model.

`Framed d`: whenever `d` accepts an input, the input splits into the consumed part `used`
and the unread rest; `d` gives the same value on `used` followed by anything
(extension-stable), and *every strict prefix of `used` is answered with `err`* (not `ok`,
not `panic`).

`RT d e P`: on values satisfying `P`, `d` inverts the encoder `e` and leaves the
remainder of the stream untouched.
-/
import Vibrato.Model.Bincode

namespace Vibrato.Bincode

/-! ## Definitions -/

def Framed (d : Dec α) : Prop :=
  ∀ bs v rest, d bs = .ok v rest →
    ∃ used, bs = used ++ rest ∧ (∀ t, d (used ++ t) = .ok v t) ∧
      (∀ p, p <+: used → p ≠ used → d p = .err)

def RT (d : Dec α) (e : α → List UInt8) (P : α → Prop) : Prop :=
  ∀ a, P a → ∀ rest, d (e a ++ rest) = .ok a rest

/-! ## List facts -/

theorem prefix_append_cases {p a b : List UInt8} (h : p <+: a ++ b) :
    (p <+: a ∧ p ≠ a) ∨ ∃ q, p = a ++ q ∧ q <+: b := by
  induction a generalizing p with
  | nil => exact .inr ⟨p, rfl, h⟩
  | cons x a ih =>
    cases p with
    | nil => exact .inl ⟨List.nil_prefix, by simp⟩
    | cons y p =>
      rw [List.cons_append, List.cons_prefix_cons] at h
      obtain ⟨rfl, h⟩ := h
      rcases ih h with ⟨h1, h2⟩ | ⟨q, rfl, hq⟩
      · exact .inl ⟨by simpa using h1, by simpa using h2⟩
      · exact .inr ⟨q, rfl, hq⟩

/-! ## Basic combinators -/

@[simp] theorem ret_apply (a : α) (bs : List UInt8) : Dec.ret a bs = .ok a bs := rfl
@[simp] theorem fail_apply (bs : List UInt8) : (Dec.fail : Dec α) bs = .err := rfl
@[simp] theorem crash_apply (bs : List UInt8) : (Dec.crash : Dec α) bs = .panic := rfl

theorem andThen_ok {d : Dec α} {f : α → Dec β} {bs a r} (h : d bs = .ok a r) :
    d.andThen f bs = f a r := by
  simp [Dec.andThen, h]

theorem andThen_err {d : Dec α} {f : α → Dec β} {bs} (h : d bs = .err) :
    d.andThen f bs = .err := by
  simp [Dec.andThen, h]

theorem andThen_panic {d : Dec α} {f : α → Dec β} {bs} (h : d bs = .panic) :
    d.andThen f bs = .panic := by
  simp [Dec.andThen, h]

theorem andThen_eq_ok {d : Dec α} {f : α → Dec β} {bs b r} (h : d.andThen f bs = .ok b r) :
    ∃ a r1, d bs = .ok a r1 ∧ f a r1 = .ok b r := by
  unfold Dec.andThen at h
  split at h
  · exact ⟨_, _, ‹_›, h⟩
  · cases h
  · cases h

theorem framed_ret (a : α) : Framed (Dec.ret a) := by
  intro bs v rest h
  cases h
  refine ⟨[], rfl, fun t => rfl, ?_⟩
  intro p hp hne
  exact absurd (List.prefix_nil.mp hp) hne

theorem framed_fail : Framed (Dec.fail : Dec α) := by
  intro bs v rest h; cases h

theorem framed_crash : Framed (Dec.crash : Dec α) := by
  intro bs v rest h; cases h

theorem framed_andThen {d : Dec α} {f : α → Dec β} (hd : Framed d) (hf : ∀ a, Framed (f a)) :
    Framed (d.andThen f) := by
  intro bs v rest h
  obtain ⟨a, r1, h1, h2⟩ := andThen_eq_ok h
  obtain ⟨u1, e1, x1, s1⟩ := hd _ _ _ h1
  obtain ⟨u2, e2, x2, s2⟩ := hf a _ _ _ h2
  refine ⟨u1 ++ u2, by rw [e1, e2, List.append_assoc], ?_, ?_⟩
  · intro t
    rw [List.append_assoc, andThen_ok (x1 _)]
    exact x2 t
  · intro p hp hne
    rcases prefix_append_cases hp with ⟨hp1, hne1⟩ | ⟨q, rfl, hq⟩
    · exact andThen_err (s1 p hp1 hne1)
    · rw [andThen_ok (x1 q)]
      apply s2 q hq
      intro hc; exact hne (by rw [hc])

theorem framed_map {d : Dec α} (f : α → β) (hd : Framed d) : Framed (d.map f) :=
  framed_andThen hd fun _ => framed_ret _

theorem framed_ite {c : Prop} [Decidable c] {d1 d2 : Dec α} (h1 : Framed d1) (h2 : Framed d2) :
    Framed (if c then d1 else d2) := by
  split <;> assumption

theorem rt_andThen {d : Dec α} {e : α → List UInt8} {P : α → Prop} (h : RT d e P)
    {a : α} (ha : P a) (f : α → Dec β) (rest : List UInt8) :
    d.andThen f (e a ++ rest) = f a rest :=
  andThen_ok (h a ha rest)

/-! ## Primitives -/

theorem framed_u8 : Framed u8 := by
  intro bs v rest h
  cases bs with
  | nil => cases h
  | cons b r =>
    cases h
    refine ⟨[v], rfl, fun t => rfl, ?_⟩
    intro p hp hne
    cases p with
    | nil => rfl
    | cons y p =>
      rw [List.cons_prefix_cons] at hp
      obtain ⟨rfl, hp⟩ := hp
      rw [List.prefix_nil.mp hp] at hne
      exact absurd rfl hne

theorem rt_u8 : RT u8 encU8 (fun _ => True) := by
  intro a _ rest; rfl

theorem leN_succ (k : Nat) :
    leN (k+1) = u8.andThen fun b => (leN k).andThen fun v => Dec.ret (b.toNat + 256 * v) := by
  funext bs
  cases bs with
  | nil => rfl
  | cons b r =>
    simp only [leN, Dec.andThen, u8]
    cases leN k r <;> rfl

theorem framed_leN (k : Nat) : Framed (leN k) := by
  induction k with
  | zero => exact framed_ret 0
  | succ k ih =>
    rw [leN_succ]
    exact framed_andThen framed_u8 fun _ => framed_andThen ih fun _ => framed_ret _

theorem leN_encLE (k n : Nat) (h : n < 256 ^ k) (rest : List UInt8) :
    leN k (encLE k n ++ rest) = .ok n rest := by
  induction k generalizing n with
  | zero =>
    have : n = 0 := by simpa using h
    subst this; rfl
  | succ k ih =>
    have h' : n / 256 < 256 ^ k := by
      rw [Nat.div_lt_iff_lt_mul (by decide)]
      rwa [Nat.pow_succ] at h
    simp only [encLE, List.cons_append, leN, ih _ h']
    congr 1
    rw [UInt8.toNat_ofNat']
    omega

theorem encLE_length (k n : Nat) : (encLE k n).length = k := by
  induction k generalizing n with
  | zero => rfl
  | succ k ih => simp [encLE, ih]

theorem framed_u16 : Framed u16 := framed_leN 2
theorem framed_u32 : Framed u32 := framed_leN 4
theorem framed_u64 : Framed u64 := framed_leN 8
theorem framed_i16 : Framed i16 := framed_map _ framed_u16
theorem framed_i32 : Framed i32 := framed_map _ framed_u32

theorem rt_u16 : RT u16 encU16 (fun n => n < 2 ^ 16) :=
  fun n h rest => leN_encLE 2 n (by simpa using h) rest
theorem rt_u32 : RT u32 encU32 (fun n => n < 2 ^ 32) :=
  fun n h rest => leN_encLE 4 n (by simpa using h) rest
theorem rt_u64 : RT u64 encU64 (fun n => n < 2 ^ 64) :=
  fun n h rest => leN_encLE 8 n (by simpa using h) rest

theorem rt_i16 : RT i16 encI16 (fun i => -2 ^ 15 ≤ i ∧ i < 2 ^ 15) := by
  intro i h rest
  have hlt : ofSigned 16 i < 256 ^ 2 := by
    simp only [ofSigned]; omega
  simp only [i16, Dec.map, encI16, andThen_ok (leN_encLE 2 _ hlt rest), u16, ret_apply]
  congr 1
  simp only [toSigned, ofSigned]
  omega

theorem rt_i32 : RT i32 encI32 (fun i => -2 ^ 31 ≤ i ∧ i < 2 ^ 31) := by
  intro i h rest
  have hlt : ofSigned 32 i < 256 ^ 4 := by
    simp only [ofSigned]; omega
  simp only [i32, Dec.map, encI32, andThen_ok (leN_encLE 4 _ hlt rest), u32, ret_apply]
  congr 1
  simp only [toSigned, ofSigned]
  omega

theorem framed_bool : Framed bool :=
  framed_andThen framed_u8 fun _ =>
    framed_ite (framed_ret _) (framed_ite (framed_ret _) framed_fail)

theorem rt_bool : RT bool encBool (fun _ => True) := by
  intro b _ rest
  cases b <;> rfl

theorem framed_opt {d : Dec α} (hd : Framed d) : Framed (opt d) :=
  framed_andThen framed_u8 fun _ =>
    framed_ite (framed_ret _) (framed_ite (framed_map _ hd) framed_fail)

theorem rt_opt {d : Dec α} {e : α → List UInt8} {P : α → Prop} (h : RT d e P) :
    RT (opt d) (encOpt e) (fun o => ∀ a, o = some a → P a) := by
  intro o ho rest
  cases o with
  | none => rfl
  | some a =>
    have := h a (ho a rfl) rest
    simp [opt, encOpt, Dec.andThen, Dec.map, u8, this]

theorem framed_tag (n : Nat) : Framed (tag n) :=
  framed_andThen framed_u32 fun _ => framed_ite (framed_ret _) framed_fail

theorem rt_tag (n : Nat) (hn : n ≤ 2 ^ 32) : RT (tag n) encU32 (fun t => t < n) := by
  intro t ht rest
  have : t < 2 ^ 32 := Nat.lt_of_lt_of_le ht hn
  simp [tag, rt_andThen rt_u32 this, ht]

theorem framed_readExact (n : Nat) : Framed (readExact n) := by
  intro bs v rest h
  unfold readExact at h
  split at h
  · cases h
  · rename_i hlen
    cases h
    refine ⟨bs.take n, (List.take_append_drop n bs).symm, ?_, ?_⟩
    · intro t
      have hl : (List.take n bs).length = n := by simp; omega
      unfold readExact
      rw [if_neg (by simp; omega)]
      congr 1
      · rw [List.take_append_of_le_length (by omega), List.take_of_length_le (by omega)]
      · rw [List.drop_append_of_le_length (by omega), List.drop_of_length_le (by omega),
          List.nil_append]
    · intro p hp hne
      have hl : (List.take n bs).length = n := by simp; omega
      have : p.length < n := by
        have h1 := hp.length_le
        rcases Nat.lt_or_ge p.length n with h | h
        · exact h
        · exact absurd (List.IsPrefix.eq_of_length_le hp (by omega)) hne
      simp [readExact, this]

/-! ## Sequences -/

/-- The accumulator of the tail-recursive loop only prepends to the result. -/
theorem repGo_acc (d : Dec α) (n : Nat) (acc : List α) (bs : List UInt8) :
    repGo d n acc bs =
      match repGo d n [] bs with
      | .ok l r => .ok (acc.reverse ++ l) r
      | .err => .err
      | .panic => .panic := by
  induction n generalizing acc bs with
  | zero => simp [repGo]
  | succ n ih =>
    simp only [repGo]
    cases d bs with
    | ok a r =>
      simp only
      rw [ih (a :: acc), ih [a]]
      cases repGo d n [] r <;> simp
    | err => rfl
    | panic => rfl

/-- `rep` as the plain (non tail-recursive) loop. -/
theorem rep_succ (d : Dec α) (n : Nat) :
    rep d (n+1) = d.andThen fun a => (rep d n).andThen fun l => Dec.ret (a :: l) := by
  funext bs
  simp only [rep, repGo, Dec.andThen]
  cases d bs with
  | ok a r =>
    simp only
    rw [repGo_acc]
    cases repGo d n [] r <;> simp
  | err => rfl
  | panic => rfl

theorem rep_zero (d : Dec α) : rep d 0 = Dec.ret [] := rfl

theorem framed_rep {d : Dec α} (hd : Framed d) (n : Nat) : Framed (rep d n) := by
  induction n with
  | zero => exact framed_ret _
  | succ n ih =>
    rw [rep_succ]
    exact framed_andThen hd fun _ => framed_andThen ih fun _ => framed_ret _

theorem rep_length {d : Dec α} {n : Nat} {bs l r} (h : rep d n bs = .ok l r) : l.length = n := by
  induction n generalizing bs l r with
  | zero => cases h; rfl
  | succ n ih =>
    rw [rep_succ] at h
    obtain ⟨a, r1, _, h2⟩ := andThen_eq_ok h
    obtain ⟨l', r2, h3, h4⟩ := andThen_eq_ok h2
    cases h4
    simp [ih h3]

theorem rt_rep {d : Dec α} {e : α → List UInt8} {P : α → Prop} (h : RT d e P)
    (l : List α) (hl : ∀ a ∈ l, P a) (rest : List UInt8) :
    rep d l.length (encSeq e l ++ rest) = .ok l rest := by
  induction l with
  | nil => rfl
  | cons a l ih =>
    have ha := h a (hl a (by simp)) (encSeq e l ++ rest)
    have hl' := ih fun x hx => hl x (by simp [hx])
    simp only [List.length_cons, rep_succ, encSeq, List.flatMap_cons, List.append_assoc] at *
    rw [andThen_ok ha, andThen_ok hl']
    rfl

theorem framed_vec (sz : Nat) {d : Dec α} (hd : Framed d) : Framed (vec sz d) :=
  framed_andThen framed_u64 fun _ => framed_ite framed_crash (framed_rep hd _)

/-- Size condition under which a `Vec` with in-memory element size `sz ≥ 1` can exist. -/
def VecOk (sz : Nat) (P : α → Prop) (l : List α) : Prop :=
  l.length * sz ≤ isizeMax ∧ ∀ a ∈ l, P a

theorem rt_vec {sz : Nat} (hsz : 1 ≤ sz) {d : Dec α} {e : α → List UInt8} {P : α → Prop}
    (h : RT d e P) : RT (vec sz d) (encVec e) (VecOk sz P) := by
  intro l ⟨hlen, hl⟩ rest
  have h64 : l.length < 2 ^ 64 := by
    have : l.length ≤ l.length * sz := Nat.le_mul_of_pos_right _ hsz
    simp only [isizeMax] at hlen
    omega
  simp only [vec, encVec, List.append_assoc, rt_andThen rt_u64 h64]
  rw [if_neg (by omega)]
  exact rt_rep h l hl rest

/-! ## Strings and U31 -/

theorem framed_str : Framed str :=
  framed_andThen (framed_vec 1 framed_u8) fun _ => framed_ite (framed_ret _) framed_fail

theorem rt_str : RT str encStr (fun s => s.length ≤ isizeMax ∧ validUtf8 s = true) := by
  intro s ⟨hlen, hv⟩ rest
  have := rt_vec (Nat.le_refl 1) rt_u8 s ⟨by simpa using hlen, fun _ _ => trivial⟩ rest
  simp only [str, encStr, andThen_ok this, hv, if_true, ret_apply]

theorem framed_u31 : Framed u31 :=
  framed_andThen framed_u32 fun _ => framed_ite (framed_ret _) framed_fail

theorem rt_u31 : RT u31 encU32 (fun n => n ≤ u31Max) := by
  intro n hn rest
  have : n < 2 ^ 32 := by simp only [u31Max] at hn; omega
  simp [u31, rt_andThen rt_u32 this, hn]

theorem framed_u31x8 : Framed u31x8 := framed_rep framed_u31 8

theorem rt_u31x8 : RT u31x8 encU31x8 (fun l => l.length = 8 ∧ ∀ n ∈ l, n ≤ u31Max) := by
  intro l ⟨hlen, hl⟩ rest
  have := rt_rep rt_u31 l hl rest
  rw [hlen] at this
  exact this

/-! ## Consequences of framedness used by the property theorems -/

/-- What a framed decoder consumed is determined: if it accepts `bs` leaving `rest`, it
rejects every strict prefix of the consumed part, hence every input shorter than that. -/
theorem Framed.strict_prefix_err {d : Dec α} (hd : Framed d) {enc : List UInt8} {v : α}
    (h : d enc = .ok v []) {p : List UInt8} (hp : p <+: enc) (hne : p ≠ enc) : d p = .err := by
  obtain ⟨used, e, _, s⟩ := hd _ _ _ h
  rw [List.append_nil] at e
  subst e
  exact s p hp hne

/-- Result of a framed decoder on any cut of an accepted input: an error before the end of
the consumed part, the same value afterwards. -/
theorem Framed.take {d : Dec α} (hd : Framed d) {bs rest : List UInt8} {v : α}
    (h : d bs = .ok v rest) (n : Nat) :
    d (bs.take n) =
      if n < bs.length - rest.length then .err
      else .ok v (rest.take (n - (bs.length - rest.length))) := by
  obtain ⟨used, e, x, s⟩ := hd _ _ _ h
  subst e
  have hu : (used ++ rest).length - rest.length = used.length := by simp
  rw [hu]
  split
  · rename_i hn
    rw [List.take_append_of_le_length (by omega)]
    apply s _ (List.take_prefix _ _)
    intro hc
    have := congrArg List.length hc
    simp at this
    omega
  · rename_i hn
    rw [List.take_append, List.take_of_length_le (by omega)]
    exact x _

end Vibrato.Bincode
