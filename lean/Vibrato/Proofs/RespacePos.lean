/-
Re-spacing (property C12), part 3: the boundary map between two re-spacings of a sentence
and the proof that the two lattice environments satisfy the simulation hypotheses `RSim`.

Good boundaries of `s`: 0 and every boundary that follows a non-space character (under
`SpacePre` no node can end anywhere else).  The map `φ` sends the boundary after the `m`-th
non-space character of `s` to the boundary after the `m`-th non-space character of `s'`
(and 0 to 0).
-/
import Vibrato.Proofs.RespaceLocal
import Vibrato.Proofs.RespaceSim

namespace Vibrato

/-! ### counting non-space characters -/

/-- number of non-space characters before boundary `e` -/
def nsBefore (P : Nat → Bool) (s : List Nat) (e : Nat) : Nat := ((s.take e).filter fun c => !P c).length

/-- boundary just after the `m`-th non-space character (`0` for `m = 0`; saturates at the
length) -/
def posOf (P : Nat → Bool) : List Nat → Nat → Nat
  | [], _ => 0
  | _ :: _, 0 => 0
  | c :: t, m + 1 => 1 + (if P c then posOf P t (m + 1) else posOf P t m)

/-- good boundaries: 0 and the boundaries that follow a non-space character -/
def goodB (P : Nat → Bool) (s : List Nat) (e : Nat) : Prop :=
  e = 0 ∨ ∃ c, s[e - 1]? = some c ∧ P c = false

theorem posOf_zero (P : Nat → Bool) (s : List Nat) : posOf P s 0 = 0 := by
  cases s <;> rfl

theorem nsBefore_zero (P : Nat → Bool) (s : List Nat) : nsBefore P s 0 = 0 := by
  simp [nsBefore]

theorem posOf_le (P : Nat → Bool) : ∀ (s : List Nat) (m : Nat), posOf P s m ≤ s.length
  | [], _ => by simp [posOf]
  | _ :: _, 0 => by simp [posOf]
  | c :: t, m + 1 => by
    simp only [posOf, List.length_cons]
    split
    · have := posOf_le P t (m + 1); omega
    · have := posOf_le P t m; omega

theorem posOf_pos (P : Nat → Bool) (u : List Nat) (k : Nat) (hu : u ≠ []) (hk : 0 < k) :
    0 < posOf P u k := by
  cases u with
  | nil => exact absurd rfl hu
  | cons c t =>
    obtain ⟨k', rfl⟩ : ∃ k', k = k' + 1 := ⟨k - 1, by omega⟩
    simp only [posOf]; omega

theorem posOf_add (P : Nat → Bool) : ∀ (s : List Nat) (m k : Nat),
    posOf P s (m + k) = posOf P s m + posOf P (s.drop (posOf P s m)) k
  | [], m, k => by simp [posOf]
  | c :: t, 0, k => by simp [posOf]
  | c :: t, m + 1, k => by
    have e1 : m + 1 + k = (m + k) + 1 := by omega
    rw [e1]
    simp only [posOf]
    by_cases hc : P c = true
    · simp only [hc, if_true]
      have := posOf_add P t (m + 1) k
      have e2 : m + 1 + k = m + k + 1 := by omega
      rw [e2] at this
      rw [this, Nat.add_comm 1 (posOf P t (m + 1)), List.drop_succ_cons]; omega
    · simp only [hc, Bool.false_eq_true, if_false]
      rw [posOf_add P t m k, Nat.add_comm 1 (posOf P t m), List.drop_succ_cons]; omega

theorem posOf_spaces (P : Nat → Bool) (a u : List Nat) (k : Nat) (ha : ∀ c ∈ a, P c = true) (hk : 1 ≤ k) :
    posOf P (a ++ u) k = a.length + posOf P u k := by
  induction a with
  | nil => simp
  | cons c a ih =>
    obtain ⟨k', rfl⟩ : ∃ k', k = k' + 1 := ⟨k - 1, by omega⟩
    have hc := ha c (by simp)
    simp only [List.cons_append, posOf, hc, if_true, List.length_cons]
    rw [ih (fun d hd => ha d (by simp [hd]))]; omega

theorem posOf_seg (P : Nat → Bool) (seg rest : List Nat) (hseg : ∀ c ∈ seg, P c = false) :
    ∀ k, k ≤ seg.length → posOf P (seg ++ rest) k = k := by
  induction seg with
  | nil => intro k hk; have : k = 0 := by simpa using hk
           subst this; exact posOf_zero P _
  | cons c seg ih =>
    intro k hk
    cases k with
    | zero => exact posOf_zero P _
    | succ k' =>
      have hc := hseg c (by simp)
      simp only [List.cons_append, posOf, hc, Bool.false_eq_true, if_false]
      rw [ih (fun d hd => hseg d (by simp [hd])) k' (by simpa using hk)]; omega

theorem nsBefore_cons (P : Nat → Bool) (c : Nat) (t : List Nat) (e : Nat) :
    nsBefore P (c :: t) (e + 1) = (if P c then 0 else 1) + nsBefore P t e := by
  simp only [nsBefore, List.take_succ_cons, List.filter_cons]
  by_cases hc : P c = true
  · simp [hc]
  · simp [hc]; omega

theorem nsBefore_add (P : Nat → Bool) (s : List Nat) (p j : Nat) :
    nsBefore P s (p + j) = nsBefore P s p + nsBefore P (s.drop p) j := by
  simp only [nsBefore, List.take_add, List.filter_append, List.length_append]

theorem nsBefore_mono (P : Nat → Bool) (s : List Nat) (p q : Nat) (h : p ≤ q) :
    nsBefore P s p ≤ nsBefore P s q := by
  obtain ⟨j, rfl⟩ : ∃ j, q = p + j := ⟨q - p, by omega⟩
  rw [nsBefore_add]; omega

/-- `nsBefore` over leading spaces and `k` characters of the following space-free run -/
theorem nsBefore_run (P : Nat → Bool) (a seg rest : List Nat) (ha : ∀ c ∈ a, P c = true)
    (hseg : ∀ c ∈ seg, P c = false) (k : Nat) (hk : k ≤ seg.length) :
    nsBefore P (a ++ (seg ++ rest)) (a.length + k) = k := by
  unfold nsBefore
  rw [List.take_append, List.take_of_length_le (by omega), List.filter_append]
  have h1 : (a.filter fun c => !P c) = [] := by
    rw [List.filter_eq_nil_iff]; intro c hc; simp [ha c hc]
  have h2 : a.length + k - a.length = k := by omega
  rw [h1, h2, List.take_append, List.filter_append]
  have h3 : k - seg.length = 0 := by omega
  rw [h3, List.take_zero, List.filter_nil, List.append_nil, List.nil_append]
  have h4 : ((seg.take k).filter fun c => !P c) = seg.take k := by
    rw [List.filter_eq_self]; intro c hc; simp [hseg c (List.mem_of_mem_take hc)]
  rw [h4, List.length_take]; omega

theorem goodB_le (P : Nat → Bool) (s : List Nat) (e : Nat) (h : goodB P s e) : e ≤ s.length := by
  rcases h with rfl | ⟨c, hc, _⟩
  · omega
  · rcases Nat.lt_or_ge (e - 1) s.length with h1 | h1
    · omega
    · rw [List.getElem?_eq_none h1] at hc; cases hc

/-- before a good boundary `q > 0` there is one non-space character more than before any
earlier boundary -/
theorem nsBefore_lt (P : Nat → Bool) (s : List Nat) (p q : Nat) (hq : goodB P s q) (hpq : p < q) :
    nsBefore P s p < nsBefore P s q := by
  rcases hq with rfl | ⟨c, hc, hPc⟩
  · omega
  · have h1 := nsBefore_mono P s p (q - 1) (by omega)
    have h2 : nsBefore P s q = nsBefore P s (q - 1) + 1 := by
      have e : q = (q - 1) + 1 := by omega
      rw [e, nsBefore_add]
      simp only [Nat.add_sub_cancel]
      congr 1
      have hlt : q - 1 < s.length := by
        rcases Nat.lt_or_ge (q - 1) s.length with h | h
        · exact h
        · rw [List.getElem?_eq_none h] at hc; cases hc
      have hd : s.drop (q - 1) = c :: s.drop (q - 1 + 1) := by
        rw [List.getElem?_eq_getElem hlt] at hc
        have : s[q - 1] = c := by simpa using hc
        rw [← this]; simp
      rw [hd, nsBefore_cons, nsBefore_zero]; simp [hPc]
    omega

theorem posOf_nsBefore (P : Nat → Bool) : ∀ (s : List Nat) (p : Nat), goodB P s p →
    posOf P s (nsBefore P s p) = p := by
  intro s
  induction s with
  | nil =>
    intro p hp
    have := goodB_le P [] p hp
    have : p = 0 := by simpa using this
    subst this; rfl
  | cons c t ih =>
    intro p hp
    cases p with
    | zero => rw [nsBefore_zero]; rfl
    | succ e =>
      rw [nsBefore_cons]
      rcases Nat.eq_zero_or_pos e with rfl | he
      · -- the boundary after the first character: that character is a non-space
        rcases hp with h0 | ⟨d, hd, hPd⟩
        · omega
        · simp only [Nat.add_sub_cancel, List.getElem?_cons_zero, Option.some.injEq] at hd
          subst hd
          simp [hPd, nsBefore_zero, posOf, posOf_zero]
      · have hgt : goodB P t e := by
          rcases hp with h0 | ⟨d, hd, hPd⟩
          · omega
          · right
            refine ⟨d, ?_, hPd⟩
            have : e + 1 - 1 = (e - 1) + 1 := by omega
            rw [this, List.getElem?_cons_succ] at hd; exact hd
        have hm : 1 ≤ nsBefore P t e := by
          have := nsBefore_lt P t 0 e hgt he; omega
        obtain ⟨k, hk⟩ : ∃ k, nsBefore P t e = k + 1 := ⟨nsBefore P t e - 1, by omega⟩
        have := ih e hgt
        by_cases hc : P c = true
        · simp only [hc, if_true, Nat.zero_add]
          rw [hk, posOf]; simp only [hc, if_true]
          rw [← hk, this]; omega
        · simp only [hc, Bool.false_eq_true, if_false]
          rw [Nat.add_comm 1, posOf]; simp only [hc, Bool.false_eq_true, if_false]
          rw [this]; omega

/-! ### corresponding suffixes -/

/-- total number of non-space characters -/
def nsTotal (P : Nat → Bool) (s : List Nat) : Nat := (s.filter fun c => !P c).length

theorem nsBefore_le_total (P : Nat → Bool) (s : List Nat) (e : Nat) : nsBefore P s e ≤ nsTotal P s :=
  ((List.take_sublist e s).filter _).length_le

theorem segments_cons_inj (P : Nat → Bool) (c c' : Nat) (t t' : List Nat) (hc : P c = false)
    (hc' : P c' = false) (h : segments P (c :: t) = segments P (c' :: t')) :
    c = c' ∧ segments P t = segments P t' ∧ startsNS P t = startsNS P t' := by
  have key : ∀ (c : Nat) (t : List Nat), P c = false →
      (startsNS P t = true ∧ segments P (c :: t) = (c :: nsHead P t) :: segments P (nsTail P t) ∧
        segments P t = nsHead P t :: segments P (nsTail P t) ∧ nsHead P t ≠ []) ∨
      (startsNS P t = false ∧ segments P (c :: t) = [c] :: segments P t) := by
    intro c t hc
    cases hs : startsNS P t with
    | true =>
      left
      have := segments_startsNS P t hs
      refine ⟨rfl, ?_, this, nsHead_ne_nil P t hs⟩
      simp only [segments, hc, Bool.false_eq_true, if_false, hs, if_true, this]
    | false =>
      right
      refine ⟨rfl, ?_⟩
      simp only [segments, hc, Bool.false_eq_true, if_false, hs]
  rcases key c t hc with ⟨hs, h1, h2, h3⟩ | ⟨hs, h1⟩ <;>
    rcases key c' t' hc' with ⟨hs', h1', h2', h3'⟩ | ⟨hs', h1'⟩
  · rw [h1, h1'] at h
    simp only [List.cons.injEq] at h
    obtain ⟨⟨rfl, hh⟩, ht⟩ := h
    exact ⟨rfl, by rw [h2, h2', hh, ht], by rw [hs, hs']⟩
  · rw [h1, h1'] at h
    simp only [List.cons.injEq] at h
    exact absurd h.1.2 h3
  · rw [h1, h1'] at h
    simp only [List.cons.injEq] at h
    exact absurd h.1.2.symm h3'
  · rw [h1, h1'] at h
    simp only [List.cons.injEq] at h
    exact ⟨h.1.1, h.2, by rw [hs, hs']⟩

theorem segments_cons_ne_nil (P : Nat → Bool) (c : Nat) (t : List Nat) (hc : P c = false) :
    segments P (c :: t) ≠ [] := by
  simp only [segments, hc, Bool.false_eq_true, if_false]
  split
  · split <;> simp
  · simp

/-- **Corresponding suffixes.**  If `s` and `s'` have the same segments, the texts after their
`m`-th non-space characters (`m ≥ 1`) have the same segments and both or neither start with a
non-space. -/
theorem corr_suffix (P : Nat → Bool) : ∀ (n : Nat) (s s' : List Nat), s.length + s'.length ≤ n →
    segments P s = segments P s' → ∀ m, 1 ≤ m → m ≤ nsTotal P s →
    segments P (s.drop (posOf P s m)) = segments P (s'.drop (posOf P s' m)) ∧
      startsNS P (s.drop (posOf P s m)) = startsNS P (s'.drop (posOf P s' m)) := by
  intro n
  induction n with
  | zero =>
    intro s s' hn _ m hm hmt
    have : s = [] := by
      cases s with
      | nil => rfl
      | cons _ _ => simp at hn
    subst this
    simp [nsTotal] at hmt; omega
  | succ n ih =>
    intro s s' hn H m hm hmt
    obtain ⟨m', rfl⟩ : ∃ m', m = m' + 1 := ⟨m - 1, by omega⟩
    cases s with
    | nil => simp [nsTotal] at hmt
    | cons c t =>
      by_cases hc : P c = true
      · -- leading space of `s`
        have hseg : segments P (c :: t) = segments P t := by simp [segments, hc]
        have hpos : posOf P (c :: t) (m' + 1) = posOf P t (m' + 1) + 1 := by
          simp only [posOf, hc, if_true]; omega
        have htot : nsTotal P (c :: t) = nsTotal P t := by simp [nsTotal, hc]
        rw [hpos, List.drop_succ_cons]
        exact ih t s' (by simp at hn; omega) (by rw [← hseg]; exact H) (m' + 1) hm (by rw [← htot]; exact hmt)
      · have hc : P c = false := by simpa using hc
        cases s' with
        | nil => exact absurd H (segments_cons_ne_nil P c t hc)
        | cons c' t' =>
          by_cases hc' : P c' = true
          · have hseg : segments P (c' :: t') = segments P t' := by simp [segments, hc']
            have hpos : posOf P (c' :: t') (m' + 1) = posOf P t' (m' + 1) + 1 := by
              simp only [posOf, hc', if_true]; omega
            rw [hpos, List.drop_succ_cons]
            exact ih (c :: t) t' (by simp at hn ⊢; omega) (by rw [← hseg]; exact H) (m' + 1) hm hmt
          · have hc' : P c' = false := by simpa using hc'
            obtain ⟨rfl, hseg, hst⟩ := segments_cons_inj P c c' t t' hc hc' H
            have hpos : posOf P (c :: t) (m' + 1) = posOf P t m' + 1 := by
              simp only [posOf, hc, Bool.false_eq_true, if_false]; omega
            have hpos' : posOf P (c :: t') (m' + 1) = posOf P t' m' + 1 := by
              simp only [posOf, hc, Bool.false_eq_true, if_false]; omega
            rw [hpos, hpos', List.drop_succ_cons, List.drop_succ_cons]
            rcases Nat.eq_zero_or_pos m' with rfl | hm'
            · rw [posOf_zero, posOf_zero]; exact ⟨hseg, hst⟩
            · have htot : nsTotal P (c :: t) = nsTotal P t + 1 := by
                simp [nsTotal, hc]
              exact ih t t' (by simp at hn; omega) hseg m' hm' (by omega)

/-- the boundary map -/
def phiOf (P : Nat → Bool) (s s' : List Nat) (e : Nat) : Nat := posOf P s' (nsBefore P s e)

/-- **Corresponding boundaries have corresponding suffixes.** -/
theorem corr_drop (P : Nat → Bool) (s s' : List Nat) (H : segments P s = segments P s') (p : Nat)
    (hp : goodB P s p) :
    segments P (s.drop p) = segments P (s'.drop (phiOf P s s' p)) ∧
      (0 < p → startsNS P (s.drop p) = startsNS P (s'.drop (phiOf P s s' p))) := by
  rcases Nat.eq_zero_or_pos p with rfl | hpos
  · simp only [phiOf, nsBefore_zero, posOf_zero, List.drop_zero]
    exact ⟨H, fun h => absurd h (Nat.lt_irrefl 0)⟩
  · have hm : 1 ≤ nsBefore P s p := by have := nsBefore_lt P s 0 p hp hpos; omega
    have := corr_suffix P _ s s' (Nat.le_refl _) H (nsBefore P s p) hm (nsBefore_le_total P s p)
    rw [posOf_nsBefore P s p hp] at this
    exact ⟨this.1, fun _ => this.2⟩

/-! ### the local picture at a boundary -/

theorem drop_spHead (P : Nat → Bool) (t : List Nat) : t.drop (spHead P t).length = spTail P t := by
  induction t with
  | nil => rfl
  | cons c t ih =>
    simp only [spHead, spTail, List.takeWhile_cons, List.dropWhile_cons]
    split
    · simpa using ih
    · rfl

theorem length_spHead_add (P : Nat → Bool) (t : List Nat) :
    (spHead P t).length + (spTail P t).length = t.length := by
  have := congrArg List.length (List.takeWhile_append_dropWhile (p := P) (l := t))
  rw [List.length_append] at this
  exact this

theorem spHead_pos_iff (P : Nat → Bool) (t : List Nat) :
    (t = [] ∨ 0 < (spHead P t).length) ↔ startsNS P t = false := by
  cases t with
  | nil => simp [startsNS]
  | cons c t =>
    by_cases hc : P c = true
    · simp [startsNS, spHead, hc]
    · simp [startsNS, spHead, hc]

theorem getElem?_spHead (P : Nat → Bool) (t : List Nat) (j : Nat) (hj : j < (spHead P t).length) :
    ∃ c, t[j]? = some c ∧ P c = true := by
  have h := List.takeWhile_append_dropWhile (p := P) (l := t)
  refine ⟨(spHead P t)[j], ?_, spHead_all P t _ (List.getElem_mem _)⟩
  conv => lhs; rw [← h]
  rw [List.getElem?_append_left hj, List.getElem?_eq_getElem hj]

section Concrete

variable {D : TokDict} {sp : Nat}

/-- the lattice environment of a sentence with `ignore_space` on -/
abbrev envOf (D : TokDict) (sp : Nat) (mg : Option Nat) (s : List Nat) : LatEnv :=
  latEnvOf D (compileSent D s) ⟨some sp, mg⟩

theorem env_skip (h : SpacePre D sp) (mg : Option Nat) (s : List Nat) (p : Nat) :
    (envOf D sp mg s).skip p = (spHead (isSpC D sp) (s.drop p)).length :=
  skipAt_eq h mg s p

theorem env_done_iff (h : SpacePre D sp) (mg : Option Nat) (s : List Nat) (p : Nat) (hp : p ≤ s.length) :
    doneAt (envOf D sp mg s) p ↔ spTail (isSpC D sp) (s.drop p) = [] := by
  unfold doneAt
  rw [env_skip h]
  have hlen : (envOf D sp mg s).len = s.length := rfl
  have := length_spHead_add (isSpC D sp) (s.drop p)
  rw [hlen]
  simp only [List.length_drop] at this
  rw [← List.length_eq_zero_iff]
  omega

theorem env_bar_iff (h : SpacePre D sp) (mg : Option Nat) (s : List Nat) (p : Nat) (_hp : p ≤ s.length) :
    barAt (envOf D sp mg s) p ↔ startsNS (isSpC D sp) (s.drop p) = false := by
  unfold barAt
  rw [env_skip h, ← spHead_pos_iff]
  have hlen : (envOf D sp mg s).len = s.length := rfl
  rw [hlen, List.drop_eq_nil_iff]

/-- **Local picture.** If, after the spaces at boundary `p`, the text reads `seg ++ rest` with
`seg` a non-empty space-free run and `rest` not starting with a non-space, then the start word
`sw = p + skip p` is inside the sentence, its candidates are those of `seg` moved by `sw`, and
the characters from `sw` on are those of `seg`. -/
theorem env_local (h : SpacePre D sp) (mg : Option Nat) (s : List Nat) (p : Nat) (_hp : p ≤ s.length)
    (seg rest : List Nat) (hdec : spTail (isSpC D sp) (s.drop p) = seg ++ rest) (hne : seg ≠ [])
    (hseg : ∀ c ∈ seg, isSpC D sp c = false) (hrest : startsNS (isSpC D sp) rest = false) :
    let E := envOf D sp mg s
    let sw := p + E.skip p
    s.drop sw = seg ++ rest ∧ sw + seg.length ≤ s.length ∧
      E.cands sw = (relCands D mg seg).map (addEnd sw) := by
  intro E sw
  have hsk : E.skip p = (spHead (isSpC D sp) (s.drop p)).length := env_skip h mg s p
  have hdrop : s.drop sw = seg ++ rest := by
    show s.drop (p + E.skip p) = _
    rw [hsk, ← List.drop_drop, drop_spHead, hdec]
  have hl : 0 < seg.length := List.length_pos_iff.mpr hne
  have hlen : sw + seg.length ≤ s.length := by
    have := congrArg List.length hdrop
    simp only [List.length_drop, List.length_append] at this
    omega
  refine ⟨hdrop, hlen, ?_⟩
  show candsAt D (compileSent D s) ⟨some sp, mg⟩ sw = _
  rw [candsAt_drop D _ s sw (by omega), hdrop, relCands_local h mg seg rest hne hseg hrest]

theorem getElem?_of_drop (s : List Nat) (sw : Nat) (seg rest : List Nat) (hd : s.drop sw = seg ++ rest)
    (j : Nat) (hj : j < seg.length) : s[sw + j]? = some seg[j] := by
  have : s[sw + j]? = (s.drop sw)[j]? := by rw [List.getElem?_drop]
  rw [this, hd, List.getElem?_append_left hj, List.getElem?_eq_getElem hj]

/-- **(d)** every candidate offered at a start word ends just after a non-space character of
the same space-free run: no candidate ends inside or at the end of a space run, and none
crosses a space. -/
theorem env_cand_end (h : SpacePre D sp) (mg : Option Nat) (s : List Nat) (p : Nat) (hp : p ≤ s.length)
    (seg rest : List Nat) (hdec : spTail (isSpC D sp) (s.drop p) = seg ++ rest) (hne : seg ≠ [])
    (hseg : ∀ c ∈ seg, isSpC D sp c = false) (hrest : startsNS (isSpC D sp) rest = false)
    (c : Cand) (hc : c ∈ (envOf D sp mg s).cands (p + (envOf D sp mg s).skip p)) :
    ∃ k, 1 ≤ k ∧ k ≤ seg.length ∧ c.endWord = p + (envOf D sp mg s).skip p + k ∧
      ∃ c0 ∈ relCands D mg seg, c = addEnd (p + (envOf D sp mg s).skip p) c0 := by
  obtain ⟨_, _, hcs⟩ := env_local h mg s p hp seg rest hdec hne hseg hrest
  rw [hcs] at hc
  simp only [List.mem_map] at hc
  obtain ⟨c0, hc0, rfl⟩ := hc
  obtain ⟨h1, h2⟩ := relCands_bounds D mg seg hne c0 hc0
  exact ⟨c0.endWord, h1, h2, rfl, c0, hc0, rfl⟩

/-- the picture at a good boundary `p` that is not done: after the skipped spaces both texts
read the same space-free run `seg`, followed by something that does not start with a non-space -/
theorem respace_pic (h : SpacePre D sp) (mg : Option Nat) (s s' : List Nat)
    (H : segments (isSpC D sp) s = segments (isSpC D sp) s') : ∀ p, goodB (isSpC D sp) s p → ¬ doneAt (envOf D sp mg s) p →
    ∃ seg rest rest', seg ≠ [] ∧ (∀ c ∈ seg, isSpC D sp c = false) ∧
      startsNS (isSpC D sp) rest = false ∧ startsNS (isSpC D sp) rest' = false ∧
      spTail (isSpC D sp) (s.drop p) = seg ++ rest ∧
      spTail (isSpC D sp) (s'.drop (phiOf (isSpC D sp) s s' p)) = seg ++ rest' := by
  intro p hp hd
  have hple := goodB_le _ s p hp
  rw [env_done_iff h mg s p hple] at hd
  obtain ⟨hseg, _⟩ := corr_drop _ s s' H p hp
  rcases spTail_cases (isSpC D sp) (s.drop p) with ⟨h0, _⟩ | ⟨seg, rest, h1, h2, h3, h4, h5⟩
  · exact absurd h0 hd
  · rcases spTail_cases (isSpC D sp) (s'.drop (phiOf (isSpC D sp) s s' p)) with
      ⟨_, h0⟩ | ⟨seg', rest', h1', h2', h3', h4', h5'⟩
    · rw [← hseg, h5] at h0; cases h0
    · rw [hseg, h5'] at h5
      simp only [List.cons.injEq] at h5
      obtain ⟨rfl, _⟩ := h5
      exact ⟨seg', rest, rest', h2, h3, h4, h4', h1, h1'⟩

/-- offsets inside the segment correspond under the boundary map -/
theorem respace_off (h : SpacePre D sp) (mg : Option Nat) (s s' : List Nat) : ∀ p, goodB (isSpC D sp) s p → ¬ doneAt (envOf D sp mg s) p →
    ∀ seg rest rest', seg ≠ [] → (∀ c ∈ seg, isSpC D sp c = false) →
      spTail (isSpC D sp) (s.drop p) = seg ++ rest →
      spTail (isSpC D sp) (s'.drop (phiOf (isSpC D sp) s s' p)) = seg ++ rest' →
      ∀ k, 1 ≤ k → k ≤ seg.length →
        goodB (isSpC D sp) s (p + (envOf D sp mg s).skip p + k) ∧
        phiOf (isSpC D sp) s s' (p + (envOf D sp mg s).skip p + k) =
          phiOf (isSpC D sp) s s' p + (envOf D sp mg s').skip (phiOf (isSpC D sp) s s' p) + k := by
  intro p hp hd seg rest rest' hne hseg hdec hdec' k hk1 hk2
  have hple := goodB_le _ s p hp
  rw [env_skip h, env_skip h]
  have hsd : s.drop (p + (spHead (isSpC D sp) (s.drop p)).length) = seg ++ rest := by
    rw [← List.drop_drop, drop_spHead, hdec]
  constructor
  · right
    refine ⟨seg[k - 1], ?_, hseg _ (List.getElem_mem _)⟩
    have := getElem?_of_drop s _ seg rest hsd (k - 1) (by omega)
    rw [← this]; congr 1; omega
  · unfold phiOf
    have ht : s.drop p = spHead (isSpC D sp) (s.drop p) ++ (seg ++ rest) := by
      rw [← hdec]; exact (List.takeWhile_append_dropWhile).symm
    have ht' : s'.drop (phiOf (isSpC D sp) s s' p) =
        spHead (isSpC D sp) (s'.drop (phiOf (isSpC D sp) s s' p)) ++ (seg ++ rest') := by
      rw [← hdec']; exact (List.takeWhile_append_dropWhile).symm
    have e1 : nsBefore (isSpC D sp) s (p + (spHead (isSpC D sp) (s.drop p)).length + k) =
        nsBefore (isSpC D sp) s p + k := by
      rw [Nat.add_assoc, nsBefore_add]
      congr 1
      have := nsBefore_run (isSpC D sp) (spHead (isSpC D sp) (s.drop p)) seg rest (spHead_all _ _) hseg k hk2
      rw [← ht] at this
      exact this
    rw [e1, posOf_add]
    have e2 : posOf (isSpC D sp) (s'.drop (posOf (isSpC D sp) s' (nsBefore (isSpC D sp) s p))) k =
        (spHead (isSpC D sp) (s'.drop (phiOf (isSpC D sp) s s' p))).length + k := by
      show posOf (isSpC D sp) (s'.drop (phiOf (isSpC D sp) s s' p)) k = _
      conv => lhs; rw [ht']
      rw [posOf_spaces _ _ _ k (spHead_all _ _) hk1, posOf_seg _ seg rest' hseg k hk2]
    rw [e2]; unfold phiOf; omega

/-- **The environments of two re-spacings satisfy the simulation hypotheses.** -/
theorem respace_rsim (h : SpacePre D sp) (mg : Option Nat) (s s' : List Nat)
    (H : segments (isSpC D sp) s = segments (isSpC D sp) s') :
    RSim (envOf D sp mg s) (envOf D sp mg s') (goodB (isSpC D sp) s) (phiOf (isSpC D sp) s s') := by
  have pic := respace_pic h mg s s' H
  have hphile : ∀ p, phiOf (isSpC D sp) s s' p ≤ s'.length := fun p => posOf_le _ _ _
  have off := respace_off h mg s s'
  refine ⟨rfl, Or.inl rfl, ?_, fun p hp => goodB_le _ s p hp, fun p _ => hphile p, ?_, ?_, ?_, ?_, ?_, ?_, ?_⟩
  · simp [phiOf, nsBefore_zero, posOf_zero]
  · -- mono
    intro p q hp hq hpq
    have hlt := nsBefore_lt _ s p q hq hpq
    obtain ⟨k, hk⟩ : ∃ k, nsBefore (isSpC D sp) s q = nsBefore (isSpC D sp) s p + k ∧ 0 < k :=
      ⟨nsBefore (isSpC D sp) s q - nsBefore (isSpC D sp) s p, by omega, by omega⟩
    unfold phiOf
    rw [hk.1, posOf_add]
    have hne : s'.drop (posOf (isSpC D sp) s' (nsBefore (isSpC D sp) s p)) ≠ [] := by
      intro h0
      obtain ⟨hseg, _⟩ := corr_drop _ s s' H p hp
      unfold phiOf at hseg
      rw [h0] at hseg
      -- but `s.drop p` contains the non-space character before `q`
      have : spTail (isSpC D sp) (s.drop p) = [] := (segments_eq_nil_iff _ _).mp (by rw [hseg]; rfl)
      rw [spTail_eq_nil_iff] at this
      rcases hq with rfl | ⟨c, hc, hPc⟩
      · omega
      · have hmem : c ∈ s.drop p := by
          have : (s.drop p)[q - 1 - p]? = some c := by
            rw [List.getElem?_drop]; rw [← hc]; congr 1; omega
          exact List.mem_of_getElem? this
        rw [this c hmem] at hPc; cases hPc
    have := posOf_pos (isSpC D sp) _ k hne hk.2
    omega
  · -- done_iff
    intro p hp
    rw [env_done_iff h mg s p (goodB_le _ s p hp), env_done_iff h mg s' _ (hphile p),
      ← segments_eq_nil_iff, ← segments_eq_nil_iff, (corr_drop _ s s' H p hp).1]
  · -- bar_iff
    intro p hp hpos
    rw [env_bar_iff h mg s p (goodB_le _ s p hp), env_bar_iff h mg s' _ (hphile p),
      (corr_drop _ s s' H p hp).2 hpos]
  · -- cands
    intro p hp hd
    obtain ⟨seg, rest, rest', hne, hseg, hr, hr', hdec, hdec'⟩ := pic p hp hd
    obtain ⟨_, _, hcs⟩ := env_local h mg s p (goodB_le _ s p hp) seg rest hdec hne hseg hr
    obtain ⟨_, _, hcs'⟩ := env_local h mg s' _ (hphile p) seg rest' hdec' hne hseg hr'
    rw [hcs, hcs', List.map_map]
    apply List.map_congr_left
    intro c0 hc0
    obtain ⟨h1, h2⟩ := relCands_bounds D mg seg hne c0 hc0
    have := (off p hp hd seg rest rest' hne hseg hdec hdec' c0.endWord h1 h2).2
    simp only [Function.comp, reEnd, addEnd]
    rw [this]
  · -- cands_G
    intro p hp hd c hc
    obtain ⟨seg, rest, rest', hne, hseg, hr, hr', hdec, hdec'⟩ := pic p hp hd
    obtain ⟨k, hk1, hk2, hke, _⟩ := env_cand_end h mg s p (goodB_le _ s p hp) seg rest hdec hne hseg hr c hc
    rw [hke]
    exact ⟨(off p hp hd seg rest rest' hne hseg hdec hdec' k hk1 hk2).1, by omega⟩
  · -- next
    intro p hp hd
    obtain ⟨seg, rest, rest', hne, hseg, hr, hr', hdec, hdec'⟩ := pic p hp hd
    exact off p hp hd seg rest rest' hne hseg hdec hdec' 1 (Nat.le_refl 1) (List.length_pos_iff.mpr hne)
  · -- bar: no candidate crosses a barrier
    intro q b hq hb hqb hbar hd c hc
    obtain ⟨seg, rest, rest', hne, hseg, hr, hr', hdec, hdec'⟩ := pic q hq hd
    obtain ⟨k, hk1, hk2, hke, _⟩ := env_cand_end h mg s q (goodB_le _ s q hq) seg rest hdec hne hseg hr c hc
    obtain ⟨hsd, hslen, _⟩ := env_local h mg s q (goodB_le _ s q hq) seg rest hdec hne hseg hr
    rw [hke]
    have hsk := env_skip h mg s q
    generalize (envOf D sp mg s).skip q = r at *
    -- the character before `b` is a non-space, so `b - 1` is not in the skipped run
    rcases hb with rfl | ⟨cb, hcb, hPcb⟩
    · omega
    · have h1 : q + r ≤ b - 1 := by
        rcases Nat.lt_or_ge (b - 1) (q + r) with hlt | hge
        · exfalso
          obtain ⟨c1, hc1, hP1⟩ := getElem?_spHead (isSpC D sp) (s.drop q) (b - 1 - q) (by omega)
          rw [List.getElem?_drop] at hc1
          have : q + (b - 1 - q) = b - 1 := by omega
          rw [this, hcb] at hc1
          cases hc1; rw [hP1] at hPcb; cases hPcb
        · exact hge
      -- and `b` itself is a barrier, so it is not strictly inside the segment
      rcases Nat.lt_or_ge b (q + r + seg.length) with hlt | hge
      · exfalso
        rw [env_bar_iff h mg s b (by omega)] at hbar
        have hb' : s.drop b = seg[b - (q + r)] :: s.drop (b + 1) := by
          have hg := getElem?_of_drop s (q + r) seg rest hsd (b - (q + r)) (by omega)
          have e : q + r + (b - (q + r)) = b := by omega
          rw [e] at hg
          have hblt : b < s.length := by omega
          rw [List.getElem?_eq_getElem hblt] at hg
          have : s[b] = seg[b - (q + r)] := by simpa using hg
          rw [← this]; simp
        rw [hb'] at hbar
        simp only [startsNS, Bool.not_eq_false'] at hbar
        rw [hseg _ (List.getElem_mem _)] at hbar; cases hbar
      · omega

end Concrete

end Vibrato
