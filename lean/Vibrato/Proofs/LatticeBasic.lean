import Vibrato.Model.Lattice

namespace Vibrato

theorem endsAt_pushAt (L : Ends) (i j : Nat) (n : Node) :
    endsAt (pushAt L i n) j = if i = j ∧ i < L.length then endsAt L i ++ [n] else endsAt L j := by
  unfold endsAt pushAt
  simp only [List.getD_eq_getElem?_getD, List.getElem?_modify]
  by_cases h : i = j
  · subst h
    by_cases hl : i < L.length
    · simp [hl]
    · simp [hl]
  · simp [h]

theorem endsAt_pushAt_same (L : Ends) (i : Nat) (n : Node) (h : i < L.length) :
    endsAt (pushAt L i n) i = endsAt L i ++ [n] := by
  simp [endsAt_pushAt, h]

theorem endsAt_pushAt_ne (L : Ends) (i j : Nat) (n : Node) (h : i ≠ j) :
    endsAt (pushAt L i n) j = endsAt L j := by
  simp [endsAt_pushAt, h]

@[simp] theorem length_pushAt (L : Ends) (i : Nat) (n : Node) :
    (pushAt L i n).length = L.length := by
  simp [pushAt]

theorem endsAt_replicate (k j : Nat) : endsAt (List.replicate k []) j = [] := by
  unfold endsAt
  simp only [List.getD_eq_getElem?_getD]
  by_cases h : j < k
  · simp [h]
  · simp [h]

theorem length_resetEnds (b len : Nat) : (resetEnds b len).length = max b (len + 1) := by
  simp [resetEnds]

theorem endsAt_resetEnds_zero (b len : Nat) : endsAt (resetEnds b len) 0 = [bosNode] := by
  unfold resetEnds
  rw [endsAt_pushAt_same _ _ _ (by simp; omega)]
  simp [endsAt_replicate]

theorem endsAt_resetEnds_succ (b len j : Nat) : endsAt (resetEnds b len) (j + 1) = [] := by
  unfold resetEnds
  rw [endsAt_pushAt_ne _ _ _ _ (by omega)]
  exact endsAt_replicate _ _

/-- The reset lattice does not depend on the previous buffer length, as far as reads go. -/
theorem endsAt_resetEnds_buf (b b' len j : Nat) :
    endsAt (resetEnds b len) j = endsAt (resetEnds b' len) j := by
  cases j with
  | zero => simp [endsAt_resetEnds_zero]
  | succ j => simp [endsAt_resetEnds_succ]

end Vibrato
