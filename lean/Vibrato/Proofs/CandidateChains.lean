/-
Helper definitions and lemmas for `Props/C02cap.lean`: candidate segmentations of a lattice
environment defined without the lattice, the declarative description of the boundaries at which
`build_lattice_inner` runs `add_lattice_edges` (`LiveD`), and the correspondence between
candidate segmentations whose boundaries are live and paths through the stored lattice.
-/
import Vibrato.Props.C03
import Vibrato.Proofs.RespaceMain

namespace Vibrato

/-! ## Candidate segmentations, declaratively -/

/-- `CandSeg E a cs b`: the words `cs = w₁ … w_k` are chained from boundary `a` to boundary `b`.
The first word is one of the candidates offered at the start word position `a + skip a` (the
characters skipped at `a` are the `ignore_space` run), which has to lie inside the sentence
(`add_lattice_edges` is never called at or beyond `len`; the model function `candsAt` does
return a fallback unknown word there, which is why the clause cannot be dropped); the next word is a candidate at the
boundary where the previous one ended, and so on; the last one ends at `b`. -/
def CandSeg (E : LatEnv) : Nat → List Cand → Nat → Prop
  | a, [], b => a = b
  | a, c :: cs, b => a + E.skip a < E.len ∧ c ∈ E.cands (a + E.skip a) ∧ CandSeg E c.endWord cs b

/-- A boundary at which a segmentation may stop: the end of the sentence, or everything from
there on is skipped (the `break` of `build_lattice_inner`). -/
def FinalB (E : LatEnv) (sn : Nat) : Prop := sn = E.len ∨ E.len ≤ sn + E.skip sn

/-- cost of the words `cs` when the word before them has right id `r`, including the connection
of the last word to EOS (left id 0) -/
def segCostFrom (conn : Nat → Nat → Int) : Nat → List Cand → Int
  | r, [] => conn r 0
  | r, c :: cs => conn r c.leftId + c.wordCost + segCostFrom conn c.rightId cs

/-- Cost of a complete segmentation: Σ (connection(previous right id, left id) + word cost) with
BOS right id 0, plus the connection of the last word to EOS. -/
def segCost (conn : Nat → Nat → Int) (cs : List Cand) : Int := segCostFrom conn 0 cs

/-- the boundaries of a chain: its start and the end of every word -/
def segBounds (a : Nat) (cs : List Cand) : List Nat := a :: cs.map (·.endWord)

/-- right id of the last word (`r` if there is none) -/
def lastR : Nat → List Cand → Nat
  | r, [] => r
  | _, c :: cs => lastR c.rightId cs

theorem candSeg_snoc (E : LatEnv) (c : Cand) :
    ∀ (cs : List Cand) (a m : Nat), CandSeg E a cs m → m + E.skip m < E.len →
      c ∈ E.cands (m + E.skip m) → CandSeg E a (cs ++ [c]) c.endWord
  | [], a, m, h, h1, h2 => by
    simp only [CandSeg] at h; subst h
    exact ⟨h1, h2, rfl⟩
  | x :: xs, a, m, h, h1, h2 => by
    obtain ⟨hx1, hx2, hx3⟩ := h
    exact ⟨hx1, hx2, candSeg_snoc E c xs _ m hx3 h1 h2⟩

theorem lastR_snoc (c : Cand) : ∀ (cs : List Cand) (r : Nat), lastR r (cs ++ [c]) = c.rightId
  | [], _ => rfl
  | x :: xs, _ => by simp only [List.cons_append, lastR]; exact lastR_snoc c xs _

theorem segCostFrom_snoc (conn : Nat → Nat → Int) (c : Cand) : ∀ (cs : List Cand) (r : Nat),
    segCostFrom conn r (cs ++ [c]) =
      segCostFrom conn r cs - conn (lastR r cs) 0 + conn (lastR r cs) c.leftId + c.wordCost +
        conn c.rightId 0
  | [], r => by simp only [List.nil_append, segCostFrom, lastR]; omega
  | x :: xs, r => by
    simp only [List.cons_append, segCostFrom, lastR]
    rw [segCostFrom_snoc conn c xs]
    omega

theorem segBounds_snoc (a : Nat) (cs : List Cand) (c : Cand) :
    segBounds a (cs ++ [c]) = segBounds a cs ++ [c.endWord] := by
  simp [segBounds]

/-- under `EnvOK` a chain moves to the right and stays inside the sentence -/
theorem candSeg_le {E C W} (hE : EnvOK E C W) : ∀ (cs : List Cand) (a b : Nat), CandSeg E a cs b →
    a ≤ b ∧ (cs ≠ [] → a < b ∧ b ≤ E.len)
  | [], a, b, h => by simp only [CandSeg] at h; subst h; exact ⟨Nat.le_refl _, fun h => absurd rfl h⟩
  | c :: cs, a, b, h => by
    obtain ⟨h1, h2, h3⟩ := h
    obtain ⟨i1, i2⟩ := candSeg_le hE cs _ b h3
    have hr := hE.cands_range _ h1 c h2
    refine ⟨by omega, fun _ => ⟨by omega, ?_⟩⟩
    cases cs with
    | nil => simp only [CandSeg] at h3; omega
    | cons d ds => exact (i2 (by simp)).2

/-! ## Loop heads are linearly ordered -/

theorem VisitedFrom.le {E : LatEnv} {L : Ends} {p q : Nat} (h : VisitedFrom E L p q) : p ≤ q := by
  induction h with
  | refl _ => exact Nat.le_refl _
  | empty _ _ _ ih => omega
  | step _ _ _ _ ih => omega

/-- the loop is deterministic: of two heads reached from `p`, the later is reached from the earlier -/
theorem VisitedFrom.det {E : LatEnv} {L : Ends} {p q e : Nat} (h1 : VisitedFrom E L p q) :
    VisitedFrom E L p e → q ≤ e → VisitedFrom E L q e := by
  induction h1 with
  | refl _ => intro h _; exact h
  | @empty p q hlt hemp hv ih =>
    intro h2 hqe
    have hpq := hv.le
    cases h2 with
    | refl _ => omega
    | empty _ _ h2' => exact ih h2' hqe
    | step _ hne _ _ => exact absurd hemp hne
  | @step p q hlt hne hsw hv ih =>
    intro h2 hqe
    have hpq := hv.le
    cases h2 with
    | refl _ => omega
    | empty _ hemp _ => exact absurd hemp hne
    | step _ _ _ h2' => exact ih h2' hqe

/-- a loop head that has a node jumps over `(q, q + skip q]` -/
theorem VisitedFrom.jump {E : LatEnv} {L : Ends} {q e : Nat} (h : VisitedFrom E L q e) (hqe : q < e)
    (hne : endsAt L q ≠ []) : q + E.skip q < e ∧ q + E.skip q < E.len := by
  cases h with
  | refl _ => omega
  | empty _ hemp _ => exact absurd hemp hne
  | step _ _ hsw hv => have := hv.le; omega

/-- `e` is a loop head iff no earlier loop head with a node jumps over it (or stops before it) -/
theorem visited_iff (E : LatEnv) (L : Ends) (e : Nat) (he : e ≤ E.len) :
    Visited E L e ↔ ∀ q, q < e → Visited E L q → endsAt L q ≠ [] → q + E.skip q < e := by
  constructor
  · intro hv q hq hvq hne
    exact ((VisitedFrom.det hvq hv (Nat.le_of_lt hq)).jump hq hne).1
  · intro hall
    -- walk from any head `p ≤ e` to `e`
    have key : ∀ n p, e - p = n → p ≤ e → Visited E L p → Visited E L e := by
      intro n
      induction n using Nat.strongRecOn with
      | _ n ih =>
        intro p hn hpe hvp
        rcases Nat.eq_or_lt_of_le hpe with rfl | hlt
        · exact hvp
        · by_cases hemp : endsAt L p = []
          · exact ih (e - (p + 1)) (by omega) (p + 1) rfl (by omega)
              (hvp.trans (.empty (by omega) hemp (.refl _)))
          · have hj := hall p hlt hvp hemp
            exact ih (e - (p + E.skip p + 1)) (by omega) (p + E.skip p + 1) rfl (by omega)
              (hvp.trans (.step (by omega) hemp (by omega) (.refl _)))
    exact key (e - 0) 0 rfl (Nat.zero_le _) (.refl 0)

/-- a loop head at which the loop stops -/
def StopAt (E : LatEnv) (L : Ends) (p : Nat) : Prop :=
  p = E.len ∨ (endsAt L p ≠ [] ∧ E.len ≤ p + E.skip p)

theorem VisitedFrom.of_stop {E : LatEnv} {L : Ends} {p q : Nat} (h : VisitedFrom E L p q)
    (hs : StopAt E L p) : q = p := by
  cases h with
  | refl _ => rfl
  | empty hlt hemp _ =>
    rcases hs with hs | hs
    · omega
    · exact absurd hemp hs.1
  | step hlt _ hsw _ =>
    rcases hs with hs | hs <;> omega

/-- there is only one loop head at which the loop stops -/
theorem stop_unique {E : LatEnv} {L : Ends} {p q : Nat} (hp : Visited E L p) (hq : Visited E L q)
    (sp : StopAt E L p) (sq : StopAt E L q) : p = q := by
  rcases Nat.le_total p q with h | h
  · exact ((VisitedFrom.det hp hq h).of_stop sp).symm
  · exact (VisitedFrom.det hq hp h).of_stop sq

/-- the boundary handed to `insert_eos` is a loop head -/
theorem buildLoop_final_visited {E C W} (hE : EnvOK E C W) (L : Ends) (p : Nat)
    (h : LInv E C W L p) (hp : p ≤ E.len) :
    VisitedFrom E (buildLoop E L p).1 p (buildLoop E L p).2 ∧
      ((buildLoop E L p).2 = E.len ∨
        (endsAt (buildLoop E L p).1 (buildLoop E L p).2 ≠ [] ∧
          E.len ≤ (buildLoop E L p).2 + E.skip (buildLoop E L p).2)) := by
  fun_induction buildLoop E L p with
  | case1 L p hlt hemp ih =>
    have hpe : endsAt (buildLoop E L (p + 1)).1 p = [] := by
      rw [buildLoop_stable hE L (p + 1) p (Nat.le_succ p)]; simpa using hemp
    obtain ⟨i1, i2⟩ := ih (h.mono (Nat.le_succ p)) (by omega)
    exact ⟨.empty hlt hpe i1, i2⟩
  | case2 L p hlt hemp sw hbreak =>
    exact ⟨.refl _, Or.inr ⟨by simpa using hemp, hbreak⟩⟩
  | case3 L p hlt hemp sw hcont ih =>
    have hpe : endsAt L p ≠ [] := by simpa using hemp
    have hswl : sw < E.len := by omega
    have hadd := addEdges_inv hE p sw rfl hswl (h.mono (Nat.le_succ p)) hpe
    have hpe' : endsAt (buildLoop E (addEdges E L p sw) (sw + 1)).1 p ≠ [] := by
      rw [buildLoop_stable hE _ (sw + 1) p (by omega), hadd.2.1 p (by omega)]; exact hpe
    obtain ⟨i1, i2⟩ := ih (hadd.1.mono (by omega)) (by omega)
    exact ⟨.step hlt hpe' hswl i1, i2⟩
  | case4 L p hge => exact ⟨.refl _, Or.inl (by omega)⟩

/-! ## Live boundaries, declaratively -/

/-- `LiveD E e`: boundary `e` is one at which `build_lattice_inner` runs `add_lattice_edges` or
stops — it *has a node* and it *is a loop head* — described without the lattice, by recursion on
the boundary:
* `e` has a node: `e = 0` (BOS), or some candidate offered at the start word `a + skip a`
  (inside the sentence) of an earlier live boundary `a` ends at `e`;
* `e` is a loop head: no earlier live boundary `q` jumps over it, i.e. `e` does not lie in
  `(q, q + skip q]` for a live `q < e`.  (A word ending strictly inside, or at the end of, the
  run skipped at a live boundary is stored but never used as a predecessor: a dead end.) -/
def LiveD (E : LatEnv) (e : Nat) : Prop :=
  (e = 0 ∨ ∃ a, ∃ _ : a < e, LiveD E a ∧ a + E.skip a < E.len ∧
      ∃ c ∈ E.cands (a + E.skip a), c.endWord = e) ∧
  ∀ q, (_ : q < e) → LiveD E q → q + E.skip q < e
termination_by e

theorem liveD_iff (E : LatEnv) (e : Nat) :
    LiveD E e ↔
      (e = 0 ∨ ∃ a, a < e ∧ LiveD E a ∧ a + E.skip a < E.len ∧
        ∃ c ∈ E.cands (a + E.skip a), c.endWord = e) ∧
      ∀ q, q < e → LiveD E q → q + E.skip q < e := by
  rw [LiveD]
  simp only [exists_prop]

theorem liveD_zero (E : LatEnv) : LiveD E 0 := by
  rw [liveD_iff]
  exact ⟨Or.inl rfl, fun q hq => absurd hq (Nat.not_lt_zero q)⟩

theorem liveD_le {E C W} (hE : EnvOK E C W) {e : Nat} (h : LiveD E e) : e ≤ E.len := by
  rw [liveD_iff] at h
  rcases h.1 with rfl | ⟨a, _, _, hsw, c, hc, rfl⟩
  · exact Nat.zero_le _
  · exact (hE.cands_range _ hsw c hc).2

/-- a live boundary is not jumped over by an earlier live boundary -/
theorem LiveD.not_jumped {E : LatEnv} {e q : Nat} (h : LiveD E e) (hq : q < e) (hl : LiveD E q) :
    q + E.skip q < e := by
  rw [liveD_iff] at h
  exact h.2 q hq hl

/-- the invariant of the final lattice -/
theorem buildLattice_inv {E C W} (hE : EnvOK E C W) (b : Nat) :
    LInv E C W (buildLattice E b).ends ((buildLattice E b).eos.startNode + 1) :=
  (buildLoop_inv hE (resetEnds b E.len) 0 (reset_inv E C W b) (Nat.zero_le _)).1

/-- **`LiveD` is what the code does**: on the lattice built by `build_lattice`, the live
boundaries are exactly the loop heads that have a node. -/
theorem liveD_iff_lattice {E C W} (hE : EnvOK E C W) (b : Nat) :
    ∀ e, e ≤ E.len →
      (LiveD E e ↔ Visited E (buildLattice E b).ends e ∧ endsAt (buildLattice E b).ends e ≠ []) := by
  have hinv := buildLattice_inv hE b
  intro e
  induction e using Nat.strongRecOn with
  | _ e ih =>
    intro he
    constructor
    · intro h
      rw [liveD_iff] at h
      obtain ⟨h1, h2⟩ := h
      constructor
      · rw [visited_iff E _ e he]
        intro q hq hvq hne
        exact h2 q hq ((ih q hq (by omega)).mpr ⟨hvq, hne⟩)
      · rcases h1 with rfl | ⟨a, ha, hla, hsw, c, hc, hce⟩
        · rw [hinv.bos]; simp
        · obtain ⟨hva, hna⟩ := (ih a ha (by omega)).mp hla
          obtain ⟨n, hn, _⟩ := candidate_is_stored E C W hE b a hva (by omega) hna hsw c hc
          rw [hce] at hn
          exact List.ne_nil_of_mem hn
    · rintro ⟨hv, hne⟩
      rw [liveD_iff]
      constructor
      · rcases Nat.eq_zero_or_pos e with h0 | hpos
        · exact Or.inl h0
        · right
          obtain ⟨n, hn⟩ := List.exists_mem_of_ne_nil _ hne
          obtain ⟨⟨hvis, _, hne', hsw⟩, hsweq, hcand⟩ :=
            (candidates_all_inserted E C W hE b).2 e n hpos hn
          obtain ⟨hok, _⟩ := hinv.nodes e hpos n hn
          have hlt : n.startNode < e := by have := hok.sn_le_sw; have := hok.sw_lt; omega
          exact ⟨n.startNode, hlt, (ih _ hlt (by omega)).mpr ⟨hvis, hne'⟩, hsw, nodeCand e n,
            by rw [← hsweq]; exact hcand, rfl⟩
      · intro q hq hlq
        obtain ⟨hvq, hnq⟩ := (ih q hq (by omega)).mp hlq
        exact (visited_iff E _ e he).mp hv q hq hvq hnq

/-- The boundary handed to `insert_eos` is a loop head at which the loop stops; with `Covered`
it has a node, hence is live. -/
theorem eos_boundary {E C W} (hE : EnvOK E C W) (hcov : Covered E) (b : Nat) :
    let Lt := buildLattice E b
    Lt.eos.startNode ≤ E.len ∧ Visited E Lt.ends Lt.eos.startNode ∧
      endsAt Lt.ends Lt.eos.startNode ≠ [] ∧ FinalB E Lt.eos.startNode ∧ LiveD E Lt.eos.startNode := by
  intro Lt
  have h0 := reset_inv E C W b
  obtain ⟨_, hsn, hend⟩ := buildLoop_inv hE (resetEnds b E.len) 0 h0 (Nat.zero_le _)
  have hreach := buildLoop_reach hE hcov (resetEnds b E.len) 0 h0 (Nat.zero_le _)
    ⟨0, Nat.le_refl _, by rw [endsAt_resetEnds_zero]; simp⟩
  obtain ⟨hv, _⟩ := buildLoop_final_visited hE (resetEnds b E.len) 0 h0 (Nat.zero_le _)
  have h1 : Lt.eos.startNode ≤ E.len := hsn
  have h2 : Visited E Lt.ends Lt.eos.startNode := hv
  have h3 : endsAt Lt.ends Lt.eos.startNode ≠ [] := hreach
  exact ⟨h1, h2, h3, hend, (liveD_iff_lattice hE b _ h1).mpr ⟨h2, h3⟩⟩

/-- **The final boundary is unique**: a live boundary at which a segmentation may stop is the
boundary handed to `insert_eos`. -/
theorem final_live_unique {E C W} (hE : EnvOK E C W) (hcov : Covered E) (b : Nat) (sn : Nat)
    (hl : LiveD E sn) (hf : FinalB E sn) : sn = (buildLattice E b).eos.startNode := by
  obtain ⟨h1, h2, h3, h4, _⟩ := eos_boundary hE hcov b
  have hle := liveD_le hE hl
  obtain ⟨hv, hne⟩ := (liveD_iff_lattice hE b sn hle).mp hl
  refine stop_unique hv h2 ?_ ?_
  · rcases hf with h | h
    · exact Or.inl h
    · exact Or.inr ⟨hne, h⟩
  · rcases h4 with h | h
    · exact Or.inl h
    · exact Or.inr ⟨h3, h⟩

/-! ## Live candidate segmentations are the paths through the lattice -/

theorem candSeg_end_mem (E : LatEnv) : ∀ (cs : List Cand) (a b : Nat), CandSeg E a cs b →
    b ∈ segBounds a cs
  | [], a, b, h => by simp only [CandSeg] at h; subst h; simp [segBounds]
  | c :: cs, a, b, h => by
    have := candSeg_end_mem E cs c.endWord b h.2.2
    simp only [segBounds, List.map_cons, List.mem_cons] at this ⊢
    exact Or.inr this

/-- from a candidate segmentation with live boundaries to a path through the stored lattice,
with the same cost -/
theorem path_of_liveSeg {E C W} (hE : EnvOK E C W) (b : Nat) :
    ∀ (cs : List Cand) (a sn : Nat) (π₀ : List (Nat × Node)),
      RPath (buildLattice E b).ends π₀ a → CandSeg E a cs sn →
      (∀ x ∈ segBounds a cs, LiveD E x) →
      ∃ π, RPath (buildLattice E b).ends π sn ∧
        totalCost E.conn π = rcost E.conn π₀ + segCostFrom E.conn (lastRight π₀) cs
  | [], a, sn, π₀, hp, hs, _ => by
    simp only [CandSeg] at hs; subst hs
    exact ⟨π₀, hp, rfl⟩
  | c :: cs, a, sn, π₀, hp, hs, hl => by
    obtain ⟨hsw, hc, hrest⟩ := hs
    have hla : LiveD E a := hl a (by simp [segBounds])
    have hale := liveD_le hE hla
    obtain ⟨hva, hna⟩ := (liveD_iff_lattice hE b a hale).mp hla
    obtain ⟨n, hn, hsn, _, _, _, hL, hR, hW⟩ :=
      candidate_is_stored E C W hE b a hva (by omega) hna hsw c hc
    have hpos : 0 < c.endWord := by have := (hE.cands_range _ hsw c hc).1; omega
    have hp1 : RPath (buildLattice E b).ends ((c.endWord, n) :: π₀) c.endWord :=
      ⟨rfl, hpos, hn, by rw [hsn]; exact hp⟩
    obtain ⟨π, hπ, hcost⟩ := path_of_liveSeg hE b cs c.endWord sn _ hp1 hrest
      (fun x hx => hl x (by simp only [segBounds, List.map_cons, List.mem_cons] at hx ⊢; exact Or.inr hx))
    refine ⟨π, hπ, ?_⟩
    rw [hcost]
    simp only [rcost, lastRight, segCostFrom, hL, hR, hW]
    omega

/-- the candidates of a reversed path, in sentence order -/
def pathCands (π : List (Nat × Node)) : List Cand := (π.map fun x => nodeCand x.1 x.2).reverse

theorem pathCands_cons (e : Nat) (n : Node) (rest : List (Nat × Node)) :
    pathCands ((e, n) :: rest) = pathCands rest ++ [nodeCand e n] := by
  simp [pathCands]

theorem pathCands_cost (conn : Nat → Nat → Int) : ∀ π : List (Nat × Node),
    segCostFrom conn 0 (pathCands π) = totalCost conn π ∧ lastR 0 (pathCands π) = lastRight π
  | [] => by simp [pathCands, segCostFrom, totalCost, rcost, lastRight, lastR]
  | (e, n) :: rest => by
    obtain ⟨h1, h2⟩ := pathCands_cost conn rest
    rw [pathCands_cons, segCostFrom_snoc, lastR_snoc, h1, h2]
    constructor
    · simp only [totalCost, rcost, lastRight, nodeCand]; omega
    · rfl

/-- from a path through the stored lattice to a candidate segmentation; all its boundaries are
live as soon as the last one is -/
theorem liveSeg_of_path {E C W} (hE : EnvOK E C W) (b : Nat) :
    ∀ (π : List (Nat × Node)) (e : Nat), RPath (buildLattice E b).ends π e →
      CandSeg E 0 (pathCands π) e ∧ (LiveD E e → ∀ x ∈ segBounds 0 (pathCands π), LiveD E x)
  | [], e, hp => by
    simp only [RPath] at hp; subst hp
    refine ⟨rfl, fun _ x hx => ?_⟩
    simp only [pathCands, segBounds, List.map_nil, List.reverse_nil, List.mem_singleton] at hx
    subst hx; exact liveD_zero E
  | (e1, n) :: rest, e, hp => by
    simp only [RPath] at hp
    obtain ⟨rfl, hpos, hn, hrest⟩ := hp
    obtain ⟨⟨hvis, hlt, hne, hsw⟩, hsweq, hcand⟩ := (candidates_all_inserted E C W hE b).2 e1 n hpos hn
    obtain ⟨ih1, ih2⟩ := liveSeg_of_path hE b rest n.startNode hrest
    have hls : LiveD E n.startNode := (liveD_iff_lattice hE b _ (by omega)).mpr ⟨hvis, hne⟩
    rw [pathCands_cons]
    constructor
    · exact candSeg_snoc E (nodeCand e1 n) _ 0 n.startNode ih1 hsw (by rw [← hsweq]; exact hcand)
    · intro hle x hx
      rw [segBounds_snoc, List.mem_append, List.mem_singleton] at hx
      rcases hx with hx | rfl
      · exact ih2 hls x hx
      · exact hle

/-! ## When is every candidate segmentation live? -/

/-- No candidate offered at a start word `a + skip a` ends inside, or at the end of, a run skipped
from a boundary strictly inside the candidate.  Trivially true without `ignore_space`
(`skip = 0`); with `ignore_space` it says that no word ends in or just after SPACE characters
that it contains, which holds when SPACE characters occur in no lexicon surface and share no
category with other characters (`SpacePre` of C12). -/
def NoEndInSkip (E : LatEnv) : Prop :=
  ∀ a, a + E.skip a < E.len → ∀ c ∈ E.cands (a + E.skip a),
    ∀ q, a + E.skip a < q → q < c.endWord → q + E.skip q < c.endWord

theorem noEndInSkip_of_no_skip (E : LatEnv) (hs : ∀ p, E.skip p = 0) : NoEndInSkip E := by
  intro a _ c _ q _ hq
  rw [hs q]; exact hq

/-- under `NoEndInSkip`, a word offered at a live boundary ends at a live boundary -/
theorem liveD_step {E C W} (hE : EnvOK E C W) (hns : NoEndInSkip E) {a : Nat} {c : Cand}
    (ha : LiveD E a) (hsw : a + E.skip a < E.len) (hc : c ∈ E.cands (a + E.skip a)) :
    LiveD E c.endWord := by
  have hr := (hE.cands_range _ hsw c hc).1
  rw [liveD_iff]
  refine ⟨Or.inr ⟨a, by omega, ha, hsw, c, hc, rfl⟩, ?_⟩
  intro q hq hlq
  rcases Nat.lt_trichotomy q a with h | rfl | h
  · have := ha.not_jumped h hlq; omega
  · exact hr
  · have := hlq.not_jumped h ha
    exact hns a hsw c hc q this hq

theorem candSeg_allLive {E C W} (hE : EnvOK E C W) (hns : NoEndInSkip E) :
    ∀ (cs : List Cand) (a b : Nat), LiveD E a → CandSeg E a cs b → ∀ x ∈ segBounds a cs, LiveD E x
  | [], a, b, ha, _, x, hx => by
    simp only [segBounds, List.map_nil, List.mem_singleton] at hx; subst hx; exact ha
  | c :: cs, a, b, ha, hs, x, hx => by
    obtain ⟨hsw, hc, hrest⟩ := hs
    simp only [segBounds, List.map_cons, List.mem_cons] at hx
    rcases hx with rfl | hx
    · exact ha
    · exact candSeg_allLive hE hns cs c.endWord b (liveD_step hE hns ha hsw hc) hrest x
        (by simp only [segBounds, List.mem_cons]; exact hx)

/-- Under C12's precondition `SpacePre` (SPACE characters share no category with other
characters and occur in no lexicon surface), with `ignore_space` on, no candidate ends inside or
at the end of a skipped run: every candidate offered at a start word `a + skip a` consists of
non-space characters only, and nothing is skipped at a non-space character. -/
theorem noEndInSkip_of_spacePre {D : TokDict} {sp : Nat} (h : SpacePre D sp) (mg : Option Nat)
    (s : List Nat) : NoEndInSkip (latEnvOf D (compileSent D s) ⟨some sp, mg⟩) := by
  intro a hsw c hc q hq1 hq2
  have hsw' : a + (envOf D sp mg s).skip a < s.length := hsw
  have ha : a ≤ s.length := by omega
  rcases spTail_cases (isSpC D sp) (s.drop a) with ⟨h0, _⟩ | ⟨seg, rest, hdec, hne, hseg, hrest, _⟩
  · exfalso
    have := (env_done_iff h mg s a ha).mpr h0
    unfold doneAt at this
    have hlen : (envOf D sp mg s).len = s.length := rfl
    omega
  · obtain ⟨k, hk1, hk2, hke, _⟩ := env_cand_end h mg s a ha seg rest hdec hne hseg hrest c hc
    obtain ⟨hdrop, hl, _⟩ := env_local h mg s a ha seg rest hdec hne hseg hrest
    show q + (envOf D sp mg s).skip q < c.endWord
    rw [env_skip h mg s q]
    generalize (envOf D sp mg s).skip a = r at *
    have hj : q - (a + r) < seg.length := by omega
    have hget := getElem?_of_drop s (a + r) seg rest hdrop (q - (a + r)) hj
    have e : a + r + (q - (a + r)) = q := by omega
    rw [e] at hget
    have hqlt : q < s.length := by omega
    have hns : isSpC D sp s[q] = false := by
      rw [List.getElem?_eq_getElem hqlt, Option.some.injEq] at hget
      rw [hget]
      exact hseg _ (List.getElem_mem _)
    have : spHead (isSpC D sp) (s.drop q) = [] := by
      rw [List.drop_eq_getElem_cons hqlt]
      simp only [spHead, List.takeWhile_cons, hns]
      rfl
    rw [this]
    simpa using hq2

/-! ## Tokens as candidates; the dictionary-level notion -/

/-- the candidate a reported token stands for -/
def tokCand (t : Tok) : Cand := nodeCand t.endWord t.node

theorem map_tokCand_toToks (π : List (Nat × Node)) : (toToks π).reverse.map tokCand = pathCands π := by
  simp [toToks, pathCands, tokCand, List.map_reverse, Function.comp_def]

/-- `CandSeg` for the environment of a dictionary, options and sentence, written out with
`candsAt` (`Tokenizer::add_lattice_edges`) and `skipAt` (the `ignore_space` skip). -/
def DictSeg (D : TokDict) (o : TokOpts) (chars : List Nat) : Nat → List Cand → Nat → Prop
  | a, [], b => a = b
  | a, c :: cs, b =>
    a + skipAt (compileSent D chars) o a < chars.length ∧
      c ∈ candsAt D (compileSent D chars) o (a + skipAt (compileSent D chars) o a) ∧
      DictSeg D o chars c.endWord cs b

theorem dictSeg_iff (D : TokDict) (o : TokOpts) (chars : List Nat) : ∀ (cs : List Cand) (a b : Nat),
    DictSeg D o chars a cs b ↔ CandSeg (latEnvOf D (compileSent D chars) o) a cs b
  | [], _, _ => Iff.rfl
  | c :: cs, a, b => by
    simp only [DictSeg, CandSeg]
    rw [dictSeg_iff D o chars cs]
    exact Iff.rfl

instance decCandSeg (E : LatEnv) : ∀ (a : Nat) (cs : List Cand) (b : Nat), Decidable (CandSeg E a cs b)
  | a, [], b => inferInstanceAs (Decidable (a = b))
  | _, c :: cs, b =>
    have := decCandSeg E c.endWord cs b
    inferInstanceAs (Decidable (_ ∧ _ ∧ _))

instance decDictSeg (D : TokDict) (o : TokOpts) (chars : List Nat) :
    ∀ (a : Nat) (cs : List Cand) (b : Nat), Decidable (DictSeg D o chars a cs b)
  | a, [], b => inferInstanceAs (Decidable (a = b))
  | _, c :: cs, b =>
    have := decDictSeg D o chars c.endWord cs b
    inferInstanceAs (Decidable (_ ∧ _ ∧ _))

end Vibrato
