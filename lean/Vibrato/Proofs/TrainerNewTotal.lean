/-
Totality of `labelFeatureSets` (`Vibrato/Model/TrainerNew.lean`) on the repaired tree: helper
lemmas for `Props/C18new.lean::labels_total`.

1. `Lexicon::parse_csv` only returns rows with a non-empty, valid UTF-8 surface and a valid UTF-8
   feature string (`parseCsv_text`).
2. `extract_feature_ids` cannot panic while the `next_id` counter is positive and at least one
   template count below `u32::MAX` (`extractIds_total`).
3. The `rewrite.def` loop cannot panic when no rule line contains an unregistrable `$n`
   (`rewriteLines_total`).
4. `Trainer::new` (`trainerNew_ne_panic`).
-/
import Vibrato.Proofs.TrainerNew
import Vibrato.Proofs.CsvRowTotal
import Vibrato.Proofs.BuildersCsv

namespace Vibrato.LexCsv.TN
open Vibrato.Csv Vibrato.LexCsv

/-! ## 1. Text invariants of `parse_csv` -/

/-- Surface non-empty and valid UTF-8, feature valid UTF-8. -/
def EntryText (e : RawEntry) : Prop :=
  e.surface ≠ [] ∧ validUtf8 e.surface = true ∧ validUtf8 e.feature = true

structure PText (st : PState) : Prop where
  surf : validUtf8 st.surface = true
  es : ∀ e ∈ st.entries, EntryText e

theorem PText.init (bytes : List UInt8) : PText (PState.init bytes) :=
  ⟨by simp [PState.init, validUtf8, utf8Run], by simp [PState.init]⟩

theorem fieldUpdate_text {st st1 : PState} {nin : Nat} {out : List UInt8}
    (h : fieldUpdate st nin out = some st1) (hr : PText st) : PText st1 := by
  obtain ⟨h1, h2⟩ := hr
  unfold fieldUpdate at h
  split at h
  · split at h
    · rename_i hv
      cases h; exact ⟨hv, h2⟩
    · cases h
  · split at h
    · split at h
      · simp only [Option.map_eq_some_iff] at h
        obtain ⟨v, _, rfl⟩ := h
        exact ⟨h1, h2⟩
      · cases h
    · split at h
      · split at h
        · simp only [Option.map_eq_some_iff] at h
          obtain ⟨v, _, rfl⟩ := h
          exact ⟨h1, h2⟩
        · cases h
      · split at h
        · split at h
          · simp only [Option.map_eq_some_iff] at h
            obtain ⟨v, _, rfl⟩ := h
            exact ⟨h1, h2⟩
          · cases h
        · cases h
          exact ⟨h1, h2⟩

theorem recordTail_text {st : PState} {nin : Nat} {re : Bool} (hr : PText st) :
    ∀ st', recordTail st nin re = .next st' → PText st' := by
  obtain ⟨h1, h2⟩ := hr
  intro st' h
  have hnil : validUtf8 ([] : List UInt8) = true := by simp [validUtf8, utf8Run]
  unfold recordTail at h
  dsimp only at h
  split at h
  · split at h
    · cases h; exact ⟨h1, h2⟩
    · split at h
      · split at h <;> cases h
      · split at h
        · cases h
        · split at h
          · cases h
          · split at h
            · cases h
            · rename_i hvalid
              split at h
              · split at h
                · cases h
                · split at h
                  · cases h
                  · cases h
                    exact ⟨hnil, h2⟩
              · rename_i hne
                cases h
                refine ⟨hnil, ?_⟩
                intro e he
                simp only [List.mem_append, List.mem_singleton] at he
                rcases he with he | rfl
                · exact h2 e he
                · refine ⟨?_, h1, ?_⟩
                  · simpa using hne
                  · simpa using hvalid
  · cases h
    exact ⟨h1, h2⟩

theorem step_text {fixed : Bool} {st : PState} (hr : PText st) :
    (∀ st', step fixed st = .next st' → PText st') ∧
      ∀ es, step fixed st = .done (.ok es) → ∀ e ∈ es, EntryText e := by
  unfold step
  generalize readField st.rdr st.bytes outCap = rf
  obtain ⟨result, nin, out, rdr'⟩ := rf
  have hr0 : PText { st with rdr := rdr' } := ⟨hr.surf, hr.es⟩
  cases result with
  | inputEmpty =>
    simp only
    split
    · refine ⟨by simp, ?_⟩
      intro es hes
      cases hes
      exact hr.es
    · refine ⟨recordTail_text ⟨hr.surf, hr.es⟩, fun es h => absurd h (C10.recordTail_not_ok es)⟩
  | outputFull => simp
  | end_ =>
    simp only
    refine ⟨by simp, ?_⟩
    intro es hes
    cases hes
    exact hr.es
  | field re =>
    simp only
    split
    · simp
    · rename_i st1 hst1
      have h1 := fieldUpdate_text hst1 hr0
      refine ⟨recordTail_text ?_, fun es h => absurd h (C10.recordTail_not_ok es)⟩
      split <;> exact ⟨h1.surf, h1.es⟩

theorem parseLoop_text (fixed : Bool) (fuel : Nat) (st : PState) (h : PText st)
    (es : List RawEntry) (hes : parseLoop fixed fuel st = some (.ok es)) : ∀ e ∈ es, EntryText e := by
  induction fuel generalizing st with
  | zero => simp [parseLoop] at hes
  | succ n ih =>
    simp only [parseLoop] at hes
    obtain ⟨h1, h2⟩ := step_text (fixed := fixed) h
    split at hes
    · rename_i st' hs
      exact ih st' (h1 st' hs) hes
    · rename_i r hs
      cases hes
      exact h2 es hs

/-- Every row `parse_csv` returns has a non-empty `&str` surface and a `&str` feature. -/
theorem parseCsv_text {fixed : Bool} {bytes : List UInt8} {es : List RawEntry}
    (h : parseCsv fixed bytes = .ok es) : ∀ e ∈ es, EntryText e := by
  unfold parseCsv at h
  split at h
  · rename_i r hr
    subst h
    exact parseLoop_text fixed _ _ (PText.init bytes) es hr
  · cases h

end Vibrato.LexCsv.TN

namespace Vibrato.TrainerNew

open Vibrato (Outcome Fixes DictM LexEntry UnkEntryM CharProp)
open Vibrato.Extractor
open Vibrato.Rewriter (RawRule RewriteConfig GoodRules BadRef firstMatch)

/-! ## 2. `extract_feature_ids` -/

theorem intern_total (m : IdMap) (next : Nat) (s : Str) (h0 : 0 < next) (h1 : next < u32Max) :
    ∃ id m' n', intern m next s = .ok (id, m', n') ∧ next ≤ n' ∧ n' ≤ next + 1 := by
  unfold intern
  rw [if_neg (by omega)]
  cases lookup m s with
  | some id =>
    simp only
    by_cases h : next = id
    · rw [if_pos h, if_neg (by omega)]
      exact ⟨_, _, _, rfl, by omega, by omega⟩
    · rw [if_neg h]
      exact ⟨_, _, _, rfl, by omega, by omega⟩
  | none =>
    simp only [if_true]
    rw [if_neg (by omega)]
    exact ⟨_, _, _, rfl, by omega, by omega⟩

theorem extractIds_total (feats : List Str) (cate : Nat) (pts : List ParsedTemplate) :
    ∀ (m : IdMap) (next : Nat), 0 < next → next + pts.length ≤ u32Max →
      (∀ pt ∈ pts, ∃ o, expand pt feats cate = .ok o) →
      ∃ res m' n', extractIds feats cate pts m next = .ok (res, m', n') ∧ next ≤ n' ∧
        n' ≤ next + pts.length := by
  induction pts with
  | nil => intro m next _ _ _; exact ⟨[], m, next, rfl, by omega, by omega⟩
  | cons pt pts ih =>
    intro m next h0 hb hex
    obtain ⟨o, ho⟩ := hex pt (by simp)
    have hex' : ∀ p ∈ pts, ∃ o, expand p feats cate = .ok o :=
      fun p hp => hex p (List.mem_cons_of_mem _ hp)
    simp only [List.length_cons] at hb
    simp only [extractIds, ho]
    cases o with
    | none =>
      obtain ⟨res, m', n', e, l1, l2⟩ := ih m next h0 (by omega) hex'
      simp only [e]
      exact ⟨_, _, _, rfl, l1, by simp only [List.length_cons]; omega⟩
    | some s =>
      obtain ⟨id, m1, n1, e1, a1, a2⟩ := intern_total m next s h0 (by omega)
      simp only [e1]
      obtain ⟨res, m', n', e, l1, l2⟩ := ih m1 n1 (by omega) (by omega) hex'
      simp only [e]
      exact ⟨_, _, _, rfl, by omega, by simp only [List.length_cons]; omega⟩

/-- The counters of the extractor after `k` rows. -/
structure Ctr (st : ExtractorState) (k : Nat) : Prop where
  u0 : 0 < st.uniNext
  l0 : 0 < st.leftNext
  r0 : 0 < st.rightNext
  u : st.uniNext ≤ 1 + k * st.uniT.length
  l : st.leftNext ≤ 1 + k * st.leftT.length
  r : st.rightNext ≤ 1 + k * st.rightT.length

/-- Enough room for `n` rows: no counter can reach `u32::MAX`. -/
structure Room (st : ExtractorState) (n : Nat) : Prop where
  u : 1 + n * st.uniT.length ≤ u32Max
  l : 1 + n * st.leftT.length ≤ u32Max
  r : 1 + n * st.rightT.length ≤ u32Max

theorem mul_succ_le {k n t : Nat} (h : k < n) : (k + 1) * t ≤ n * t :=
  Nat.mul_le_mul_right t h

/-- `Trainer::extract_feature_set` cannot panic once the cells and the three rewrites exist. -/
theorem extractFeatureSet_total (st : ExtractorState) (u l r : Rewriter.Trie) (f : Str)
    (cate k n : Nat) (feats fu fl fr : List Str) (htp : TemplatesParsed st) (hc : Ctr st k)
    (hroom : Room st n) (hk : k < n) (h0 : csvRow f = .ok feats)
    (h1 : ofRewriter (Rewriter.rewriteOrSame u feats) = .ok fu)
    (h2 : ofRewriter (Rewriter.rewriteOrSame l feats) = .ok fl)
    (h3 : ofRewriter (Rewriter.rewriteOrSame r feats) = .ok fr) :
    ∃ fs st', extractFeatureSet st u l r f cate = .ok (fs, st') ∧ Ctr st' (k + 1) ∧
      st'.uniT = st.uniT ∧ st'.leftT = st.leftT ∧ st'.rightT = st.rightT := by
  have bu := mul_succ_le (t := st.uniT.length) hk
  have bl := mul_succ_le (t := st.leftT.length) hk
  have br := mul_succ_le (t := st.rightT.length) hk
  have su : (k + 1) * st.uniT.length = k * st.uniT.length + st.uniT.length := Nat.succ_mul _ _
  have sl : (k + 1) * st.leftT.length = k * st.leftT.length + st.leftT.length := Nat.succ_mul _ _
  have sr : (k + 1) * st.rightT.length = k * st.rightT.length + st.rightT.length := Nat.succ_mul _ _
  obtain ⟨ru, mu, nu, eu, au1, au2⟩ := extractIds_total fu cate st.uniT st.uni st.uniNext hc.u0
    (by have := hc.u; have := hroom.u; omega)
    (fun pt hpt => expand_ok_of_parsed (htp.uni pt hpt) fu cate)
  obtain ⟨rl, ml, nl, el, al1, al2⟩ := extractIds_total fl 0 st.leftT st.left st.leftNext hc.l0
    (by have := hc.l; have := hroom.l; omega)
    (fun pt hpt => expand_ok_of_parsed (htp.left pt hpt) fl 0)
  obtain ⟨rr, mr, nr, er, ar1, ar2⟩ := extractIds_total fr 0 st.rightT st.right st.rightNext hc.r0
    (by have := hc.r; have := hroom.r; omega)
    (fun pt hpt => expand_ok_of_parsed (htp.right pt hpt) fr 0)
  refine ⟨⟨ru.filterMap id, rr, rl⟩,
    { st with uni := mu, uniNext := nu, left := ml, leftNext := nl, right := mr, rightNext := nr },
    ?_, ?_, rfl, rfl, rfl⟩
  · simp only [extractFeatureSet, h0, h1, h2, h3, extractUnigram, extractLeft, extractRight, eu, el, er]
  · have := hc.u0; have := hc.l0; have := hc.r0
    have := hc.u; have := hc.l; have := hc.r
    exact ⟨by simp only; omega, by simp only; omega, by simp only; omega,
      by simp only; omega, by simp only; omega, by simp only; omega⟩

/-! ## 3. Strings: bytes ↔ characters -/

/-- The only fact about UTF-8 that is not proved here: the byte-level automaton of
`Model/LexCsv.lean` (`validUtf8`, the table of `core::str::from_utf8`) accepts only byte strings
that Lean's own validator `String.fromUTF8?` accepts.  (Both implement the well-formedness table of
the Unicode standard; the differential runs never saw them disagree.) -/
def Utf8Agree : Prop :=
  ∀ bs : List UInt8, LexCsv.validUtf8 bs = true → (Text.decodeLine bs).isSome = true

theorem byteArray_toList_loop (bs : ByteArray) (i : Nat) (r : List UInt8) :
    ByteArray.toList.loop bs i r = r.reverse ++ bs.data.toList.drop i := by
  fun_induction ByteArray.toList.loop bs i r with
  | case1 i r hlt ih =>
    rw [ih]
    have hlt' : i < bs.data.toList.length := by
      rw [Array.length_toList, ByteArray.size_data]; exact hlt
    rw [List.drop_eq_getElem_cons hlt']
    have : bs.get! i = bs.data.toList[i] := by
      show bs.data[i]! = _
      rw [getElem!_pos bs.data i (by rw [ByteArray.size_data]; exact hlt)]
      simp
    rw [this]
    simp
  | case2 i r hge =>
    have : bs.data.toList.length ≤ i := by
      rw [Array.length_toList, ByteArray.size_data]; omega
    simp [List.drop_eq_nil_of_le this]

theorem byteArray_toList (bs : ByteArray) : bs.toList = bs.data.toList := by
  simp [ByteArray.toList, byteArray_toList_loop]

/-- A decoded line re-encodes to the bytes it was decoded from. -/
theorem decodeLine_bytes {bs : List UInt8} {s : String} (h : Text.decodeLine bs = some s) :
    s.toUTF8.toList = bs := by
  unfold Text.decodeLine String.fromUTF8? at h
  split at h
  · cases h
    show (String.fromUTF8 _ _).toByteArray.toList = bs
    rw [byteArray_toList]
    rfl
  · cases h

theorem decodeLine_nonempty {bs : List UInt8} {s : String} (h : Text.decodeLine bs = some s)
    (hne : bs ≠ []) : s.toList ≠ [] := by
  intro hs
  have h1 : s = "" := by
    have := String.ofList_toList (s := s)
    rw [hs] at this
    exact this.symm
  have h2 := decodeLine_bytes h
  subst h1
  apply hne
  rw [← h2, byteArray_toList]
  decide

theorem rowLoop_cells_valid (cap : Nat) (fuel : Nat) :
    ∀ (rdr : Csv.Reader) (bytes : List UInt8) (acc cells : List (List UInt8)),
      (∀ c ∈ acc, LexCsv.validUtf8 c = true) →
      LexCsv.rowLoop cap fuel rdr bytes acc = some (.ok cells) →
      ∀ c ∈ cells, LexCsv.validUtf8 c = true := by
  induction fuel with
  | zero => intro rdr bytes acc cells _ h; simp [LexCsv.rowLoop] at h
  | succ n ih =>
    intro rdr bytes acc cells hacc h
    simp only [LexCsv.rowLoop] at h
    generalize Csv.readField rdr bytes cap = rr at h
    obtain ⟨res, nin, out, rdr'⟩ := rr
    have happ : LexCsv.validUtf8 out = true → ∀ c ∈ acc ++ [out], LexCsv.validUtf8 c = true := by
      intro hv c hc
      simp only [List.mem_append, List.mem_singleton] at hc
      rcases hc with hc | rfl
      · exact hacc c hc
      · exact hv
    cases res with
    | outputFull => simp at h
    | inputEmpty =>
      simp only at h
      split at h
      · rename_i hv
        simp only [Option.some.injEq, LexCsv.Outcome.ok.injEq] at h
        subst h
        exact happ hv
      · simp at h
    | end_ =>
      simp only at h
      split at h
      · rename_i hv
        simp only [Option.some.injEq, LexCsv.Outcome.ok.injEq] at h
        subst h
        exact happ hv
      · simp at h
    | field re =>
      simp only at h
      split at h
      · rename_i hv
        exact ih rdr' _ _ cells (happ hv) h
      · simp at h

theorem mapM_decode (hutf : Utf8Agree) (cells : List (List UInt8))
    (h : ∀ c ∈ cells, LexCsv.validUtf8 c = true) :
    ∃ ss, cells.mapM (fun c => String.fromUTF8? (ByteArray.mk c.toArray)) = some ss := by
  induction cells with
  | nil => exact ⟨[], rfl⟩
  | cons c cs ih =>
    obtain ⟨ss, hss⟩ := ih (fun x hx => h x (List.mem_cons_of_mem _ hx))
    have hc := hutf c (h c (by simp))
    unfold Text.decodeLine at hc
    obtain ⟨s, hs⟩ := Option.isSome_iff_exists.mp hc
    exact ⟨s :: ss, by simp [List.mapM_cons, hs, hss]⟩

/-- `parse_csv_row` on a `&str` of the dictionary: neither `Err` nor panic. -/
theorem csvRow_total (hutf : Utf8Agree) (bs : List UInt8) (hv : LexCsv.validUtf8 bs = true)
    (s : String) (hs : Text.decodeLine bs = some s) : ∃ cells, csvRow s.toList = .ok cells := by
  unfold csvRow LexCsv.parseCsvRow
  rw [String.ofList_toList, decodeLine_bytes hs]
  have h1 := LexCsv.parseCsvRowBytes_fixed_ne_panic bs hv
  have h2 : LexCsv.parseCsvRowBytes true bs ≠ .err := by
    unfold LexCsv.parseCsvRowBytes
    cases hr : LexCsv.rowLoop (LexCsv.rowCap true bs) (LexCsv.parseFuel bs) Csv.Reader.new bs [] with
    | none => simp
    | some r =>
      intro h
      exact LexCsv.rowLoop_ne_err _ _ _ _ _ (by rw [hr]; simpa using congrArg some h)
  cases hp : LexCsv.parseCsvRowBytes true bs with
  | err => exact absurd hp h2
  | panic => exact absurd hp h1
  | ok cells =>
    have hvalid : ∀ c ∈ cells, LexCsv.validUtf8 c = true := by
      unfold LexCsv.parseCsvRowBytes at hp
      cases hr : LexCsv.rowLoop (LexCsv.rowCap true bs) (LexCsv.parseFuel bs) Csv.Reader.new bs [] with
      | none => simp [hr] at hp
      | some r =>
        simp only [hr] at hp
        subst hp
        exact rowLoop_cells_valid _ _ _ _ [] cells (by simp) hr
    obtain ⟨ss, hss⟩ := mapM_decode hutf cells hvalid
    simp only [hss]
    exact ⟨_, rfl⟩

/-! ## 4. `rewrite.def` -/

/-- No rule line contains a reference `add_rule` cannot register: `$0` (`0usize - 1`) or `$n` with
`n > usize::MAX` (`parse::<usize>().unwrap()`). -/
def GoodRewriteLines (ls : List (Option Str)) : Prop :=
  ∀ s, some s ∈ ls → ∀ r, Rewriter.parseRewriteRule (Rewriter.trim s) = some r →
    ∀ c ∈ r.2, ¬ BadRef c

theorem addRule_ok_of_good (rules : List RawRule) (nodes : Rewriter.Trie)
    (hb : Rewriter.build true rules = .ok nodes) (r : RawRule) (hr : ∀ c ∈ r.2, ¬ BadRef c) :
    ∃ t, Rewriter.addRule true nodes r.1 r.2 = .ok t := by
  have hg : GoodRules (rules ++ [r]) := by
    intro q hq c hc
    rcases List.mem_append.mp hq with hq | hq
    · exact goodRules_of_build true rules nodes hb q hq c hc
    · simp only [List.mem_singleton] at hq
      subst hq
      exact hr c hc
  have h := Rewriter.buildAndRewrite_true (rules ++ [r]) [] hg
  unfold Rewriter.buildAndRewrite at h
  rw [build_snoc true rules r nodes hb] at h
  cases ha : Rewriter.addRule true nodes r.1 r.2 with
  | ok t => exact ⟨t, rfl⟩
  | err => simp [ha] at h
  | panic => simp [ha] at h
  | hang => simp [ha] at h

theorem rewriteLines_total (ls : List (Option Str)) :
    ∀ (sec : Option Rewriter.Section) (rw : Rewriters) (c : RewriteConfig),
      BuiltFrom true rw c → GoodRewriteLines ls → rewriteLines true ls sec rw ≠ .panic := by
  induction ls with
  | nil => intro sec rw c _ _; simp [rewriteLines]
  | cons l ls ih =>
    intro sec rw c hb hg
    have hg' : GoodRewriteLines ls := fun s hs => hg s (List.mem_cons_of_mem _ hs)
    cases l with
    | none => simp [rewriteLines]
    | some line =>
      simp only [rewriteLines]
      split
      · exact ih sec rw c hb hg'
      · split
        · exact ih _ rw c hb hg'
        · split
          · exact ih _ rw c hb hg'
          · split
            · exact ih _ rw c hb hg'
            · cases sec with
              | none => simp
              | some s =>
                simp only
                cases hr : Rewriter.parseRewriteRule (Rewriter.trim line) with
                | none => simp
                | some r =>
                  simp only
                  have hgood := hg line (by simp) r hr
                  have hbs : Rewriter.build true (match s with
                      | .unigram => c.unigram | .left => c.left | .right => c.right) = .ok (rw.get s) := by
                    cases s
                    · exact hb.uni
                    · exact hb.left
                    · exact hb.right
                  obtain ⟨t, ht⟩ := addRule_ok_of_good _ _ hbs r hgood
                  rw [ht]
                  simp only [ofRewriter]
                  exact ih _ _ _ (builtFrom_push true rw c s r t hb ht) hg'

theorem parseRewriteDef_total (rdef : List UInt8) (hg : GoodRewriteLines (readLines rdef)) :
    parseRewriteDef true rdef ≠ .panic :=
  rewriteLines_total _ none {} {} (builtFrom_init true) hg

/-! ## 5. `Trainer::new` -/

/-- Same template lists. -/
def SameT (a b : ExtractorState) : Prop :=
  b.uniT = a.uniT ∧ b.leftT = a.leftT ∧ b.rightT = a.rightT

theorem SameT.parsed {a b : ExtractorState} (h : SameT a b) (ha : TemplatesParsed a) :
    TemplatesParsed b := ⟨h.1 ▸ ha.uni, h.2.1 ▸ ha.left, h.2.2 ▸ ha.right⟩

theorem SameT.room {a b : ExtractorState} (h : SameT a b) {n : Nat} (ha : Room a n) : Room b n :=
  ⟨h.1 ▸ ha.u, h.2.1 ▸ ha.l, h.2.2 ▸ ha.r⟩

theorem rowsLoop_total (hutf : Utf8Agree) (rw : Rewriters) (c : RewriteConfig)
    (hb : BuiltFrom true rw c) (rows : List LabelRow) :
    ∀ (acc : Acc) (k n : Nat), TemplatesParsed acc.2 → Ctr acc.2 k → Room acc.2 n →
      k + rows.length ≤ n → (∀ r ∈ rows, LexCsv.validUtf8 r.feature = true) →
      rowsLoop rw rows acc ≠ .panic ∧
      ∀ acc', rowsLoop rw rows acc = .ok acc' →
        SameT acc.2 acc'.2 ∧ Ctr acc'.2 (k + rows.length) := by
  induction rows with
  | nil =>
    intro acc k n _ hc _ _ _
    refine ⟨by simp [rowsLoop], ?_⟩
    intro acc' h
    simp only [rowsLoop, Outcome.ok.injEq] at h
    subst h
    exact ⟨⟨rfl, rfl, rfl⟩, by simpa using hc⟩
  | cons r rs ih =>
    intro acc k n htp hc hroom hk hv
    simp only [List.length_cons] at hk
    have hvr := hv r (by simp)
    obtain ⟨s, hs⟩ := Option.isSome_iff_exists.mp (hutf r.feature hvr)
    obtain ⟨feats, hfeats⟩ := csvRow_total hutf r.feature hvr s hs
    obtain ⟨fs, st', he, hc', t1, t2, t3⟩ := extractFeatureSet_total acc.2 rw.uni rw.left rw.right
      s.toList r.cate k n feats _ _ _ htp hc hroom (by omega) hfeats
      (rewriteOrSame_built c.unigram rw.uni hb.uni feats)
      (rewriteOrSame_built c.left rw.left hb.left feats)
      (rewriteOrSame_built c.right rw.right hb.right feats)
    have hsame : SameT acc.2 st' := ⟨t1, t2, t3⟩
    have hadd : addLabel rw acc r.feature r.cate =
        if acc.1.length + 1 > u32Max then .err else .ok (acc.1 ++ [fs], st') := by
      simp only [addLabel, strOfBytes, hs, Option.map_some, he]
    simp only [rowsLoop, hadd]
    by_cases hlen : acc.1.length + 1 > u32Max
    · rw [if_pos hlen]
      exact ⟨by simp, by simp⟩
    · rw [if_neg hlen]
      simp only
      obtain ⟨g1, g2⟩ := ih (acc.1 ++ [fs], st') (k + 1) n (hsame.parsed htp) hc' (hsame.room hroom)
        (by omega) (fun x hx => hv x (List.mem_cons_of_mem _ hx))
      refine ⟨g1, ?_⟩
      intro acc' h
      obtain ⟨s1, s2⟩ := g2 acc' h
      refine ⟨⟨s1.1.trans hsame.1, s1.2.1.trans hsame.2.1, s1.2.2.trans hsame.2.2⟩, ?_⟩
      have : k + 1 + rs.length = k + (rs.length + 1) := by omega
      rw [List.length_cons, ← this]
      exact s2

theorem lexLoop_eq_rows (P : CharProp) (rw : Rewriters) (es : List LexEntry) :
    ∀ (fs : List (List UInt8)) (acc : Acc), es.length ≤ fs.length → (∀ e ∈ es, e.surface ≠ []) →
      lexLoop P rw es fs acc = rowsLoop rw (lexLabelRows P es fs) acc := by
  induction es with
  | nil => intro fs acc _ _; cases fs <;> rfl
  | cons e es ih =>
    intro fs acc hlen hne
    cases fs with
    | nil => simp at hlen
    | cons f fs =>
      have he := hne e (by simp)
      cases hsurf : e.surface with
      | nil => exact absurd hsurf he
      | cons c t =>
        simp only [lexLoop, lexLabelRows, rowsLoop, hsurf, List.head?_cons, List.headD_cons]
        cases addLabel rw acc f (P.charInfo c).baseId with
        | ok acc' =>
          exact ih fs acc' (by simpa using hlen) (fun x hx => hne x (List.mem_cons_of_mem _ hx))
        | err => rfl
        | panic => rfl

/-- The counters of a freshly parsed configuration are 1. -/
theorem ctr_of_parse {fdef : List UInt8} {st : ExtractorState}
    (h : parseFeatureConfig fdef = .ok st) : Ctr st 0 := by
  unfold parseFeatureConfig at h
  split at h
  · cases h
  · rename_i u b _
    unfold ExtractorState.new at h
    repeat' split at h
    all_goals first | (cases h; done) | skip
    cases h
    exact ⟨Nat.one_pos, Nat.one_pos, Nat.one_pos, by simp, by simp, by simp⟩

/-- What `Trainer::new` needs from a configuration not to panic (all of it is established by
`fromReaders` on the repaired tree, see `Props/C18new.lean::labels_total`). -/
structure CfgOK (cfg : Config) (c : RewriteConfig) : Prop where
  built : BuiltFrom true cfg.rw c
  parsed : TemplatesParsed cfg.ext
  ctr : Ctr cfg.ext 0
  flen : cfg.dict.sys.features.length = cfg.dict.sys.entries.length
  surf : ∀ e ∈ cfg.dict.sys.entries, e.surface ≠ []
  lexv : ∀ f ∈ cfg.dict.sys.features, LexCsv.validUtf8 f = true
  unkv : ∀ e ∈ cfg.dict.unk, LexCsv.validUtf8 e.feature = true

theorem lexLabelRows_features (P : CharProp) (es : List LexEntry) :
    ∀ (fs : List (List UInt8)), ∀ r ∈ lexLabelRows P es fs, r.feature ∈ fs := by
  induction es with
  | nil => intro fs r hr; cases fs <;> simp [lexLabelRows] at hr
  | cons e es ih =>
    intro fs r hr
    cases fs with
    | nil => simp [lexLabelRows] at hr
    | cons f fs =>
      simp only [lexLabelRows, List.mem_cons] at hr
      rcases hr with rfl | hr
      · simp
      · exact List.mem_cons_of_mem _ (ih fs r hr)

theorem trainerNew_ne_panic (hutf : Utf8Agree) (cfg : Config) (c : RewriteConfig)
    (hok : CfgOK cfg c) (hn : (labelRows cfg).length ≤ u32Max)
    (hroom : Room cfg.ext (labelRows cfg).length) : trainerNew cfg ≠ .panic := by
  have hlexlen := lexLabelRows_length cfg.dict.chars cfg.dict.sys.entries cfg.dict.sys.features hok.flen
  have hrows : (labelRows cfg).length = cfg.dict.sys.entries.length + cfg.dict.unk.length := by
    simp [labelRows, hlexlen, unkLabelRows]
  unfold trainerNew
  rw [if_neg (by omega)]
  rw [lexLoop_eq_rows _ _ _ _ _ (by rw [hok.flen]; exact Nat.le_refl _) hok.surf]
  obtain ⟨g1, g2⟩ := rowsLoop_total hutf cfg.rw c hok.built
    (lexLabelRows cfg.dict.chars cfg.dict.sys.entries cfg.dict.sys.features) ([], cfg.ext) 0
    (labelRows cfg).length hok.parsed hok.ctr hroom (by rw [hlexlen]; omega)
    (fun r hr => hok.lexv _ (lexLabelRows_features _ _ _ r hr))
  cases h1 : rowsLoop cfg.rw (lexLabelRows cfg.dict.chars cfg.dict.sys.entries cfg.dict.sys.features)
      ([], cfg.ext) with
  | err => simp
  | panic => exact absurd h1 g1
  | ok acc =>
    simp only
    rw [if_neg (by omega), unkLoop_eq]
    obtain ⟨s1, s2⟩ := g2 acc h1
    exact (rowsLoop_total hutf cfg.rw c hok.built (unkLabelRows cfg.dict.unk) acc _
      (labelRows cfg).length (s1.parsed hok.parsed) s2 (s1.room hroom)
      (by rw [hlexlen]; simp [unkLabelRows]; omega)
      (fun r hr => by
        simp only [unkLabelRows, List.mem_map] at hr
        obtain ⟨e, he, rfl⟩ := hr
        exact hok.unkv e he)).1

/-! ## 6. A configuration read from files satisfies `CfgOK` -/

theorem cfgOK_of_fromReaders {lex chardef unk fdef rdef : List UInt8} {cfg : Config}
    (h : fromReaders Fixes.all lex chardef unk fdef rdef = .ok cfg) : ∃ c, CfgOK cfg c := by
  obtain ⟨h1, h2, h3⟩ := fromReaders_ok h
  unfold parseRewriteDef at h2
  obtain ⟨_, c, _, _, hb⟩ :=
    rewriteLines_built true (readLines rdef) none {} cfg.rw {} (builtFrom_init _) h2
  obtain ⟨es, us, ues, a1, a2, _, a4, a5, a6, a7, a8, a9⟩ := dict_of_files h3
  have tes := LexCsv.TN.parseCsv_text a1
  have tus := LexCsv.TN.parseCsv_text a2
  refine ⟨c, hb, templatesParsed_of_parse h1, ctr_of_parse h1, by rw [a4, a5]; simp, ?_, ?_, ?_⟩
  · intro le hle
    obtain ⟨i, hi, rfl⟩ := List.getElem_of_mem hle
    have hie : i < es.length := by rw [← a5]; exact hi
    obtain ⟨le', g1, g2⟩ := a6 i es[i] (List.getElem?_eq_getElem hie)
    rw [List.getElem?_eq_getElem hi] at g1
    cases g1
    obtain ⟨t1, _, _⟩ := tes es[i] (List.getElem_mem hie)
    unfold Vibrato.codePoints at g2
    simp only [Option.map_eq_some_iff] at g2
    obtain ⟨s, hs, hmap⟩ := g2
    rw [← hmap]
    have := decodeLine_nonempty hs t1
    simpa using this
  · intro f hf
    rw [a4] at hf
    obtain ⟨e, he, rfl⟩ := List.mem_map.mp hf
    exact (tes e he).2.2
  · intro e he
    rw [a9] at he
    simp only [List.mem_flatMap, List.mem_range, List.mem_filter] at he
    obtain ⟨_, _, hmem, _⟩ := he
    obtain ⟨i, hi, rfl⟩ := List.getElem_of_mem hmem
    have hiu : i < us.length := by rw [← a7]; exact hi
    obtain ⟨_, ue, _, g2, _, g4⟩ := a8 i us[i] (List.getElem?_eq_getElem hiu)
    rw [List.getElem?_eq_getElem hi] at g2
    cases g2
    rw [g4]
    exact (tus us[i] (List.getElem_mem hiu)).2.2

/-- The code points of a non-empty `&str` are a non-empty list. -/
theorem codePoints_nonempty {bs : List UInt8} {cps : List Nat}
    (h : Vibrato.codePoints bs = some cps) (hne : bs ≠ []) : cps ≠ [] := by
  unfold Vibrato.codePoints at h
  simp only [Option.map_eq_some_iff] at h
  obtain ⟨s, hs, hmap⟩ := h
  rw [← hmap]
  have := decodeLine_nonempty hs hne
  simpa using this

/-- Executable form of `GoodRewriteLines`. -/
def goodLinesB (ls : List (Option Str)) : Bool :=
  ls.all fun l =>
    match l with
    | none => true
    | some s =>
      match Rewriter.parseRewriteRule (Rewriter.trim s) with
      | none => true
      | some r => r.2.all fun c => !Rewriter.badRefB c

theorem goodLinesB_sound (ls : List (Option Str)) (h : goodLinesB ls = true) :
    GoodRewriteLines ls := by
  intro s hs r hr c hc hbad
  have h1 := List.all_eq_true.mp h (some s) hs
  simp only [hr] at h1
  have h2 := List.all_eq_true.mp h1 c hc
  rw [(Rewriter.badRefB_iff c).mpr hbad] at h2
  cases h2

end Vibrato.TrainerNew
