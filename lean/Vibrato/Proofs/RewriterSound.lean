/-
What remains true for BOTH edge-reuse policies (in particular for the pinned tree), for all
rule lists: `rewrite` returns the output of SOME matching rule, and `None` exactly when no rule
matches.  (Which of several matching rules wins is the part the pinned policy gets wrong.)
-/
import Vibrato.Model.Rewriter
import Vibrato.Model.RewriterSpec
import Vibrato.Proofs.RewriterFlat
import Vibrato.Proofs.RewriterFirstMatch

namespace Vibrato.Rewriter

/-! ### paths in an arbitrary node vector and what the DFS finds -/

/-- `Reach nodes a ps b`: following transitions with patterns `ps` leads from node `a` to `b`. -/
inductive Reach (nodes : Trie) : Nat → List Pattern → Nat → Prop where
  | refl (a : Nat) : Reach nodes a [] a
  | step {a t b : Nat} {acts : List Action} {p : Pattern} {ps : List Pattern} :
      nodes[a]? = some acts → .trans p t ∈ acts → Reach nodes t ps b → Reach nodes a (p :: ps) b

theorem Reach.snoc {nodes : Trie} {a b t : Nat} {ps : List Pattern} {p : Pattern}
    {acts : List Action} (h : Reach nodes a ps b) (hb : nodes[b]? = some acts)
    (hm : .trans p t ∈ acts) : Reach nodes a (ps ++ [p]) t := by
  induction h with
  | refl a => exact .step hb hm (.refl t)
  | step h1 h2 _ ih => exact .step h1 h2 (ih hb)

/-- A leaf below node `n` that matches the remaining features `rem` and carries `rs`. -/
def LeafBelow (nodes : Trie) (n : Nat) (rem : List Str) (rs : List Rewrite) : Prop :=
  ∃ ps b acts, Reach nodes n ps b ∧ nodes[b]? = some acts ∧ .rw rs ∈ acts ∧
    matchPats ps rem = true

theorem dfs_found (nodes : Trie) (f : List Str) :
    ∀ (rem : List Str) (n : Nat) (out : List Str), dfsNode nodes f rem n = .found out →
      ∃ rs, LeafBelow nodes n rem rs ∧ out = applyRewrite rs f := by
  intro rem
  induction rem with
  | nil =>
    intro n out h
    rw [dfsNode_eq] at h
    cases hn : nodes[n]? with
    | none => rw [hn] at h; cases h
    | some acts =>
      rw [hn] at h
      simp only at h
      have key : ∀ as, (∀ a ∈ as, a ∈ acts) → dfsFrom nodes f [] as = .found out →
          ∃ rs, LeafBelow nodes n [] rs ∧ out = applyRewrite rs f := by
        intro as
        induction as with
        | nil => intro _ h; cases h
        | cons a as ih =>
          intro hsub h
          cases a with
          | rw r =>
            simp only [dfsFrom_rw, Res.found.injEq] at h
            exact ⟨r, ⟨[], n, acts, .refl n, hn, hsub _ List.mem_cons_self, rfl⟩, h.symm⟩
          | trans p t =>
            rw [dfsFrom_nil_trans] at h
            exact ih (fun a ha => hsub a (List.mem_cons_of_mem _ ha)) h
      exact key acts (fun a ha => ha) h
  | cons x rem ihrem =>
    intro n out h
    rw [dfsNode_eq] at h
    cases hn : nodes[n]? with
    | none => rw [hn] at h; cases h
    | some acts =>
      rw [hn] at h
      simp only at h
      have key : ∀ as, (∀ a ∈ as, a ∈ acts) → dfsFrom nodes f (x :: rem) as = .found out →
          ∃ rs, LeafBelow nodes n (x :: rem) rs ∧ out = applyRewrite rs f := by
        intro as
        induction as with
        | nil => intro _ h; cases h
        | cons a as ih =>
          intro hsub h
          cases a with
          | rw r =>
            simp only [dfsFrom_rw, Res.found.injEq] at h
            exact ⟨r, ⟨[], n, acts, .refl n, hn, hsub _ List.mem_cons_self, rfl⟩, h.symm⟩
          | trans p t =>
            rw [dfsFrom_cons_trans] at h
            have hrest := ih (fun a ha => hsub a (List.mem_cons_of_mem _ ha))
            by_cases hp : p.accepts x = true
            · rw [if_pos hp] at h
              cases hch : dfsNode nodes f rem t with
              | found out' =>
                rw [hch] at h
                simp only [Res.found_orElse, Res.found.injEq] at h
                subst h
                obtain ⟨rs, ⟨ps, b, bacts, hr, hb, hm, hmatch⟩, hout⟩ := ihrem t out' hch
                refine ⟨rs, ⟨p :: ps, b, bacts, .step hn (hsub _ List.mem_cons_self) hr, hb, hm,
                  ?_⟩, hout⟩
                simp [matchPats, hp, hmatch]
              | exhausted => rw [hch] at h; exact hrest h
              | panic => rw [hch] at h; cases h
            · rw [if_neg hp] at h; exact hrest h
      exact key acts (fun a ha => ha) h

theorem dfs_exhausted (nodes : Trie) (f : List Str) :
    ∀ (rem : List Str) (n : Nat), dfsNode nodes f rem n = .exhausted →
      ∀ rs, ¬ LeafBelow nodes n rem rs := by
  intro rem
  induction rem with
  | nil =>
    intro n h rs ⟨ps, b, bacts, hr, hb, hm, hmatch⟩
    rw [dfsNode_eq] at h
    cases hr with
    | refl =>
      rw [hb] at h
      simp only at h
      have key : ∀ as, dfsFrom nodes f [] as = .exhausted → ∀ a ∈ as, ∀ r, a ≠ .rw r := by
        intro as
        induction as with
        | nil => intro _ a ha; cases ha
        | cons a' as ih =>
          intro h a ha r
          cases a' with
          | rw r' => cases h
          | trans p t =>
            rw [dfsFrom_nil_trans] at h
            rcases List.mem_cons.mp ha with rfl | ha
            · intro h'; cases h'
            · exact ih h a ha r
      exact key bacts h _ hm rs rfl
    | step _ _ _ => simp [matchPats] at hmatch
  | cons x rem ihrem =>
    intro n h rs ⟨ps, b, bacts, hr, hb, hm, hmatch⟩
    rw [dfsNode_eq] at h
    cases hn : nodes[n]? with
    | none => rw [hn] at h; cases h
    | some acts =>
      rw [hn] at h
      simp only at h
      have key : ∀ as, dfsFrom nodes f (x :: rem) as = .exhausted →
          (∀ a ∈ as, ∀ r, a ≠ .rw r) ∧
          (∀ p t, .trans p t ∈ as → p.accepts x = true → dfsNode nodes f rem t = .exhausted) := by
        intro as
        induction as with
        | nil => intro _; exact ⟨fun a ha => (by cases ha), fun p t hm => (by cases hm)⟩
        | cons a' as ih =>
          intro h
          cases a' with
          | rw r' => cases h
          | trans p t =>
            rw [dfsFrom_cons_trans] at h
            by_cases hp : p.accepts x = true
            · rw [if_pos hp] at h
              cases hch : dfsNode nodes f rem t with
              | found o => rw [hch] at h; cases h
              | panic => rw [hch] at h; cases h
              | exhausted =>
                rw [hch] at h
                obtain ⟨i1, i2⟩ := ih h
                refine ⟨?_, ?_⟩
                · intro a ha r
                  rcases List.mem_cons.mp ha with rfl | ha
                  · intro h'; cases h'
                  · exact i1 a ha r
                · intro p' t' hm' hp'
                  rcases List.mem_cons.mp hm' with heq | hm'
                  · cases heq; exact hch
                  · exact i2 p' t' hm' hp'
            · rw [if_neg hp] at h
              obtain ⟨i1, i2⟩ := ih h
              refine ⟨?_, ?_⟩
              · intro a ha r
                rcases List.mem_cons.mp ha with rfl | ha
                · intro h'; cases h'
                · exact i1 a ha r
              · intro p' t' hm' hp'
                rcases List.mem_cons.mp hm' with heq | hm'
                · cases heq; exact absurd hp' hp
                · exact i2 p' t' hm' hp'
      obtain ⟨k1, k2⟩ := key acts h
      cases hr with
      | refl =>
        rw [hn] at hb
        cases hb
        exact k1 _ hm rs rfl
      | step h1 h2 h3 =>
        rename_i t acts' p ps'
        rw [hn] at h1
        cases h1
        simp only [matchPats, Bool.and_eq_true] at hmatch
        exact ihrem t (k2 p t h2 hmatch.1) rs ⟨ps', b, bacts, h3, hb, hm, hmatch.2⟩

/-- All transition targets are valid node indices. -/
def Closed (nodes : Trie) : Prop :=
  ∀ (c : Nat) (acts : List Action) (p : Pattern) (t : Nat),
    nodes[c]? = some acts → .trans p t ∈ acts → t < nodes.length

theorem dfs_ne_panic (nodes : Trie) (f : List Str) (hcl : Closed nodes) :
    ∀ (rem : List Str) (n : Nat), n < nodes.length → dfsNode nodes f rem n ≠ .panic := by
  intro rem
  induction rem with
  | nil =>
    intro n hn
    rw [dfsNode_eq, List.getElem?_eq_getElem hn]
    simp only
    generalize nodes[n] = acts
    induction acts with
    | nil => simp
    | cons a as ih =>
      cases a with
      | rw r => simp
      | trans p t => rw [dfsFrom_nil_trans]; exact ih
  | cons x rem ihrem =>
    intro n hn
    rw [dfsNode_eq, List.getElem?_eq_getElem hn]
    simp only
    have key : ∀ as, (∀ a ∈ as, a ∈ nodes[n]) → dfsFrom nodes f (x :: rem) as ≠ .panic := by
      intro as
      induction as with
      | nil => intro _; simp
      | cons a as ih =>
        intro hsub
        have hrest := ih (fun a ha => hsub a (List.mem_cons_of_mem _ ha))
        cases a with
        | rw r => simp
        | trans p t =>
          rw [dfsFrom_cons_trans]
          split
          · have ht := hcl n nodes[n] p t (List.getElem?_eq_getElem hn) (hsub _ List.mem_cons_self)
            have := ihrem t ht
            cases hch : dfsNode nodes f rem t with
            | found o => simp
            | panic => exact absurd hch this
            | exhausted => simpa using hrest
          · exact hrest
    exact key _ (fun a ha => ha)

/-! ### labelled tries -/

/-- Every node carries the pattern prefix that leads to it. -/
def Labelled (nodes : Trie) (lab : Nat → List Pattern) : Prop :=
  lab 0 = [] ∧
  ∀ (c : Nat) (acts : List Action) (p : Pattern) (t : Nat),
    nodes[c]? = some acts → .trans p t ∈ acts → t < nodes.length ∧ lab t = lab c ++ [p]

theorem Labelled.closed {nodes : Trie} {lab : Nat → List Pattern} (h : Labelled nodes lab) :
    Closed nodes := fun c acts p t h1 h2 => (h.2 c acts p t h1 h2).1

theorem Labelled.reach {nodes : Trie} {lab : Nat → List Pattern} (h : Labelled nodes lab)
    {a b : Nat} {ps : List Pattern} (hr : Reach nodes a ps b) : lab b = lab a ++ ps := by
  induction hr with
  | refl a => simp
  | step h1 h2 _ ih => rw [ih, (h.2 _ _ _ _ h1 h2).2]; simp

def IsTrans : Action → Prop
  | .trans _ _ => True
  | .rw _ => False

/-- `nodes'` extends `nodes`: more nodes, more transitions, no new rewrite actions. -/
structure Step (nodes nodes' : Trie) (lab lab' : Nat → List Pattern) : Prop where
  len : nodes.length ≤ nodes'.length
  lab_old : ∀ i, i < nodes.length → lab' i = lab i
  ext : ∀ (i : Nat) (acts : List Action), nodes[i]? = some acts →
    ∃ more, nodes'[i]? = some (acts ++ more) ∧ ∀ a ∈ more, IsTrans a
  fresh : ∀ (i : Nat) (acts : List Action), nodes.length ≤ i → nodes'[i]? = some acts →
    ∀ a ∈ acts, IsTrans a
  labelled : Labelled nodes' lab'

theorem Step.rfl' {nodes : Trie} {lab : Nat → List Pattern} (h : Labelled nodes lab) :
    Step nodes nodes lab lab where
  len := Nat.le_refl _
  lab_old := fun _ _ => rfl
  ext := fun i acts hi => ⟨[], by simpa using hi, fun a ha => by cases ha⟩
  fresh := fun i acts hi h' => by
    rw [List.getElem?_eq_none hi] at h'; cases h'
  labelled := h

theorem Step.trans {n1 n2 n3 : Trie} {l1 l2 l3 : Nat → List Pattern}
    (h12 : Step n1 n2 l1 l2) (h23 : Step n2 n3 l2 l3) : Step n1 n3 l1 l3 where
  len := Nat.le_trans h12.len h23.len
  lab_old := fun i hi => by
    rw [h23.lab_old i (Nat.lt_of_lt_of_le hi h12.len), h12.lab_old i hi]
  ext := fun i acts hi => by
    obtain ⟨m1, e1, t1⟩ := h12.ext i acts hi
    obtain ⟨m2, e2, t2⟩ := h23.ext i _ e1
    refine ⟨m1 ++ m2, by rw [e2, List.append_assoc], ?_⟩
    intro a ha
    rcases List.mem_append.mp ha with ha | ha
    · exact t1 a ha
    · exact t2 a ha
  fresh := fun i acts hi h' => by
    by_cases hlt : i < n2.length
    · obtain ⟨m2, e2, t2⟩ := h23.ext i _ (List.getElem?_eq_getElem hlt)
      rw [e2] at h'
      cases h'
      intro a ha
      rcases List.mem_append.mp ha with ha | ha
      · exact h12.fresh i _ hi (List.getElem?_eq_getElem hlt) a ha
      · exact t2 a ha
    · exact h23.fresh i acts (by omega) h'
  labelled := h23.labelled

theorem Reach.mono {n1 n2 : Trie} {l1 l2 : Nat → List Pattern} (hs : Step n1 n2 l1 l2)
    {a b : Nat} {ps : List Pattern} (h : Reach n1 a ps b) : Reach n2 a ps b := by
  induction h with
  | refl a => exact .refl a
  | step h1 h2 _ ih =>
    obtain ⟨m, e, _⟩ := hs.ext _ _ h1
    exact .step e (List.mem_append_left _ h2) ih

/-- Pointwise `Pattern.same`. -/
def sameList : List Pattern → List Pattern → Bool
  | [], [] => true
  | p :: ps, q :: qs => p.same q && sameList ps qs
  | _, _ => false

theorem matchPats_sameList {a b : List Pattern} (h : sameList a b = true) (rem : List Str) :
    matchPats a rem = matchPats b rem := by
  induction a generalizing b rem with
  | nil => cases b <;> simp [sameList] at h; rfl
  | cons p ps ih =>
    cases b with
    | nil => simp [sameList] at h
    | cons q qs =>
      simp only [sameList, Bool.and_eq_true] at h
      cases rem with
      | nil => rfl
      | cons x xs => simp only [matchPats, same_accepts h.1 x, ih h.2 xs]

theorem findEdge_some_mem {fixed : Bool} {acts : List Action} {P : Pattern} {t : Nat}
    (h : findEdge fixed acts P = some t) : ∃ q, .trans q t ∈ acts ∧ P.same q = true := by
  cases fixed with
  | true =>
    obtain ⟨q, ys, hs, rfl⟩ := findEdge_true_some h
    exact ⟨q, by simp, hs⟩
  | false =>
    simp only [findEdge, Bool.false_eq_true, if_false] at h
    obtain ⟨a, ha, hat⟩ := List.exists_of_findSome?_eq_some h
    cases a with
    | rw r => simp [edgeTo] at hat
    | trans q t' =>
      simp only [edgeTo] at hat
      split at hat
      · rename_i hs; cases hat; exact ⟨q, ha, hs⟩
      · cases hat

/-- The step that creates a new edge and a new node. -/
theorem step_grow {nodes : Trie} {lab : Nat → List Pattern} (hl : Labelled nodes lab)
    {c : Nat} {acts : List Action} (hc : nodes[c]? = some acts) (P : Pattern) :
    Step nodes (nodes.modify c (fun a => a ++ [Action.trans P nodes.length]) ++ [[]]) lab
      (fun i => if i = nodes.length then lab c ++ [P] else lab i) := by
  have hclt := lt_length_of_getElem? hc
  refine ⟨by simp, fun i hi => by simp [Nat.ne_of_lt hi], ?_, ?_, ?_, ?_⟩
  · intro i acts' hi
    have hilt := lt_length_of_getElem? hi
    by_cases hic : i = c
    · subst hic
      rw [hc] at hi; cases hi
      exact ⟨[.trans P nodes.length], getElem?_grow_eq nodes i _ acts hc,
        fun a ha => by simp at ha; subst ha; trivial⟩
    · exact ⟨[], by rw [getElem?_grow_ne nodes c _ i hilt hic]; simpa using hi,
        fun a ha => by cases ha⟩
  · intro i acts' hi h'
    have : i = nodes.length := by
      have := lt_length_of_getElem? h'
      simp at this; omega
    subst this
    rw [getElem?_grow_new] at h'
    cases h'
    intro a ha; cases ha
  · simp only []
    rw [if_neg (by omega)]
    exact hl.1
  · intro i acts' p t hi hm
    have hilt := lt_length_of_getElem? hi
    simp only [List.length_append, List.length_modify, List.length_cons, List.length_nil] at hilt
    by_cases hin : i = nodes.length
    · subst hin
      rw [getElem?_grow_new] at hi
      cases hi; cases hm
    · have hilt' : i < nodes.length := by omega
      by_cases hic : i = c
      · subst hic
        rw [getElem?_grow_eq nodes i _ acts hc] at hi
        cases hi
        rcases List.mem_append.mp hm with hm | hm
        · obtain ⟨h1, h2⟩ := hl.2 i acts p t hc hm
          refine ⟨by simp; omega, ?_⟩
          simp only [Nat.ne_of_lt h1, Nat.ne_of_lt hilt', if_false]
          exact h2
        · simp only [List.mem_singleton, Action.trans.injEq] at hm
          obtain ⟨rfl, rfl⟩ := hm
          refine ⟨by simp, ?_⟩
          simp [Nat.ne_of_lt hilt']
      · rw [getElem?_grow_ne nodes c _ i hilt' hic] at hi
        obtain ⟨h1, h2⟩ := hl.2 i acts' p t hi hm
        refine ⟨by simp; omega, ?_⟩
        simp only [Nat.ne_of_lt h1, Nat.ne_of_lt hilt', if_false]
        exact h2

theorem addPattern_step (fixed : Bool) :
    ∀ (ps : List Str) (nodes : Trie) (c : Nat) (lab : Nat → List Pattern),
      Labelled nodes lab → c < nodes.length →
      ∃ nodes' cur lab' qs, addPattern fixed ps nodes c = .ok (nodes', cur) ∧
        Step nodes nodes' lab lab' ∧ cur < nodes'.length ∧ Reach nodes' c qs cur ∧
        sameList (ps.map parsePattern) qs = true := by
  intro ps
  induction ps with
  | nil =>
    intro nodes c lab hl hc
    exact ⟨nodes, c, lab, [], rfl, Step.rfl' hl, hc, .refl c, rfl⟩
  | cons p ps ih =>
    intro nodes c lab hl hc
    have hcs : nodes[c]? = some nodes[c] := List.getElem?_eq_getElem hc
    simp only [addPattern, hcs]
    cases hfe : findEdge fixed nodes[c] (parsePattern p) with
    | some t =>
      simp only
      obtain ⟨q, hm, hs⟩ := findEdge_some_mem hfe
      obtain ⟨ht, _⟩ := hl.2 c _ q t hcs hm
      obtain ⟨nodes', cur, lab', qs, hadd, hstep, hcur, hreach, hsame⟩ := ih nodes t lab hl ht
      obtain ⟨more, e, _⟩ := hstep.ext c _ hcs
      refine ⟨nodes', cur, lab', q :: qs, hadd, hstep, hcur,
        .step e (List.mem_append_left _ hm) hreach, ?_⟩
      simp [sameList, hs, hsame]
    | none =>
      simp only
      have hstep1 := step_grow hl hcs (parsePattern p)
      obtain ⟨nodes', cur, lab', qs, hadd, hstep, hcur, hreach, hsame⟩ :=
        ih _ nodes.length _ hstep1.labelled (by simp)
      have hstep' := hstep1.trans hstep
      obtain ⟨more, e, _⟩ := hstep.ext c _ (getElem?_grow_eq nodes c _ _ hcs)
      refine ⟨nodes', cur, lab', parsePattern p :: qs, hadd, hstep', hcur,
        .step e (List.mem_append_left _ (by simp)) hreach, ?_⟩
      simp [sameList, same_refl, hsame]

/-! ### the invariant along `buildFrom` -/

/-- Leaves and rules correspond (in no particular order). -/
structure SoundInv (nodes : Trie) (R : List PRule) : Prop where
  lab : ∃ lab, Labelled nodes lab ∧
    ∀ (c : Nat) (acts : List Action) (rs : List Rewrite), nodes[c]? = some acts →
      .rw rs ∈ acts → ∃ r ∈ R, sameList r.1 (lab c) = true ∧ r.2 = rs
  complete : ∀ r ∈ R, ∃ ps b acts, Reach nodes 0 ps b ∧ nodes[b]? = some acts ∧
    .rw r.2 ∈ acts ∧ sameList r.1 ps = true
  nonempty : 0 < nodes.length

theorem soundInv_init : SoundInv [[]] [] where
  lab := ⟨fun _ => [], ⟨rfl, fun c acts p t hc hm => by
      cases c with
      | zero => simp at hc; subst hc; cases hm
      | succ c => simp at hc⟩,
    fun c acts rs hc hm => by
      cases c with
      | zero => simp at hc; subst hc; cases hm
      | succ c => simp at hc⟩
  complete := fun r hr => by cases hr
  nonempty := by simp

theorem addRule_sound (fixed : Bool) {nodes : Trie} {R : List PRule} (hinv : SoundInv nodes R)
    (pat rew : List Str) (rs : List Rewrite) (hrs : parseRewrites rew = .ok rs) :
    ∃ nodes', addRule fixed nodes pat rew = .ok nodes' ∧
      SoundInv nodes' (R ++ [(pat.map parsePattern, rs)]) := by
  obtain ⟨⟨lab, hl, hsound⟩, hcomplete, hne⟩ := hinv
  obtain ⟨nodes', cur, lab', qs, hadd, hstep, hcur, hreach, hsame⟩ :=
    addPattern_step fixed pat nodes 0 lab hl hne
  have hcs : nodes'[cur]? = some nodes'[cur] := List.getElem?_eq_getElem hcur
  refine ⟨finish nodes' cur rs, by simp only [addRule, hadd, hrs, hcs, finish], ?_⟩
  -- the final vector: only node `cur` changes, by one rewrite action
  have hfin : ∀ (i : Nat) (acts : List Action), (finish nodes' cur rs)[i]? = some acts →
      ∃ acts0, nodes'[i]? = some acts0 ∧
        ((i = cur ∧ acts = acts0 ++ [.rw rs]) ∨ (i ≠ cur ∧ acts = acts0)) := by
    intro i acts hi
    simp only [finish, List.getElem?_modify] at hi
    by_cases hic : cur = i
    · subst hic
      rw [hcs] at hi
      simp at hi
      exact ⟨_, hcs, .inl ⟨rfl, hi.symm⟩⟩
    · simp only [hic, if_false] at hi
      cases hn : nodes'[i]? with
      | none => rw [hn] at hi; simp at hi
      | some a => rw [hn] at hi; simp at hi; exact ⟨a, rfl, .inr ⟨Ne.symm hic, hi.symm⟩⟩
  have hfin_ext : ∀ (i : Nat) (acts0 : List Action), nodes'[i]? = some acts0 →
      ∃ more, (finish nodes' cur rs)[i]? = some (acts0 ++ more) := by
    intro i acts0 hi
    simp only [finish, List.getElem?_modify]
    by_cases hic : cur = i
    · subst hic; exact ⟨[.rw rs], by simp [hi]⟩
    · exact ⟨[], by simp [hic, hi]⟩
  have hreach_fin : ∀ {a b : Nat} {ps : List Pattern}, Reach nodes' a ps b →
      Reach (finish nodes' cur rs) a ps b := by
    intro a b ps h
    induction h with
    | refl a => exact .refl a
    | step h1 h2 _ ih =>
      obtain ⟨m, e⟩ := hfin_ext _ _ h1
      exact .step e (List.mem_append_left _ h2) ih
  have hlabcur : lab' cur = qs := by
    rw [hstep.labelled.reach hreach, hstep.labelled.1]; rfl
  refine ⟨⟨lab', ⟨hstep.labelled.1, ?_⟩, ?_⟩, ?_, by simp [finish]; omega⟩
  · -- labelled
    intro i acts p t hi hm
    obtain ⟨acts0, h0, hcase⟩ := hfin i acts hi
    have hm0 : .trans p t ∈ acts0 := by
      rcases hcase with ⟨_, rfl⟩ | ⟨_, rfl⟩
      · rcases List.mem_append.mp hm with hm | hm
        · exact hm
        · simp at hm
      · exact hm
    have := hstep.labelled.2 i acts0 p t h0 hm0
    simpa [finish] using this
  · -- every leaf belongs to a rule
    intro i acts rs' hi hm
    obtain ⟨acts0, h0, hcase⟩ := hfin i acts hi
    have hold : .rw rs' ∈ acts0 → ∃ r ∈ R ++ [(pat.map parsePattern, rs)],
        sameList r.1 (lab' i) = true ∧ r.2 = rs' := by
      intro hm0
      by_cases hilt : i < nodes.length
      · obtain ⟨more, e, hmore⟩ := hstep.ext i _ (List.getElem?_eq_getElem hilt)
        rw [h0] at e
        cases e
        rcases List.mem_append.mp hm0 with hm0 | hm0
        · obtain ⟨r, hr, h1, h2⟩ := hsound i _ rs' (List.getElem?_eq_getElem hilt) hm0
          exact ⟨r, List.mem_append_left _ hr, by rw [hstep.lab_old i hilt]; exact h1, h2⟩
        · exact absurd (hmore _ hm0) (by simp [IsTrans])
      · exact absurd (hstep.fresh i acts0 (by omega) h0 _ hm0) (by simp [IsTrans])
    rcases hcase with ⟨rfl, rfl⟩ | ⟨_, rfl⟩
    · rcases List.mem_append.mp hm with hm | hm
      · exact hold hm
      · simp only [List.mem_singleton, Action.rw.injEq] at hm
        subst hm
        exact ⟨(pat.map parsePattern, rs'), by simp, by rw [hlabcur]; exact hsame, rfl⟩
    · exact hold hm
  · -- every rule has its leaf
    intro r hr
    rcases List.mem_append.mp hr with hr | hr
    · obtain ⟨ps, b, acts, h1, h2, h3, h4⟩ := hcomplete r hr
      obtain ⟨more, e, _⟩ := hstep.ext b acts h2
      obtain ⟨more2, e2⟩ := hfin_ext b _ e
      exact ⟨ps, b, _, hreach_fin (h1.mono hstep), e2,
        List.mem_append_left _ (List.mem_append_left _ h3), h4⟩
    · simp only [List.mem_singleton] at hr
      subst hr
      have e3 : (finish nodes' cur rs)[cur]? = some (nodes'[cur] ++ [.rw rs]) := by
        simp [finish, hcs]
      exact ⟨qs, cur, _, hreach_fin hreach, e3, by simp, hsame⟩

end Vibrato.Rewriter

namespace Vibrato.Rewriter

theorem buildFrom_sound (fixed : Bool) :
    ∀ (rules : List RawRule) (parsed : List PRule) (nodes : Trie) (R : List PRule),
      SoundInv nodes R → ParsedAs rules parsed →
      ∃ nodes', buildFrom fixed nodes rules = .ok nodes' ∧ SoundInv nodes' (R ++ parsed) := by
  intro rules
  induction rules with
  | nil =>
    intro parsed nodes R hinv hp
    cases parsed with
    | nil => exact ⟨nodes, rfl, by simpa using hinv⟩
    | cons q qs => cases hp
  | cons r rules ih =>
    intro parsed nodes R hinv hp
    cases parsed with
    | nil => cases hp
    | cons q qs =>
      obtain ⟨hq1, hq2, hrest⟩ := hp
      obtain ⟨nodes1, hadd, hinv1⟩ := addRule_sound fixed hinv r.1 r.2 q.2 hq2
      obtain ⟨nodes2, hb, hinv2⟩ := ih qs nodes1 _ hinv1 hrest
      refine ⟨nodes2, by simp only [buildFrom, hadd, hb], ?_⟩
      have : (q.1, q.2) = q := rfl
      rw [← hq1, this] at hinv2
      simpa [List.append_assoc] using hinv2

theorem parsedAs_mem_left {rules : List RawRule} {parsed : List PRule} (h : ParsedAs rules parsed)
    {r : RawRule} (hr : r ∈ rules) :
    ∃ q ∈ parsed, q.1 = r.1.map parsePattern ∧ parseRewrites r.2 = .ok q.2 := by
  induction rules generalizing parsed with
  | nil => cases hr
  | cons r' rules ih =>
    cases parsed with
    | nil => cases h
    | cons q qs =>
      obtain ⟨h1, h2, h3⟩ := h
      rcases List.mem_cons.mp hr with rfl | hr
      · exact ⟨q, List.mem_cons_self, h1, h2⟩
      · obtain ⟨q', hq', hh⟩ := ih h3 hr
        exact ⟨q', List.mem_cons_of_mem _ hq', hh⟩

theorem parsedAs_mem_right {rules : List RawRule} {parsed : List PRule}
    (h : ParsedAs rules parsed) {q : PRule} (hq : q ∈ parsed) :
    ∃ r ∈ rules, q.1 = r.1.map parsePattern ∧ parseRewrites r.2 = .ok q.2 := by
  induction rules generalizing parsed with
  | nil =>
    cases parsed with
    | nil => cases hq
    | cons q' qs => cases h
  | cons r' rules ih =>
    cases parsed with
    | nil => cases hq
    | cons q' qs =>
      obtain ⟨h1, h2, h3⟩ := h
      rcases List.mem_cons.mp hq with rfl | hq
      · exact ⟨r', List.mem_cons_self, h1, h2⟩
      · obtain ⟨r, hr, hh⟩ := ih h3 hq
        exact ⟨r, List.mem_cons_of_mem _ hr, hh⟩

/-- Both policies, all rule lists: the result is the output of SOME matching rule, and `none`
exactly when no rule matches. -/
theorem buildAndRewrite_sound (fixed : Bool) (rules : List RawRule) (f : List Str)
    (hgood : GoodRules rules) :
    (∃ r ∈ rules, Matches r f ∧ buildAndRewrite fixed rules f = .ok (some (applyRule r f))) ∨
    ((∀ r ∈ rules, ¬ Matches r f) ∧ buildAndRewrite fixed rules f = .ok none) := by
  obtain ⟨parsed, hp⟩ := parsedAs_exists rules
    (fun r hr c hc h => hgood r hr c hc ((parseRewrite_panic_iff c).mp h))
  obtain ⟨nodes, hb, hinv⟩ := buildFrom_sound fixed rules parsed [[]] [] soundInv_init hp
  rw [List.nil_append] at hinv
  obtain ⟨⟨lab, hl, hsound⟩, hcomplete, hne⟩ := hinv
  unfold buildAndRewrite build
  rw [hb]
  simp only
  rw [rewrite_eq_dfs]
  cases hdfs : dfsNode nodes f f 0 with
  | found out =>
    left
    obtain ⟨rs, ⟨ps, b, acts, hreach, hbn, hm, hmatch⟩, hout⟩ := dfs_found nodes f f 0 out hdfs
    obtain ⟨q, hq, hs, hq2⟩ := hsound b acts rs hbn hm
    obtain ⟨r, hr, hr1, hr2⟩ := parsedAs_mem_right hp hq
    have hlab : lab b = ps := by rw [hl.reach hreach, hl.1]; rfl
    rw [hlab] at hs
    refine ⟨r, hr, ?_, ?_⟩
    · apply (matchPats_iff r.1 f).mp
      rw [← hr1, matchPats_sameList hs f]; exact hmatch
    · simp only [hout, applyRule]
      rw [applyRewrite_eq, ← hq2, parseRewrites_ok_map hr2 _ (applyCell f)
        (fun p r hr => parseRewrite_eval f p r hr)]
  | exhausted =>
    right
    refine ⟨?_, rfl⟩
    intro r hr hmatch
    obtain ⟨q, hq, hq1, hq2⟩ := parsedAs_mem_left hp hr
    obtain ⟨ps, b, acts, hreach, hbn, hm, hs⟩ := hcomplete q hq
    refine dfs_exhausted nodes f f 0 hdfs q.2 ⟨ps, b, acts, hreach, hbn, hm, ?_⟩
    rw [← matchPats_sameList hs f, hq1]
    exact (matchPats_iff r.1 f).mpr hmatch
  | panic =>
    exact absurd hdfs (dfs_ne_panic nodes f hl.closed f 0 hne)

end Vibrato.Rewriter
