import Vibrato.Model.Tokenizer
import Vibrato.Proofs.LatticeInv

namespace Vibrato

/-! ### `compute_groupable` -/

theorem groupables_length : ∀ cs : List Nat, (groupables cs).length = cs.length
  | [] => rfl
  | [_] => rfl
  | c :: d :: rest => by
    simp only [groupables, List.length_cons]
    have := groupables_length (d :: rest)
    simp only [List.length_cons] at this
    omega

/-- every run length is at least 1 and stays inside the sentence -/
theorem groupables_bounds : ∀ (cs : List Nat) (i : Nat), i < cs.length →
    1 ≤ (groupables cs).getD i 0 ∧ i + (groupables cs).getD i 0 ≤ cs.length
  | [], i, h => by simp at h
  | [_], i, h => by
    have : i = 0 := by simpa using h
    subst this; simp [groupables]
  | c :: d :: rest, i, h => by
    have ih := groupables_bounds (d :: rest)
    cases i with
    | zero =>
      have h0 := ih 0 (by simp)
      simp only [groupables, List.getD_cons_zero]
      cases hg : groupables (d :: rest) with
      | nil =>
        have := groupables_length (d :: rest); rw [hg] at this; simp at this
      | cons g gs =>
        rw [hg] at h0
        simp only [List.getD_cons_zero, List.length_cons] at h0 ⊢
        simp only [List.headD_cons]
        split <;> omega
    | succ j =>
      have hj := ih j (by simpa using h)
      simp only [groupables, List.getD_cons_succ, List.length_cons] at hj ⊢
      omega

/-! ### lexicon matches -/

theorem lexMatches_spec (es : List LexEntry) (lt : Nat) (suffix : List Nat) (sw : Nat) (c : Cand)
    (hc : c ∈ lexMatches es lt suffix sw) :
    sw < c.endWord ∧ c.endWord ≤ sw + suffix.length ∧ c.lexType = lt ∧
      ∃ e, es[c.wordId]? = some e ∧ e.surface = suffix.take (c.endWord - sw) ∧
        e.param.leftId = c.leftId ∧ e.param.rightId = c.rightId ∧ e.param.wordCost = c.wordCost := by
  unfold lexMatches at hc
  simp only [List.mem_flatMap, List.mem_map, List.mem_filter] at hc
  obtain ⟨l, hl, ⟨e, i⟩, ⟨hmem, hsurf⟩, rfl⟩ := hc
  rw [List.mem_range'_1] at hl
  have hidx := List.mem_zipIdx hmem
  simp only [Nat.zero_add, Nat.sub_zero, Nat.zero_le, true_and] at hidx
  refine ⟨by simp only; omega, by simp only; omega, rfl, e, ?_, ?_, rfl, rfl, rfl⟩
  · simp only; rw [List.getElem?_eq_getElem hidx.1]; exact congrArg some hidx.2.symm
  · simp only
    have : sw + l - sw = l := by omega
    rw [this]; exact eq_of_beq hsurf

/-- completeness: every row whose surface is a non-empty prefix of the text is offered -/
theorem lexMatches_complete (es : List LexEntry) (lt : Nat) (suffix : List Nat) (sw : Nat)
    (i : Nat) (e : LexEntry) (hi : es[i]? = some e) (hne : e.surface ≠ [])
    (hpre : e.surface <+: suffix) :
    ∃ c ∈ lexMatches es lt suffix sw, c.wordId = i ∧ c.endWord = sw + e.surface.length := by
  refine ⟨{ endWord := sw + e.surface.length, wordId := i, lexType := lt,
            leftId := e.param.leftId, rightId := e.param.rightId, wordCost := e.param.wordCost }, ?_, rfl, rfl⟩
  unfold lexMatches
  simp only [List.mem_flatMap, List.mem_map, List.mem_filter]
  have hlen : e.surface.length ≤ suffix.length := hpre.length_le
  have hpos : 0 < e.surface.length := List.length_pos_iff.mpr hne
  refine ⟨e.surface.length, ?_, (e, i), ⟨?_, ?_⟩, rfl⟩
  · rw [List.mem_range'_1]; omega
  · have hlt : i < es.length := by
      rcases Nat.lt_or_ge i es.length with h | h
      · exact h
      · rw [List.getElem?_eq_none h] at hi; cases hi
    rw [List.getElem?_eq_getElem hlt] at hi
    have : es[i] = e := by simpa using hi
    rw [List.mem_iff_getElem]
    refine ⟨i, by simpa using hlt, ?_⟩
    simp [this]
  · simp only [beq_iff_eq]
    exact (List.prefix_iff_eq_take.mp hpre)

/-! ### unknown words -/

theorem scanEntries_mem (unk : List (Nat × WordParam)) (e : Nat) (c : Cand)
    (hc : c ∈ scanEntries unk e) :
    c.endWord = e ∧ c.lexType = 2 ∧
      ∃ p ∈ unk, p.1 = c.wordId ∧ p.2.leftId = c.leftId ∧ p.2.rightId = c.rightId ∧
        p.2.wordCost = c.wordCost := by
  unfold scanEntries at hc
  simp only [List.mem_map] at hc
  obtain ⟨p, hp, rfl⟩ := hc
  exact ⟨rfl, rfl, p, hp, rfl, rfl, rfl, rfl⟩

/-- The lengths of the unknown words `gen_unk_words` emits, in emission order
(the statement of property C03, clause by clause). -/
def unkLengths (ci : CharInfo) (groupable : Nat) (hasMatched : Bool) (maxGroup : Option Nat) :
    List Nat :=
  if hasMatched && !ci.invoke then []
  else
    let run := if ci.group && unkFits maxGroup groupable then [groupable] else []
    let main := run ++ unkPre ci groupable
    if main.isEmpty && !hasMatched then [1] else main

theorem takeWhile_all {α} (p : α → Bool) (l : List α) (h : ∀ x ∈ l, p x = true) :
    l.takeWhile p = l := by
  induction l with
  | nil => rfl
  | cons a l ih =>
    simp only [List.takeWhile_cons, h a (by simp), if_true]
    rw [ih (fun x hx => h x (by simp [hx]))]

theorem mem_unkPre (ci : CharInfo) (g k : Nat) :
    k ∈ unkPre ci g ↔ (1 ≤ k ∧ k ≤ ci.length ∧ k ≤ g ∧ ¬ (ci.group = true ∧ k = g)) := by
  unfold unkPre
  simp only [List.mem_filter, List.mem_range'_1, Bool.not_eq_true', Bool.and_eq_false_iff,
    beq_eq_false_iff_ne, ne_eq]
  constructor
  · rintro ⟨⟨h1, h2⟩, h3⟩
    refine ⟨h1, by omega, by omega, ?_⟩
    rintro ⟨hgr, hk⟩
    rcases h3 with h3 | h3
    · rw [hgr] at h3; cases h3
    · exact h3 hk
  · rintro ⟨h1, h2, h3, h4⟩
    refine ⟨⟨h1, by omega⟩, ?_⟩
    by_cases hgr : ci.group = true
    · right; intro hk; exact h4 ⟨hgr, hk⟩
    · left; simpa using hgr

theorem unkFits_iff (mg : Option Nat) (g : Nat) :
    unkFits mg g = true ↔ (∀ m, mg = some m → g - 1 ≤ m) := by
  cases mg <;> simp [unkFits]

/-- `gen_unk_words` emits, for each length of `unkLengths` in order, every entry of
the first character's category (in `unk.def` order). -/
theorem genUnk_eq (ci : CharInfo) (g len start : Nat) (hm : Bool) (mg : Option Nat)
    (unk : List (Nat × WordParam)) (hg : start + g ≤ len) :
    genUnk ci g len start hm mg unk =
      (unkLengths ci g hm mg).flatMap fun l => scanEntries unk (start + l) := by
  unfold genUnk unkLengths
  have htw : (unkPre ci g).takeWhile (fun i => decide (start + i ≤ len)) = unkPre ci g := by
    apply takeWhile_all
    intro x hx
    rw [mem_unkPre] at hx
    simp only [decide_eq_true_eq]; omega
  simp only [htw]
  generalize unkFits mg g = fits
  generalize unkPre ci g = pre
  cases hm <;> cases ci.invoke <;> cases ci.group <;> cases fits <;> cases pre <;>
    simp [List.flatMap_append]

/-- clause-by-clause reading of `unkLengths` -/
theorem mem_unkLengths (ci : CharInfo) (g : Nat) (hm : Bool) (mg : Option Nat) (l : Nat) :
    l ∈ unkLengths ci g hm mg ↔
      ¬ (hm = true ∧ ci.invoke = false) ∧
      ((ci.group = true ∧ l = g ∧ (∀ m, mg = some m → g - 1 ≤ m)) ∨
       (1 ≤ l ∧ l ≤ ci.length ∧ l ≤ g ∧ ¬ (ci.group = true ∧ l = g)) ∨
       (l = 1 ∧ hm = false ∧
          ¬ (ci.group = true ∧ (∀ m, mg = some m → g - 1 ≤ m)) ∧
          ¬ (∃ k, 1 ≤ k ∧ k ≤ ci.length ∧ k ≤ g ∧ ¬ (ci.group = true ∧ k = g)))) := by
  unfold unkLengths
  rw [← unkFits_iff]
  have hpre := mem_unkPre ci g
  generalize unkFits mg g = fits
  generalize unkPre ci g = pre at hpre
  have hpre_nil : pre = [] ↔ ¬ (∃ k, 1 ≤ k ∧ k ≤ ci.length ∧ k ≤ g ∧ ¬ (ci.group = true ∧ k = g)) := by
    constructor
    · rintro rfl ⟨k, hk⟩; have := (hpre k).mpr hk; cases this
    · intro h
      cases hp : pre with
      | nil => rfl
      | cons k ks => exact absurd ⟨k, (hpre k).mp (by rw [hp]; simp)⟩ h
  rw [← hpre_nil, ← hpre l]
  cases hm <;> cases ci.invoke <;> cases ci.group <;> cases fits <;> cases pre <;>
    simp <;> omega

theorem unkLengths_bounds (ci : CharInfo) (g : Nat) (hm : Bool) (mg : Option Nat) (hg : 1 ≤ g)
    (l : Nat) (hl : l ∈ unkLengths ci g hm mg) : 1 ≤ l ∧ l ≤ g := by
  rw [mem_unkLengths ci g hm mg l] at hl
  rcases hl.2 with h | h | h <;> omega

theorem unkLengths_ne_nil (ci : CharInfo) (g : Nat) (mg : Option Nat) :
    unkLengths ci g false mg ≠ [] := by
  unfold unkLengths
  generalize unkFits mg g = fits
  generalize unkPre ci g = pre
  cases ci.invoke <;> cases ci.group <;> cases fits <;> cases pre <;> simp

end Vibrato
