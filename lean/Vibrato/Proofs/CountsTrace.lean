/-
C13, counting part: the lattice construction instrumented with a trace of the
`connector.cost(right_id, left_id)` evaluations made by `search_min_node`, and the proof that
`add_connid_counts` (with the F5 repair) visits exactly those evaluations (as a multiset).
Core Lean only.
-/
import Vibrato.Proofs.BufferIndep

namespace Vibrato

/-! ### Instrumented construction -/

/-- `searchMinGo` with a ghost log: one `(left_id, right_id)` entry per evaluation of
`connector.cost(n.right_id, left_id)`, in program order. -/
def searchMinGoTr (conn : Nat → Nat → Int) (leftId : Nat) :
    List Node → Nat → Nat × Int → List (Nat × Nat) → (Nat × Int) × List (Nat × Nat)
  | [], _, acc, tr => (acc, tr)
  | n :: ns, i, acc, tr =>
    let c := n.minCost + conn n.rightId leftId
    let tr := tr ++ [(leftId, n.rightId)]
    if c ≤ acc.2 then searchMinGoTr conn leftId ns (i + 1) (i, c) tr
    else searchMinGoTr conn leftId ns (i + 1) acc tr

def insertNodeTr (E : LatEnv) (st : Ends × List (Nat × Nat)) (startNode startWord : Nat) (c : Cand) :
    Ends × List (Nat × Nat) :=
  let r := searchMinGoTr E.conn c.leftId (endsAt st.1 startNode) 0 (INVALID_IDX, MAX_COST) st.2
  (pushAt st.1 c.endWord
    { wordId := c.wordId, lexType := c.lexType, startNode := startNode, startWord := startWord,
      leftId := c.leftId, rightId := c.rightId, minIdx := r.1.1, minCost := r.1.2 + c.wordCost,
      wordCost := c.wordCost, isBos := false }, r.2)

def addEdgesTr (E : LatEnv) (st : Ends × List (Nat × Nat)) (startNode startWord : Nat) :
    Ends × List (Nat × Nat) :=
  (E.cands startWord).foldl (fun st c => insertNodeTr E st startNode startWord c) st

def buildLoopTr (E : LatEnv) (st : Ends × List (Nat × Nat)) (p : Nat) :
    (Ends × List (Nat × Nat)) × Nat :=
  if p < E.len then
    if (endsAt st.1 p).isEmpty then buildLoopTr E st (p + 1)
    else
      let sw := p + E.skip p
      if E.len ≤ sw then (st, p)
      else buildLoopTr E (addEdgesTr E st p sw) (sw + 1)
  else (st, p)
termination_by E.len - p
decreasing_by all_goals omega

def eosNodeTr (E : LatEnv) (st : Ends × List (Nat × Nat)) (startNode : Nat) :
    Node × List (Nat × Nat) :=
  let r := searchMinGoTr E.conn 0 (endsAt st.1 startNode) 0 (INVALID_IDX, MAX_COST) st.2
  ({ wordId := 4294967295, lexType := 0, startNode := startNode, startWord := E.len,
     leftId := 0, rightId := 65535, minIdx := r.1.1, minCost := r.1.2, wordCost := 0,
     isBos := false }, r.2)

/-- `build_lattice` with the log of all connection-cost evaluations (main loop, then EOS). -/
def buildLatticeTr (E : LatEnv) (bufLen : Nat := 0) : Lattice × List (Nat × Nat) :=
  let r := buildLoopTr E (resetEnds bufLen E.len, []) 0
  let e := eosNodeTr E r.1 r.2
  ({ ends := r.1.1, eos := e.1 }, e.2)

/-! ### The instrumentation does not change the result -/

/-- the evaluations of one `search_min_node(prev, left_id)` call -/
def evals (prev : List Node) (leftId : Nat) : List (Nat × Nat) :=
  prev.map fun m => (leftId, m.rightId)

theorem searchMinGoTr_eq (conn : Nat → Nat → Int) (l : Nat) :
    ∀ (ns : List Node) (i : Nat) (acc : Nat × Int) (tr : List (Nat × Nat)),
      searchMinGoTr conn l ns i acc tr = (searchMinGo conn l ns i acc, tr ++ evals ns l) := by
  intro ns
  induction ns with
  | nil => intro i acc tr; simp [searchMinGoTr, searchMinGo, evals]
  | cons n ns ih =>
    intro i acc tr
    simp only [searchMinGoTr, searchMinGo]
    split <;> simp [ih, evals]

theorem insertNodeTr_eq (E : LatEnv) (st : Ends × List (Nat × Nat)) (p sw : Nat) (c : Cand) :
    insertNodeTr E st p sw c =
      (insertNode E st.1 p sw c, st.2 ++ evals (endsAt st.1 p) c.leftId) := by
  unfold insertNodeTr insertNode searchMin
  simp only [searchMinGoTr_eq]

theorem foldl_insertNodeTr_fst (E : LatEnv) (p sw : Nat) :
    ∀ (cs : List Cand) (st : Ends × List (Nat × Nat)),
      (cs.foldl (fun st c => insertNodeTr E st p sw c) st).1 =
        cs.foldl (fun L c => insertNode E L p sw c) st.1 := by
  intro cs
  induction cs with
  | nil => intro st; rfl
  | cons c cs ih =>
    intro st
    simp only [List.foldl_cons]
    rw [ih, insertNodeTr_eq]

theorem addEdgesTr_fst (E : LatEnv) (st : Ends × List (Nat × Nat)) (p sw : Nat) :
    (addEdgesTr E st p sw).1 = addEdges E st.1 p sw :=
  foldl_insertNodeTr_fst E p sw _ st

theorem buildLoopTr_fst (E : LatEnv) (st : Ends × List (Nat × Nat)) (p : Nat) :
    ((buildLoopTr E st p).1.1, (buildLoopTr E st p).2) = buildLoop E st.1 p := by
  fun_induction buildLoopTr E st p with
  | case1 st p hlt hemp ih =>
    rw [buildLoop.eq_1 E st.1 p]
    simp only [hlt, if_true, hemp]
    exact ih
  | case2 st p hlt hemp sw hbreak =>
    rw [buildLoop.eq_1 E st.1 p]
    have hb : E.len ≤ p + E.skip p := hbreak
    simp only [hlt, if_true, hemp, hb]
    rfl
  | case3 st p hlt hemp sw hcont ih =>
    rw [buildLoop.eq_1 E st.1 p]
    have hb : ¬ E.len ≤ p + E.skip p := hcont
    simp only [hlt, if_true, hemp, hb, if_false]
    rw [ih, addEdgesTr_fst]
    rfl
  | case4 st p hge =>
    rw [buildLoop.eq_1 E st.1 p]
    simp only [hge, if_false]

/-- **The instrumented construction returns the lattice of `buildLattice`.** -/
theorem buildLatticeTr_fst (E : LatEnv) (b : Nat) : (buildLatticeTr E b).1 = buildLattice E b := by
  have h := buildLoopTr_fst E (resetEnds b E.len, []) 0
  have h1 : (buildLoopTr E (resetEnds b E.len, []) 0).1.1 = (buildLoop E (resetEnds b E.len) 0).1 :=
    congrArg Prod.fst h
  have h2 : (buildLoopTr E (resetEnds b E.len, []) 0).2 = (buildLoop E (resetEnds b E.len) 0).2 :=
    congrArg Prod.snd h
  unfold buildLatticeTr buildLattice eosNodeTr eosNode searchMin
  simp only [searchMinGoTr_eq, h1, h2]

/-- the log in closed form: the loop's log followed by the EOS evaluations -/
theorem buildLatticeTr_snd (E : LatEnv) (b : Nat) :
    (buildLatticeTr E b).2 =
      (buildLoopTr E (resetEnds b E.len, []) 0).1.2 ++
        evals (endsAt (buildLattice E b).ends (buildLattice E b).eos.startNode) 0 := by
  have h := buildLoopTr_fst E (resetEnds b E.len, []) 0
  have h1 : (buildLoopTr E (resetEnds b E.len, []) 0).1.1 = (buildLoop E (resetEnds b E.len) 0).1 :=
    congrArg Prod.fst h
  have h2 : (buildLoopTr E (resetEnds b E.len, []) 0).2 = (buildLoop E (resetEnds b E.len) 0).2 :=
    congrArg Prod.snd h
  unfold buildLatticeTr buildLattice eosNodeTr eosNode
  simp only [searchMinGoTr_eq, h1, h2]

/-! ### The pairs visited by `add_connid_counts` are the logged evaluations -/

/-- candidates end after their start position and inside the sentence -/
def CandsFwd (E : LatEnv) : Prop :=
  ∀ sw, sw < E.len → ∀ c ∈ E.cands sw, sw < c.endWord ∧ c.endWord ≤ E.len

theorem CandsFwd.inRange {E : LatEnv} (h : CandsFwd E) : CandsInRange E :=
  fun sw hsw c hc => (h sw hsw c hc).2

/-- the pairs of the main loops of `add_connid_counts` -/
def pairsOf (len : Nat) (L : Ends) : List (Nat × Nat) :=
  (List.range' 1 len).flatMap fun e =>
    (endsAt L e).flatMap fun r =>
      (endsAt L r.startNode).map fun l => (r.leftId, l.rightId)

theorem connidPairs_eq (E : LatEnv) (Lt : Lattice) :
    connidPairs E Lt true =
      pairsOf E.len Lt.ends ++ evals (endsAt Lt.ends Lt.eos.startNode) Lt.eos.leftId := rfl

theorem flatMap_congrCT' {α β : Type} {f g : α → List β} {l : List α} (h : ∀ a ∈ l, f a = g a) :
    l.flatMap f = l.flatMap g := by
  induction l with
  | nil => rfl
  | cons a l ih =>
    simp only [List.flatMap_cons]
    rw [h a (by simp), ih (fun b hb => h b (by simp [hb]))]

theorem flatMap_update_perm {α β : Type} (f f' : α → List β) (e0 : α) (x : List β) :
    ∀ es : List α, es.Nodup → e0 ∈ es → f' e0 = f e0 ++ x → (∀ e ∈ es, e ≠ e0 → f' e = f e) →
      (es.flatMap f').Perm (es.flatMap f ++ x) := by
  intro es
  induction es with
  | nil => intro _ h; cases h
  | cons e es ih =>
    intro hnd hmem h0 hne
    have hnd' := List.nodup_cons.1 hnd
    simp only [List.flatMap_cons]
    by_cases he : e = e0
    · subst he
      have hrest : es.flatMap f' = es.flatMap f := by
        apply flatMap_congrCT'
        intro a ha
        exact hne a (by simp [ha]) (fun h => hnd'.1 (h ▸ ha))
      rw [hrest, h0, List.append_assoc, List.append_assoc]
      exact List.Perm.append_left _ List.perm_append_comm
    · have hmem' : e0 ∈ es := by
        rcases List.mem_cons.1 hmem with h | h
        · exact absurd h.symm he
        · exact h
      rw [hne e (by simp) he, List.append_assoc]
      exact List.Perm.append_left _
        (ih hnd'.2 hmem' h0 (fun a ha => hne a (by simp [ha])))

/-- inserting a node whose start node is `p` adds exactly the evaluations against `ends[p]` -/
theorem pairsOf_insert (E : LatEnv) (L : Ends) (p sw : Nat) (c : Cand)
    (hstart : ∀ e, 0 < e → ∀ n ∈ endsAt L e, n.startNode < c.endWord)
    (hp : p < c.endWord) (hlen : c.endWord ≤ E.len) (hL : c.endWord < L.length) :
    (pairsOf E.len (insertNode E L p sw c)).Perm
      (pairsOf E.len L ++ evals (endsAt L p) c.leftId) := by
  have hst : ∀ j, j ≠ c.endWord → endsAt (insertNode E L p sw c) j = endsAt L j :=
    fun j hj => insert_endsAt_le p sw c j hj
  unfold pairsOf
  apply flatMap_update_perm _ _ c.endWord _ _ List.nodup_range'
  · rw [List.mem_range'_1]; omega
  · -- the boundary that received the node
    have hpush : endsAt (insertNode E L p sw c) c.endWord = endsAt L c.endWord ++
        [{ wordId := c.wordId, lexType := c.lexType, startNode := p, startWord := sw,
           leftId := c.leftId, rightId := c.rightId,
           minIdx := (searchMin E.conn (endsAt L p) c.leftId).1,
           minCost := (searchMin E.conn (endsAt L p) c.leftId).2 + c.wordCost,
           wordCost := c.wordCost, isBos := false }] := by
      unfold insertNode
      exact endsAt_pushAt_same _ _ _ hL
    rw [hpush, List.flatMap_append]
    congr 1
    · apply flatMap_congrCT'
      intro r hr
      rw [hst r.startNode (Nat.ne_of_lt (hstart c.endWord (by omega) r hr))]
    · simp only [List.flatMap_cons, List.flatMap_nil, List.append_nil]
      rw [hst p (Nat.ne_of_lt hp)]
      rfl
  · intro e he hne
    rw [List.mem_range'_1] at he
    rw [hst e hne]
    apply flatMap_congrCT'
    intro r hr
    rw [hst r.startNode (Nat.ne_of_lt (hstart e (by omega) r hr))]

/-- invariant of the instrumented loop with frontier `q` -/
structure TrInv (E : LatEnv) (st : Ends × List (Nat × Nat)) (q : Nat) : Prop where
  len : E.len < st.1.length
  start_lt : ∀ e, 0 < e → ∀ n ∈ endsAt st.1 e, n.startNode < q
  perm : st.2.Perm (pairsOf E.len st.1)

theorem TrInv.mono {E st q q'} (h : TrInv E st q) (hq : q ≤ q') : TrInv E st q' :=
  ⟨h.len, fun e he n hn => Nat.lt_of_lt_of_le (h.start_lt e he n hn) hq, h.perm⟩

theorem insertTr_inv {E : LatEnv} {st : Ends × List (Nat × Nat)} (p sw : Nat) (c : Cand)
    (h : TrInv E st (p + 1)) (hpsw : p ≤ sw) (hsw : sw < c.endWord) (hend : c.endWord ≤ E.len) :
    TrInv E (insertNodeTr E st p sw c) (p + 1) := by
  rw [insertNodeTr_eq]
  have hL : c.endWord < st.1.length := by have := h.len; omega
  refine ⟨by simpa [insertNode] using h.len, ?_, ?_⟩
  · intro e he n hn
    simp only at hn
    by_cases hee : e = c.endWord
    · subst hee
      unfold insertNode at hn
      rw [endsAt_pushAt_same _ _ _ hL] at hn
      simp only [List.mem_append, List.mem_singleton] at hn
      rcases hn with hn | rfl
      · exact h.start_lt _ he n hn
      · exact Nat.lt_succ_self p
    · rw [insert_endsAt_le p sw c e hee] at hn
      exact h.start_lt e he n hn
  · have hp := pairsOf_insert E st.1 p sw c
      (fun e he n hn => by have := h.start_lt e he n hn; omega) (by omega) hend hL
    exact (List.Perm.append_right _ h.perm).trans hp.symm

theorem foldl_insertTr_inv {E : LatEnv} (p sw : Nat) (hpsw : p ≤ sw) :
    ∀ (cs : List Cand) (st : Ends × List (Nat × Nat)),
      (∀ c ∈ cs, sw < c.endWord ∧ c.endWord ≤ E.len) → TrInv E st (p + 1) →
      TrInv E (cs.foldl (fun st c => insertNodeTr E st p sw c) st) (p + 1) := by
  intro cs
  induction cs with
  | nil => intro st _ h; exact h
  | cons c cs ih =>
    intro st hcs h
    simp only [List.foldl_cons]
    have hc := hcs c (by simp)
    exact ih _ (fun c' hc' => hcs c' (by simp [hc'])) (insertTr_inv p sw c h hpsw hc.1 hc.2)

theorem buildLoopTr_inv {E : LatEnv} (hE : CandsFwd E) (st : Ends × List (Nat × Nat)) (p : Nat)
    (h : TrInv E st p) :
    TrInv E (buildLoopTr E st p).1 ((buildLoopTr E st p).2 + 1) := by
  fun_induction buildLoopTr E st p with
  | case1 st p hlt hemp ih => exact ih (h.mono (Nat.le_succ p))
  | case2 st p hlt hemp sw hbreak => exact h.mono (Nat.le_succ p)
  | case3 st p hlt hemp sw hcont ih =>
    have hsw : sw < E.len := by omega
    have := foldl_insertTr_inv (E := E) p sw (Nat.le_add_right p _) (E.cands sw) st
      (fun c hc => hE sw hsw c hc) (h.mono (Nat.le_succ p))
    exact ih (TrInv.mono this (by omega))
  | case4 st p hge => exact h.mono (Nat.le_succ p)

theorem pairsOf_reset (b len : Nat) : pairsOf len (resetEnds b len) = [] := by
  unfold pairsOf
  rw [List.flatMap_eq_nil_iff]
  intro e he
  rw [List.mem_range'_1] at he
  obtain ⟨j, rfl⟩ : ∃ j, e = j + 1 := ⟨e - 1, by omega⟩
  rw [endsAt_resetEnds_succ]
  rfl

theorem reset_trInv (E : LatEnv) (b : Nat) : TrInv E (resetEnds b E.len, []) 0 := by
  refine ⟨by simp only [length_resetEnds]; omega, ?_, by rw [pairsOf_reset]⟩
  intro e he n hn
  obtain ⟨j, rfl⟩ : ∃ j, e = j + 1 := ⟨e - 1, by omega⟩
  simp only [endsAt_resetEnds_succ] at hn
  cases hn

/-- **The pairs counted by the repaired `add_connid_counts` are, as a multiset, exactly the
logged connection-cost evaluations** of the construction of that lattice. -/
theorem connidPairs_perm_trace (E : LatEnv) (hE : CandsFwd E) (b : Nat) :
    (connidPairs E (buildLattice E b) true).Perm (buildLatticeTr E b).2 := by
  rw [connidPairs_eq, buildLatticeTr_snd]
  have hinv := buildLoopTr_inv hE _ 0 (reset_trInv E b)
  have h := buildLoopTr_fst E (resetEnds b E.len, []) 0
  have h1 : (buildLoopTr E (resetEnds b E.len, []) 0).1.1 = (buildLattice E b).ends :=
    congrArg Prod.fst h
  have hperm := hinv.perm
  rw [h1] at hperm
  have heos : (buildLattice E b).eos.leftId = 0 := rfl
  rw [heos]
  exact List.Perm.append_right _ hperm.symm

end Vibrato
